/-
  SA.Model.DnsSessions — histories over the DNS server model (C13): the pruning task interpreted from the
  regenerated assignment lists (`SA.Gen.expiryLoops`), application-side Close/Write, an explicit clock, and the
  line-protocol driver shared by the `dnssess`, `dnsfuzz srv` and `dnsexpire` harness components.
-/
import SA.Model.DnsServer
import SA.Model.DnsHandler

namespace SA.DnsServer
open SA.Go SA.Go.Res

/-! ### the pruning task -/

def Srv.table (σ : Srv) (t : Nat) : List (Option Nat) := if t = 0 then σ.live else σ.retired

def Srv.setTable (σ : Srv) (t i : Nat) (v : Option Nat) : Srv :=
  if t = 0 then { σ with live := σ.live.set i v } else { σ with retired := σ.retired.set i v }

/-- the assignments `table[u.UserId] = u / nil` of one loop body, in source order -/
def applyAssigns (σ : Srv) (sid : Nat) : List (Nat × Bool) → Srv
  | [] => σ
  | (t, keep) :: r => applyAssigns (σ.setTable t (σ.sess sid).uid (if keep then some sid else none)) sid r

/-- one iteration of `for _, u := range srv.<table>` at index i (elements are read from the live backing array) -/
def expireAt (loop : Nat × Nat × List (Nat × Bool)) (σ : Srv) (i : Nat) : Srv :=
  match (σ.table loop.1).getD i none with
  | none => σ
  | some sid => if (σ.sess sid).last + loop.2.1 < σ.now then applyAssigns σ sid loop.2.2 else σ

def expireLoop (σ : Srv) (loop : Nat × Nat × List (Nat × Bool)) : Srv :=
  (List.range (σ.table loop.1).length).foldl (expireAt loop) σ

def expireWith (loops : List (Nat × Nat × List (Nat × Bool))) (σ : Srv) : Srv := loops.foldl expireLoop σ

/-- one run of the pruning task of the current source -/
def expire (σ : Srv) : Srv := expireWith SA.Gen.expiryLoops σ

/-! ### histories -/

inductive Op where
  | msg (m : Msg)
  | close (sid : Nat)
  | write (sid : Nat) (data : List Nat)
  | tick (dt : Nat)
  | expire
  deriving DecidableEq, Repr

def stepAns (cd : Codec) (dom : List Nat) (σ : Srv) : Op → Res (Srv × Option Ans)
  | .msg m => do
    let (σ', a) ← onMessage cd dom σ m
    pure (σ', some a)
  | .close sid => do
    let σ' ← appClose σ sid
    pure (σ', none)
  | .write sid d => pure (appWrite σ sid d, none)
  | .tick dt => pure ({ σ with now := σ.now + dt }, none)
  | .expire => pure (expire σ, none)

/-- a step that cannot fail: C12 proves that the panic branch is unreachable from well-formed states -/
def step (cd : Codec) (dom : List Nat) (σ : Srv) (op : Op) : Srv :=
  match stepAns cd dom σ op with
  | .ok (σ', _) => σ'
  | .panic => σ

def run (cd : Codec) (dom : List Nat) (σ : Srv) (ops : List Op) : Srv := ops.foldl (step cd dom) σ

/-! ### rendering (must equal go/harness/c13_dnssess.go) -/

def dotList (xs : List Nat) : String := if xs.isEmpty then "-" else ".".intercalate (xs.map toString)

def b01 (b : Bool) : String := if b then "1" else "0"

def renderSess (s : Sess) : String :=
  let chunks := if s.outq.out.isEmpty then "-" else ".".intercalate (s.outq.out.map fun c => toString c.1 ++ ":" ++ toHex c.2)
  s!"{s.uid},a{s.owner},{b01 s.closed},{Char.ofNat s.up}{Char.ofNat s.down},{s.frag},{b01 s.lazy}{b01 s.multi}," ++
  s!"in:{s.inq.next}/{toHex s.inq.buf}/{dotList (s.inq.future.map (·.1))}/{dotList s.inq.acked}," ++
  s!"out:{s.outq.next}/{chunks}/{dotList s.outq.acked}/{b01 s.outq.hasData}"

def slotsShown : Nat := 6

def optStr : Option Nat → String
  | none => "-"
  | some n => toString n

def renderSnapshot (σ : Srv) : String :=
  let slots := (List.range slotsShown).map fun i =>
    s!"L{i}={optStr (σ.live.getD i none)} R{i}={optStr (σ.retired.getD i none)} "
  let restL := ((σ.live.drop slotsShown).filter Option.isSome).length
  let restR := ((σ.retired.drop slotsShown).filter Option.isSome).length
  let objs := (List.range (min σ.heap.length slotsShown)).map fun sid => s!" S{sid}={renderSess (σ.sess sid)}"
  String.join slots ++ s!"rest={restL}/{restR}" ++ String.join objs

def knownErrors : List String :=
  [SA.Gen.errBadVersion, "BADLEN", SA.Gen.errBadIp, SA.Gen.errBadCommand, SA.Gen.errBadCodec, SA.Gen.errBadFrag,
   SA.Gen.errBadUser, SA.Gen.errBadConn, SA.Gen.errServerFull, "VOK", "VACK", "VNAK", "LACK", "TIMEOUT"]

def renderAns : Ans → String
  | .drop => "DROP"
  | .ignored => "IGN"
  | .err c e => s!"{Char.ofNat c}:{if knownErrors.contains e then e else "other"}"
  | .version uid => s!"v:OK:{uid}"
  | .optionsOk => "o:OK"
  | .frag n => s!"r:OK:{n}:{n}:1"
  | .upOk d => s!"z:OK:{toHex d}"
  | .downOk c => s!"y:OK:{Char.ofNat c}"
  | .pktOk a none => s!"c:OK:{a}:none"
  | .pktOk a (some (s, d)) => s!"c:OK:{a}:{s}:{toHex d}"

/-! ### driver -/

/-- Encode lengths of the codecs whose round trip the harness relies on; W/X/Y (base85/91/192) are only used with
    record types whose wrapping cannot fail, or with payloads far below every threshold -/
def encLenExec (code n : Nat) : Nat :=
  if code = 84 then (8 * n + 4) / 5
  else if code = 83 ∨ code = 85 then (4 * n + 2) / 3
  else if code = 86 then n + n / 7 + 1
  else if code = 82 then n
  else n * 5 / 4 + 2

def parseOracle (toks : List String) : List (Nat × List Nat × Option (List Nat)) :=
  toks.filterMap fun t =>
    match t.toList with
    | 'D' :: c :: ':' :: rest =>
      match (String.ofList rest).splitOn "=" with
      | [i, o] =>
        match fromHex i with
        | some inb => some (c.toNat, inb, if o = "!" then none else fromHex o)
        | none => none
      | _ => none
    | _ => none

/-- oracle entries `D<code>:<in>=PANIC`: the real decoder panicked on this input -/
def parsePanics (toks : List String) : List (Nat × List Nat) :=
  toks.filterMap fun t =>
    match t.toList with
    | 'D' :: c :: ':' :: rest =>
      match (String.ofList rest).splitOn "=" with
      | [i, "PANIC"] => (fromHex i).map fun inb => (c.toNat, inb)
      | _ => none
    | _ => none

def oracleCodec (tbl : List (Nat × List Nat × Option (List Nat))) (pans : List (Nat × List Nat) := []) : Codec :=
  { dec := fun code inp => match tbl.find? (fun e => e.1 == code && e.2.1 == inp) with
      | some e => e.2.2
      | none => none,
    encLen := encLenExec,
    panics := fun code inp => pans.any fun e => e.1 == code && e.2 == inp }

def parseAddr (s : String) : Option Nat :=
  match s.toList with
  | 'a' :: r => (String.ofList r).toNat?
  | _ => none

def parseOp (t : String) : Option Op :=
  match t.splitOn ":" with
  | ["m", a, q, n, h] => do
    let addr ← parseAddr a
    let qt ← q.toNat?
    let name ← fromHex n
    let hint ← h.toList.head?
    pure (.msg { addr := addr, qtype := qt, name := name, hint := hint.toNat })
  | ["x", s] => do pure (.close (← s.toNat?))
  | ["w", s, d] => do pure (.write (← s.toNat?) (← fromHex d))
  | ["s", d] => do pure (.tick (← d.toNat?))
  | ["e"] => some .expire
  | _ => none

/-- the pruning task with the two timeouts replaced (the `dnsexpire` component shortens the package variables) -/
def retimed (ct ot : Nat) : List (Nat × Nat × List (Nat × Bool)) :=
  SA.Gen.expiryLoops.map fun l =>
    (l.1, (if l.2.1 = SA.Gen.connectionTimeout then ct else if l.2.1 = SA.Gen.oldConnectionTimeout then ot else l.2.1), l.2.2)

/-- real time passes: the pruning task runs at every multiple of the sweep interval since the listener was created
    (fuel = dt) -/
def sleepSweep (loops : List (Nat × Nat × List (Nat × Bool))) : Nat → Srv → Nat → Srv
  | 0, σ, target => { σ with now := target }
  | fuel + 1, σ, target =>
    let next := (σ.now / SA.Gen.sweepInterval + 1) * SA.Gen.sweepInterval
    if next ≤ target then sleepSweep loops fuel (expireWith loops { σ with now := next }) target
    else { σ with now := target }

/-- run the ops, collecting the answers; stops at the first panic like the harness.  `timed = some loops`: `s:<n>` ops
    are real sleeps during which the pruning task runs. -/
def runLine (cd : Codec) (dom : List Nat) (timed : Option (List (Nat × Nat × List (Nat × Bool)))) : Srv → List Op → List String → String
  | σ, [], acc => ";".intercalate acc.reverse ++ "|" ++ renderSnapshot σ
  | σ, op :: ops, acc =>
    match (match timed, op with
           | some loops, .tick dt => Res.ok (sleepSweep loops dt σ (σ.now + dt), none)
           | _, _ => stepAns cd dom σ op) with
    | .panic => ";".intercalate ("PANIC" :: acc).reverse ++ "|"
    | .ok (σ', none) => runLine cd dom timed σ' ops acc
    | .ok (σ', some x) =>
      -- the answer passes through the communicator's handler (SA.Model.DnsHandler)
      match handleRequest (retOf x) (match op with | .msg m => tsigOf m | _ => false) with
      | .panic => ";".intercalate ("PANIC" :: acc).reverse ++ "|"
      | .ok _ => runLine cd dom timed σ' ops (renderAns x :: acc)

def splitAtDashes (toks : List String) : List String × List String :=
  (toks.takeWhile (· ≠ "--"), (toks.dropWhile (· ≠ "--")).drop 1)

def handle (toks : List String) : String :=
  match toks with
  | [] => "bad-op"
  | d :: rest =>
    match fromHex d with
    | none => "bad-op"
    | some dom =>
      let toks := rest.filter (· ≠ "!big")
      if !toks.contains "--" then "bad-op" else
      let (orc, opsT) := splitAtDashes toks
      -- `[ op … ]`: a concurrent batch.  The handlers and Close() are atomic steps of the model (usersLock), so a batch
      -- is the sequential run of its ops in SOME order; the lines keep to batches whose outcome does not depend on the
      -- order (SA.Props.C13: C13_batch_opens_perm, C13_batch_opens_ids), and the model runs the listed order.
      let opsT := opsT.filter (fun t => t ≠ "[" ∧ t ≠ "]")
      match opsT.mapM parseOp with
      | none => "bad-op"
      | some ops =>
        let timed := orc.findSome? fun t =>
          match t.splitOn ":" with
          | ["T", c, o] => (do pure (retimed (← c.toNat?) (← o.toNat?)) : Option _)
          | _ => none
        runLine (oracleCodec (parseOracle orc) (parsePanics orc)) dom timed Srv.init ops []

end SA.DnsServer

import SA.Gen.C02SessClose
/-
  C02: a session outlives its logical connections.

  Two ends and a carrier with latency.  The client sends SYN (open a logical connection) and FIN (close one) frames;
  they travel in order and arrive later (`deliver`).  The server registers a stream on SYN and drops it on FIN.  Policy
  `closeWhenEmpty`: does the server close the whole session when the stream that just ended was its last one?  (The
  code does not: the only close of the server's session object is on the accept loop's fatal-error path — regenerated
  fact `sessionCloseSites`.)  The client learns of a closed session only when the close has travelled back (`notify`);
  until then it keeps opening connections on it.
-/
namespace SA.SessLife

inductive Frame where
  | syn (id : Nat)
  | fin (id : Nat)
deriving Repr, DecidableEq

inductive Act where
  | open_ (id : Nat)   -- the application opens connection id (the client sends SYN if it believes the session alive)
  | close (id : Nat)   -- the application closes connection id (FIN)
  | deliver            -- the oldest frame in flight reaches the server
  | notify             -- the server's close of the session reaches the client
deriving Repr, DecidableEq

structure St where
  inflight    : List Frame := []    -- client → server, oldest first
  srvAlive    : Bool := true
  srvStreams  : List Nat := []
  cliBelieves : Bool := true        -- the client still believes the session is alive
  served      : List Nat := []      -- connections the server took on
  lost        : List Nat := []      -- connections whose SYN reached a closed session
  redialled   : Nat := 0            -- sessions the client opened after it saw one closed
deriving Repr, DecidableEq

def step (closeWhenEmpty : Bool) (s : St) : Act → St
  | .open_ id =>
      if s.cliBelieves then { s with inflight := s.inflight ++ [.syn id] }
      else -- the client knows: it dials a fresh session (all state new) and opens there
        { s with srvAlive := true, srvStreams := [], cliBelieves := true, inflight := [.syn id], redialled := s.redialled + 1 }
  | .close id => if s.cliBelieves then { s with inflight := s.inflight ++ [.fin id] } else s
  | .deliver =>
      match s.inflight with
      | [] => s
      | .syn id :: rest =>
          if s.srvAlive then { s with inflight := rest, srvStreams := id :: s.srvStreams, served := id :: s.served }
          else { s with inflight := rest, lost := id :: s.lost }
      | .fin id :: rest =>
          let streams := s.srvStreams.filter (· != id)
          if s.srvAlive && closeWhenEmpty && streams.isEmpty then
            { s with inflight := rest, srvStreams := [], srvAlive := false }
          else { s with inflight := rest, srvStreams := streams }
  | .notify => if s.srvAlive then s else { s with cliBelieves := false }

def run (p : Bool) (s : St) (as : List Act) : St := as.foldl (step p) s

/-- the code's policy, read from the regenerated list of session-close sites: does the server close its session object
    on a goroutine started per logical connection? -/
def serverClosesFromStream : Bool := Gen.serverSessionClosedOnStreamGoroutine

/-- the `isolate <carrier> lastclose` history: A is the session's only connection; it is closed and, while the FIN is
    still travelling, B is opened; FIN arrives, then B's SYN; four times; then two connections, one closes -/
def lastCloseHistory : List Act :=
  [.open_ 0, .deliver] ++
  ((List.range 4).map (fun i => [Act.close i, .open_ (i+1), .deliver, .deliver, .notify])).flatten ++
  [.open_ 5, .deliver, .close 4, .deliver, .notify, .open_ 6, .deliver]

def lastCloseResult : String :=
  let s := run serverClosesFromStream {} lastCloseHistory
  if s.lost.isEmpty then "ok" else "fail"

end SA.SessLife

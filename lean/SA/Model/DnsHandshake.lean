/-
  SA.Model.DnsHandshake — decision logic of the DNS tunnel auto-negotiation (property C11).

  Mirrors, phase by phase, internal/streams/dns/dns_client_connection.go
    Handshake, AutoDetectQueryType (+ SendQueryTypeTest, QueryTypes.Before), VersionHandshake,
    AutodetectEdns0Extension, AutodetectEncodingUpstream (+ EncodingTestUpstream), SetEncodingUpstream,
    getUpstreamMtu (SA.DnsReq.upstreamMtu), AutodetectEncodingDowntream (+ TestDownstreamEncoder),
    SetEncodingDownstream, AutodetectLazyMode, AutodetectFragmentSize, SwitchFragmentSize
  as a pure function of an abstract path oracle `Oracle = Probe → Out`: what the client concludes from
  one exchange (transport/decoding error, recognised timeout, ok, server error, wrong length, wrong
  content, case swap, wrong fragment echo).  The path is static, so a retry loop over the same probe
  sees the same outcome on every iteration (`retry`).  Every loop bound, order, constant and decisive
  shape comes from SA.Gen.C11 through `Cfg.gen`; the fragment size search exists in both shapes (range
  halved every round = repaired code; range halved only after a successful probe = the code as found),
  selected by the regenerated shape facts.
  Each phase returns its value and the list of probes it made (in order); the number of queries is the
  length of that list.  Core-only.
-/
import SA.Base.Util
import SA.Gen.Consts
import SA.Gen.C09
import SA.Gen.C11
import SA.Gen.C11Init
import SA.Model.DnsReq

namespace SA.DnsHandshake

inductive QT | null | priv | txt | srv | mx | cname | aaaa | a
  deriving DecidableEq, Repr, Inhabited

inductive Codec | b32 | b64 | b64u | b85 | b91 | b128 | raw
  deriving DecidableEq, Repr, Inhabited

/-- what the client concludes from one exchange.  `t` any error returned by Query (transport, decode,
    error response); `tmo` an error equal to smux.ErrTimeout (no communicator produces it: Query wraps
    every error — kept because the code branches on it); `k` ok; `e` response carries a server error;
    `l` wrong length; `c` wrong content; `sa`/`sA` first/second pattern character changed (case swap);
    `fs` fragment size echo differs; `p` the client panics; `unk` probe missing from the table;
    `x` the request cannot be encoded (name too long): Query fails without sending anything. -/
inductive Out | t | tmo | k | e | l | c | sa | sA | fs | p | unk | x
  deriving DecidableEq, Repr, Inhabited

def QT.ofIdx : Nat → Option QT
  | 0 => some .null | 1 => some .priv | 2 => some .txt | 3 => some .srv
  | 4 => some .mx | 5 => some .cname | 6 => some .aaaa | 7 => some .a | _ => none

def Codec.ofIdx : Nat → Option Codec
  | 0 => some .b32 | 1 => some .b64 | 2 => some .b64u | 3 => some .b85
  | 4 => some .b91 | 5 => some .b128 | 6 => some .raw | _ => none

def Codec.idx : Codec → Nat
  | .b32 => 0 | .b64 => 1 | .b64u => 2 | .b85 => 3 | .b91 => 4 | .b128 => 5 | .raw => 6

structure Cfg where
  typeOrder : List QT
  typeRounds : Nat
  typeTestRaw : List QT
  ednsRaw : List QT
  downRawTypes : List QT
  versionTries : Nat
  ednsTries : Nat
  upTestTries : Nat
  setUpTries : Nat
  downTestTries : Nat
  setDownTries : Nat
  lazyTries : Nat
  fragTries : Nat
  switchTries : Nat
  upOrder : List Codec
  downOrder : List Codec
  patternCount : Codec → Nat
  fragStart : Nat
  fragTop : Nat
  fragFine : Nat
  fragEnough : Nat
  fragNone : Nat
  fragSmall : Nat
  fragHeader : Nat
  fragShift : Nat
  fragStopsAtZero : Bool
  fragHalvesEveryRound : Bool
  fragClampsStep : Bool
  rawOnSuccess : Bool
  downAlwaysAssigned : Bool
  downMismatchIsError : Bool

/-- the configuration the source has today -/
def Cfg.gen : Cfg where
  typeOrder := SA.Gen.C11.typeOrder.filterMap QT.ofIdx
  typeRounds := SA.Gen.C11.typeRounds
  typeTestRaw := SA.Gen.C11.typeTestRaw.filterMap QT.ofIdx
  ednsRaw := SA.Gen.C11.ednsRaw.filterMap QT.ofIdx
  downRawTypes := SA.Gen.C11.downRawTypes.filterMap QT.ofIdx
  versionTries := SA.Gen.C11.versionTries
  ednsTries := SA.Gen.C11.ednsTries
  upTestTries := SA.Gen.C11.upTestTries
  setUpTries := SA.Gen.C11.setUpTries
  downTestTries := SA.Gen.C11.downTestTries
  setDownTries := SA.Gen.C11.setDownTries
  lazyTries := SA.Gen.C11.lazyTries
  fragTries := SA.Gen.C11.fragTries
  switchTries := SA.Gen.C11.switchTries
  upOrder := SA.Gen.C11.upOrder.filterMap Codec.ofIdx
  downOrder := SA.Gen.C11.downOrder.filterMap Codec.ofIdx
  patternCount := fun c => SA.Gen.C11.patternCount.getD c.idx 0
  fragStart := SA.Gen.C11.fragStart
  fragTop := SA.Gen.C11.fragTop
  fragFine := SA.Gen.C11.fragFine
  fragEnough := SA.Gen.C11.fragEnough
  fragNone := SA.Gen.C11.fragNone
  fragSmall := SA.Gen.C11.fragSmall
  fragHeader := SA.Gen.C11.fragHeader
  fragShift := SA.Gen.C11.fragShift
  fragStopsAtZero := SA.Gen.C11.fragStopsAtZero
  fragHalvesEveryRound := SA.Gen.C11.fragHalvesEveryRound
  fragClampsStep := SA.Gen.C11.fragClampsStep
  rawOnSuccess := SA.Gen.C11.rawOnSuccess
  downAlwaysAssigned := SA.Gen.C11.downAlwaysAssigned
  downMismatchIsError := SA.Gen.C11.downMismatchIsError

/-- the three shapes as they were before the repairs (used by the witnesses) -/
def Cfg.asFound : Cfg :=
  { Cfg.gen with fragStopsAtZero := false, fragHalvesEveryRound := false, fragClampsStep := false,
                 rawOnSuccess := false, downAlwaysAssigned := false, downMismatchIsError := false }

/-! ### probes and the oracle -/

inductive Cmd
  | y (d : Codec)                    -- downstream codec test (also query type test, EDNS0 test)
  | v                                -- version
  | z (c : Codec) (i : Nat)          -- upstream pattern i of codec c
  | oUp (c : Codec)                  -- set options: upstream codec
  | oDown (d : Codec) (lzy : Bool)   -- set options: downstream codec + lazy flag
  | oFrag (f : Nat)                  -- set options: downstream fragment size
  | r (f : Nat)                      -- fragment size probe
  deriving DecidableEq, Repr

/-- a probe = the request plus the client state that shapes the exchange -/
structure Probe where
  cmd : Cmd
  q : QT
  up : Option Codec
  down : Option Codec
  edns : Bool
  deriving DecidableEq, Repr

abbrev Oracle := Probe → Out

/-- the downstream codec a new client starts with (regenerated from NewClientDnsConnection): it only labels the probes
    made before a codec is negotiated — those answers are decoded with the codec the probe itself names -/
def initialDown : Option Codec :=
  match SA.Gen.c11ClientInitialDown with
  | "Base32" => some .b32 | "Base64" => some .b64 | "Base64u" => some .b64u | "Base85" => some .b85
  | "Base91" => some .b91 | "Base128" => some .b128 | "Raw" => some .raw
  | _ => none

structure St where
  q : QT
  up : Option Codec := none
  down : Option Codec := initialDown
  edns : Bool := false
  lzy : Bool := false
  deriving Repr

def St.probe (st : St) (c : Cmd) : Probe := { cmd := c, q := st.q, up := st.up, down := st.down, edns := st.edns }

/-- `err != nil` after Query -/
def Out.isErr (o : Out) : Bool := o == .t || o == .tmo || o == .p || o == .unk || o == .x

/-- `for i := 0; i < n; i++ { o := probe; if cont o { continue }; return o }` over a static path:
    `none` = fell through after n identical exchanges.  A request that cannot be encoded costs no query. -/
def retry (n : Nat) (O : Oracle) (pr : Probe) (cont : Out → Bool) : Option Out × List Probe :=
  if n = 0 then (none, [])
  else if O pr = .x then (if cont .x then none else some .x, [])
  else if cont (O pr) then (none, List.replicate n pr) else (some (O pr), [pr])

/-! ### AutoDetectQueryType -/

def typeTestCodec (cfg : Cfg) (q : QT) : Codec := if q ∈ cfg.typeTestRaw then .raw else .b32

def typeProbe (cfg : Cfg) (q : QT) : Probe :=
  { cmd := .y (typeTestCodec cfg q), q := q, up := none, down := initialDown, edns := false }

/-- query_types.go Before, as written (indices default to 0) -/
def beforeAux (q1 q2 : QT) : List QT → Nat → Nat × Nat → Nat × Nat
  | [], _, acc => acc
  | q :: rest, i, acc =>
    beforeAux q1 q2 rest (i + 1) (if q = q1 then (i, acc.2) else if q = q2 then (acc.1, i) else acc)

def before (order : List QT) (q1 q2 : QT) : Bool :=
  let r := beforeAux q1 q2 order 0 (0, 0)
  decide (r.1 < r.2)

/-- one pass over the priority list (inner loop): stops at the first working type that improves -/
def typeRound (O : Oracle) (cfg : Cfg) : List QT → Option QT → Option QT × List Probe
  | [], h => (h, [])
  | q :: rest, h =>
    let pr := typeProbe cfg q
    if O pr = .k then
      match h with
      | none => (some q, [pr])
      | some hq =>
        if before cfg.typeOrder q hq then (some q, [pr])
        else let r := typeRound O cfg rest h; (r.1, pr :: r.2)
    else let r := typeRound O cfg rest h; (r.1, pr :: r.2)

def typeRoundsLoop (O : Oracle) (cfg : Cfg) : Nat → Option QT → Option QT × List Probe
  | 0, h => (h, [])
  | n + 1, h =>
    let r := typeRound O cfg cfg.typeOrder h
    if r.1 = some QT.null then r
    else let r2 := typeRoundsLoop O cfg n r.1; (r2.1, r.2 ++ r2.2)

def typeDetect (O : Oracle) (cfg : Cfg) : Option QT × List Probe := typeRoundsLoop O cfg cfg.typeRounds none

/-! ### VersionHandshake, EDNS0 -/

def versionPhase (O : Oracle) (cfg : Cfg) (st : St) : Bool × List Probe :=
  match retry cfg.versionTries O (st.probe .v) (fun o => o != .k) with
  | (some _, tr) => (true, tr)
  | (none, tr) => (false, tr)

def ednsPhase (O : Oracle) (cfg : Cfg) (st : St) : Bool × List Probe :=
  let d : Codec := if st.q ∈ cfg.ednsRaw then .raw else .b32
  match retry cfg.ednsTries O (st.probe (.y d)) Out.isErr with
  | (some o, tr) => (o == .k, tr)
  | (none, tr) => (false, tr)

/-! ### upstream codec -/

inductive UpT | ok | swap | bad
  deriving DecidableEq, Repr

def upTest (O : Oracle) (cfg : Cfg) (st : St) (c : Codec) (i : Nat) : UpT × List Probe :=
  match retry cfg.upTestTries O (st.probe (.z c i)) (fun o => o == .tmo) with
  | (none, tr) => (.bad, tr)
  | (some o, tr) => (if o = .k then .ok else if o = .sa ∨ o = .sA then .swap else .bad, tr)

def upPatterns (O : Oracle) (cfg : Cfg) (st : St) (c : Codec) : List Nat → UpT × List Probe
  | [] => (.ok, [])
  | i :: rest =>
    match upTest O cfg st c i with
    | (.ok, tr) => let r := upPatterns O cfg st c rest; (r.1, tr ++ r.2)
    | (x, tr) => (x, tr)

def upDetect (O : Oracle) (cfg : Cfg) (st : St) : List Codec → Codec × List Probe
  | [] => (.b32, [])
  | c :: rest =>
    match upPatterns O cfg st c (List.range (cfg.patternCount c)) with
    | (.ok, tr) => (c, tr)
    | (.swap, tr) => (.b32, tr)
    | (.bad, tr) => let r := upDetect O cfg st rest; (r.1, tr ++ r.2)

/-- SetEncodingUpstream: the client has already switched; anything but a clean ok reverts to Base32 -/
def setUpPhase (O : Oracle) (cfg : Cfg) (st : St) (c : Codec) : Codec × List Probe :=
  match retry cfg.setUpTries O ({ st with up := some c }.probe (.oUp c)) (fun o => o == .tmo) with
  | (some o, tr) => (if o = .k then c else .b32, tr)
  | (none, tr) => (.b32, tr)

/-! ### downstream codec -/

/-- TestDownstreamEncoder: true = returned nil -/
def downTest (O : Oracle) (cfg : Cfg) (st : St) (d : Codec) : Bool × List Probe :=
  match retry cfg.downTestTries O (st.probe (.y d)) Out.isErr with
  | (none, tr) => (false, tr)
  | (some o, tr) => (o == .k || (o == .c && !cfg.downMismatchIsError), tr)

def downLoop (O : Oracle) (cfg : Cfg) (st : St) : List Codec → Codec → Codec × List Probe
  | [], a => (a, [])
  | d :: rest, a =>
    match downTest O cfg st d with
    | (true, tr) => let r := downLoop O cfg st rest d; (r.1, tr ++ r.2)
    | (false, tr) =>
      if d = .b64 then let r := downLoop O cfg st rest a; (r.1, tr ++ r.2)
      else (a, tr)

/-- AutodetectEncodingDowntream; `none` = no encoder was assigned (only when the function does not end
    with the unconditional assignment: the shape as found).  Raw is chosen when the outcome of its test
    equals the polarity fact (`err == nil` in the repaired code, `err != nil` as found). -/
def downDetect (O : Oracle) (cfg : Cfg) (st : St) : Option Codec × List Probe :=
  if st.q ∈ cfg.downRawTypes then (some .raw, [])
  else
    let r := downLoop O cfg st cfg.downOrder .b32
    if r.1 = .b128 ∧ st.q = .txt then
      let t := downTest O cfg st .raw
      if cfg.downAlwaysAssigned then (some (if t.1 = cfg.rawOnSuccess then .raw else r.1), r.2 ++ t.2)
      else (if t.1 = cfg.rawOnSuccess then some .raw else none, r.2 ++ t.2)
    else (some r.1, r.2)

def setDownPhase (O : Oracle) (cfg : Cfg) (st : St) (d : Codec) : Codec × List Probe :=
  match retry cfg.setDownTries O ({ st with down := some d }.probe (.oDown d false)) (fun o => o == .tmo) with
  | (some o, tr) => (if o = .k then d else .b32, tr)
  | (none, tr) => (.b32, tr)

/-- AutodetectLazyMode: only a clean ok returns; every other outcome goes round the loop again -/
def lazyPhase (O : Oracle) (cfg : Cfg) (st : St) (d : Codec) : Bool × List Probe :=
  match retry cfg.lazyTries O (st.probe (.oDown d true)) (fun o => o != .k) with
  | (some _, tr) => (true, tr)
  | (none, tr) => (false, tr)

/-! ### fragment size search -/

structure FS where
  proposed : Nat
  range : Nat
  max : Nat
  deriving DecidableEq, Repr

def FS.init (cfg : Cfg) : FS := { proposed := cfg.fragStart, range := cfg.fragTop - cfg.fragStart, max := 0 }

inductive FragOut | ok | fail | corrupt
  deriving DecidableEq, Repr

/-- the retry loop around one proposal (repaired shape: leaves after the first answer) -/
def fragProbe (O : Oracle) (cfg : Cfg) (st : St) (f : Nat) : FragOut × List Probe :=
  match retry cfg.fragTries O (st.probe (.r f)) (fun o => o == .tmo) with
  | (none, tr) => (.fail, tr)
  | (some o, tr) => (if o = .k then .ok else if o = .c then .corrupt else .fail, tr)

/-- loop condition of the outer loop -/
def fragCont (cfg : Cfg) (s : FS) : Bool :=
  (!cfg.fragStopsAtZero || decide (s.range > 0)) && (decide (s.range ≥ cfg.fragFine) || decide (s.max < cfg.fragEnough))

/-- uint32 subtraction -/
def subU32 (a b : Nat) : Nat := (a + 4294967296 - b % 4294967296) % 4294967296

/-- the update at the end of a round (clamp, halve, move) -/
def fragStep (cfg : Cfg) (s : FS) (ok : Bool) : FS :=
  let max := if ok then s.proposed else s.max
  let range0 := if cfg.fragClampsStep ∧ max ≠ s.proposed ∧ s.range > s.proposed then s.proposed else s.range
  let range := range0 >>> cfg.fragShift
  if max = s.proposed then { proposed := s.proposed + range, range := range, max := max }
  else { proposed := subU32 s.proposed range, range := range, max := max }

inductive FragRes | done (s : FS) | corrupt | outOfFuel
  deriving DecidableEq, Repr

/-- repaired shape: one proposal per round, the range shrinks every round -/
def fragLoop (O : Oracle) (cfg : Cfg) (st : St) : Nat → FS → FragRes × List Probe
  | 0, s => if fragCont cfg s then (.outOfFuel, []) else (.done s, [])
  | fuel + 1, s =>
    if fragCont cfg s then
      match fragProbe O cfg st s.proposed with
      | (.corrupt, tr) => (.corrupt, tr)
      | (.ok, tr) => let r := fragLoop O cfg st fuel (fragStep cfg s true); (r.1, tr ++ r.2)
      | (.fail, tr) => let r := fragLoop O cfg st fuel (fragStep cfg s false); (r.1, tr ++ r.2)
    else (.done s, [])

/-- shape as found: the update sits inside the retry loop and is only reached after a good answer -/
def oldInner (O : Oracle) (cfg : Cfg) (st : St) : Nat → FS → (FS × Bool) × List Probe
  | 0, s => ((s, false), [])
  | i + 1, s =>
    let pr := st.probe (.r s.proposed)
    match O pr with
    | .tmo => let r := oldInner O cfg st i s; (r.1, pr :: r.2)
    | .k => let r := oldInner O cfg st i (fragStep cfg s true); (r.1, pr :: r.2)
    | .c => ((s, true), [pr])
    | _ => ((s, false), [pr])

def oldLoop (O : Oracle) (cfg : Cfg) (st : St) : Nat → FS → FragRes × List Probe
  | 0, s => if fragCont cfg s then (.outOfFuel, []) else (.done s, [])
  | fuel + 1, s =>
    if fragCont cfg s then
      let r := oldInner O cfg st cfg.fragTries s
      if r.1.2 then (.corrupt, r.2)
      else let r2 := oldLoop O cfg st fuel r.1.1; (r2.1, r.2 ++ r2.2)
    else (.done s, [])

/-- rounds the executable model allows the search: more than the repaired loop can need
    (`C11_terminates`), and enough for the loop as found to exceed the harness's query budget -/
def fragFuel (cfg : Cfg) : Nat := if cfg.fragHalvesEveryRound ∧ cfg.fragStopsAtZero then 64 else 3001

def fragSearch (O : Oracle) (cfg : Cfg) (st : St) : FragRes × List Probe :=
  if cfg.fragHalvesEveryRound then fragLoop O cfg st (fragFuel cfg) (FS.init cfg)
  else oldLoop O cfg st (fragFuel cfg) (FS.init cfg)

inductive SwitchOut | set | kept | fail
  deriving DecidableEq, Repr

/-- SwitchFragmentSize: ok sets the client's value; a server error returns the (nil) transport error;
    a transport error fails the handshake; recognised timeouts fall through -/
def switchPhase (O : Oracle) (cfg : Cfg) (st : St) (f : Nat) : SwitchOut × List Probe :=
  match retry cfg.switchTries O (st.probe (.oFrag f)) (fun o => o == .tmo) with
  | (none, tr) => (.kept, tr)
  | (some o, tr) => (if o = .k then .set else if o = .e then .kept else .fail, tr)

/-! ### Handshake -/

inductive ErrC | connfailed | version | corrupt | nofrag | smallfrag | other
  deriving DecidableEq, Repr

structure Params where
  q : QT
  up : Codec
  down : Codec
  edns : Bool
  lzy : Bool
  upfrag : Nat
  downfrag : Nat
  deriving DecidableEq, Repr

inductive Res | ok (p : Params) | err (c : ErrC) | panic | outOfFuel
  deriving DecidableEq, Repr

def codecRatio (c : Codec) : Nat × Nat :=
  let code : Nat := match c with
    | .b32 => 84 | .b64 => 83 | .b64u => 85 | .b85 => 87 | .b91 => 88 | .b128 => 86 | .raw => 82
  match SA.Gen.C09.codecRatios.find? (fun x => x.1 == code) with
  | some (_, n, d) => (n, d)
  | none => (1, 1)

def upstreamMtu (domLen : Nat) (c : Codec) : Nat :=
  (SA.DnsReq.upstreamMtu domLen (codecRatio c).1 (codecRatio c).2 false).getD 0

/-- Handshake.  Returns the result and every probe made, in order. -/
def handshake (cfg : Cfg) (O : Oracle) (domLen : Nat) : Res × List Probe :=
  match typeDetect O cfg with
  | (none, t1) => (.err .connfailed, t1)
  | (some q, t1) =>
    let st0 : St := { q := q }
    match versionPhase O cfg st0 with
    | (false, t2) => (.err .version, t1 ++ t2)
    | (true, t2) =>
      let ed := ednsPhase O cfg st0
      let st1 : St := { st0 with edns := ed.1 }
      let ud := upDetect O cfg st1 cfg.upOrder
      let su := setUpPhase O cfg st1 ud.1
      let st2 : St := { st1 with up := some su.1 }
      let dd := downDetect O cfg st2
      match dd.1 with
      | none => (.panic, t1 ++ t2 ++ ed.2 ++ ud.2 ++ su.2 ++ dd.2)
      | some d0 =>
        let sd := setDownPhase O cfg st2 d0
        let st3 : St := { st2 with down := some sd.1 }
        let lz := lazyPhase O cfg st3 sd.1
        let st4 : St := { st3 with lzy := lz.1 }
        let fr := fragSearch O cfg st4
        let pre := t1 ++ t2 ++ ed.2 ++ ud.2 ++ su.2 ++ dd.2 ++ sd.2 ++ lz.2 ++ fr.2
        match fr.1 with
        | .outOfFuel => (.outOfFuel, pre)
        | .corrupt => (.err .corrupt, pre)
        | .done s =>
          if s.max ≤ cfg.fragNone then (.err .nofrag, pre)
          else if s.max < cfg.fragSmall then (.err .smallfrag, pre)
          else
            let f := s.max - cfg.fragHeader
            let sw := switchPhase O cfg st4 f
            match sw.1 with
            | .fail => (.err .other, pre ++ sw.2)
            | .set => (.ok { q := q, up := su.1, down := sd.1, edns := ed.1, lzy := lz.1,
                             upfrag := upstreamMtu domLen su.1, downfrag := f }, pre ++ sw.2)
            | .kept => (.ok { q := q, up := su.1, down := sd.1, edns := ed.1, lzy := lz.1,
                              upfrag := upstreamMtu domLen su.1, downfrag := 0 }, pre ++ sw.2)

/-! ### line protocol -/

def QT.letter : QT → String
  | .null => "n" | .priv => "p" | .txt => "t" | .srv => "s" | .mx => "m" | .cname => "c" | .aaaa => "q" | .a => "a"

def QT.name : QT → String
  | .null => "null" | .priv => "priv" | .txt => "txt" | .srv => "srv" | .mx => "mx" | .cname => "cname"
  | .aaaa => "aaaa" | .a => "a"

def Codec.name : Codec → String
  | .b32 => "b32" | .b64 => "b64" | .b64u => "b64u" | .b85 => "b85" | .b91 => "b91" | .b128 => "b128" | .raw => "raw"

def optCodec : Option Codec → String
  | none => "nil"
  | some c => c.name

def Probe.key (p : Probe) : String :=
  let head (c : String) := s!"{c}.{p.q.letter}.{optCodec p.up}.{optCodec p.down}.{if p.edns then "1" else "0"}."
  match p.cmd with
  | .y d => head "y" ++ d.name
  | .v => head "v" ++ "-"
  | .z c i => head "z" ++ s!"{c.name}#{i}"
  | .oUp c => head "o" ++ s!"u{c.name}"
  | .oDown d l => head "o" ++ s!"d{d.name}l{if l then "1" else "0"}"
  | .oFrag f => head "o" ++ s!"f{f}"
  | .r f => head "r" ++ toString f

def Out.ofString : String → Out
  | "t" => .t | "k" => .k | "e" => .e | "l" => .l | "c" => .c | "sa" => .sa | "sA" => .sA
  | "fs" => .fs | "p" => .p | "T" => .tmo | "x" => .x | _ => .unk

def parseOracle (s : String) : List (String × Out) :=
  if s = "-" then []
  else (s.splitOn ",").filterMap (fun e =>
    match e.splitOn "=" with
    | [k, v] => some (k, Out.ofString v)
    | _ => none)

/-- whether an upstream pattern fits into a query name depends only on the domain: key `zx.<codec>#<i>` -/
def tableOracle (tbl : List (String × Out)) : Oracle := fun p =>
  match p.cmd with
  | .z c i =>
    match tbl.lookup s!"zx.{c.name}#{i}" with
    | some o => o
    | none => (tbl.lookup p.key).getD .unk
  | _ => (tbl.lookup p.key).getD .unk

def domLenOf : String → Option Nat
  | "s" => some 4
  | "m" => some 11
  | "l" => some 81
  | "x" => some 172
  | _ => none

/-- the harness's hard cap on queries during the handshake -/
def queryCap : Nat := 3000

def ErrC.name : ErrC → String
  | .connfailed => "connfailed" | .version => "version" | .corrupt => "corrupt" | .nofrag => "nofrag"
  | .smallfrag => "smallfrag" | .other => "other"

def firstBad (O : Oracle) : List Probe → Option (Probe × Out)
  | [] => none
  | p :: rest => if O p = .unk ∨ O p = .p then some (p, O p) else firstBad O rest

def renderRun (O : Oracle) (r : Res × List Probe) : String :=
  let bs (b : Bool) := if b then "1" else "0"
  match firstBad O (r.2.take queryCap) with
  | some (_, .p) => "PANIC"
  | some (p, _) => "unknown-probe " ++ p.key
  | none =>
    if r.2.length > queryCap then "budget"
    else match r.1 with
    | .ok p => s!"ok {p.q.name} {p.up.name} {p.down.name} {bs p.edns} {bs p.lzy} {p.upfrag} {p.downfrag} n={r.2.length}"
    | .err c => s!"err {c.name} n={r.2.length}"
    | .panic => "PANIC"
    | .outOfFuel => "budget"

/-- dnshs <case> <strip7> <types> <limit> <fail> <dom> <amap> <seed> <oracle> -/
def handle (toks : List String) : String :=
  match toks with
  | [_, _, _, _, _, dom, _, _, orc] =>
    match domLenOf dom with
    | none => "malformed"
    | some dl =>
      let O := tableOracle (parseOracle orc)
      renderRun O (handshake Cfg.gen O dl)
  | _ => "malformed"

end SA.DnsHandshake

/-
  SA.Model.ProbeTables — the byte tables the DNS handshake's probes are made of (property C11):
  `TestPatterns()` of every codec the auto-detection can try and `util.DownloadCodecCheck`, as
  regenerated from the Go source (SA.Gen.C11Pat).  The `patterns` harness component prints what the
  running code returns; `handle` prints the regenerated tables.  Core Lean only.
-/
import SA.Base.Util
import SA.Gen.C11Pat
import SA.Model.Codec

namespace SA.ProbeTables

/-- codec letter (`Code()`) → the numbering of SA.Gen.C11 (0 b32 1 b64 2 b64u 3 b85 4 b91 5 b128 6 raw) -/
def codecIndex : String → Option Nat
  | "T" => some 0 | "S" => some 1 | "U" => some 2 | "W" => some 3 | "X" => some 4 | "V" => some 5
  | "R" => some 6 | _ => none

def patterns (i : Nat) : List (List Nat) := SA.Gen.C11Pat.testPatterns.getD i []

/-- every byte that occurs in some pattern of codec `i` -/
def patternBytes (i : Nat) : List Nat := (patterns i).flatten

def downloadCheck : List Nat := SA.Gen.C11Pat.downloadCodecCheck

/-- codec letter → C08 model -/
def codecOf (l : String) : Option SA.Codec.Codec :=
  match l.toList with
  | [ch] => if (codecIndex l).isSome then SA.Codec.fromCode ch.toNat else none
  | _ => none

/-- line protocol: `tp <letter>` → `tp <count> <hex>…`, `dcc` → `dcc <hex>`,
    `dccenc <letter>` → the encoded check string, `enc|dec <letter> <hex>` → the witnesses' codings -/
def handle : List String → String
  | ["dccenc", l] =>
    match codecOf l with
    | some cd => "dccenc " ++ toHex (SA.Codec.encode cd downloadCheck)
    | none => "bad-op"
  | ["enc", l, hx] =>
    match codecOf l, fromHex hx with
    | some cd, some bs => "enc " ++ toHex (SA.Codec.encode cd bs)
    | _, _ => "bad-op"
  | ["dec", l, hx] =>
    match codecOf l, fromHex hx with
    | some cd, some bs => (match SA.Codec.decode cd bs with | some r => "dec " ++ toHex r | none => "dec err")
    | _, _ => "bad-op"
  | ["tp", l] =>
    match codecIndex l with
    | some i => " ".intercalate (("tp" :: toString (patterns i).length :: (patterns i).map toHex))
    | none => "bad-op"
  | ["dcc"] => "dcc " ++ toHex downloadCheck
  | _ => "bad-op"

end SA.ProbeTables

/-
  SA.Model.GoSlice — Go's partial operations made explicit (C12).

  `Res α` is "a Go expression of type α that may panic".  Indexing, slicing and calling a func-typed
  struct field are the operations of the DNS decoders that can panic; they are modelled *strictly*:
  `slice s lo hi` panics unless `lo ≤ hi ≤ len s` (Go would still allow `hi ≤ cap s` on a byte slice and
  read stale bytes; a model that panics more often than Go keeps every no-panic theorem sound for Go).
-/
namespace SA.Go

inductive Res (α : Type) where
  | ok : α → Res α
  | panic : Res α
  deriving Repr, DecidableEq

namespace Res

def bind {α β : Type} (x : Res α) (f : α → Res β) : Res β :=
  match x with
  | ok a => f a
  | panic => panic

instance : Monad Res where
  pure := ok
  bind := bind

def isPanic {α : Type} : Res α → Bool
  | ok _ => false
  | panic => true

@[simp] theorem bind_ok {α β : Type} (a : α) (f : α → Res β) : (ok a >>= f) = f a := rfl
@[simp] theorem bind_panic {α β : Type} (f : α → Res β) : ((panic : Res α) >>= f) = panic := rfl
@[simp] theorem pure_eq {α : Type} (a : α) : (pure a : Res α) = ok a := rfl

end Res

open Res

/-- `s[i]` -/
def idx (s : List Nat) (i : Nat) : Res Nat :=
  match s[i]? with
  | some x => ok x
  | none => panic

/-- `s[lo:]` -/
def sliceFrom (s : List Nat) (lo : Nat) : Res (List Nat) :=
  if lo ≤ s.length then ok (s.drop lo) else panic

/-- `s[lo:hi]` (strict: `hi ≤ len s`) -/
def slice (s : List Nat) (lo hi : Nat) : Res (List Nat) :=
  if lo ≤ hi ∧ hi ≤ s.length then ok ((s.take hi).drop lo) else panic

/-- calling a func-typed field that may be nil: `present = false` is a nil-pointer call -/
def callField {α : Type} (present : Bool) (result : α) : Res α :=
  if present then ok result else panic

/-- `tbl[i]` on a slice of pointers -/
def idxOpt {α : Type} (s : List (Option α)) (i : Nat) : Res (Option α) :=
  match s[i]? with
  | some x => ok x
  | none => panic

theorem idx_ok {s : List Nat} {i : Nat} (h : i < s.length) : idx s i = ok s[i] := by
  simp [idx, h]

theorem sliceFrom_ok {s : List Nat} {lo : Nat} (h : lo ≤ s.length) : sliceFrom s lo = ok (s.drop lo) := by
  simp [sliceFrom, h]

theorem slice_ok {s : List Nat} {lo hi : Nat} (h1 : lo ≤ hi) (h2 : hi ≤ s.length) :
    slice s lo hi = ok ((s.take hi).drop lo) := by
  simp [slice, h1, h2]

theorem idxOpt_ok {α : Type} {s : List (Option α)} {i : Nat} (h : i < s.length) : idxOpt s i = ok s[i] := by
  simp [idxOpt, h]

end SA.Go

/-
  C05: a server that requires client certificates, on a carrier it does not encrypt itself (StartTLS on offer).

  The server's decision for one client, as a function of its options and of what the client does at the upgrade step:
    * `require` — clients must authenticate with a certificate;
    * `tlsOk`   — the TLS configuration can be loaded and holds a certificate (StartTLS can be offered and performed);
    * the client asks for StartTLS (then crypto/tls decides: a client certificate signed by the CA or no session), or it
      does not (no certificate is ever presented).
  `enforce` is the rule "no StartTLS asked ⇒ refused when client certificates are required" (the repaired code); without
  it a client that simply does not upgrade is served in the clear.
-/
namespace SA.ReqCert

inductive Client where
  | plain            -- never asks for StartTLS
  | startTls (certOk : Bool)   -- asks; presents a certificate signed by the CA, or none / a foreign one
deriving Repr, DecidableEq

def admitted (enforce require tlsOk : Bool) : Client → Bool
  | .plain => !(enforce && require)
  | .startTls certOk => tlsOk && (!require || certOk)

/-- driver: `reqcert <require> <cert good|none> <ca ok|missing|none>` with the plain client -/
def handle (toks : List String) : String :=
  match toks with
  | [r, c, ca] =>
    if (r = "0" ∨ r = "1") ∧ (c = "good" ∨ c = "none") ∧ (ca = "ok" ∨ ca = "missing" ∨ ca = "none") then
      if admitted true (r = "1") (c = "good" ∧ ca ≠ "missing") .plain then "served" else "refused"
    else "bad-op"
  | _ => "bad-op"

end SA.ReqCert

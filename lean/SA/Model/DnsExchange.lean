/-
  SA.Model.DnsExchange — the retry loop of ClientDnsConnection.SendAndReceive as reached from
  Write → OutQueue.addChunk → outChunkAdded, for one fragment:

    for i := 1; i <= tries; i++ {
      resp, err := dc.Query(req, i*time.Second)
      if <timeout test>(err) { if i == tries { return err } else { continue } }
      else if err != nil { return err }
      else { …UpdateAcked, Append…; return … }
    }

  The communicator's outcome per try is the fate; what the test recognises comes from the regenerated
  fact `SA.Gen.c07TimeoutTest` (0 = `err == smux.ErrTimeout` on an error that QueryWithData wrapped:
  never true; 1 = `isTimeout(err)`: the cause is a network timeout or the sentinel).
-/
import SA.Base.Util
import SA.Gen.C07
namespace SA.DnsExchange

inductive Fate
  | ok   -- query delivered and answered
  | ql   -- query lost: the communicator reports a network timeout
  | al   -- query handled by the server, answer lost: network timeout
  | st   -- the communicator returns smux.ErrTimeout itself
  | er   -- any other error
  deriving DecidableEq, Repr

structure Res where
  calls : Nat        -- queries issued
  ok : Bool          -- SendAndReceive (hence Write) returned nil
  delivered : Bool   -- the server has appended the fragment
  deriving DecidableEq, Repr

def Fate.isLoss : Fate → Bool
  | .ql | .al | .st => true
  | _ => false

/-- does SendAndReceive take the error of this fate for a timeout? -/
def recognised (test : Nat) (f : Fate) : Bool := f.isLoss && test == 1

/-- `left` = tries still available (including the current one); fates beyond the script are `ok` -/
def loop (test : Nat) : Nat → List Fate → Nat → Bool → Res
  | 0, _, calls, dlv => ⟨calls, true, dlv⟩
  | left + 1, fs, calls, dlv =>
    match fs.head?.getD .ok with
    | .ok => ⟨calls + 1, true, true⟩
    | .er => ⟨calls + 1, false, dlv⟩
    | f =>
      let dlv' := dlv || f == .al
      if recognised test f then
        (if left = 0 then ⟨calls + 1, false, dlv'⟩ else loop test left fs.tail (calls + 1) dlv')
      else ⟨calls + 1, false, dlv'⟩

def sendAndReceive (test tries : Nat) (fs : List Fate) : Res := loop test tries fs 0 false

def parseFate (s : String) : Option Fate :=
  if s = "ok" then some .ok else if s = "ql" then some .ql else if s = "al" then some .al
  else if s = "st" then some .st else if s = "er" then some .er else none

/-- `dnsretry <hex payload 1..8 bytes> <fate>*` → `calls=<n> n=<len> err=<ok|err> srv=<hex>` -/
def handle (toks : List String) : String :=
  match toks with
  | h :: rest =>
    match fromHex h, rest.mapM parseFate with
    | some d, some fs =>
      if d.length = 0 ∨ d.length > 8 then "bad-op" else
      let r := sendAndReceive Gen.c07TimeoutTest Gen.c07Tries fs
      "calls=" ++ toString r.calls ++ " n=" ++ toString d.length ++ " err=" ++ (if r.ok then "ok" else "err")
        ++ " srv=" ++ (if r.delivered then toHex d else "-")
    | _, _ => "bad-op"
  | _ => "bad-op"

end SA.DnsExchange

/-
  SA.Model.TlsConfig — executable model of the TLS configuration derivation of socketace:

    internal/util/cert/cert.go        GetCertificate / GetPrivateKey / GetX509KeyPair /
                                      GetCaCertificates / addCaCertificates /
                                      Config / ClientConfig / ServerConfig .GetTlsConfig
    internal/socketace/client.go      startTls (ServerName)
    internal/client/upstream/*.go     which config / host each upstream kind hands to crypto/tls
    internal/client/upstream/packet.go, internal/server/packet_server.go
                                      shared-secret derivation (pbkdf2 + AES block for kcp)

  Option values are abstracted to what the code distinguishes (absent / empty / no PEM / the PEM
  objects of the harness PKI).  The decisive shapes are parameters supplied by SA.Gen.C05
  (regenerated from the source on every run): polarity of the ClientAuth guard, the sites that set
  InsecureSkipVerify, whether startTls strips the port, whether Socket.Connect names the host,
  the pbkdf2 argument lists.  crypto/tls + crypto/x509 are *not* modelled: their documented
  contract enters as the record `X509` (a hypothesis-level parameter of every theorem); the
  driver instantiates it with a reference oracle over the harness certificate table.
-/
import SA.Base.Util
import SA.Gen.C05
namespace SA.TlsConfig

abbrev Name := List Char

/-! ## option values -/

/-- how a private key PEM is protected -/
inductive KeyEnc | plain | pkcs8 | legacy
  deriving DecidableEq, Repr

/-- what a PEM-carrying option evaluates to (a Go `[]byte`) -/
inductive Blob
  | nil                                   -- Go nil slice: option absent
  | empty                                 -- non-nil, length 0 (empty file, whitespace-only inline value)
  | garbage                               -- bytes without a PEM block
  | cert (id : String)                    -- one leaf certificate
  | key (forCert : String) (enc : KeyEnc) -- private key belonging to leaf `forCert`
  | cas (ids : List String)               -- bundle of CA certificates
  deriving DecidableEq, Repr

def Blob.nonEmpty : Blob → Bool
  | .nil => false
  | .empty => false
  | _ => true

/-- a `…File` / inline option pair.  `file = some none` : file option set, file unreadable. -/
structure Src where
  file : Option (Option Blob) := none
  inline : Option Blob := none
  deriving DecidableEq, Repr

inductive Pw | none | right | wrong
  deriving DecidableEq, Repr

/-- cert.Config (+ the one boolean of ClientConfig / ServerConfig) -/
structure Opts where
  cert : Src := {}
  key : Src := {}
  pw : Pw := .none
  ca : Src := {}
  flag : Bool := false
  deriving DecidableEq, Repr

inductive ErrClass | certfile | keyfile | keypass | keydecrypt | keypair | cafile | caparse
  deriving DecidableEq, Repr

/-- outcome of a Go function returning (value, error) that may also panic -/
inductive Res (α : Type)
  | ok (a : α)
  | err (c : ErrClass)
  | panic
  deriving DecidableEq, Repr

/-- `if File != "" { ReadFile } else if inline != "" { TrimSpace } ; return nil` -/
def readSrc (s : Src) (fileErr : ErrClass) : Res Blob :=
  match s.file with
  | some none => .err fileErr
  | some (some b) => .ok b
  | none =>
    match s.inline with
    | some b => .ok b
    | none => .ok .nil

/-! ## cert.go -/

inductive ClientAuth | noClientCert | requireAndVerifyClientCert
  deriving DecidableEq, Repr

def ClientAuth.code : ClientAuth → Nat
  | .noClientCert => 0
  | .requireAndVerifyClientCert => 4

/-- the fields of `tls.Config` the code touches -/
structure TlsCfg where
  certs : List String := []                 -- ids of the leaf certificates in `Certificates`
  rootCAs : Option (List String) := none    -- none = nil pool (crypto/tls then uses the system roots)
  clientCAs : Option (List String) := none
  insecureSkipVerify : Bool := false
  clientAuth : ClientAuth := .noClientCert
  serverName : Name := []
  deriving DecidableEq, Repr

/-- Config.GetPrivateKey -/
def getPrivateKey (o : Opts) : Res Blob :=
  match readSrc o.key .keyfile with
  | .err e => .err e
  | .panic => .panic
  | .ok b =>
    if b.nonEmpty then
      match b with
      | .key c .pkcs8 =>            -- block.Type == "ENCRYPTED PRIVATE KEY"
        (match o.pw with
         | .none => .err .keypass
         | .wrong => .err .keydecrypt
         | .right => .ok (.key c .plain))      -- re-encoded as an unencrypted PKCS#8 PEM
      | .key _ .legacy =>           -- x509.IsEncryptedPEMBlock
        (match o.pw with
         | .none => .err .keypass
         | .wrong => .err .keydecrypt
         | .right => .ok .garbage)             -- DecryptPEMBlock returns DER, not PEM
      | .key c .plain => .ok (.key c .plain)
      | .garbage => .panic           -- pem.Decode returns a nil block; `block.Type` dereferences it
      | other => .ok other           -- some other PEM block: passed through
    else .ok b

/-- Config.GetX509KeyPair: `none` = no certificate configured -/
def getX509KeyPair (o : Opts) : Res (Option String) :=
  match readSrc o.cert .certfile with
  | .err e => .err e
  | .panic => .panic
  | .ok c =>
    match getPrivateKey o with
    | .err e => .err e
    | .panic => .panic
    | .ok k =>
      if c.nonEmpty || k.nonEmpty then
        -- tls.X509KeyPair(certPemBlock, privateKeyPemBlock)
        match c, k with
        | .cert id, .key forCert .plain => if id = forCert then .ok (some id) else .err .keypair
        | _, _ => .err .keypair
      else .ok none

/-- the pool `AppendCertsFromPEM` builds: `none` = no certificate could be parsed -/
def parseCAs : Blob → Option (List String)
  | .cas ids => if ids.isEmpty then none else some ids
  | _ => none

/-- the trust anchors of the process's system store.  The harness process (C05 components) is started with a
    system store holding exactly one CA, "S", which no configuration names (go/harness/c05_pki.go). -/
def sysAnchors : List String := ["S"]

/-- Config.addCaCertificates with the pool starting from `seed`: the one CA option fills both pools.
    `x509.NewCertPool()` is the empty seed; a pool obtained elsewhere (x509.SystemCertPool(), a package-level
    or cached pool, the pool of another configuration object) brings its anchors along. -/
def addCaCertificatesFrom (seed : List String) (o : Opts) (conf : TlsCfg) : Res TlsCfg :=
  match readSrc o.ca .cafile with
  | .err e => .err e
  | .panic => .panic
  | .ok b =>
    if b = .nil then .ok conf
    else
      match parseCAs b with
      | none => .err .caparse
      | some cas => .ok { conf with clientCAs := some (seed ++ cas), rootCAs := some (seed ++ cas) }

/-- what the pool holds before the configured CA is appended, from the regenerated shape of
    addCaCertificates (SA.Gen.caPoolStartsEmpty: a function-local `x509.NewCertPool()` that receives only the PEM
    of `m.GetCaCertificates()`).  Any other shape is modelled as the system pool. -/
def poolSeed : List String := if SA.Gen.caPoolStartsEmpty then [] else sysAnchors

/-- Config.addCaCertificates -/
def addCaCertificates (o : Opts) (conf : TlsCfg) : Res TlsCfg := addCaCertificatesFrom poolSeed o conf

/-- Config.GetTlsConfig (= GetX509KeyPair, then addCaCertificates) -/
def configGetTlsConfig (o : Opts) : Res TlsCfg :=
  match getX509KeyPair o with
  | .err e => .err e
  | .panic => .panic
  | .ok crt => addCaCertificates o { certs := crt.toList }

/-- ClientConfig.GetTlsConfig; `o.flag` is the `insecure` option -/
def clientGetTlsConfig (o : Opts) : Res TlsCfg :=
  match configGetTlsConfig o with
  | .ok conf => if o.flag then .ok { conf with insecureSkipVerify := true } else .ok conf
  | r => r

/-- ServerConfig.GetTlsConfig; `o.flag` is `RequireClientCert`.  `guardErrNil` is the polarity of
    the condition around `conf.ClientAuth = …` (SA.Gen.serverAuthGuardErrNil): when the guard is
    `err != nil` the assignment runs on the error path only, where `conf` is nil. -/
def serverGetTlsConfig (guardErrNil : Bool) (o : Opts) : Res TlsCfg :=
  match configGetTlsConfig o with
  | .ok conf =>
    if guardErrNil && o.flag then .ok { conf with clientAuth := .requireAndVerifyClientCert } else .ok conf
  | .err e => if !guardErrNil && o.flag then .panic else .err e
  | .panic => .panic

/-! ## host names -/

/-- split at the last ':' (Go: `strings.LastIndex(s, ":")`) -/
def splitLastColon : Name → Option (Name × Name)
  | [] => none
  | c :: cs =>
    match splitLastColon cs with
    | some (a, b) => some (c :: a, b)
    | none => if c = ':' then some ([], cs) else none

/-- index of the first occurrence -/
def indexOf (x : Char) : Name → Option Nat
  | [] => none
  | c :: cs => if c = x then some 0 else (indexOf x cs).map (· + 1)

/-- net.SplitHostPort (error = none) -/
def splitHostPort (s : Name) : Option (Name × Name) :=
  match splitLastColon s with
  | none => none                                         -- missing port
  | some (before, port) =>
    let i := before.length                               -- index of the last colon
    if s.head? = some '[' then
      match indexOf ']' s with
      | none => none                                     -- missing ']'
      | some e =>
        if e + 1 = s.length then none                    -- missing port
        else if e + 1 = i then
          if (s.drop 1).contains '[' then none
          else if (s.drop (e + 1)).contains ']' then none
          else some ((s.take e).drop 1, port)
        else none                                        -- too many colons / missing port
    else
      if before.contains ':' then none                   -- too many colons
      else if s.contains '[' then none
      else if s.contains ']' then none
      else some (before, port)

/-- the value startTls assigns to `tlsConfig.ServerName`, given what the upstream passed as `host`.
    `stripsPort` = SA.Gen.startTlsStripsPort. -/
def startTlsName (stripsPort : Bool) (host : Name) : Name :=
  if stripsPort then
    match splitHostPort host with
    | some (h, _) => h
    | none => host
  else host

/-- the name crypto/tls derives in `tls.Dial(network, addr, cfg)` when `cfg.ServerName` is empty -/
def dialHostname (addr : Name) : Name :=
  match splitLastColon addr with
  | some (a, _) => a
  | none => addr

def isDigit (c : Char) : Bool := '0' ≤ c && c ≤ '9'

/-- net/url `(*URL).Hostname()` of a `host[:port]` authority -/
def urlHostname (hostport : Name) : Name :=
  let host :=
    match splitLastColon hostport with
    | some (a, p) => if p.all isDigit then a else hostport
    | none => hostport
  if host.head? = some '[' ∧ host.getLast? = some ']' then (host.drop 1).dropLast else host

/-- the name verified on the `tcp+tls` socket path: Socket.Connect hands `tls.Dial` the *resolved*
    address; `setsHostname` = SA.Gen.socketDialSetsHostname says whether it names the upstream
    host on the config first. -/
def socketTlsName (setsHostname : Bool) (hostport resolved : Name) : Name :=
  if setsHostname && !(urlHostname hostport).isEmpty then urlHostname hostport else dialHostname resolved

/-! ## upstream kinds -/

inductive Kind | socketTls | httpTls | stdioTls | startTls
  deriving DecidableEq, Repr

/-- the source file whose `Connect` builds the TLS client config of this kind -/
def Kind.file : Kind → String
  | .socketTls => "internal/client/upstream/socket.go"
  | .httpTls => "internal/client/upstream/http.go"
  | .stdioTls => "internal/client/upstream/input_output.go"
  | .startTls => "internal/socketace/client.go"

abbrev Site := String × String × String × String

/-- a site outside cert.go that sets InsecureSkipVerify to `true` in this kind's file, whatever the option says -/
def forcesInsecure (sites : List Site) (k : Kind) : Bool :=
  sites.any (fun s => s.1 == k.file && s.2.2.1 == "true")

/-- the config an upstream kind hands to crypto/tls (ServerName is filled in by `withName`) -/
def clientCfgFor (sites : List Site) (k : Kind) (o : Opts) : Res TlsCfg :=
  match clientGetTlsConfig o with
  | .ok conf => if forcesInsecure sites k then .ok { conf with insecureSkipVerify := true } else .ok conf
  | r => r

/-! ## UDP shared secret -/

/-- outcome of starting a packet endpoint -/
inductive UdpStart | plain | encrypted | errAesKey
  deriving DecidableEq, Repr

/-- aes.NewCipher accepts 16, 24 or 32 byte keys -/
def aesKeyOk (n : Nat) : Bool := n == 16 || n == 24 || n == 32

/-- ConnectPacket / StartupPacket: `pw` = the URL password (`none` = no userinfo/password).
    `keyLen` = the key length argument of pbkdf2.Key (SA.Gen.pbkdf2KeyLen…). -/
def udpStart (keyLen : Nat) (pw : Option (List Nat)) : UdpStart :=
  match pw with
  | none => .plain
  | some p => if p.isEmpty then .plain else if aesKeyOk keyLen then .encrypted else .errAesKey

/-- the key both ends feed to the cipher, as a function of the argument list of their pbkdf2.Key
    call (SA.Gen.pbkdf2Args…); `kdf`/`sha` stand for pbkdf2 over HMAC-SHA256 and for SHA-256
    (uninterpreted); `none` = an argument list of another shape than the one modelled. -/
def udpKey (args : List String) (kdf : List Nat → List Nat → String → String → List Nat)
    (sha : List Nat → List Nat) (pw : List Nat) : Option (List Nat) :=
  match args with
  | ["pass", "salt", iter, keyLen, "sha256.New"] => some (kdf pw (sha pw) iter keyLen)
  | _ => none

/-- does a packet server started with `pwS` process the packets of a client started with `pwC`?
    kcp drops every packet whose checksum fails after decryption, so an encrypted endpoint only
    talks to a peer using the same cipher key; `keyOf` is the key derivation of both ends. -/
def udpAdmits (keyLenS keyLenC : Nat) (keyOf : List Nat → Option (List Nat)) (pwS pwC : Option (List Nat)) : Bool :=
  match udpStart keyLenS pwS, udpStart keyLenC pwC with
  | .plain, .plain => true
  | .encrypted, .encrypted =>
    (match pwS, pwC with
     | some a, some b => (keyOf a).isSome && keyOf a == keyOf b
     | _, _ => false)
  | _, _ => false

/-! ## sessions (crypto/tls contract as a parameter) -/

/-- the documented behaviour of crypto/x509 that the code relies on, as an uninterpreted record -/
structure X509 where
  chains : Option (List String) → String → Bool    -- leaf chains to a CA of the pool (none = system roots)
  validNow : String → Bool                          -- inside its validity period
  matchesName : Name → String → Bool                -- VerifyHostname

/-- crypto/tls client: the server certificate is verified (chain, validity, ServerName) unless InsecureSkipVerify;
    without a ServerName there is nothing to verify against and crypto/tls refuses the handshake outright
    ("tls: either ServerName or InsecureSkipVerify must be specified in the tls.Config") -/
def clientAccepts (X : X509) (cfg : TlsCfg) (peer : String) : Bool :=
  cfg.insecureSkipVerify ||
    (!cfg.serverName.isEmpty && X.chains cfg.rootCAs peer && X.validNow peer && X.matchesName cfg.serverName peer)

/-- crypto/tls server: NoClientCert asks for nothing; RequireAndVerifyClientCert demands a certificate chaining to ClientCAs -/
def serverAdmits (X : X509) (cfg : TlsCfg) (presented : Option String) : Bool :=
  match cfg.clientAuth with
  | .noClientCert => true
  | .requireAndVerifyClientCert =>
    match presented with
    | none => false
    | some c => X.chains cfg.clientCAs c && X.validNow c

/-- facts from SA.Gen the session model depends on -/
structure Facts where
  guardErrNil : Bool
  sites : List Site
  stripsPort : Bool
  setsHostname : Bool
  /-- identity of the `ClientSessionCache` the client configs handed to crypto/tls carry (`none`: they carry no
      cache, or one that is created for that config alone); a cache that outlives the config lets crypto/tls
      RESUME a session: no certificate exchange, no chain verification against the current RootCAs -/
  sessionCache : Option Nat := none

def genFacts : Facts :=
  { guardErrNil := SA.Gen.serverAuthGuardErrNil, sites := SA.Gen.isvSites,
    stripsPort := SA.Gen.startTlsStripsPort, setsHostname := SA.Gen.socketDialSetsHostname,
    sessionCache := if SA.Gen.clientSessionCacheShared then some 0 else none }

/-- the name the client config carries into the handshake for an upstream `host:port` (resolved
    address `resolved`) of kind `k` -/
def nameFor (F : Facts) (k : Kind) (hostport resolved : Name) : Name :=
  match k with
  | .startTls => startTlsName F.stripsPort hostport
  | .socketTls => socketTlsName F.setsHostname hostport resolved
  | .httpTls => urlHostname hostport            -- gorilla/websocket derives it from the URL
  | .stdioTls => []

/-- is a session established?  `co`/`so` client / server options; the server presents its first
    certificate, the client its first certificate when asked. -/
def established (X : X509) (F : Facts) (k : Kind) (hostport resolved : Name) (co so : Opts) : Bool :=
  match clientCfgFor F.sites k co, serverGetTlsConfig F.guardErrNil so with
  | .ok ccfg, .ok scfg =>
    match scfg.certs.head? with
    | none => false                                   -- no certificate: no TLS / StartTLS offered (C04's matter)
    | some peer =>
      clientAccepts X { ccfg with serverName := nameFor F k hostport resolved } peer
        && serverAdmits X scfg ccfg.certs.head?
  | _, _ => false


/-! ## histories: several connection attempts through ONE certificate manager

    `Upstreams.open` walks the fail-over list with one manager, a lost session is re-opened with the
    same manager, and one client configuration serves upstreams of several kinds.  Every kind writes
    into the `*tls.Config` object it gets (Socket.Connect: ServerName when empty; startTls:
    ServerName; InputOutput.Connect: InsecureSkipVerify), so what an attempt hands to crypto/tls is a
    function of the options and the upstream alone only if the manager hands out a new object on
    every call.  That is the regenerated fact SA.Gen.getTlsConfigFreshPerCall; the model below keeps
    the manager's state explicit so that the theorem (C05_history_independent) depends on it. -/

/-- what the manager keeps between two calls of GetTlsConfig: nothing, or the object it will hand out again -/
abbrev Mgr := Option TlsCfg

/-- ClientConfig.GetTlsConfig on a manager in state `m`; `fresh`: every call builds a new object,
    otherwise the object of the first successful call is handed out again -/
def mgrGet (fresh : Bool) (o : Opts) (m : Mgr) : Res TlsCfg :=
  if fresh then clientGetTlsConfig o
  else
    match m with
    | some c => .ok (if o.flag then { c with insecureSkipVerify := true } else c)
    | none => clientGetTlsConfig o

/-- one connection attempt: the upstream (kind, `host:port`, what it resolves to, whether the peer
    answers on the carrier) and the options of the server behind it -/
structure Attempt where
  kind : Kind
  hostport : Name
  resolved : Name
  up : Bool
  so : Opts
  /-- the server INSTANCE behind the upstream (one listener, one set of session-ticket keys); attempts of a history
      that reach the same running server carry the same `inst`, a restarted server a new one -/
  inst : String := ""
  deriving DecidableEq, Repr

/-- server.go: STARTTLS is offered iff the server's config loads and carries a certificate -/
def offersStartTls (F : Facts) (so : Opts) : Bool :=
  match serverGetTlsConfig F.guardErrNil so with
  | .ok scfg => !scfg.certs.isEmpty
  | _ => false

/-- does the attempt get as far as asking the manager for a config?  TLS socket, websocket and stdio
    ask before they dial / shake hands; StartTLS asks once the server has offered STARTTLS -/
def Attempt.asks (F : Facts) (a : Attempt) : Bool :=
  match a.kind with
  | .startTls => a.up && offersStartTls F a.so
  | _ => true

/-- what the upstream kind writes into the object it got, before crypto/tls sees it -/
def kindWrites (F : Facts) (k : Kind) (hostport : Name) (c : TlsCfg) : TlsCfg :=
  let c := if forcesInsecure F.sites k then { c with insecureSkipVerify := true } else c
  match k with
  | .startTls => { c with serverName := startTlsName F.stripsPort hostport }
  | .socketTls =>
    if c.serverName.isEmpty && F.setsHostname then { c with serverName := urlHostname hostport } else c
  | .httpTls => c
  | .stdioTls => c

/-- the name crypto/tls verifies, given the object: its ServerName, or what the library derives
    when that is empty (tls.Dial: from the dialled address; gorilla/websocket: from the URL) -/
def effName (k : Kind) (hostport resolved : Name) (c : TlsCfg) : Name :=
  if !c.serverName.isEmpty then c.serverName
  else
    match k with
    | .socketTls => dialHostname resolved
    | .httpTls => urlHostname hostport
    | _ => []

/-- one attempt on a manager in state `m`: the object handed to crypto/tls (`none`: no config was
    asked for, or it did not load) and the manager's state afterwards -/
def attemptOn (F : Facts) (fresh : Bool) (o : Opts) (a : Attempt) (m : Mgr) : Option TlsCfg × Mgr :=
  if a.asks F then
    match mgrGet fresh o m with
    | .ok c =>
      let c' := kindWrites F a.kind a.hostport c
      (some c', if fresh then m else some c')
    | _ => (none, m)
  else (none, m)

/-- is the session established, given what the attempt handed to crypto/tls? -/
def sessionWith (X : X509) (F : Facts) (a : Attempt) : Option TlsCfg → Bool
  | none => false
  | some ccfg =>
    a.up &&
      match serverGetTlsConfig F.guardErrNil a.so with
      | .ok scfg =>
        (match scfg.certs.head? with
         | none => false
         | some peer =>
           clientAccepts X { ccfg with serverName := effName a.kind a.hostport a.resolved ccfg } peer
             && serverAdmits X scfg ccfg.certs.head?)
      | _ => false

/-- does the upstream's `Connect` return without error (that is what stops the fail-over walk)?
    With TLS 1.3 the client's handshake completes before the server has verified the client
    certificate.  A StartTLS upstream reads nothing after its TLS handshake, so a server that turns
    the client certificate down shows only when the first stream is opened; the other kinds run the
    socketace handshake over the TLS session inside Connect and see the refusal there. -/
def connectsWith (X : X509) (F : Facts) (a : Attempt) (c : Option TlsCfg) : Bool :=
  match a.kind with
  | .startTls =>
    (match c with
     | none => false
     | some ccfg =>
       a.up &&
         match serverGetTlsConfig F.guardErrNil a.so with
         | .ok scfg =>
           (match scfg.certs.head? with
            | none => false
            | some peer => clientAccepts X { ccfg with serverName := effName a.kind a.hostport a.resolved ccfg } peer)
         | _ => false)
  | _ => sessionWith X F a c

/-- what is observed of one attempt -/
structure Outcome where
  cfg : Option TlsCfg
  est : Bool
  deriving DecidableEq, Repr

/-- the attempt on its own: a function of the client options and the upstream ONLY -/
def alone (X : X509) (F : Facts) (o : Opts) (a : Attempt) : Outcome :=
  let c := (attemptOn F true o a none).1
  ⟨c, sessionWith X F a c⟩

/-! ### what crypto/tls itself may remember between connections: session tickets

    A Go TLS server issues session tickets by default (one set of ticket keys per `tls.Config`, i.e. per listener for
    the TLS-socket and https carriers, whose config is built once at start-up; the StartTLS and stdio servers build a
    config per connection, so their tickets are worthless for the next connection).  A client resumes only when its
    config carries a `ClientSessionCache` holding a ticket under the same cache key (the ServerName).  A RESUMED
    handshake exchanges no certificates: the client checks that the remembered server certificate has not expired
    and names the ServerName (and that the original session was verified, unless InsecureSkipVerify) - NOT that it
    chains to the RootCAs of the config in force now; the server takes the client certificate of the ORIGINAL
    session as presented.  The code sets no such cache (regenerated fact SA.Gen.tlsSessionStateSites); the model
    keeps the ticket store explicit so that the history theorems depend on that. -/

/-- an entry of a client-side session cache -/
structure Ticket where
  cache : Nat                    -- the cache object it sits in
  key : Name                     -- cache key: the ServerName handed to crypto/tls
  inst : String                  -- the server instance whose ticket keys sealed it
  peer : String                  -- server certificate of the original session
  verified : Bool                -- the original session verified the server's chain
  clientCert : Option String     -- client certificate the server accepted in the original session
  deriving DecidableEq, Repr

/-- servers whose `tls.Config` (hence ticket keys) lives as long as the listener: socket_server.go, http_server.go -/
def keepsTickets : Kind → Bool
  | .socketTls => true
  | .httpTls => true
  | _ => false

/-- crypto/tls: may the handshake of attempt `a` (client config `ccfg`, server config `scfg`) be resumed from `t`? -/
def resumable (X : X509) (F : Facts) (a : Attempt) (ccfg scfg : TlsCfg) (t : Ticket) : Bool :=
  F.sessionCache == some t.cache && t.inst == a.inst && t.key == effName a.kind a.hostport a.resolved ccfg &&
    X.validNow t.peer &&
    (ccfg.insecureSkipVerify || (t.verified && X.matchesName t.key t.peer)) &&
    (match scfg.clientAuth with
     | .noClientCert => t.clientCert.isNone
     | .requireAndVerifyClientCert =>
       match t.clientCert with
       | some c => X.validNow c
       | none => false)

/-- the session of one attempt given the ticket store `ts`, and the store afterwards -/
def sessionWithT (X : X509) (F : Facts) (a : Attempt) (c : Option TlsCfg) (ts : List Ticket) : Bool × List Ticket :=
  match F.sessionCache, c with
  | some id, some ccfg =>
    if a.up && keepsTickets a.kind then
      match serverGetTlsConfig F.guardErrNil a.so with
      | .ok scfg =>
        if ts.any (resumable X F a ccfg scfg) then (true, ts)
        else
          let est := sessionWith X F a c
          (est,
            match est, scfg.certs.head? with
            | true, some peer =>
              { cache := id, key := effName a.kind a.hostport a.resolved ccfg, inst := a.inst, peer := peer,
                verified := !ccfg.insecureSkipVerify,
                clientCert := (match scfg.clientAuth with
                               | .noClientCert => none
                               | .requireAndVerifyClientCert => ccfg.certs.head?) } :: ts
            | _, _ => ts)
      | _ => (false, ts)
    else (sessionWith X F a c, ts)
  | _, _ => (sessionWith X F a c, ts)

/-- one step of a history: the client configuration IN FORCE for this attempt (the options may change between two
    attempts: a CA file replaced on disk, a reloaded configuration, another configuration object of the process),
    whether it is made through a configuration object of its own, and the upstream -/
structure Step where
  co : Opts
  newMgr : Bool := false
  att : Attempt
  deriving DecidableEq, Repr

/-- a history of attempts made by ONE process.  `failover`: the walk of `Upstreams.open`, which
    stops at the first upstream whose Connect succeeds (the rest are not tried: `none`); otherwise every
    attempt is made (connect, disconnect, connect again).  Threaded through the attempts: the state of the
    configuration object (`Mgr`) and what crypto/tls remembers (`List Ticket`). -/
def runHist (X : X509) (F : Facts) (fresh : Bool) (failover : Bool) : List Step → Mgr → List Ticket → List (Option Outcome)
  | [], _, _ => []
  | s :: ss, m, ts =>
    let r := attemptOn F fresh s.co s.att (if s.newMgr then none else m)
    let e := sessionWithT X F s.att r.1 ts
    let con := if e.1 && !sessionWith X F s.att r.1 then true else connectsWith X F s.att r.1
    some ⟨r.1, e.1⟩ ::
      (if failover && con then ss.map (fun _ => none)
       else runHist X F fresh failover ss (if s.newMgr then m else r.2) e.2)

/-- a history in which every attempt is made with the same options through the one configuration object -/
def stepsOf (o : Opts) (as : List Attempt) : List Step := as.map (fun a => { co := o, att := a })

/-! ## reference oracle and certificate table of the harness PKI (driver only) -/

structure CertAttrs where
  signer : String
  names : List String
  expired : Bool

def certTable : List (String × CertAttrs) := [
  ("good", ⟨"A", ["server.test", "localhost", "127.0.0.1", "::1"], false⟩),
  ("nameonly", ⟨"A", ["server.test", "localhost"], false⟩),
  ("iponly", ⟨"A", ["127.0.0.1"], false⟩),
  ("wronghost", ⟨"A", ["other.test", "10.9.9.9"], false⟩),
  ("untrusted", ⟨"B", ["server.test", "localhost", "127.0.0.1", "::1"], false⟩),
  ("expired", ⟨"A", ["server.test", "localhost", "127.0.0.1", "::1"], true⟩),
  -- validity boundary: signed by the harness at the moment of use (go/harness/c05_pki.go);
  -- `expired` = outside the validity period at that moment
  ("exp1m", ⟨"A", ["server.test", "localhost", "127.0.0.1", "::1"], true⟩),      -- NotAfter = now - 60 s
  ("exp1s", ⟨"A", ["server.test", "localhost", "127.0.0.1", "::1"], true⟩),      -- NotAfter = now - 1 s
  ("notyet", ⟨"A", ["server.test", "localhost", "127.0.0.1", "::1"], true⟩),     -- NotBefore = now + 120 s
  ("fresh", ⟨"A", ["server.test", "localhost", "127.0.0.1", "::1"], false⟩),     -- now - 60 s … now + 120 s
  -- issued by CA S: the system trust store of the harness process, configured nowhere
  ("sys", ⟨"S", ["server.test", "localhost", "127.0.0.1", "::1"], false⟩),
  ("csys", ⟨"S", [], false⟩),
  ("cgood", ⟨"A", [], false⟩),
  ("cforeign", ⟨"B", [], false⟩),
  ("cexpired", ⟨"A", [], true⟩), ("cexp1m", ⟨"A", [], true⟩), ("cexp1s", ⟨"A", [], true⟩),
  ("cnotyet", ⟨"A", [], true⟩), ("cfresh", ⟨"A", [], false⟩)]

/-- the sites of the code that set a verification-affecting field of a `tls.Config`, and where
    the model mirrors each (compared with the regenerated `SA.Gen.tlsVerifFieldSites` in
    `C05_verification_field_inventory`).  The model's `TlsCfg` has exactly the fields named here;
    `Time`, `VerifyPeerCertificate`, `VerifyConnection`, `GetConfigForClient` are set nowhere, so the
    config handed to crypto/tls verifies with the wall clock and the library's own procedure. -/
def modelledVerifFieldSites : List (String × String × String) := [
  ("internal/client/upstream/input_output.go", "InputOutput.Connect", "InsecureSkipVerify"),  -- forcesInsecure / kindWrites
  ("internal/client/upstream/socket.go", "Socket.Connect", "ServerName"),                     -- socketTlsName / kindWrites
  ("internal/socketace/client.go", "ClientConnection.startTls", "ServerName"),                -- startTlsName
  ("internal/util/cert/cert.go", "ClientConfig.GetTlsConfig", "InsecureSkipVerify"),          -- clientGetTlsConfig
  ("internal/util/cert/cert.go", "Config.addCaCertificates", "ClientCAs"),                    -- addCaCertificates
  ("internal/util/cert/cert.go", "Config.addCaCertificates", "RootCAs"),                      -- addCaCertificates
  ("internal/util/cert/cert.go", "ServerConfig.GetTlsConfig", "ClientAuth")]                  -- serverGetTlsConfig

def serverCertClasses : List String :=
  ["good", "nameonly", "wronghost", "untrusted", "expired", "exp1m", "exp1s", "notyet", "fresh", "sys"]
def clientCertClasses : List String :=
  ["none", "good", "foreign", "expired", "exp1m", "exp1s", "notyet", "fresh", "sys"]

/-- the CA option of an `authmatrix` / `tlshist` op: CA A or CA B configured inline, or none -/
def caTokens : List String := ["A", "-", "B"]
def caSrcOf (t : String) : Src := if t = "A" ∨ t = "B" then ⟨none, some (.cas [t])⟩ else {}

/-! ### reference oracle for x509.VerifyHostname on the names the harness uses

    `[ip]` is read as the IP; an IP literal is compared as an address with the certificate's IP entries only
    (`::ffff:127.0.0.1` equals `127.0.0.1`); anything else is a DNS name: valid host-name characters only,
    compared case-insensitively, one trailing dot ignored, with the DNS entries only.  A zone (`%`), an
    unbracketed `host:port` left-over, an empty string: not a name, matches nothing. -/

def lowerChar (c : Char) : Char := if 'A' ≤ c && c ≤ 'Z' then Char.ofNat (c.toNat + 32) else c

def splitDots : Name → List Name
  | [] => [[]]
  | c :: cs =>
    match splitDots cs with
    | [] => [[c]]
    | x :: xs => if c = '.' then [] :: x :: xs else (c :: x) :: xs

/-- dotted quad, every part 1-3 digits (no leading zero beyond "0"), at most 255 -/
def isIPv4 (n : Name) : Bool :=
  let parts := splitDots n
  parts.length == 4 && parts.all (fun q =>
    !q.isEmpty && q.length ≤ 3 && q.all isDigit && (q.length == 1 || q.head? != some '0') &&
      (q.foldl (fun a c => a * 10 + (c.toNat - 48)) 0) ≤ 255)

/-- the IPv6 literals the harness writes, with the address they denote -/
def refIPv6 : List (String × String) :=
  [("::1", "::1"), ("0:0:0:0:0:0:0:1", "::1"), ("::ffff:127.0.0.1", "127.0.0.1"), ("::", "::")]

/-- `some (true, a)`: IP address a; `some (false, d)`: DNS name d (lower case, no trailing dot); `none`: not a name -/
def canonName (n : Name) : Option (Bool × String) :=
  let inner := if n.head? = some '[' ∧ n.getLast? = some ']' ∧ n.length ≥ 3 then (n.drop 1).dropLast else n
  let str := String.ofList (inner.map lowerChar)
  match refIPv6.lookup str with
  | some a => some (true, a)
  | none =>
    if isIPv4 inner then some (true, String.ofList inner)
    else if inner != n then none                                  -- brackets around something that is no IP
    else
      let d := if n.getLast? = some '.' then n.dropLast else n
      if d.isEmpty || !(d.all (fun c => c.isAlphanum || c = '-' || c = '.' || c = '_')) || d.head? = some '.' ||
          isIPv4 d then none
      else some (false, String.ofList (d.map lowerChar))

def nameIsIP (s : String) : Bool := isIPv4 s.toList || s.toList.contains ':'

def refX509 : X509 where
  chains pool c :=
    match pool, certTable.lookup c with
    | some ids, some a => ids.contains a.signer
    | none, some a => sysAnchors.contains a.signer    -- nil pool: crypto/tls verifies against the system store
    | _, none => false
  validNow c := match certTable.lookup c with | some a => !a.expired | none => false
  matchesName n c :=
    match certTable.lookup c, canonName n with
    | some a, some (ip, v) => a.names.any (fun e => e == v && nameIsIP e == ip)
    | _, _ => false

/-- name resolution of the hosts the harness can reach -/
def refResolve (hostport : Name) : Name :=
  match splitLastColon hostport with
  | some (h, p) => if h.map lowerChar = "localhost".toList then "127.0.0.1".toList ++ ':' :: p else hostport
  | none => hostport

/-- the host token of an `authmatrix` / `tlshist` op: a literal host name, or `=<hex>` = the host part exactly as
    the user writes it in the upstream URL (may be empty, bracketed, carry userinfo or a zone) -/
def decodeHostTok (t : String) : Option (Name × Bool) :=
  if t.startsWith "=" then
    match (fromHex (String.ofList (t.toList.drop 1))).bind (fun bs => (String.fromUTF8? ⟨bs.toArray.map (·.toUInt8)⟩).map (·.toList)) with
    | some n => some (n, true)
    | none => none
  else some (t.toList, false)

/-- net/url: the authority's userinfo ends at the last '@' -/
def stripUserinfo (n : Name) : Name :=
  match (n.reverse.span (· != '@')) with
  | (afterRev, _ :: _) => afterRev.reverse
  | (_, []) => n

/-! ## line protocol -/

def parseFileTok (okBlob otherBlob : Blob) : String → Option (Option (Option Blob))
  | "-" => some none
  | "ok" => some (some (some okBlob))
  | "other" => some (some (some otherBlob))
  | "missing" => some (some none)
  | "empty" => some (some (some .empty))
  | "bad" => some (some (some .garbage))
  | _ => none

def parseCertFile (t : String) : Option (Option (Option Blob)) :=
  if t = "other" then none else parseFileTok (.cert "good") .nil t

def parseKeyFile (t : String) : Option (Option (Option Blob)) :=
  parseFileTok (.key "good" .plain) (.key "other" .plain) t

def parseCaFile : String → Option (Option (Option Blob))
  | "A" => some (some (some (.cas ["A"])))
  | "AB" => some (some (some (.cas ["A", "B"])))
  | "ok" => none
  | "other" => none
  | t => parseFileTok .nil .nil t

def parseCertInline : String → Option (Option Blob)
  | "-" => some none
  | "ok" => some (some (.cert "good"))
  | "ws" => some (some .empty)
  | "bad" => some (some .garbage)
  | _ => none

def parseKeyInline : String → Option (Option Blob)
  | "-" => some none
  | "ok" => some (some (.key "good" .plain))
  | "other" => some (some (.key "other" .plain))
  | "ws" => some (some .empty)
  | "bad" => some (some .garbage)
  | "enc" => some (some (.key "good" .pkcs8))
  | "legacy" => some (some (.key "good" .legacy))
  | _ => none

def parseCaInline : String → Option (Option Blob)
  | "-" => some none
  | "A" => some (some (.cas ["A"]))
  | "B" => some (some (.cas ["B"]))
  | "AB" => some (some (.cas ["A", "B"]))
  | "ws" => some (some .empty)
  | "bad" => some (some .garbage)
  | "mixed" => some (some (.cas ["A"]))
  | _ => none

def parsePw : String → Option Pw
  | "-" => some .none
  | "right" => some .right
  | "wrong" => some .wrong
  | _ => none

def parseBit : String → Option Bool
  | "0" => some false
  | "1" => some true
  | _ => none

def parseOpts (t : List String) : Option Opts :=
  match t with
  | [cf, c, kf, k, pw, af, a, fl] => do
    let cf ← parseCertFile cf
    let c ← parseCertInline c
    let kf ← parseKeyFile kf
    let k ← parseKeyInline k
    let pw ← parsePw pw
    let af ← parseCaFile af
    let a ← parseCaInline a
    let fl ← parseBit fl
    pure { cert := ⟨cf, c⟩, key := ⟨kf, k⟩, pw := pw, ca := ⟨af, a⟩, flag := fl }
  | _ => none

def insertSorted (x : String) : List String → List String
  | [] => [x]
  | y :: ys => if x ≤ y then x :: y :: ys else y :: insertSorted x ys

def poolStr : Option (List String) → String
  | none => "-"
  | some ids => if ids.isEmpty then "empty" else ",".intercalate (ids.foldr insertSorted [])

def errStr : ErrClass → String
  | .certfile => "certfile" | .keyfile => "keyfile" | .keypass => "keypass" | .keydecrypt => "keydecrypt"
  | .keypair => "keypair" | .cafile => "cafile" | .caparse => "caparse"

def nameHex (n : Name) : String := toHex ((String.ofList n).toUTF8.toList.map (·.toNat))

def resStr : Res TlsCfg → String
  | .panic => "PANIC"
  | .err e => "err " ++ errStr e
  | .ok c =>
    "ok certs=" ++ toString c.certs.length ++ " root=" ++ poolStr c.rootCAs ++ " cca=" ++ poolStr c.clientCAs
      ++ " isv=" ++ (if c.insecureSkipVerify then "1" else "0") ++ " auth=" ++ toString c.clientAuth.code
      ++ " name=" ++ nameHex c.serverName
      -- no clock of its own, no verification callback, no per-connection config: the model has no
      -- such field because no site in the code sets one (Props: C05_verification_field_inventory)
      ++ " hooks=-"

def bytesToName (bs : List Nat) : Option Name := (String.fromUTF8? ⟨bs.toArray.map (·.toUInt8)⟩).map (·.toList)

def udpStr : UdpStart → String
  | .plain => "plain" | .encrypted => "encrypted" | .errAesKey => "err aeskey"

def leafSrc (id : String) : Opts → Opts := fun o =>
  { o with cert := ⟨none, some (.cert id)⟩, key := ⟨none, some (.key id .plain)⟩ }

def leafOpts (id : String) (o : Opts) : Opts := leafSrc id o

def handleTlscfg (toks : List String) : String :=
  match toks with
  | "cfg" :: kind :: rest =>
    (match parseOpts rest with
     | none => "bad-op"
     | some o =>
       match kind with
       | "config" => resStr (configGetTlsConfig o)
       | "client" => resStr (clientGetTlsConfig o)
       | "server" => resStr (serverGetTlsConfig SA.Gen.serverAuthGuardErrNil o)
       | _ => "bad-op")
  | ["cfg2", k1, ca1, k2, ca2] =>
    -- two configuration objects loaded in one process (1, 2, 1 again): each load is a function of ITS OWN options
    let caOf : String → Option Src
      | "-" => some {}
      | "A" => some ⟨none, some (.cas ["A"])⟩
      | "B" => some ⟨none, some (.cas ["B"])⟩
      | "AB" => some ⟨none, some (.cas ["A", "B"])⟩
      | _ => none
    let load (kind : String) (ca : Src) : Option (Res TlsCfg) :=
      let o : Opts := leafOpts "good" { ca := ca }
      match kind with
      | "config" => some (configGetTlsConfig o)
      | "client" => some (clientGetTlsConfig o)
      | "server" => some (serverGetTlsConfig SA.Gen.serverAuthGuardErrNil { o with flag := true })
      | _ => none
    let show1 : Res TlsCfg → String
      | .ok c => "pools root=" ++ poolStr c.rootCAs ++ " cca=" ++ poolStr c.clientCAs
      | .err e => "err " ++ errStr e
      | .panic => "PANIC"
    (match caOf ca1, caOf ca2 with
     | some s1, some s2 =>
       (match load k1 s1, load k2 s2 with
        | some r1, some r2 => show1 r1 ++ " | " ++ show1 r2 ++ " | " ++ show1 r1
        | _, _ => "bad-op")
     | _, _ => "bad-op")
  | ["startname", h, _] =>
    (match (fromHex h).bind bytesToName with
     | some n => "name " ++ nameHex (startTlsName SA.Gen.startTlsStripsPort n)
     | none => "bad-op")
  | ["startcfg", h] =>
    -- a VERIFYING client config (CA A, InsecureSkipVerify off) through the real startTls against the `good` server:
    -- the name written into the config, the InsecureSkipVerify it carries afterwards, and the outcome
    (match (fromHex h).bind bytesToName with
     | some n =>
       let name := startTlsName SA.Gen.startTlsStripsPort n
       let cfg : TlsCfg := { rootCAs := some ["A"], serverName := name }
       "name " ++ nameHex name ++ " isv=0 " ++ (if clientAccepts refX509 cfg "good" then "est" else "ref")
     | none => "bad-op")
  | ["udp", side, pw] =>
    let keyLen := if side = "client" then some SA.Gen.pbkdf2KeyLenClient else if side = "server" then some SA.Gen.pbkdf2KeyLenServer else none
    let pw : Option (Option (List Nat)) :=
      if pw = "-" then some none else if pw = "e" then some (some []) else
        match fromHex pw with
        | some [] => none
        | some bs => some (some bs)
        | none => none
    (match keyLen, pw with
     | some n, some p => udpStr (udpStart n p)
     | _, _ => "bad-op")
  | _ => "bad-op"

def parseKind : String → Option (Kind × Bool)     -- Bool: hostname must be "-"
  | "pipe" => some (.startTls, false)
  | "tcp" => some (.startTls, false)
  | "udp" => some (.startTls, false)
  | "ws" => some (.startTls, false)
  | "wss" => some (.httpTls, false)
  | "tcp+tls" => some (.socketTls, false)
  | "stdin+tls" => some (.stdioTls, true)
  | _ => none

def handleAuthmatrix (toks : List String) : String :=
  match toks with
  | [carrier, hostname, scert, ins, cca, ccert, sreq, sca] =>
    let r : Option String := do
      let (k, noHost) ← parseKind carrier
      let ins ← parseBit ins
      let sreq ← parseBit sreq
      if !(serverCertClasses.contains scert) then none
      if !(clientCertClasses.contains ccert) then none
      if !(caTokens.contains cca) || !(caTokens.contains sca) then none
      if noHost != (hostname == "-") then none
      let (hostPart, special) ← decodeHostTok hostname
      if special && noHost then none
      if !special && (carrier == "tcp" || carrier == "tcp+tls" || carrier == "udp" || carrier == "ws" || carrier == "wss") && !(hostname == "localhost" || hostname == "127.0.0.1") then none
      if !special && carrier == "pipe" && hostname.toList.any (fun c => c == ':' || c == '/' || c == '[' || c == ']') then none
      let caSrc := caSrcOf
      let so : Opts := leafSrc scert { ca := caSrc sca, flag := sreq }
      let co0 : Opts := { ca := caSrc cca, flag := ins }
      let co : Opts := if ccert = "none" then co0 else leafSrc ("c" ++ ccert) co0
      let hostport : Name := if noHost then [] else stripUserinfo hostPart ++ ":4443".toList
      pure (if established refX509 genFacts k hostport (refResolve hostport) co so then "established" else "refused")
    r.getD "bad-op"
  | _ => "bad-op"

/-! ### `tlshist`: histories through one manager -/

def splitOn1 (sep : Char) (s : String) : List String := (s.splitOn (String.singleton sep))

/-- per-attempt variation of a `tlshist` attempt (4th field, tokens joined by '/'): the client configuration in
    force for THIS attempt (`c<CA>`, `k<client certificate>`, `i<0|1>`), `r` = the server behind the attempt is started
    anew for it (taking over the port of the carrier's last server: new listener, new ticket keys), `v12` = the
    handshake is capped at TLS 1.2 (no effect on the model's outcome) -/
structure Vari where
  cca : Option String := none
  ccert : Option String := none
  ins : Option Bool := none
  restart : Bool := false
  any : Bool := false

def parseVariTok (v : Vari) (tok : String) : Option Vari :=
  match tok.toList with
  | ['r'] => some { v with restart := true, any := true }
  | ['v', '1', '2'] => some { v with any := true }
  | ['i', '0'] => some { v with ins := some false, any := true }
  | ['i', '1'] => some { v with ins := some true, any := true }
  | 'c' :: rest => if caTokens.contains (String.ofList rest) then some { v with cca := some (String.ofList rest), any := true } else none
  | 'k' :: rest => if clientCertClasses.contains (String.ofList rest) then some { v with ccert := some (String.ofList rest), any := true } else none
  | _ => none

def parseVari (field : String) : Option Vari :=
  (splitOn1 '/' field).foldlM parseVariTok {}

/-- a parsed attempt token: the upstream, its carrier (servers of a history are shared per carrier + certificate), and
    the variation -/
structure PAtt where
  att : Attempt
  carrier : String
  scert : String
  vari : Vari

def parseAttempt (sreq : Bool) (sca : String) (tok : String) : Option PAtt := do
  let (carrier, hostname, scert, vari) ←
    (match splitOn1 ',' tok with
     | [c, h, s] => some (c, h, s, ({} : Vari))
     | [c, h, s, v] => (parseVari v).map (fun v => (c, h, s, v))
     | _ => none)
  if !(["pipe", "tcp", "tcp+tls", "stdin+tls", "wss"].contains carrier) then none
  let (k, noHost) ← parseKind carrier
  if !(("dead" :: "iponly" :: serverCertClasses).contains scert) then none
  if !(caTokens.contains sca) then none
  if noHost != (hostname == "-") then none
  let (hostPart, special) ← decodeHostTok hostname
  if special && noHost then none
  if !special && (carrier == "tcp" || carrier == "tcp+tls" || carrier == "wss") && !(hostname == "localhost" || hostname == "127.0.0.1") then none
  if !special && carrier == "pipe" && (hostname.isEmpty || hostname.toList.any (fun c => c == ':' || c == '/' || c == '[' || c == ']')) then none
  let caSrc : Src := caSrcOf sca
  let up := scert != "dead"
  let so : Opts := leafSrc (if up then scert else "good") { ca := caSrc, flag := sreq }
  let hostport : Name := if noHost then [] else stripUserinfo hostPart ++ ":4443".toList
  pure { att := { kind := k, hostport := hostport, resolved := refResolve hostport, up := up, so := so },
         carrier := carrier, scert := scert, vari := vari }

/-- client options of a `tlshist` history / attempt -/
def histOpts (ins : Bool) (cca ccert : String) : Opts :=
  let co0 : Opts := { ca := caSrcOf cca, flag := ins }
  if ccert = "none" then co0 else leafSrc ("c" ++ ccert) co0

/-- the steps of a history: every attempt with the client options in force for it and the identity of the server
    instance it reaches (`carrier/certificate/generation`; the generation of a carrier goes up with every `r`) -/
def mkSteps (ins : Bool) (cca ccert : String) (newMgr : Bool) : List PAtt → List (String × Nat) → List Step
  | [], _ => []
  | p :: ps, gens =>
    let g0 := ((gens.find? (fun e => e.1 == p.carrier)).map (·.2)).getD 0
    let g := if p.vari.restart then g0 + 1 else g0
    let gens' := (p.carrier, g) :: gens.filter (fun e => e.1 != p.carrier)
    { co := histOpts (p.vari.ins.getD ins) (p.vari.cca.getD cca) (p.vari.ccert.getD ccert), newMgr := newMgr,
      att := { p.att with inst := p.carrier ++ "/" ++ p.scert ++ "/" ++ toString g } } :: mkSteps ins cca ccert newMgr ps gens'

def outcomeStr : Option Outcome → String
  | none => "skip:none:0"
  | some r =>
    (if r.est then "est" else "ref") ++ ":" ++
      (match r.cfg with
       | none => "none:0"
       | some c => nameHex c.serverName ++ ":" ++ (if c.insecureSkipVerify then "1" else "0"))

def handleTlshist (toks : List String) : String :=
  match toks with
  | mode :: ins :: cca :: ccert :: sreq :: sca :: atts =>
    let r : Option String := do
      -- seq: one configuration object, changed in place between attempts; seqn: a configuration object per attempt
      let (failover, newMgr) ← (if mode = "list" then some (true, false) else if mode = "seq" then some (false, false)
        else if mode = "seqn" then some (false, true) else none)
      let ins ← parseBit ins
      let sreq ← parseBit sreq
      if !(clientCertClasses.contains ccert) then none
      if !(caTokens.contains cca) || !(caTokens.contains sca) then none
      if atts.isEmpty || atts.length > 6 then none
      let ps ← atts.mapM (parseAttempt sreq sca)
      if failover && ps.any (·.vari.any) then none
      pure (" ".intercalate ((runHist refX509 genFacts SA.Gen.getTlsConfigFreshPerCall failover
        (mkSteps ins cca ccert newMgr ps []) none []).map outcomeStr))
    r.getD "bad-op"
  | _ => "bad-op"

end SA.TlsConfig

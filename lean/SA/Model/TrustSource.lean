/-
  C05 — the configured certificate / key / CA *files* under faults.

  cert.Config reads its files anew for every `GetTlsConfig()` (= for every connection and every StartTLS), so a
  file may be unreadable at exactly that moment: being rotated, volume not mounted, a directory in its place, a
  dangling symlink, a typo.  The property needs such a moment to END the attempt: a read error that is swallowed
  leaves `RootCAs` / `ClientCAs` nil, and crypto/tls then verifies the peer against the machine's default trust
  store instead of the configured CA.

  SA.Model.TlsConfig already mirrors the getters with "file option set, file unreadable" = `file := some none`
  and answers `.err`.  Here that answer is made to DEPEND on the code: `ReadFacts` says, per getter, whether the
  error of `ioutil.ReadFile` reaches a `return` (regenerated: SA.Gen.c05FileReadFates, identifiers resolved to
  their declarations so that a shadowed `err` is told from the one returned).  Where it does not, the getter is
  modelled as what Go then returns - `(nil, nil)`, "nothing configured" - by rewriting the source before the
  unchanged model runs (`degrade`).
-/
import SA.Model.TlsConfig
import SA.Gen.C05Fail
namespace SA.TrustSource
open SA.TlsConfig

/-- per getter of cert.Config: does the error of reading the option's file reach the caller? -/
structure ReadFacts where
  cert : Bool
  key : Bool
  ca : Bool
  deriving DecidableEq, Repr

def fateOf (tbl : List (String × String)) (getter : String) : Bool :=
  tbl.any (fun p => p.1 == getter && p.2 == "propagated")

/-- the code as it is now -/
def genReadFacts : ReadFacts :=
  { cert := fateOf SA.Gen.c05FileReadFates "GetCertificate",
    key := fateOf SA.Gen.c05FileReadFates "GetPrivateKey",
    ca := fateOf SA.Gen.c05FileReadFates "GetCaCertificates" }

/-- an unreadable file whose read error is swallowed: the getter returns `(nil, nil)`, as if the file held nothing -/
def degradeSrc (propagates : Bool) (s : Src) : Src :=
  if !propagates && s.file == some none then { s with file := some (some .nil) } else s

def degrade (R : ReadFacts) (o : Opts) : Opts :=
  { o with cert := degradeSrc R.cert o.cert, key := degradeSrc R.key o.key, ca := degradeSrc R.ca o.ca }

/-- some configured file cannot be read at the moment the configuration is built -/
def unreadable (o : Opts) : Bool :=
  o.cert.file == some none || o.key.file == some none || o.ca.file == some none

/-- Config.GetTlsConfig under read facts `R` -/
def configR (R : ReadFacts) (o : Opts) : Res TlsCfg := configGetTlsConfig (degrade R o)

/-- session establishment under read facts `R` -/
def establishedR (R : ReadFacts) (X : X509) (F : Facts) (k : Kind) (hostport resolved : Name) (co so : Opts) : Bool :=
  established X F k hostport resolved (degrade R co) (degrade R so)

/-! ## `cafault <carrier> <side> <which> <state> <peer>`

    One end (`side`) takes one of its options (`which` = ca | cert | key) from a FILE that is in `state` at the moment
    of the connection; the other end is configured inline with CA A.  `peer` = the certificate class of the OTHER end
    (server classes for side = client, client classes for side = server).  The faulted end's own leaf is `good`. -/

def fileState (b : Blob) : String → Option (Option Blob)
  | "ok" => some (some b)
  | "missing" => some none
  | "dir" => some none
  | "dangling" => some none
  | "empty" => some (some .empty)
  | "garbage" => some (some .garbage)
  | _ => none

def inlineA : Src := ⟨none, some (.cas ["A"])⟩

def faultOpts (leaf : String) (which : String) (st : Option Blob → Option (Option Blob)) (flag : Bool) : Option Opts := do
  let certB : Blob := .cert leaf
  let keyB : Blob := .key leaf .plain
  let caB : Blob := .cas ["A"]
  match which with
  | "ca" => pure { cert := ⟨none, some certB⟩, key := ⟨none, some keyB⟩, ca := ⟨some (← st (some caB)), none⟩, flag := flag }
  | "cert" => pure { cert := ⟨some (← st (some certB)), none⟩, key := ⟨none, some keyB⟩, ca := inlineA, flag := flag }
  | "key" => pure { cert := ⟨none, some certB⟩, key := ⟨some (← st (some keyB)), none⟩, ca := inlineA, flag := flag }
  | _ => none

def cafaultOpts (side which state peer : String) : Option (Opts × Opts) := do
  let st : Option Blob → Option (Option Blob) := fun b => match b with
    | some b => fileState b state
    | none => none
  if which == "key" && state == "garbage" then none
  match side with
  | "client" =>
    if !(["good", "sys", "untrusted", "wronghost", "expired"].contains peer) then none
    let co ← faultOpts "cgood" which st false
    let so : Opts := leafSrc peer { ca := inlineA, flag := which != "ca" }
    pure (co, so)
  | "server" =>
    if !(["none", "good", "sys", "foreign", "expired"].contains peer) then none
    let so ← faultOpts "good" which st true
    let co0 : Opts := { ca := inlineA, flag := false }
    pure (if peer == "none" then co0 else leafSrc ("c" ++ peer) co0, so)
  | _ => none

def handleCafaultR (R : ReadFacts) (toks : List String) : String :=
  match toks with
  | [carrier, side, which, state, peer] =>
    let r : Option String := do
      let k ← match carrier with
        | "tcp" => some Kind.startTls
        | "tcp+tls" => some Kind.socketTls
        | _ => none
      let (co, so) ← cafaultOpts side which state peer
      let hostport : Name := "localhost:4443".toList
      pure (if establishedR R refX509 genFacts k hostport (refResolve hostport) co so then "established" else "refused")
    r.getD "bad-op"
  | _ => "bad-op"

def handleCafault : List String → String := handleCafaultR genReadFacts

end SA.TrustSource

/-
  C11 — the COMMIT steps of the DNS handshake under a path that fails once.

  After every probe phase the client makes the server adopt what was probed with one set-options exchange
  (SetEncodingUpstream, SetEncodingDownstream, AutodetectLazyMode, SwitchFragmentSize).  Each of the four functions
  is a retry loop over one exchange whose attempt can end in five ways (`Fate`): answered; query lost (the server
  never sees it); answer lost / undecodable (the server HAS applied the request); server error; an error equal to
  smux.ErrTimeout.  What the function does in the two failure branches (`OnFail`) and whether the client already
  uses the value it asks for is read from the source (SA.Gen.c11CommitReturns / c11CommitAssigns / c11CommitLoops),
  so `Shape.gen fn` changes with the code.

  Values are opaque strings (codec names, "0"/"1", fragment sizes).  Core Lean only.
-/
import SA.Gen.C11Commit
namespace SA.DnsCommit

inductive Fate | ok | ql | al | srvErr | tmo
  deriving DecidableEq, Repr

inductive OnFail | retErr | retNil | fallThrough | unknown
  deriving DecidableEq, Repr

inductive Ret | nil | err | unknown
  deriving DecidableEq, Repr

structure Shape where
  tries : Nat
  commErr : OnFail
  srvErr : OnFail
  /-- the client already uses the requested value and goes back to the default when the commit fails (codec and
      lazy steps); otherwise it adopts the value only when the server acknowledged it (fragment size) -/
  holdsReq : Bool
  deriving DecidableEq, Repr

structure St where
  cv : String
  sv : String
  n : Nat
  deriving DecidableEq, Repr

structure Step where
  shape : Shape
  req : String
  dflt : String

def failClient (s : Step) (st : St) : St := if s.shape.holdsReq then { st with cv := s.dflt } else st

/-- the retry loop; `fs` is the schedule of fates (exhausted = answered) -/
def loop (s : Step) : Nat → List Fate → St → Ret × St
  | 0, _, st => (.nil, failClient s st)          -- "no reply": every one of the four functions returns nil here
  | k + 1, fs, st =>
    let want := if s.shape.holdsReq then st.cv else s.req
    let st1 := { st with n := st.n + 1 }
    let onFail (a : OnFail) (st2 : St) : Ret × St :=
      let st3 := failClient s st2
      match a with
      | .retErr => (.err, st3)
      | .retNil => (.nil, st3)
      | .fallThrough => loop s k fs.tail st3
      | .unknown => (.unknown, st3)
    match (match fs with | [] => Fate.ok | f :: _ => f) with
    | .tmo => loop s k fs.tail st1
    | .ok => (.nil, { st1 with sv := want, cv := want })
    | .ql => onFail s.shape.commErr st1
    | .al => onFail s.shape.commErr { st1 with sv := want }
    | .srvErr => onFail s.shape.srvErr st1

def Step.init (s : Step) : St :=
  { cv := if s.shape.holdsReq then s.req else "0", sv := s.dflt, n := 0 }

def run (s : Step) (fs : List Fate) : Ret × St := loop s s.shape.tries fs s.init

/-! ### shape from the source -/

def guardComm : String := "loop && err != nil"
def guardSrv : String := "loop && !(err != nil) && resp.Err != nil"

def returnsUnder (fn g : String) : List String :=
  (SA.Gen.c11CommitReturns.filter (fun r => r.1 == fn && r.2.1 == g)).map (·.2.2)

def assignsUnder (fn g : String) : List String :=
  (SA.Gen.c11CommitAssigns.filter (fun r => r.1 == fn && r.2.1 == g)).map (·.2.2)

/-- what a branch does: no `return` = the loop goes on; `return err` where `err` is the variable bound by the call is
    an error in the communication-error branch (and nil in the server-error branch, where that err is nil) -/
def onFailOf (fn g : String) (errIsSet : Bool) : OnFail :=
  match returnsUnder fn g with
  | [] => .fallThrough
  | ["nil"] => .retNil
  | ["-"] => .retNil
  | ["err:call"] => if errIsSet then .retErr else .retNil
  | _ => .unknown

def triesOf (fn : String) : Nat := (SA.Gen.c11CommitTries.lookup fn).getD 0

def Shape.gen (fn : String) : Shape :=
  { tries := triesOf fn,
    commErr := onFailOf fn guardComm true,
    srvErr := onFailOf fn guardSrv false,
    holdsReq := !(assignsUnder fn guardComm).isEmpty }

def fnOfStep : String → Option String
  | "oUp" => some "SetEncodingUpstream"
  | "oDown" => some "SetEncodingDownstream"
  | "oLazy" => some "AutodetectLazyMode"
  | "oFrag" => some "SwitchFragmentSize"
  | _ => none

def dfltOfStep : String → String
  | "oFrag" => toString SA.Gen.c11ServerDefaultDownFrag
  | "oLazy" => "0"
  | _ => "b32"

def fateOf : String → Option Fate
  | "ql" => some .ql
  | "al" => some .al
  | "sf" => some .al      -- undecodable answer: the server has applied the request, the client sees an error
  | _ => none

def render (rest : String) (r : Ret × St) : String :=
  let hs := match r.1 with
    | .err => "err"
    | .nil => rest
    | .unknown => "unknown-shape"
  s!"hit hs={hs} client={r.2.cv} server={r.2.sv}"

/-- dnscommit <8 path tokens> <step> <fate> req=<v> rest=<ok|err> -/
def handle (toks : List String) : String :=
  match toks with
  | [_, _, _, _, _, _, _, _, step, fate, req, rest] =>
    if req == "req=-" then "nohit" else
    match fnOfStep step, fateOf fate, req.splitOn "=", rest.splitOn "=" with
    | some fn, some f, ["req", v], ["rest", rs] =>
      render rs (run { shape := Shape.gen fn, req := v, dflt := dfltOfStep step } [f])
    | _, _, _, _ => "malformed"
  | _ => "malformed"

end SA.DnsCommit

/-
  C01 on a lossy DNS path: the retransmission of a timed-out exchange.

  `ClientDnsConnection.SendAndReceive` sends one query and waits for its answer; if the exchange TIMES OUT it sends the
  same query again — `tries` attempts in all (time-outs 1 s, 2 s, …) — and any other error ends the call: the error
  goes up through `OutQueue.Write` to smux, which tears the session down (the fragment was already counted as written).
  Whether an expired exchange is *recognised* as a time-out depends on the error chain below it: the test looks at
  `errors.Cause(err)`, so a function on the way that re-creates the error from its text hides the time-out
  (`Gen.c01TimeoutCauseCuts`, regenerated) — and with `Gen.c07TimeoutTest = 0` the test never matches a wrapped error.

  The path is a schedule of fates, one per datagram exchange attempt, in the order the (serialised) client makes them.
-/
import SA.Gen.C07
import SA.Gen.C01ErrChain
namespace SA.DnsLoss

inductive Fate | ok | lost
  deriving DecidableEq, Repr

/-- one call of SendAndReceive with `t` attempts left: (did it succeed, what is left of the schedule).
    `keeps` = a timed-out exchange is recognised as such.  An exhausted schedule is a clean path. -/
def exchange (keeps : Bool) : Nat → List Fate → Bool × List Fate
  | 0, s => (false, s)
  | _ + 1, [] => (true, [])
  | _ + 1, .ok :: s => (true, s)
  | t + 1, .lost :: s => if keeps then exchange keeps t s else (false, s)

/-- `n` exchanges in a row (fragments and polls alike); the number that completed before the session was torn down -/
def transfer (keeps : Bool) (tries : Nat) : Nat → List Fate → Nat
  | 0, _ => 0
  | n + 1, s =>
      match exchange keeps tries s with
      | (true, s') => transfer keeps tries n s' + 1
      | (false, _) => 0

/-- losses at the head of the schedule -/
def lead : List Fate → Nat
  | .lost :: s => lead s + 1
  | _ => 0

/-- the longest run of consecutive losses -/
def maxRun : List Fate → Nat
  | [] => 0
  | .ok :: s => maxRun s
  | .lost :: s => max (lead s + 1) (maxRun s)

/-- what the code does (regenerated): is an expired exchange recognised as a time-out? -/
def codeKeeps : Bool := SA.Gen.c01TimeoutCauseCuts.isEmpty && SA.Gen.c07TimeoutTest == 1

/-- `<k>:<fates>[,…]` → schedule (q and a are both a lost attempt for the client) -/
def parseGroup (g : String) : Option (List Fate) :=
  match g.splitOn ":" with
  | [k, fs] =>
      match k.toNat? with
      | some kn =>
          if fs.isEmpty || !(fs.toList.all (fun c => c == 'q' || c == 'a')) then none
          else some (List.replicate kn Fate.ok ++ fs.toList.map (fun _ => Fate.lost))
      | none => none
  | _ => none

def parseSchedule (s : String) : Option (List Fate) :=
  if s == "-" then some [] else
  (s.splitOn ",").foldl (fun acc g => match acc, parseGroup g with
    | some a, some b => some (a ++ b)
    | _, _ => none) (some [])

/-- `dnsloss <mode> <len> <part> <seed> <schedule>`: the transfer arrives intact iff every exchange of the window the
    schedule covers completed -/
def handle (toks : List String) : String :=
  match toks with
  | [mode, len, part, seed, sch] =>
      if !(mode == "echo" || mode == "up" || mode == "down") then "bad-op" else
      match len.toNat?, part.toNat?, seed.toNat?, parseSchedule sch with
      | some n, some _, some _, some s =>
          if n == 0 then "bad-op" else
          let want := s.length + 1
          mode ++ " " ++ sch ++ (if transfer codeKeeps SA.Gen.c07Tries want s == want then " ok" else " cut")
      | _, _, _, _ => "bad-op"
  | _ => "bad-op"

end SA.DnsLoss

/-
  SA.Model.AcceptTimed — the accept-loop scheduler of SA.Model.Accept with one more kind of actor: a
  per-connection *handshake watchdog* (a timer armed when a connection is accepted, stopped when its session
  handshake returns, which closes a connection when it fires).  The code as it is arms no timer or deadline
  on the path Accept() → session handshake (regenerated fact `SA.Gen.acceptPathTimers = []`), i.e. it is the
  instance `Watchdog.none`, for which this model collapses to the untimed one (`trun_none`).  The other two
  instances are the two ways such a watchdog can pick its victim:

  * `own`    — the connection it was armed for (callback captures a per-iteration variable);
  * `shared` — whatever connection the loop accepted last (callback captures the loop's variable).

  Only the spawned loop (`spawn = true`) is modelled here: with an inline handshake no second peer is ever
  accepted while one stalls (C15_witness_stall).
-/
import SA.Model.Accept
import SA.Gen.C15
namespace SA.Accept

inductive Watchdog | none | own | shared
  deriving DecidableEq, Repr

structure TSt where
  base : ASt
  last : Option Nat        -- the connection accepted last (the loop's `conn` variable)
  closed : List Nat        -- connections closed by a watchdog, most recent first
  deriving Repr, DecidableEq

inductive TAct
  | act (a : AAct)
  | timeout (id : Nat)     -- the watchdog armed for `id` fires
  deriving Repr, DecidableEq

/-- a watchdog closes connection `t`: whatever state its session is in, it is gone -/
def closeConn (s : TSt) (t : Nat) : TSt :=
  { s with base := { s.base with running := s.base.running.erase t, finished := s.base.finished.erase t },
           closed := t :: s.closed }

/-- the watchdog of `id` is still armed: `id` was accepted and its handshake has not returned -/
def armed (s : TSt) (id : Nat) : Bool := id ∈ s.base.running ∧ id ∉ s.base.finished

def tstep (wd : Watchdog) (stalled : Nat → Bool) (s : TSt) : TAct → Option TSt
  | .act .accept =>
      match astep true stalled s.base .accept with
      | some b => some { s with base := b, last := s.base.pending.head? }
      | Option.none => Option.none
  | .act a =>
      match astep true stalled s.base a with
      | some b => some { s with base := b }
      | Option.none => Option.none
  | .timeout id =>
      match wd with
      | .none => Option.none
      | .own => if armed s id then some (closeConn s id) else Option.none
      | .shared =>
          if armed s id then
            match s.last with
            | some t => some (closeConn s t)
            | Option.none => Option.none
          else Option.none

def trun (wd : Watchdog) (stalled : Nat → Bool) : TSt → List TAct → TSt
  | s, [] => s
  | s, a :: as => match tstep wd stalled s a with
    | some s' => trun wd stalled s' as
    | Option.none => trun wd stalled s as

def tinit : TSt := { base := ainit, last := Option.none, closed := [] }

/-- the untimed actions of a timed history -/
def baseActs : List TAct → List AAct
  | [] => []
  | .act a :: r => a :: baseActs r
  | .timeout _ :: r => baseActs r

/-- which watchdog the code has, as far as the regenerated fact can tell: none when nothing on the accept
    path arms a timer; otherwise unknown (`Option.none`) — own or shared is decided by running the real code -/
def codeWatchdog : Option Watchdog := if Gen.acceptPathTimers.isEmpty then some .none else Option.none

/-- e2e prediction for `stall <kind> <point> <m> <hold> <sf|gf>`: the well-behaved client is served as in the untimed
    scenario and, the code arming no timer on the accept path, its session is still there after any hold
    (C15_established_stays with `Watchdog.none`).  When the accept path does arm a timer the model declines to predict
    ("timed"): whether that timer is aimed at its own connection is decided on the real code. -/
def handleStallT (toks : List String) : String :=
  match toks with
  | [kind, point, m, hold, order] =>
      match hold.toNat?, order with
      | some _, "sf" =>
          let r := handleStall [kind, point, m]
          if r ≠ "served" then r
          else if codeWatchdog = some .none then "served" else "timed"
      | some _, "gf" =>
          match kindSpawned kind, m.toNat? with
          | some spawn, some m =>
              -- arrival 0 is the well-behaved client, arrivals 1..m stall
              let stalled : Nat → Bool := fun id => 0 < id ∧ point ≠ "afterupgrade"
              let acts := [AAct.arrive 0, .accept, .handler 0] ++ (List.range m).map (fun i => AAct.arrive (i + 1))
                ++ (List.range m).flatMap (fun i => [AAct.accept, AAct.handler (i + 1)])
              let s := arun spawn stalled ainit acts
              if 0 ∈ s.finished then (if codeWatchdog = some .none then "served" else "timed") else "blocked"
          | _, _ => "bad-op"
      | _, _ => "bad-op"
  | _ => handleStall toks

end SA.Accept

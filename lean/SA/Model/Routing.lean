/-
  SA.Model.Routing — executable model of channel routing and exposure control (property C03):

    internal/server/channel.go       Channels.Find (first exact match), Channels.Filter (empty list = all;
                                     unknown name = error, the known ones are still collected)
    Startup of every server kind     what happens when Filter reports an error (Gen.*FilterErrReturns)
    internal/server/communicator.go  multiplexToUpstream (one handler "/"+name per kept channel),
                                     muxHandler (first kept channel with protocol == "/"+name, one OpenConnection)
    internal/client/upstream         openStream: SelectProtoOrFail(fmt.Sprintf("/%s", name))
    several servers / websocket paths  Srv, endpointKept, runAt: which kept list a request arriving on endpoint
                                     (server i, path) is served with (component `expose`, real servers end to end)

  go-multistream's matching is third-party: a parameter `ms : handlers → token → Bool` here; the property
  theorems assume the exact-match contract, the correspondence validates it on the real library.
-/
import SA.Base.Util
import SA.Gen.C03
namespace SA.Routing
open SA.Gen

abbrev Str := List Char

structure Chan where
  name : Str
  target : Nat
  deriving DecidableEq, Repr

/-- Channels.Find -/
def find (chs : List Chan) (n : Str) : Option Chan := chs.find? (fun c => decide (c.name = n))

/-- Channels.Filter: (list handed back, error?) -/
def filter (chs : List Chan) (allow : List Str) : List Chan × Bool :=
  if allow.isEmpty then (chs, false)
  else
    let ups := allow.filterMap (find chs)
    (ups, allow.any (fun n => (find chs n).isNone) || ups.isEmpty)

inductive Kind
  | socket | packet | dns | stdio
  | http (allow2 : List Str)     -- a second websocket endpoint with its own allow-list
  deriving Repr

structure Started where
  err : Bool            -- Startup returned an error
  listening : Bool      -- a listener / serving goroutine exists
  kept : List Chan      -- the channel list connections are served with
  deriving DecidableEq, Repr

/-- the variable the Startup of the kind wraps and returns when Filter fails ("err" = the error itself) -/
def filterErrReturns : Kind → String
  | .socket => socketFilterErrReturns
  | .packet => packetFilterErrReturns
  | .dns => dnsFilterErrReturns
  | .stdio => stdioFilterErrReturns
  | .http _ => httpFilterErrReturns

def startup (k : Kind) (chs : List Chan) (allow : List Str) : Started :=
  let f := filter chs allow
  match k with
  | .http a2 =>
    -- every endpoint is filtered first; any error is returned before net.Listen
    if f.2 || (filter chs a2).2 then ⟨true, false, []⟩ else ⟨false, true, f.1⟩
  | _ =>
    if f.2 then ⟨filterErrReturns k == "err", false, []⟩    -- returns before anything listens; stdio returns a nil error
    else ⟨false, true, f.1⟩

inductive Res | connect (t : Nat) | refused | unreachable
  deriving DecidableEq, Repr

/-- multiplexToUpstream: protocol ids registered with the muxer -/
def handlers (kept : List Chan) : List Str := kept.map (fun c => registerPrefix.toList ++ c.name)

/-- muxHandler: target of the first kept channel whose id equals the negotiated protocol -/
def muxTarget (kept : List Chan) (proto : Str) : Option Nat :=
  (kept.find? (fun c => decide (proto = muxPrefix.toList ++ c.name))).map (·.target)

/-- one logical stream: negotiation, then muxHandler; (result, targets dialled) -/
def serve (ms : List Str → Str → Bool) (kept : List Chan) (proto : Str) : Res × List Nat :=
  if ms (handlers kept) proto then
    match muxTarget kept proto with
    | some t => (.connect t, [t])
    | none => (.refused, [])
  else (.refused, [])

/-- openStream: the protocol id the client asks for -/
def clientProto (name : Str) : Str := clientFormat.toList.take (clientFormat.length - 2) ++ name

def run (ms : List Str → Str → Bool) (k : Kind) (chs : List Chan) (allow : List Str) (proto : Str) :
    Started × Res × List Nat :=
  let s := startup k chs allow
  if s.listening then (s, serve ms s.kept proto) else (s, .unreachable, [])

/-! ## several servers sharing the channel table; websocket paths (component `expose`)

  serverCmd.Command hands the one channel table to the Startup of every configured server; each server keeps
  its own filtered list (`upstreams` field), an HttpServer one list per websocket endpoint (handed to
  `EndpointHandler` and captured by the handler it returns, which chi registers for the endpoint's path).
  A request arrives on one endpoint: server `i`, and for HTTP the URL path. -/

inductive Srv
  | plain (k : Kind) (allow : List Str)          -- socket / packet / stdio (/ dns) with its allow-list
  | http (eps : List (Str × List Str))           -- websocket endpoints: (path, allow-list), configuration order
  deriving Repr

/-- HttpServer.Startup: some endpoint's Filter failed (⇒ `return errs` before net.Listen) -/
def httpErr (chs : List Chan) (eps : List (Str × List Str)) : Bool := eps.any (fun e => (filter chs e.2).2)

/-- (Startup returned an error, something is listening) -/
def srvStarted (chs : List Chan) : Srv → Bool × Bool
  | .plain k allow => ((startup k chs allow).err, (startup k chs allow).listening)
  | .http eps => if httpErr chs eps then (true, false) else (false, true)

/-- the channel list connections arriving on the endpoint are served with; `none`: nothing is served there
    (the server did not start, or the HTTP router has no handler for the path) -/
def endpointKept (chs : List Chan) : Srv → Str → Option (List Chan)
  | .plain k allow, _ => if (startup k chs allow).listening then some (startup k chs allow).kept else none
  | .http eps, path =>
    if httpErr chs eps then none
    else (eps.find? (fun e => decide (e.1 = path))).map (fun e => (filter chs e.2).1)

/-- one request for `proto` arriving on endpoint (server `i`, `path`) of the configuration `srvs` -/
def runAt (ms : List Str → Str → Bool) (chs : List Chan) (srvs : List Srv) (i : Nat) (path : Str) (proto : Str) :
    Res × List Nat :=
  match srvs[i]? with
  | none => (.unreachable, [])
  | some s =>
    match endpointKept chs s path with
    | none => (.unreachable, [])
    | some kept => serve ms kept proto

/-! ## line protocol -/

def exact (hs : List Str) (tok : Str) : Bool := hs.contains tok

def unTilde (s : String) : Str := if s == "~" then [] else s.toList
def listTok (s : String) : List Str := if s == "-" then [] else (s.splitOn ",").map unTilde
def showName (s : Str) : String := if s.isEmpty then "~" else String.ofList s

def parseKind (s : String) : Option Kind :=
  match s with
  | "socket" => some .socket | "packet" => some .packet | "dns" => some .dns | "stdio" => some .stdio
  | _ => if s.startsWith "http:" then some (.http (listTok (s.drop 5).toString)) else none

def handle (toks : List String) : String :=
  match toks with
  | [k, chs, allow, mode, req] =>
    match parseKind k with
    | none => "bad-op"
    | some k =>
      let names := listTok chs
      let cfg : List Chan := (List.range names.length).zipWith (fun i n => ⟨n, i⟩) names
      let proto := if mode == "n" then clientProto (unTilde req) else unTilde req
      let r := run exact k cfg (listTok allow) proto
      let ex := if r.1.kept.isEmpty then "-" else ",".intercalate (r.1.kept.map (fun c => showName c.name ++ "@" ++ toString c.target))
      let res := match r.2.1 with
        | .connect t => "connect:" ++ toString t | .refused => "refused" | .unreachable => "unreachable"
      let ds := if r.2.2.isEmpty then "-" else natList r.2.2
      s!"err={if r.1.err then 1 else 0} listening={if r.1.listening then 1 else 0} exposed={ex} res={res} dials={ds}"
  | _ => "bad-op"

def parseEp (e : String) : Option (Str × List Str) :=
  match e.splitOn ":" with
  | [p, a] => some (p.toList, listTok a)
  | _ => none

def parseSrv (s : String) : Option Srv :=
  match s.splitOn "=" with
  | [k, v] =>
    -- "cfg!": the server object is built by the real configuration parser from the same description
    let k := if k.startsWith "cfg!" then (k.drop 4).toString else k
    match k with
    | "socket" => some (.plain .socket (listTok v))
    | "packet" => some (.plain .packet (listTok v))
    | "stdio" => some (.plain .stdio (listTok v))
    | "dns" | "dnstcp" => some (.plain .dns (listTok v))
    | "http" =>
      ((v.splitOn "|").mapM parseEp).map Srv.http
    | _ => none
  | _ => none

def bits (bs : List Bool) : String := String.ofList (bs.map (fun b => if b then '1' else '0'))

/-- component `expose`: <channels> <servers> <via> <req> -/
def handleExpose (toks : List String) : String :=
  match toks with
  | [chs, servers, via, req] =>
    match (servers.splitOn ";").mapM parseSrv with
    | none => "bad-op"
    | some srvs =>
      let v := via.splitOn ":"
      match v.head?.bind String.toNat? with
      | none => "bad-op"
      | some i =>
        let path : Str := match v with
          | [_, p] => p.toList
          | _ => []
        let names := listTok chs
        let cfg : List Chan := (List.range names.length).zipWith (fun i n => ⟨n, i⟩) names
        let st := srvs.map (srvStarted cfg)
        let r := runAt exact cfg srvs i path (clientProto (unTilde req))
        let res := match r.1 with
          | .connect t => "connect:" ++ toString t | .refused => "refused" | .unreachable => "unreachable"
        let ds := if r.2.isEmpty then "-" else natList r.2
        s!"err={bits (st.map (·.1))} listening={bits (st.map (·.2))} res={res} dials={ds}"
  | _ => "bad-op"

end SA.Routing

/-
  SA.Model.Routing — executable model of channel routing and exposure control (property C03):

    internal/server/channel.go       Channels.Find (first exact match), Channels.Filter (empty list = all;
                                     unknown name = error, the known ones are still collected)
    Startup of every server kind     what happens when Filter reports an error (Gen.*FilterErrReturns)
    internal/server/communicator.go  multiplexToUpstream (one handler "/"+name per kept channel),
                                     muxHandler (first kept channel with protocol == "/"+name, one OpenConnection)
    internal/client/upstream         openStream: SelectProtoOrFail(fmt.Sprintf("/%s", name))

  go-multistream's matching is third-party: a parameter `ms : handlers → token → Bool` here; the property
  theorems assume the exact-match contract, the correspondence validates it on the real library.
-/
import SA.Base.Util
import SA.Gen.C03
namespace SA.Routing
open SA.Gen

abbrev Str := List Char

structure Chan where
  name : Str
  target : Nat
  deriving DecidableEq, Repr

/-- Channels.Find -/
def find (chs : List Chan) (n : Str) : Option Chan := chs.find? (fun c => decide (c.name = n))

/-- Channels.Filter: (list handed back, error?) -/
def filter (chs : List Chan) (allow : List Str) : List Chan × Bool :=
  if allow.isEmpty then (chs, false)
  else
    let ups := allow.filterMap (find chs)
    (ups, allow.any (fun n => (find chs n).isNone) || ups.isEmpty)

inductive Kind
  | socket | packet | dns | stdio
  | http (allow2 : List Str)     -- a second websocket endpoint with its own allow-list
  deriving Repr

structure Started where
  err : Bool            -- Startup returned an error
  listening : Bool      -- a listener / serving goroutine exists
  kept : List Chan      -- the channel list connections are served with
  deriving DecidableEq, Repr

/-- the variable the Startup of the kind wraps and returns when Filter fails ("err" = the error itself) -/
def filterErrReturns : Kind → String
  | .socket => socketFilterErrReturns
  | .packet => packetFilterErrReturns
  | .dns => dnsFilterErrReturns
  | .stdio => stdioFilterErrReturns
  | .http _ => httpFilterErrReturns

def startup (k : Kind) (chs : List Chan) (allow : List Str) : Started :=
  let f := filter chs allow
  match k with
  | .http a2 =>
    -- every endpoint is filtered first; any error is returned before net.Listen
    if f.2 || (filter chs a2).2 then ⟨true, false, []⟩ else ⟨false, true, f.1⟩
  | _ =>
    if f.2 then ⟨filterErrReturns k == "err", false, []⟩    -- returns before anything listens; stdio returns a nil error
    else ⟨false, true, f.1⟩

inductive Res | connect (t : Nat) | refused | unreachable
  deriving DecidableEq, Repr

/-- multiplexToUpstream: protocol ids registered with the muxer -/
def handlers (kept : List Chan) : List Str := kept.map (fun c => registerPrefix.toList ++ c.name)

/-- muxHandler: target of the first kept channel whose id equals the negotiated protocol -/
def muxTarget (kept : List Chan) (proto : Str) : Option Nat :=
  (kept.find? (fun c => decide (proto = muxPrefix.toList ++ c.name))).map (·.target)

/-- one logical stream: negotiation, then muxHandler; (result, targets dialled) -/
def serve (ms : List Str → Str → Bool) (kept : List Chan) (proto : Str) : Res × List Nat :=
  if ms (handlers kept) proto then
    match muxTarget kept proto with
    | some t => (.connect t, [t])
    | none => (.refused, [])
  else (.refused, [])

/-- openStream: the protocol id the client asks for -/
def clientProto (name : Str) : Str := clientFormat.toList.take (clientFormat.length - 2) ++ name

def run (ms : List Str → Str → Bool) (k : Kind) (chs : List Chan) (allow : List Str) (proto : Str) :
    Started × Res × List Nat :=
  let s := startup k chs allow
  if s.listening then (s, serve ms s.kept proto) else (s, .unreachable, [])

/-! ## line protocol -/

def exact (hs : List Str) (tok : Str) : Bool := hs.contains tok

def unTilde (s : String) : Str := if s == "~" then [] else s.toList
def listTok (s : String) : List Str := if s == "-" then [] else (s.splitOn ",").map unTilde
def showName (s : Str) : String := if s.isEmpty then "~" else String.ofList s

def parseKind (s : String) : Option Kind :=
  match s with
  | "socket" => some .socket | "packet" => some .packet | "dns" => some .dns | "stdio" => some .stdio
  | _ => if s.startsWith "http:" then some (.http (listTok (s.drop 5).toString)) else none

def handle (toks : List String) : String :=
  match toks with
  | [k, chs, allow, mode, req] =>
    match parseKind k with
    | none => "bad-op"
    | some k =>
      let names := listTok chs
      let cfg : List Chan := (List.range names.length).zipWith (fun i n => ⟨n, i⟩) names
      let proto := if mode == "n" then clientProto (unTilde req) else unTilde req
      let r := run exact k cfg (listTok allow) proto
      let ex := if r.1.kept.isEmpty then "-" else ",".intercalate (r.1.kept.map (fun c => showName c.name ++ "@" ++ toString c.target))
      let res := match r.2.1 with
        | .connect t => "connect:" ++ toString t | .refused => "refused" | .unreachable => "unreachable"
      let ds := if r.2.2.isEmpty then "-" else natList r.2.2
      s!"err={if r.1.err then 1 else 0} listening={if r.1.listening then 1 else 0} exposed={ex} res={res} dials={ds}"
  | _ => "bad-op"

end SA.Routing

/-
  SA.Model.Wrappers — executable model of internal/streams/{safe,named}_*.go,
  readerwriter_stream.go, stream_connection.go and LogClose/TryClose of pipes.go.

  A runtime object is a tree `W`.  `Desc` is the description of a composition as
  the harness builds it with the real constructor functions; `build` applies
  the constructors' reuse rule (`NewSafeX` returns its argument when it already
  has exactly that dynamic type).  Every object returned by a constructor call is a *handle*:
  `handles` gives, for every node of the `Desc` in prefix order, the path of its object in the
  runtime tree (with the reuse rule two `Desc` nodes can denote the same `W` node), and operations
  are addressed to handles (`closeAt`, `closedAt`, `run`).

  The connective of `ReadWriteCloser.Closed()` is the regenerated fact `SA.Gen.c19PairClosedAnd`;
  the `…G` functions take it as their first argument (`true` = `&&`, `false` = `||`).
-/
import SA.Base.Util
import SA.Gen.C19
namespace SA.Wrappers

/-- dynamic Go type family of a Safe* wrapper -/
inductive Kind | conn | stream | reader | writer
  deriving DecidableEq, Repr

/-- runtime object tree.
  * `res`   : an underlying resource (fake in the harness): `hasClosed` = implements `Closed()`,
              `fails` = its `Close` returns an error, `count` = number of `Close` calls received
  * `safe`  : SafeConnection / SafeStream / SafeReader / SafeWriter with its `closed` flag
  * `deleg` : Named*, SimulatedConnection, StreamWrappedConnection — they embed a Safe* value and
              have no `Close`/`Closed` of their own
  * `pair`  : streams.ReadWriteCloser -/
inductive W
  | res (id : Nat) (hasClosed fails : Bool) (count : Nat)
  | safe (k : Kind) (flag : Bool) (inner : W)
  | deleg (inner : W)
  | pair (r w : W)
  deriving Repr

/-- `x.(Closed)` then `.Closed()`: `none` when the object does not implement `Closed`.
    `cj`: connective of the pair's status (`true` = `&&`, `false` = `||`). -/
def closedQG (cj : Bool) : W → Option Bool
  | .res _ h _ c => if h then some (decide (0 < c)) else none
  | .safe _ flag _ => some flag
  | .deleg i => closedQG cj i
  | .pair r w =>
      some (if cj then (closedQG cj r == some true) && (closedQG cj w == some true)
            else (closedQG cj r == some true) || (closedQG cj w == some true))

/-- `Close()`; the Bool is "returned nil".  `LogClose x` is inlined as
    `if closedQ x = some true then (x, true) else close x`. -/
def closeG (cj : Bool) : W → W × Bool
  | .res id h f c => (.res id h f (c + 1), !f)
  | .safe k flag i =>
      if flag then (.safe k flag i, true)
      else if closedQG cj i = some true then (.safe k true i, true)
      else let r := closeG cj i; (.safe k true r.1, r.2)
  | .deleg i => let r := closeG cj i; (.deleg r.1, r.2)
  | .pair r w =>
      let a := if closedQG cj r = some true then (r, true) else closeG cj r
      let b := if closedQG cj w = some true then (w, true) else closeG cj w
      (.pair a.1 b.1, a.2 && b.2)

/-- close counts of all resources, in tree order -/
def counts : W → List Nat
  | .res _ _ _ c => [c]
  | .safe _ _ i => counts i
  | .deleg i => counts i
  | .pair r w => counts r ++ counts w

/-- description of a composition, as given to the real constructors -/
inductive Desc
  | res (id : Nat) (hasClosed fails : Bool)
  | safe (k : Kind) (d : Desc)       -- NewSafeConnection / NewSafeStream / NewSafeReader / NewSafeWriter
  | named (k : Kind) (d : Desc)      -- NewNamedConnection / NewNamedStream / NewNamedReader / NewNamedWriter
  | pair (r w : Desc)                -- NewReadWriteCloser
  | sim (d : Desc)                   -- NewSimulatedConnection
  | strm (d : Desc)                  -- NewStreamConnection
  deriving Repr

/-- a path into a `W`: `false` = the only / the reader child, `true` = the writer child of a pair -/
abbrev Path := List Bool

/-- `NewSafeX`: the object returned, and where the argument sits inside it (`[]` = it *is* the
    argument: the reuse rule) -/
def mkSafeP (k : Kind) : W → W × Path
  | .safe k' f i => if k' = k then (.safe k' f i, []) else (.safe k false (.safe k' f i), [false])
  | .res id h f c => (.safe k false (.res id h f c), [false])
  | .deleg i => (.safe k false (.deleg i), [false])
  | .pair r w => (.safe k false (.pair r w), [false])

def mkSafe (k : Kind) (w : W) : W := (mkSafeP k w).1

def build : Desc → W
  | .res id h f => .res id h f 0
  | .safe k d => mkSafe k (build d)
  | .named k d => .deleg (mkSafe k (build d))
  | .pair r w => .pair (mkSafe .reader (build r)) (mkSafe .writer (build w))
  | .sim d => .deleg (mkSafe .stream (build d))
  | .strm d => .deleg (mkSafe .stream (build d))

def shift (pre : Path) (t : List Path) : List Path := t.map (pre ++ ·)

/-- handle table: for every node of `d`, in prefix order, the path of its object in `build d` -/
def handles : Desc → List Path
  | .res .. => [[]]
  | .safe k d => [] :: shift (mkSafeP k (build d)).2 (handles d)
  | .named k d => [] :: shift (false :: (mkSafeP k (build d)).2) (handles d)
  | .pair r w => [] :: (shift (false :: (mkSafeP .reader (build r)).2) (handles r)
                        ++ shift (true :: (mkSafeP .writer (build w)).2) (handles w))
  | .sim d => [] :: shift (false :: (mkSafeP .stream (build d)).2) (handles d)
  | .strm d => [] :: shift (false :: (mkSafeP .stream (build d)).2) (handles d)

/-- `build` together with the handle table -/
def buildH (d : Desc) : W × List Path := (build d, handles d)

def Desc.isWrapper : Desc → Bool
  | .res .. => false
  | _ => true

def isRes : W → Bool
  | .res .. => true
  | _ => false

/-- the object at a path -/
def sub : W → Path → Option W
  | w, [] => some w
  | .safe _ _ i, false :: p => sub i p
  | .deleg i, false :: p => sub i p
  | .pair r _, false :: p => sub r p
  | .pair _ w, true :: p => sub w p
  | _, _ => none

/-- the path denotes a wrapper object (not a bare resource) -/
def wrapperAt (w : W) (p : Path) : Bool :=
  match sub w p with
  | some t => !isRes t
  | none => false

/-- `Close()` on the object at a path (no effect for a path that denotes nothing) -/
def closeAtG (cj : Bool) : W → Path → W × Bool
  | w, [] => closeG cj w
  | .safe k f i, false :: p => let r := closeAtG cj i p; (.safe k f r.1, r.2)
  | .deleg i, false :: p => let r := closeAtG cj i p; (.deleg r.1, r.2)
  | .pair a b, false :: p => let r := closeAtG cj a p; (.pair r.1 b, r.2)
  | .pair a b, true :: p => let r := closeAtG cj b p; (.pair a r.1, r.2)
  | w, _ => (w, true)

/-- `Closed()` on the object at a path -/
def closedAtG (cj : Bool) (w : W) (p : Path) : Option Bool :=
  match sub w p with
  | some t => closedQG cj t
  | none => none

inductive Op | close | closed | read | write | str
  deriving DecidableEq, Repr

inductive Out | ok | err | bool (b : Bool) | none | unit
  deriving DecidableEq, Repr

def stepAtG (cj : Bool) (w : W) (p : Path) : Op → W × Out
  | .close => let r := closeAtG cj w p; (r.1, if r.2 then .ok else .err)
  | .closed => (w, match closedAtG cj w p with | some b => .bool b | Option.none => .none)
  | _ => (w, .unit)

/-- ops addressed by path -/
def runPG (cj : Bool) : W → List (Path × Op) → W × List Out
  | w, [] => (w, [])
  | w, o :: ops =>
      let r := stepAtG cj w o.1 o.2
      let rest := runPG cj r.1 ops
      (rest.1, r.2 :: rest.2)

/-- an op addressed to a handle (index into the handle table; 0 = outermost) -/
abbrev NOp := Nat × Op

def hpath (d : Desc) (h : Nat) : Path := (handles d).getD h []

def resolve (d : Desc) (ops : List NOp) : List (Path × Op) := ops.map fun o => (hpath d o.1, o.2)

/-- every op addresses an existing handle that is a wrapper -/
def validOps (d : Desc) (ops : List NOp) : Bool :=
  ops.all fun o => match (handles d)[o.1]? with
    | some p => wrapperAt (build d) p
    | Option.none => false

def runG (cj : Bool) (d : Desc) (ops : List NOp) : W × List Out := runPG cj (build d) (resolve d ops)

/-! the model of the code as it is: the pair's connective is the regenerated fact -/
def closedQ : W → Option Bool := closedQG Gen.c19PairClosedAnd
def close : W → W × Bool := closeG Gen.c19PairClosedAnd
def closeAt : W → Path → W × Bool := closeAtG Gen.c19PairClosedAnd
def closedAt : W → Path → Option Bool := closedAtG Gen.c19PairClosedAnd
def run : Desc → List NOp → W × List Out := runG Gen.c19PairClosedAnd

/-! ### line protocol:  `wrap <desc tokens …> | <op tokens …>`;  op token = `<handle index>?<letters>+`  -/

def parseKind : Char → Option Kind
  | 'c' => some .conn | 's' => some .stream | 'r' => some .reader | 'w' => some .writer
  | _ => Option.none

/-- prefix-notation description: `R<id><h|n><o|f>`, `S<k> d`, `N<k> d`, `P d d`, `I d`, `T d` -/
def parseDesc : Nat → List String → Option (Desc × List String)
  | 0, _ => Option.none
  | _, [] => Option.none
  | fuel + 1, t :: rest =>
    match t.toList with
    | 'R' :: h :: f :: idc =>
        match (String.ofList idc).toNat? with
        | some id => some (.res id (h == 'h') (f == 'f'), rest)
        | Option.none => Option.none
    | ['S', k] => do
        let k ← parseKind k
        let (d, rest) ← parseDesc fuel rest
        pure (.safe k d, rest)
    | ['N', k] => do
        let k ← parseKind k
        let (d, rest) ← parseDesc fuel rest
        pure (.named k d, rest)
    | ['P'] => do
        let (a, rest) ← parseDesc fuel rest
        let (b, rest) ← parseDesc fuel rest
        pure (.pair a b, rest)
    | ['I'] => do
        let (d, rest) ← parseDesc fuel rest
        pure (.sim d, rest)
    | ['T'] => do
        let (d, rest) ← parseDesc fuel rest
        pure (.strm d, rest)
    | ['U'] => do
        -- NewStreamConnection over an underlying net.Conn that is a closed, status-tracking wrapper: the underlying
        -- connection serves addresses and deadlines only and is no part of the object's close behaviour
        let (d, rest) ← parseDesc fuel rest
        pure (.strm d, rest)
    | _ => Option.none

def parseOp : Char → Option Op
  | 'C' => some .close | 'Q' => some .closed | 'R' => some .read | 'W' => some .write
  | 'S' => some .str | _ => Option.none

def outStr : Out → String
  | .ok => "ok" | .err => "err" | .bool b => boolStr b | .none => "none" | .unit => "."

/-- one op token: optional decimal handle index (default 0 = outermost), then one or more letters -/
def parseTok (t : String) : Option (List NOp) :=
  let cs := t.toList
  let ds := cs.takeWhile Char.isDigit
  let ls := cs.dropWhile Char.isDigit
  if ls.isEmpty then Option.none else
  let h := if ds.isEmpty then some 0 else (String.ofList ds).toNat?
  match h, ls.mapM parseOp with
  | some h, some ops => some (ops.map fun o => (h, o))
  | _, _ => Option.none

/-- driver entry: tokens after the `wrap` keyword -/
def handle (toks : List String) : String :=
  match parseDesc 64 toks with
  | some (d, "|" :: otoks) =>
      match otoks.mapM parseTok with
      | some opss =>
          let ops := opss.flatten
          if validOps d ops then
            let r := run d ops
            " ".intercalate (r.2.map outStr) ++ " | " ++ natList (counts r.1)
          else "bad-op"
      | Option.none => "bad-op"
  | _ => "bad-op"

end SA.Wrappers

/-
  SA.Model.Wrappers — executable model of internal/streams/{safe,named}_*.go,
  readerwriter_stream.go, stream_connection.go and LogClose/TryClose of pipes.go.

  A runtime object is a tree `W`.  `Desc` is the description of a composition as
  the harness builds it with the real constructor functions; `build` applies
  the constructors' reuse rule (`NewSafeX` returns its argument when it already
  has exactly that dynamic type).
-/
import SA.Base.Util
namespace SA.Wrappers

/-- dynamic Go type family of a Safe* wrapper -/
inductive Kind | conn | stream | reader | writer
  deriving DecidableEq, Repr

/-- runtime object tree.
  * `res`   : an underlying resource (fake in the harness): `hasClosed` = implements `Closed()`,
              `fails` = its `Close` returns an error, `count` = number of `Close` calls received
  * `safe`  : SafeConnection / SafeStream / SafeReader / SafeWriter with its `closed` flag
  * `deleg` : Named*, SimulatedConnection, StreamWrappedConnection — they embed a Safe* value and
              have no `Close`/`Closed` of their own
  * `pair`  : streams.ReadWriteCloser -/
inductive W
  | res (id : Nat) (hasClosed fails : Bool) (count : Nat)
  | safe (k : Kind) (flag : Bool) (inner : W)
  | deleg (inner : W)
  | pair (r w : W)
  deriving Repr

/-- `x.(Closed)` then `.Closed()`: `none` when the object does not implement `Closed` -/
def closedQ : W → Option Bool
  | .res _ h _ c => if h then some (decide (0 < c)) else none
  | .safe _ flag _ => some flag
  | .deleg i => closedQ i
  | .pair r w => some ((closedQ r == some true) && (closedQ w == some true))

/-- `Close()`; the Bool is "returned nil".  `LogClose x` is inlined as
    `if closedQ x = some true then (x, true) else close x`. -/
def close : W → W × Bool
  | .res id h f c => (.res id h f (c + 1), !f)
  | .safe k flag i =>
      if flag then (.safe k flag i, true)
      else if closedQ i = some true then (.safe k true i, true)
      else let r := close i; (.safe k true r.1, r.2)
  | .deleg i => let r := close i; (.deleg r.1, r.2)
  | .pair r w =>
      let a := if closedQ r = some true then (r, true) else close r
      let b := if closedQ w = some true then (w, true) else close w
      (.pair a.1 b.1, a.2 && b.2)

/-- close counts of all resources, in tree order -/
def counts : W → List Nat
  | .res _ _ _ c => [c]
  | .safe _ _ i => counts i
  | .deleg i => counts i
  | .pair r w => counts r ++ counts w

/-- description of a composition, as given to the real constructors -/
inductive Desc
  | res (id : Nat) (hasClosed fails : Bool)
  | safe (k : Kind) (d : Desc)       -- NewSafeConnection / NewSafeStream / NewSafeReader / NewSafeWriter
  | named (k : Kind) (d : Desc)      -- NewNamedConnection / NewNamedStream / NewNamedReader / NewNamedWriter
  | pair (r w : Desc)                -- NewReadWriteCloser
  | sim (d : Desc)                   -- NewSimulatedConnection
  | strm (d : Desc)                  -- NewStreamConnection
  deriving Repr

def mkSafe (k : Kind) : W → W
  | .safe k' f i => if k' = k then .safe k' f i else .safe k false (.safe k' f i)
  | w => .safe k false w

def build : Desc → W
  | .res id h f => .res id h f 0
  | .safe k d => mkSafe k (build d)
  | .named k d => .deleg (mkSafe k (build d))
  | .pair r w => .pair (mkSafe .reader (build r)) (mkSafe .writer (build w))
  | .sim d => .deleg (mkSafe .stream (build d))
  | .strm d => .deleg (mkSafe .stream (build d))

def Desc.isWrapper : Desc → Bool
  | .res .. => false
  | _ => true

inductive Op | close | closed | read | write | str
  deriving DecidableEq, Repr

inductive Out | ok | err | bool (b : Bool) | none | unit
  deriving DecidableEq, Repr

def step (w : W) : Op → W × Out
  | .close => let r := close w; (r.1, if r.2 then .ok else .err)
  | .closed => (w, match closedQ w with | some b => .bool b | Option.none => .none)
  | _ => (w, .unit)

def run : W → List Op → W × List Out
  | w, [] => (w, [])
  | w, op :: ops =>
      let r := step w op
      let rest := run r.1 ops
      (rest.1, r.2 :: rest.2)

/-! ### line protocol:  `wrap <desc tokens …> | <ops>`  -/

def parseKind : Char → Option Kind
  | 'c' => some .conn | 's' => some .stream | 'r' => some .reader | 'w' => some .writer
  | _ => Option.none

/-- prefix-notation description: `R<id><h|n><o|f>`, `S<k> d`, `N<k> d`, `P d d`, `I d`, `T d` -/
def parseDesc : Nat → List String → Option (Desc × List String)
  | 0, _ => Option.none
  | _, [] => Option.none
  | fuel + 1, t :: rest =>
    match t.toList with
    | 'R' :: h :: f :: idc =>
        match (String.ofList idc).toNat? with
        | some id => some (.res id (h == 'h') (f == 'f'), rest)
        | Option.none => Option.none
    | ['S', k] => do
        let k ← parseKind k
        let (d, rest) ← parseDesc fuel rest
        pure (.safe k d, rest)
    | ['N', k] => do
        let k ← parseKind k
        let (d, rest) ← parseDesc fuel rest
        pure (.named k d, rest)
    | ['P'] => do
        let (a, rest) ← parseDesc fuel rest
        let (b, rest) ← parseDesc fuel rest
        pure (.pair a b, rest)
    | ['I'] => do
        let (d, rest) ← parseDesc fuel rest
        pure (.sim d, rest)
    | ['T'] => do
        let (d, rest) ← parseDesc fuel rest
        pure (.strm d, rest)
    | _ => Option.none

def parseOp : Char → Option Op
  | 'C' => some .close | 'Q' => some .closed | 'R' => some .read | 'W' => some .write
  | 'S' => some .str | _ => Option.none

def outStr : Out → String
  | .ok => "ok" | .err => "err" | .bool b => boolStr b | .none => "none" | .unit => "."

/-- driver entry: tokens after the `wrap` keyword -/
def handle (toks : List String) : String :=
  match parseDesc 64 toks with
  | some (d, ["|", ops]) =>
      match ops.toList.mapM parseOp with
      | some ops =>
          let r := run (build d) ops
          " ".intercalate (r.2.map outStr) ++ " | " ++ natList (counts r.1)
      | Option.none => "bad-op"
  | some (d, ["|"]) =>
      let r := run (build d) []
      " | " ++ natList (counts r.1)
  | _ => "bad-op"

end SA.Wrappers

/-
  SA.Model.WireCodec — the codec as a *parameter* of the DNS wire models (C09, C10).

  The codecs themselves are property C08's subject (SA.Model.Codec in another work tree).  The wire
  models only need "some `enc`/`dec` pair"; the theorems of C09/C10 take the pair with the hypotheses
  `roundtrip` and `alphabet_safe`.  For the executable model this file provides
    * a small local MSB-first radix codec (Base32 / Base64 / Base64u of internal/util/enc, alphabets
      from SA.Gen) and Raw, and
    * a table codec built from the `<oracle>` token of an op line (what the real Base85 / Base91 /
      Base128 answered on the inputs of that very case).
  Core Lean only.
-/
import SA.Base.Util
import SA.Gen.C09

namespace SA.WireCodec

structure Codec where
  enc : List Nat → List Nat
  dec : List Nat → Option (List Nat)

/-- what the C09/C10 theorems assume of a codec (proved per codec in C08) -/
structure Codec.Good (c : Codec) : Prop where
  roundtrip : ∀ bs, SA.Bytes bs → c.dec (c.enc bs) = some bs

/-- C08's `alphabet_safe`, as far as the wire needs it: on byte strings the output consists of bytes,
    none of them '.' or '\\' (restricted to byte-string inputs, exactly as C08 states it) -/
structure Codec.Safe (c : Codec) : Prop where
  safe : ∀ bs, SA.Bytes bs → ∀ x ∈ c.enc bs, x ≠ 46 ∧ x ≠ 92 ∧ x < 256

def raw : Codec := ⟨id, some⟩

/-! ### local radix codec (k bits per character, MSB first, zero padded, no padding characters) -/

/-- emit as many k-bit digits as the accumulator holds; `fuel` bounds the loop (≤ 2 digits per byte) -/
def emitDigits (k : Nat) : Nat → Nat → Nat → List Nat → Nat × Nat × List Nat
  | 0, acc, nbits, out => (acc, nbits, out)
  | fuel + 1, acc, nbits, out =>
    if k ≤ nbits then
      let d := (acc >>> (nbits - k)) % (2 ^ k)
      emitDigits k fuel (acc % (2 ^ (nbits - k))) (nbits - k) (d :: out)
    else (acc, nbits, out)

def radixDigits (k : Nat) : List Nat → Nat → Nat → List Nat → List Nat
  | [], acc, nbits, out =>
    if nbits = 0 then out.reverse else (((acc <<< (k - nbits)) % (2 ^ k)) :: out).reverse
  | b :: rest, acc, nbits, out =>
    let (acc', nbits', out') := emitDigits k 3 (acc * 256 + b % 256) (nbits + 8) out
    radixDigits k rest acc' nbits' out'

def radixEnc (k : Nat) (alpha : List Nat) (bs : List Nat) : List Nat :=
  (radixDigits k bs 0 0 []).map (fun d => alpha.getD d 63)

def indexOf (alpha : List Nat) (c : Nat) : Option Nat :=
  let i := alpha.findIdx (· == c)
  if i < alpha.length then some i else none

def radixBytes (k : Nat) : List Nat → Nat → Nat → List Nat → List Nat
  | [], _, _, out => out.reverse
  | d :: rest, acc, nbits, out =>
    let acc' := acc * (2 ^ k) + d
    let nbits' := nbits + k
    if 8 ≤ nbits' then
      radixBytes k rest (acc' % (2 ^ (nbits' - 8))) (nbits' - 8) ((acc' >>> (nbits' - 8)) % 256 :: out)
    else radixBytes k rest acc' nbits' out

/-- Go's encoding/base32 and encoding/base64 with NoPadding: unknown character or an impossible length
    is an error; left-over bits are dropped.  (Their tolerance for CR/LF is not modelled.) -/
def radixDec (k : Nat) (alpha : List Nat) (cs : List Nat) : Option (List Nat) :=
  let badLen :=
    if k = 5 then (cs.length % 8 = 1 ∨ cs.length % 8 = 3 ∨ cs.length % 8 = 6)
    else if k = 6 then cs.length % 4 = 1 else False
  if badLen then none else
  match cs.mapM (indexOf alpha) with
  | none => none
  | some ds => some (radixBytes k ds 0 0 [])

def base32 : Codec := ⟨radixEnc 5 SA.Gen.C09.c09cb32, radixDec 5 SA.Gen.C09.c09cb32⟩
def base64 : Codec := ⟨radixEnc 6 SA.Gen.C09.c09cb64, radixDec 6 SA.Gen.C09.c09cb64⟩
def base64u : Codec := ⟨radixEnc 6 SA.Gen.C09.c09cb64u, radixDec 6 SA.Gen.C09.c09cb64u⟩

/-! ### table codec from the op line -/

structure Oracle where
  encs : List (List Nat × List Nat)
  decs : List (List Nat × Option (List Nat))

def parseOracleEntry (o : Oracle) (s : String) : Oracle :=
  match s.splitOn ":" with
  | [kind, kv] =>
    match kv.splitOn "=" with
    | [a, b] =>
      match fromHex a with
      | none => o
      | some i =>
        if kind = "e" then
          match fromHex b with
          | some r => { o with encs := (i, r) :: o.encs }
          | none => o
        else if b = "!" then { o with decs := (i, none) :: o.decs }
        else match fromHex b with
          | some r => { o with decs := (i, some r) :: o.decs }
          | none => o
    | _ => o
  | _ => o

def parseOracle (tok : String) : Oracle :=
  if tok = "-" then ⟨[], []⟩ else (tok.splitOn ",").foldl parseOracleEntry ⟨[], []⟩

/-- a missing table entry encodes to the impossible byte 999 (shows up as a disagreement), decodes to an error -/
def tableCodec (o : Oracle) : Codec :=
  ⟨fun bs => (o.encs.lookup bs).getD [999], fun cs => (o.decs.lookup cs).getD none⟩

/-- codec of a one-letter code (as `FromCode`: case-insensitive); none = not in the registry -/
def upper (b : Nat) : Nat := if 97 ≤ b ∧ b ≤ 122 then b - 32 else b

def registryCodes : List Nat := SA.Gen.C09.codecRatios.map (·.1)

def ofLetter (letter : Nat) (o : Oracle) : Option Codec :=
  let l := upper letter
  if !registryCodes.contains l then none
  else if l = 84 then some base32
  else if l = 83 then some base64
  else if l = 85 then some base64u
  else if l = 82 then some raw
  else some (tableCodec o)

end SA.WireCodec

/-
  SA.Model.DnsServerSites — the panic sites (index / slice / unchecked type assertion / func-field call) of the DNS
  server handler, the command decoders and the record (un)wrapping that the C12 models account for, each with the
  reason it cannot fail.  `C12_site_coverage` compares this hand-maintained list with the inventory regenerated from
  the source (`SA.Gen.panicSites`): a new or re-shaped site in these functions is not in this list and breaks the
  obligation until somebody has looked at it.

  Since the bounds analysis of go/extract/x_c12_bounds.go the regenerated inventory holds only the sites whose safety
  the extractor cannot establish from the dominating length guards (`len(x) >= k`, `len(x) >= len(d)+k`, early exits,
  short-circuit operands); entries of this list whose site is discharged that way no longer occur in
  `SA.Gen.panicSites` and are kept for the record (and for the day the guard is removed and the site re-appears).
-/
namespace SA.DnsServer

def coveredSites : List Nat := [
  2248506465,  -- wrap.go|unescapePresentation|index|_[_]#1   s[i]
      -- ^ loop index i < len(s)
  4204028541,  -- wrap.go|unescapePresentation|index|_[_+1]#1   s[i+1]
      -- ^ same case condition: i+3 < len(s) is tested first (&& short-circuits)
  2555809270,  -- wrap.go|unescapePresentation|index|_[_+2]#1   s[i+2]
      -- ^ same case condition: i+3 < len(s) is tested first
  3647457135,  -- wrap.go|unescapePresentation|index|_[_+3]#1   s[i+3]
      -- ^ same case condition: i+3 < len(s) is tested first
  4153695684,  -- wrap.go|unescapePresentation|index|_[_+1]#2   s[i+1]
      -- ^ case body: i+3 < len(s) holds
  2539031651,  -- wrap.go|unescapePresentation|index|_[_+2]#2   s[i+2]
      -- ^ case body: i+3 < len(s) holds
  3664234754,  -- wrap.go|unescapePresentation|index|_[_+3]#2   s[i+3]
      -- ^ case body: i+3 < len(s) holds
  2198173608,  -- wrap.go|unescapePresentation|index|_[_]#2   s[i]
      -- ^ after i++ under the case condition i+1 < len(s); DnsClient.unescPresF by pattern matching
  816648987,  -- cmd_error.go|ErrorResponse.Decode|slice|_[1:]#1   response[1:]
      -- ^ DnsClient.decodeResponse: explicit sliceFrom/slice/idx after the length guards
  4048619025,  -- cmd_packet.go|PacketRequest.Decode|slice|_._._[:_]#1   vr.Packet.Data[:n]
      -- ^ own buffer: Data[:n] with n returned by bytes.Buffer.Read into that buffer
  3875926503,  -- cmd_packet.go|PacketResponse.Decode|slice|_[1:]#1   req[1:]
      -- ^ DnsClient.decodeResponse: explicit sliceFrom/slice/idx after the length guards
  1820771339,  -- cmd_packet.go|PacketResponse.Decode|slice|_._._[:_]#1   vr.Packet.Data[:n]
      -- ^ DnsClient.decodeResponse: explicit sliceFrom/slice/idx after the length guards
  2143204270,  -- cmd_set_options.go|SetOptionsResponse.Decode|slice|_[1:]#1   response[1:]
      -- ^ DnsClient.decodeResponse: explicit sliceFrom/slice/idx after the length guards
  2050990130,  -- cmd_test_downstream_encoder.go|TestDownstreamEncoderRequest.Decode|index|_[0]#1   req[0]
      -- ^ DnsServer.decodeRequest (y): idx body 0 after the len guard
  3383007909,  -- cmd_test_downstream_encoder.go|TestDownstreamEncoderResponse.Decode|index|_[1]#1   response[1]
      -- ^ DnsClient.decodeResponse: explicit sliceFrom/slice/idx after the length guards
  3865383480,  -- cmd_test_downstream_encoder.go|TestDownstreamEncoderResponse.Decode|slice|_[2:]#1   response[2:]
      -- ^ DnsClient.decodeResponse: explicit sliceFrom/slice/idx after the length guards
  3332675052,  -- cmd_test_downstream_encoder.go|TestDownstreamEncoderResponse.Decode|index|_[1]#2   response[1]
      -- ^ DnsClient.decodeResponse: explicit sliceFrom/slice/idx after the length guards
  3915716337,  -- cmd_test_downstream_encoder.go|TestDownstreamEncoderResponse.Decode|slice|_[2:]#2   response[2:]
      -- ^ DnsClient.decodeResponse: explicit sliceFrom/slice/idx after the length guards
  1752534737,  -- cmd_test_downstream_encoder.go|TestDownstreamEncoderResponse.Decode|slice|_[1:]#1   response[1:]
      -- ^ DnsClient.decodeResponse: explicit sliceFrom/slice/idx after the length guards
  701778217,  -- cmd_test_fragment_size.go|TestDownstreamFragmentSizeResponse.Decode|slice|_[1:]#1   response[1:]
      -- ^ DnsClient.decodeResponse: explicit sliceFrom/slice/idx after the length guards
  2685335478,  -- cmd_test_fragment_size.go|TestDownstreamFragmentSizeResponse.Decode|slice|_._[:_]#1   vr.Data[:n]
      -- ^ DnsClient.decodeResponse: explicit sliceFrom/slice/idx after the length guards
  1124669165,  -- cmd_test_upstream_encoder.go|TestUpstreamEncoderResponse.Decode|slice|_[1:]#1   response[1:]
      -- ^ DnsClient.decodeResponse: explicit sliceFrom/slice/idx after the length guards
  1222316451,  -- cmd_test_upstream_encoder.go|TestUpstreamEncoderResponse.Decode|slice|_[0:_]#1   d[0:cnt]
      -- ^ DnsClient.decodeResponse: explicit sliceFrom/slice/idx after the length guards
  2594329663,  -- cmd_version.go|VersionResponse.Decode|slice|_[1:]#1   response[1:]
      -- ^ DnsClient.decodeResponse: explicit sliceFrom/slice/idx after the length guards
  223359336,  -- cmd_version.go|VersionResponse.Decode|slice|_[0:2]#1   response[0:2]
      -- ^ DnsClient.decodeResponse: explicit sliceFrom/slice/idx after the length guards
  2390945130,  -- cmd_version.go|VersionResponse.Decode|slice|_[2:]#1   response[2:]
      -- ^ DnsClient.decodeResponse: explicit sliceFrom/slice/idx after the length guards
  402454965,  -- commands.go|Command.ValidateType|index|_[0]#1   data[0]
      -- ^ guarded by len(data)==0; only reached for non-empty data
  2756862036,  -- commands.go|Command.IsOfType|index|_[0]#1   data[0]
      -- ^ DnsServer.isOfType: idx / slice after the len guard
  3654595070,  -- commands.go|Command.IsOfType|index|_._(_(_[0:1]))[0]#1   strings.ToLower(string(data[0:1]))[0]
      -- ^ DnsServer.isOfType: idx / slice after the len guard
  808211033,  -- commands.go|Command.IsOfType|slice|_[0:1]#1   data[0:1]
      -- ^ DnsServer.isOfType: idx / slice after the len guard
  3378412466,  -- commands.go|DecodeRequestHeader|slice|_[4:]#1   req[4:]
      -- ^ DnsServer.decodeHeader: sliceFrom 4 / slice 0 2 / sliceFrom 2 after the len guards
  2986265006,  -- commands.go|DecodeRequestHeader|slice|_[0:2]#1   req[0:2]
      -- ^ DnsServer.decodeHeader: sliceFrom 4 / slice 0 2 / sliceFrom 2 after the len guards
  1312162220,  -- commands.go|DecodeRequestHeader|slice|_[2:]#1   req[2:]
      -- ^ DnsServer.decodeHeader: sliceFrom 4 / slice 0 2 / sliceFrom 2 after the len guards
  1634133843,  -- serializer.go|Serializer.EncodeDnsResponse|index|_._[0]#1   request.Question[0]
      -- ^ request.Question[0]: one-question messages (quantifier of C12)
  3396749565,  -- serializer.go|Serializer.DecodeDnsResponseWithParams|callfield|_._#1   c.NewResponse
      -- ^ DnsClient.decodeAnswer: callField hasResp after the nil guard; data[0] after the empty-data guard
  3835857668,  -- serializer.go|Serializer.DecodeDnsResponseWithParams|index|_[0]#1   data[0]
      -- ^ DnsClient.decodeAnswer: callField hasResp after the nil guard; data[0] after the empty-data guard
  3635783469,  -- serializer.go|Serializer.DecodeDnsRequest|callfield|_._#1   c.NewRequest
      -- ^ DnsServer.decodeRequest: callField hasReq (guarded in onMessage); request[0] only in the unreachable fall-through
  1303810740,  -- serializer.go|Serializer.DecodeDnsRequest|index|_[0]#1   request[0]
      -- ^ DnsServer.decodeRequest: callField hasReq (guarded in onMessage); request[0] only in the unreachable fall-through
  2963731158,  -- utils.go|StripDomain|slice|_[0:_-_]#1   data[0 : l2-l1]
      -- ^ DnsServer.stripDomain / unescapeF: slice after HasSuffix, pattern matching with the dangling-backslash case
  3717157477,  -- utils.go|StripDomain|index|_[0]#1   data[0]
      -- ^ DnsServer.stripDomain / unescapeF: slice after HasSuffix, pattern matching with the dangling-backslash case
  1899814930,  -- utils.go|StripDomain|slice|_[1:]#1   data[1:]
      -- ^ DnsServer.stripDomain / unescapeF: slice after HasSuffix, pattern matching with the dangling-backslash case
  1883037311,  -- utils.go|StripDomain|slice|_[1:]#2   data[1:]
      -- ^ DnsServer.stripDomain / unescapeF: slice after HasSuffix, pattern matching with the dangling-backslash case
  1866259692,  -- utils.go|StripDomain|slice|_[1:]#3   data[1:]
      -- ^ DnsServer.stripDomain / unescapeF: slice after HasSuffix, pattern matching with the dangling-backslash case
  1451621716,  -- utils.go|StripDomain|slice|_[1:4]#1   data[1:4]
      -- ^ DnsServer.stripDomain / unescapeF: slice after HasSuffix, pattern matching with the dangling-backslash case
  1408826917,  -- utils.go|StripDomain|slice|_[4:]#1   data[4:]
      -- ^ DnsServer.stripDomain / unescapeF: slice after HasSuffix, pattern matching with the dangling-backslash case
  1849482073,  -- utils.go|StripDomain|slice|_[1:]#4   data[1:]
      -- ^ DnsServer.stripDomain / unescapeF: slice after HasSuffix, pattern matching with the dangling-backslash case
  2352642164,  -- utils.go|StripDomain|index|_[1]#1   data[1]
      -- ^ DnsServer.stripDomain / unescapeF: slice after HasSuffix, pattern matching with the dangling-backslash case
  2046295047,  -- utils.go|StripDomain|slice|_[2:]#1   data[2:]
      -- ^ DnsServer.stripDomain / unescapeF: slice after HasSuffix, pattern matching with the dangling-backslash case
  1791890858,  -- utils.go|ComposeRequest|index|_[_]._[0]#1   questions[i].Name[0]
      -- ^ multi-question branch is outside the quantifier; Question[0] for one-question messages
  3644287159,  -- utils.go|ComposeRequest|index|_[_]#1   questions[i]
      -- ^ multi-question branch is outside the quantifier; Question[0] for one-question messages
  2346654915,  -- utils.go|ComposeRequest|index|_[_]._[1]#1   questions[i].Name[1]
      -- ^ multi-question branch is outside the quantifier; Question[0] for one-question messages
  3661064778,  -- utils.go|ComposeRequest|index|_[_]#2   questions[i]
      -- ^ multi-question branch is outside the quantifier; Question[0] for one-question messages
  1775113239,  -- utils.go|ComposeRequest|index|_[_]._[0]#2   questions[j].Name[0]
      -- ^ multi-question branch is outside the quantifier; Question[0] for one-question messages
  3677842397,  -- utils.go|ComposeRequest|index|_[_]#3   questions[j]
      -- ^ multi-question branch is outside the quantifier; Question[0] for one-question messages
  2363432534,  -- utils.go|ComposeRequest|index|_[_]._[1]#2   questions[j].Name[1]
      -- ^ multi-question branch is outside the quantifier; Question[0] for one-question messages
  3560399064,  -- utils.go|ComposeRequest|index|_[_]#4   questions[j]
      -- ^ multi-question branch is outside the quantifier; Question[0] for one-question messages
  1287998639,  -- utils.go|ComposeRequest|slice|_._[2:]#1   v.Name[2:]
      -- ^ multi-question branch is outside the quantifier; Question[0] for one-question messages
  308232773,  -- utils.go|ComposeRequest|index|_._[0]#1   msg.Question[0]
      -- ^ multi-question branch is outside the quantifier; Question[0] for one-question messages
  897759119,  -- dns_server_connection.go|NewServerDnsListener|index|_._[_._]#1   srv.connections[u.UserId]
      -- ^ pruning task: table[u.UserId] with the invariant uid < MaxUserCount (C13 Inv.uidOk); not on the message path
  914536738,  -- dns_server_connection.go|NewServerDnsListener|index|_._[_._]#2   srv.oldConnections[u.UserId]
      -- ^ pruning task: table[u.UserId] with the invariant uid < MaxUserCount (C13 Inv.uidOk); not on the message path
  931314357,  -- dns_server_connection.go|NewServerDnsListener|index|_._[_._]#3   srv.oldConnections[u.UserId]
      -- ^ pruning task: table[u.UserId] with the invariant uid < MaxUserCount (C13 Inv.uidOk); not on the message path
  526406431,  -- dns_server_connection.go|ServerDnsListener.newUser|index|_._[_]#1   s.connections[i]
      -- ^ index produced by range over the same slice
  1977684437,  -- dns_server_connection.go|ServerDnsListener.closeConnection|index|_._[_._]#1   s.connections[u.UserId]
      -- ^ DnsServer.closeConnection: idxOpt live uid; List.set within bounds by Inv.uidOk
  1927351580,  -- dns_server_connection.go|ServerDnsListener.closeConnection|index|_._[_._]#2   s.connections[u.UserId]
      -- ^ DnsServer.closeConnection: idxOpt live uid; List.set within bounds by Inv.uidOk
  1944129199,  -- dns_server_connection.go|ServerDnsListener.closeConnection|index|_._[_._]#3   s.oldConnections[u.UserId]
      -- ^ DnsServer.closeConnection: idxOpt live uid; List.set within bounds by Inv.uidOk
  3148849124,  -- dns_server_connection.go|ServerDnsListener.validateAndGetUser|index|_._[_]#1   s.connections[userId]
      -- ^ DnsServer.validate: idxOpt live/retired uid, uid < 1296 by decodeHeader_spec
  3199181981,  -- dns_server_connection.go|ServerDnsListener.validateAndGetUser|index|_._[_]#2   s.oldConnections[userId]
      -- ^ DnsServer.validate: idxOpt live/retired uid, uid < 1296 by decodeHeader_spec
  1133613889,  -- dns_server_connection.go|ServerDnsListener.testDownstreamFragmentSize|index|_._[_]#1   resp.Data[i]
      -- ^ loop index i < len(resp.Data)
  3049326351,  -- dns_server_connection.go|ServerDnsListener.testDownstreamEncoder|index|_._[0]#1   m.Question[0]
      -- ^ m.Question[0]: one-question messages (quantifier of C12)
  922538952,  -- dns_server_connection.go|userConnection.Close|callfield|_._#1   u.closer
      -- ^ closer is set by newUser for every session object
  3021178496,  -- server_communicator.go|NetConnectionServerCommunicator.handleRequest|callfield|_._#1   n.onMessage
      -- ^ onMessage is registered by NewServerDnsListener before the server is used (nil check present)
  2723023777,  -- wrap.go|TypePriority|slice|_._[0:2]#1   v.Data[0:2]
      -- ^ DnsClient.typePriority: le16At / idx after the length guards
  2543597881,  -- wrap.go|TypePriority|slice|_._._()[0:2]#1   v.Data.String()[0:2]
      -- ^ DnsClient.typePriority: le16At / idx after the length guards
  781919851,  -- wrap.go|TypePriority|index|_._[0]#1   v.Txt[0]
      -- ^ DnsClient.typePriority: le16At / idx after the length guards
  2961774407,  -- wrap.go|TypePriority|index|_._[0][0]#1   v.Txt[0][0]
      -- ^ DnsClient.typePriority: le16At / idx after the length guards
  798697470,  -- wrap.go|TypePriority|index|_._[0]#2   v.Txt[0]
      -- ^ DnsClient.typePriority: le16At / idx after the length guards
  1890914894,  -- wrap.go|TypePriority|index|_._[0][1]#1   v.Txt[0][1]
      -- ^ DnsClient.typePriority: le16At / idx after the length guards
  815475089,  -- wrap.go|TypePriority|index|_._[0]#3   v.Txt[0]
      -- ^ DnsClient.typePriority: le16At / idx after the length guards
  832252708,  -- wrap.go|TypePriority|index|_._[0]#4   v.Target[0]
      -- ^ DnsClient.typePriority: le16At / idx after the length guards
  445670706,  -- wrap.go|TypePriority|index|_._[1]#1   v.Target[1]
      -- ^ DnsClient.typePriority: le16At / idx after the length guards
  2672690920,  -- wrap.go|TypePriority|slice|_._[0:2]#2   v.AAAA[0:2]
      -- ^ DnsClient.typePriority: le16At / idx after the length guards
  849030327,  -- wrap.go|TypePriority|index|_._[0]#5   v.A[0]
      -- ^ DnsClient.typePriority: le16At / idx after the length guards
  3509031767,  -- wrap.go|WrapDnsResponseA|index|_[0]#1   d[0]
      -- ^ server's own encoded answer: every slice is guarded by the preceding len(data) > n test; Question[0] one-question
  2440456884,  -- wrap.go|WrapDnsResponseA|slice|_[0:3]#1   data[0:3]
      -- ^ server's own encoded answer: every slice is guarded by the preceding len(data) > n test; Question[0] one-question
  2674849106,  -- wrap.go|WrapDnsResponseA|slice|_[3:]#1   data[3:]
      -- ^ server's own encoded answer: every slice is guarded by the preceding len(data) > n test; Question[0] one-question
  2062206839,  -- wrap.go|WrapDnsResponseA|slice|_[0:0]#1   data[0:0]
      -- ^ server's own encoded answer: every slice is guarded by the preceding len(data) > n test; Question[0] one-question
  2295847246,  -- wrap.go|WrapDnsResponseA|index|_._[0]#1   msg.Question[0]
      -- ^ server's own encoded answer: every slice is guarded by the preceding len(data) > n test; Question[0] one-question
  1489973525,  -- wrap.go|WrapDnsResponseAAAA|slice|_[0:14]#1   data[0:14]
      -- ^ server's own encoded answer: every slice is guarded by the preceding len(data) > n test; Question[0] one-question
  2015258745,  -- wrap.go|WrapDnsResponseAAAA|slice|_[14:]#1   data[14:]
      -- ^ server's own encoded answer: every slice is guarded by the preceding len(data) > n test; Question[0] one-question
  3399614932,  -- wrap.go|WrapDnsResponseAAAA|slice|_[0:0]#1   data[0:0]
      -- ^ server's own encoded answer: every slice is guarded by the preceding len(data) > n test; Question[0] one-question
  2097668245,  -- wrap.go|WrapDnsResponseAAAA|index|_._[0]#1   msg.Question[0]
      -- ^ server's own encoded answer: every slice is guarded by the preceding len(data) > n test; Question[0] one-question
  1257873108,  -- wrap.go|WrapDnsResponseCname|index|_[0]#1   d[0]
      -- ^ server's own encoded answer: every slice is guarded by the preceding len(data) > n test; Question[0] one-question
  687133509,  -- wrap.go|WrapDnsResponseCname|index|_[1]#1   d[1]
      -- ^ server's own encoded answer: every slice is guarded by the preceding len(data) > n test; Question[0] one-question
  306564119,  -- wrap.go|WrapDnsResponseCname|slice|_[0:_]#1   data[0:maxLen]
      -- ^ server's own encoded answer: every slice is guarded by the preceding len(data) > n test; Question[0] one-question
  2206208467,  -- wrap.go|WrapDnsResponseCname|slice|_[_:]#1   data[maxLen:]
      -- ^ server's own encoded answer: every slice is guarded by the preceding len(data) > n test; Question[0] one-question
  3717382248,  -- wrap.go|WrapDnsResponseCname|slice|_[0:0]#1   data[0:0]
      -- ^ server's own encoded answer: every slice is guarded by the preceding len(data) > n test; Question[0] one-question
  943897809,  -- wrap.go|WrapDnsResponseCname|index|_._[0]#1   msg.Question[0]
      -- ^ server's own encoded answer: every slice is guarded by the preceding len(data) > n test; Question[0] one-question
  3016581170,  -- wrap.go|WrapDnsResponseSrv|slice|_[0:_]#1   data[0:maxLen]
      -- ^ server's own encoded answer: every slice is guarded by the preceding len(data) > n test; Question[0] one-question
  3996459772,  -- wrap.go|WrapDnsResponseSrv|slice|_[_:]#1   data[maxLen:]
      -- ^ server's own encoded answer: every slice is guarded by the preceding len(data) > n test; Question[0] one-question
  3070827525,  -- wrap.go|WrapDnsResponseSrv|slice|_[0:0]#1   data[0:0]
      -- ^ server's own encoded answer: every slice is guarded by the preceding len(data) > n test; Question[0] one-question
  1951559668,  -- wrap.go|WrapDnsResponseSrv|index|_._[0]#1   msg.Question[0]
      -- ^ server's own encoded answer: every slice is guarded by the preceding len(data) > n test; Question[0] one-question
  852220360,  -- wrap.go|WrapDnsResponseMx|slice|_[0:_]#1   data[0:maxLen]
      -- ^ server's own encoded answer: every slice is guarded by the preceding len(data) > n test; Question[0] one-question
  2715438838,  -- wrap.go|WrapDnsResponseMx|slice|_[_:]#1   data[maxLen:]
      -- ^ server's own encoded answer: every slice is guarded by the preceding len(data) > n test; Question[0] one-question
  4281664567,  -- wrap.go|WrapDnsResponseMx|slice|_[0:0]#1   data[0:0]
      -- ^ server's own encoded answer: every slice is guarded by the preceding len(data) > n test; Question[0] one-question
  2060328334,  -- wrap.go|WrapDnsResponseMx|index|_._[0]#1   msg.Question[0]
      -- ^ server's own encoded answer: every slice is guarded by the preceding len(data) > n test; Question[0] one-question
  1113988854,  -- wrap.go|WrapDnsResponseTxt|index|_[0]#1   d[0]
      -- ^ server's own encoded answer: every slice is guarded by the preceding len(data) > n test; Question[0] one-question
  2205636719,  -- wrap.go|WrapDnsResponseTxt|index|_[1]#1   d[1]
      -- ^ server's own encoded answer: every slice is guarded by the preceding len(data) > n test; Question[0] one-question
  3287020460,  -- wrap.go|WrapDnsResponseTxt|slice|_[0:253]#1   data[0:253]
      -- ^ server's own encoded answer: every slice is guarded by the preceding len(data) > n test; Question[0] one-question
  3231822370,  -- wrap.go|WrapDnsResponseTxt|slice|_[253:]#1   data[253:]
      -- ^ server's own encoded answer: every slice is guarded by the preceding len(data) > n test; Question[0] one-question
  2650473746,  -- wrap.go|WrapDnsResponseTxt|slice|_[0:0]#1   data[0:0]
      -- ^ server's own encoded answer: every slice is guarded by the preceding len(data) > n test; Question[0] one-question
  618712691,  -- wrap.go|WrapDnsResponseTxt|index|_._[0]#1   msg.Question[0]
      -- ^ server's own encoded answer: every slice is guarded by the preceding len(data) > n test; Question[0] one-question
  635490310,  -- wrap.go|WrapDnsResponseTxt|index|_._[0]#2   msg.Question[0]
      -- ^ server's own encoded answer: every slice is guarded by the preceding len(data) > n test; Question[0] one-question
  1396275686,  -- wrap.go|WrapDnsResponsePrivate|slice|_[0:65530]#1   data[0:65530]
      -- ^ server's own encoded answer: every slice is guarded by the preceding len(data) > n test; Question[0] one-question
  3365483568,  -- wrap.go|WrapDnsResponsePrivate|slice|_[65530:]#1   data[65530:]
      -- ^ server's own encoded answer: every slice is guarded by the preceding len(data) > n test; Question[0] one-question
  3982733799,  -- wrap.go|WrapDnsResponsePrivate|slice|_[0:0]#1   data[0:0]
      -- ^ server's own encoded answer: every slice is guarded by the preceding len(data) > n test; Question[0] one-question
  3806673054,  -- wrap.go|WrapDnsResponsePrivate|index|_._[0]#1   msg.Question[0]
      -- ^ server's own encoded answer: every slice is guarded by the preceding len(data) > n test; Question[0] one-question
  3461197790,  -- wrap.go|WrapDnsResponseNull|slice|_[0:65530]#1   data[0:65530]
      -- ^ server's own encoded answer: every slice is guarded by the preceding len(data) > n test; Question[0] one-question
  3180246360,  -- wrap.go|WrapDnsResponseNull|slice|_[65530:]#1   data[65530:]
      -- ^ server's own encoded answer: every slice is guarded by the preceding len(data) > n test; Question[0] one-question
  4166826783,  -- wrap.go|WrapDnsResponseNull|slice|_[0:0]#1   data[0:0]
      -- ^ server's own encoded answer: every slice is guarded by the preceding len(data) > n test; Question[0] one-question
  3993187574,  -- wrap.go|WrapDnsResponseNull|index|_._[0]#1   msg.Question[0]
      -- ^ server's own encoded answer: every slice is guarded by the preceding len(data) > n test; Question[0] one-question
  3744981180,  -- wrap.go|UnwrapDnsResponse|index|_[_]#1   answers[i]
      -- ^ DnsClient.recordData: sliceFrom / slice after the length guards
  3795314037,  -- wrap.go|UnwrapDnsResponse|index|_[_]#2   answers[j]
      -- ^ DnsClient.recordData: sliceFrom / slice after the length guards
  1761588070,  -- wrap.go|UnwrapDnsResponse|slice|_._[2:]#1   v.Data[2:]
      -- ^ DnsClient.recordData: sliceFrom / slice after the length guards
  3552879045,  -- wrap.go|UnwrapDnsResponse|slice|_[2:]#1   data[2:]
      -- ^ DnsClient.recordData: sliceFrom / slice after the length guards
  3502546188,  -- wrap.go|UnwrapDnsResponse|slice|_[2:]#2   data[2:]
      -- ^ DnsClient.recordData: sliceFrom / slice after the length guards
  2034234169,  -- wrap.go|UnwrapDnsResponse|slice|_[0:_(_)-_(_)-2]#1   data[0 : len(data)-len(domain)-2]
      -- ^ DnsClient.recordData: sliceFrom / slice after the length guards
  1983901312,  -- wrap.go|UnwrapDnsResponse|slice|_[0:_(_)-_(_)-2]#2   data[0 : len(data)-len(domain)-2]
      -- ^ DnsClient.recordData: sliceFrom / slice after the length guards
  1744810451,  -- wrap.go|UnwrapDnsResponse|slice|_._[2:]#2   v.Target[2:]
      -- ^ DnsClient.recordData: sliceFrom / slice after the length guards
  2000678931,  -- wrap.go|UnwrapDnsResponse|slice|_[0:_(_)-_(_)-2]#3   data[0 : len(data)-len(domain)-2]
      -- ^ DnsClient.recordData: sliceFrom / slice after the length guards
  1728032832,  -- wrap.go|UnwrapDnsResponse|slice|_._[2:]#3   v.AAAA[2:]
      -- ^ DnsClient.recordData: sliceFrom / slice after the length guards
  241583979  -- wrap.go|UnwrapDnsResponse|slice|_._[1:]#1   v.A[1:]
      -- ^ DnsClient.recordData: sliceFrom / slice after the length guards
]

end SA.DnsServer

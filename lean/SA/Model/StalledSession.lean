import SA.Gen.C14Stall
/-
  C14: a physical session is lost while one of its logical connections is stalled on a target that has stopped reading.

  State of the server side of that session (activities that can take a step, any interleaving):
    * the multiplexer's receive loop is parked (receive buffer full) and does not read the carrier, so the end of the
      carrier is never seen; its keep-alive does not close a session in that state, but its periodic frame is written
      to the carrier and that write fails (`ping`), which ends the send loop;
    * policy `watch`: a failed carrier write closes the session (`closeSession`): the multiplexer's loops and the accept
      loop end; the accept loop's end is announced (`announce`);
    * policy `release`: after the announcement the handler's watcher closes the target connection (`releaseTarget`),
      which wakes the copy blocked on the target; the handler and both copy loops end.
-/
namespace SA.StalledSession

structure Policy where
  watch   : Bool
  release : Bool
deriving Repr, DecidableEq

inductive Act where
  | ping | closeSession | announce | releaseTarget
deriving Repr, DecidableEq

structure St where
  writeFailed   : Bool := false
  sessionClosed : Bool := false   -- multiplexer loops (3) + carrier descriptor
  acceptEnded   : Bool := false   -- accept loop (1)
  targetClosed  : Bool := false   -- handler + two copy loops (3) + target connection
deriving Repr, DecidableEq

def step (p : Policy) (s : St) : Act → St
  | .ping => { s with writeFailed := true }
  | .closeSession => if p.watch && s.writeFailed then { s with sessionClosed := true } else s
  | .announce => if s.sessionClosed then { s with acceptEnded := true } else s
  | .releaseTarget => if p.release && s.acceptEnded then { s with targetClosed := true } else s

def run (p : Policy) (s : St) (as : List Act) : St := as.foldl (step p) s

def goroutines (s : St) : Nat :=
  (if s.sessionClosed then 0 else 3) + (if s.acceptEnded then 0 else 1) + (if s.targetClosed then 0 else 3)
def sockets (s : St) : Nat := (if s.sessionClosed then 0 else 1) + (if s.targetClosed then 0 else 1)

def released (s : St) : Bool := s.sessionClosed && s.acceptEnded && s.targetClosed

/-- the code's policy (regenerated) -/
def codePolicy : Policy := ⟨Gen.carrierWriteFailureEndsSession, Gen.handlerReleasesTargetOnSessionEnd⟩

/-- one round in which every activity gets a turn, in the least favourable order -/
def round : List Act := [.releaseTarget, .announce, .closeSession, .ping]

/-- e2e prediction for `life <carrier> 1 blockS rstall` -/
def rstall : String :=
  let s := run codePolicy {} (round ++ round ++ round ++ round)
  s!"held={!released s}"

end SA.StalledSession

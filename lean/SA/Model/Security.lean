/-
  SA.Model.Security — C04 decision logic on top of SA.Model.Handshake:
  the `mustSecure && !cc.Secure()` guard of every upstream `Connect`
  (internal/client/upstream/{socket,http,packet,input_output,dns}.go), `Upstreams.open`
  (internal/client/upstream/upstream.go) and the honest client/server pair.

  TLS itself is a parameter: `tls left : Bool` is what crypto/tls reports for the handshake that starts
  when `left` is still unread on the carrier.
-/
import SA.Model.Handshake
import SA.Gen.C04
namespace SA.Security
open SA.Handshake

/-- result of an upstream `Connect(manager, mustSecure)` -/
inductive Connect
  | ok (v : B) (tech : Tech) (secure : Bool) (left : B)   -- ups.Connection assigned
  | insecureRejected                                     -- the mustSecure guard fired; ups.Connection stays nil
  | failed (why : Outcome)                               -- NewClientConnection returned an error
  deriving DecidableEq, Repr

/-- `cc, err := NewClientConnection(…); if err != nil {…} else if mustSecure && !cc.Secure() {…} else {stream = cc}` -/
def guard (mustSecure : Bool) (r : CliResult) : Connect :=
  match r.out with
  | .established v t s l => if mustSecure && !s then .insecureRejected else .ok v t s l
  | o => .failed o

/-- any of the five `Connect` functions after the carrier is up (`secure0` = carrier already encrypted) -/
def connect (secure0 mustSecure : Bool) (tls : B → Bool) (chunks : List B) : Connect :=
  guard mustSecure (clientRun secure0 tls chunks)

/-- Upstreams.open over the endpoint list: the first endpoint whose Connect succeeds is stored
    (`ul.connection = a`); each endpoint is a peer script with its own carrier security. -/
def openFirst (mustSecure : Bool) (tls : B → Bool) : List (Bool × List B) → Option Connect
  | [] => none
  | (s0, peer) :: rest =>
    match connect s0 mustSecure tls peer with
    | .ok v t s l => some (.ok v t s l)
    | _ => openFirst mustSecure tls rest

/-! ### honest pair: the real client talking to the real server -/

def statusText (code : Nat) : B :=
  match (Gen.handshakeStatuses ++ Gen.upgradeStatuses).find? (fun p => p.1 == code) with
  | some p => p.2
  | none => []

/-- (*Response).String for a response without a Message header -/
def render (w : Wrote) : B :=
  [72, 84, 84, 80, 47, 49, 46, 49, 32] ++ statusText w.code ++ crlf
    ++ (w.headers.map (fun kv => kv.1 ++ colonSp ++ kv.2 ++ crlf)).flatten ++ crlf

/-- the client's announce request, as (*Request).String renders it -/
def announceRequest : B :=
  Gen.requestMethod ++ [32, 47, 32, 72, 84, 84, 80, 47, 49, 46, 49] ++ crlf
    ++ Gen.acceptsProtocolVersion ++ colonSp ++ Gen.c06ProtocolVersion ++ crlf
    ++ Gen.userAgent ++ colonSp ++ bSocketaceSlash ++ Gen.unknownVersion ++ crlf ++ crlf

structure Pair where
  server : Outcome
  client : Outcome
  deriving DecidableEq, Repr

/-- run both ends against each other; `tlsOk` = the TLS handshake between them succeeds (on both sides) -/
def honestPair (scfg : SrvCfg) (csecure : Bool) (tlsOk : Bool) : Pair :=
  let tls : B → Bool := fun left => tlsOk && left.isEmpty
  -- what the server answers to the announce alone
  let s1 := serverRun scfg tls [announceRequest]
  let reply1 := (s1.written.map render).flatten
  -- the client reads that answer and writes its upgrade request
  let c1 := clientRun csecure tls [reply1]
  let s2 := serverRun scfg tls [announceRequest ++ c1.req2]
  let reply2 := (s2.written.map render).flatten
  let c2 := clientRun csecure tls [reply2]
  ⟨s2.out, c2.out⟩

end SA.Security

/-
  SA.Model.Security — C04 decision logic on top of SA.Model.Handshake:
  the `mustSecure && !cc.Secure()` guard of every upstream `Connect`
  (internal/client/upstream/{socket,http,packet,input_output,dns}.go), `Upstreams.open`
  (internal/client/upstream/upstream.go) and the honest client/server pair.

  TLS itself is a parameter: `tls left : Bool` is what crypto/tls reports for the handshake that starts
  when `left` is still unread on the carrier.
-/
import SA.Model.Handshake
import SA.Gen.C04
import SA.Gen.C04Args
namespace SA.Security
open SA.Handshake

/-- result of an upstream `Connect(manager, mustSecure)` -/
inductive Connect
  | ok (v : B) (tech : Tech) (secure : Bool) (left : B)   -- ups.Connection assigned
  | insecureRejected                                     -- the mustSecure guard fired; ups.Connection stays nil
  | failed (why : Outcome)                               -- NewClientConnection returned an error
  deriving DecidableEq, Repr

/-- `cc, err := NewClientConnection(…); if err != nil {…} else if mustSecure && !cc.Secure() {…} else {stream = cc}` -/
def guard (mustSecure : Bool) (r : CliResult) : Connect :=
  match r.out with
  | .established v t s l => if mustSecure && !s then .insecureRejected else .ok v t s l
  | o => .failed o

/-- any of the five `Connect` functions after the carrier is up (`secure0` = carrier already encrypted) -/
def connect (secure0 mustSecure : Bool) (tls : B → Bool) (chunks : List B) : Connect :=
  guard mustSecure (clientRun secure0 tls chunks)

/-! ### what every upstream kind tells the handshake about its carrier

`NewClientConnection(carrier, manager, <secure argument>, host)`: the argument is regenerated per kind
(`Gen.c04SecureArgs`, source text + class) and evaluated here in the situation the `Connect` runs in. -/

/-- the situation of one `Connect`: is the carrier it dialled really a TLS connection (only possible for the `+tls`,
    `https`, `wss` schemes), is a udp shared secret (AES, not TLS) configured, does the caller require security -/
structure KindEnv where
  carrierTls : Bool
  sharedSecret : Bool
  mustSecure : Bool
  deriving DecidableEq, Repr

def upstreamKinds : List String := ["socket", "http", "packet", "stdio", "dns"]

/-- class of the `secure` argument of a kind (`other` when the kind is missing from the regenerated table) -/
def secureArgClass (kind : String) : String :=
  match Gen.c04SecureArgs.find? (fun r => r.1 == kind) with
  | some r => r.2.2.2
  | none => "other"

/-- the value the argument has in the situation `e`.  An expression the extractor does not recognise is read
    pessimistically: the handshake is told the carrier is secure. -/
def secureArgValue (cls : String) (e : KindEnv) : Bool :=
  if cls == "false" then false
  else if cls == "tlsBranchVar" then e.carrierTls
  else if cls == "passwordVar" then e.sharedSecret
  else if cls == "mustSecure" then e.mustSecure
  else true

/-- `Connect` of the given upstream kind after its carrier is up -/
def connectKind (kind : String) (e : KindEnv) (tls : B → Bool) (chunks : List B) : Connect :=
  connect (secureArgValue (secureArgClass kind) e) e.mustSecure tls chunks

/-- Upstreams.open over the endpoint list: the first endpoint whose Connect succeeds is stored
    (`ul.connection = a`); each endpoint is a peer script with its own carrier security. -/
def openFirst (mustSecure : Bool) (tls : B → Bool) : List (Bool × List B) → Option Connect
  | [] => none
  | (s0, peer) :: rest =>
    match connect s0 mustSecure tls peer with
    | .ok v t s l => some (.ok v t s l)
    | _ => openFirst mustSecure tls rest

/-! ### honest pair: the real client talking to the real server -/

def statusText (code : Nat) : B :=
  match (Gen.handshakeStatuses ++ Gen.upgradeStatuses).find? (fun p => p.1 == code) with
  | some p => p.2
  | none => []

/-- (*Response).String for a response without a Message header -/
def render (w : Wrote) : B :=
  [72, 84, 84, 80, 47, 49, 46, 49, 32] ++ statusText w.code ++ crlf
    ++ (w.headers.map (fun kv => kv.1 ++ colonSp ++ kv.2 ++ crlf)).flatten ++ crlf

/-- the client's announce request, as (*Request).String renders it -/
def announceRequest : B :=
  Gen.requestMethod ++ [32, 47, 32, 72, 84, 84, 80, 47, 49, 46, 49] ++ crlf
    ++ Gen.acceptsProtocolVersion ++ colonSp ++ Gen.c06ProtocolVersion ++ crlf
    ++ Gen.userAgent ++ colonSp ++ bSocketaceSlash ++ Gen.unknownVersion ++ crlf ++ crlf

structure Pair where
  server : Outcome
  client : Outcome
  deriving DecidableEq, Repr

/-- run both ends against each other; `tlsOk` = the TLS handshake between them succeeds (on both sides) -/
def honestPair (scfg : SrvCfg) (csecure : Bool) (tlsOk : Bool) : Pair :=
  let tls : B → Bool := fun left => tlsOk && left.isEmpty
  -- what the server answers to the announce alone
  let s1 := serverRun scfg tls [announceRequest]
  let reply1 := (s1.written.map render).flatten
  -- the client reads that answer and writes its upgrade request
  let c1 := clientRun csecure tls [reply1]
  let s2 := serverRun scfg tls [announceRequest ++ c1.req2]
  let reply2 := (s2.written.map render).flatten
  let c2 := clientRun csecure tls [reply2]
  ⟨s2.out, c2.out⟩

/-! ### one cell of the end-to-end grid (`seckinds`): real client kind against the real server of that kind -/

def tlsSchemes : List String := ["tcp+tls", "wss", "stdio+tls"]

/-- upstream kind serving a scheme of the grid -/
def kindOfScheme (scheme : String) : String :=
  if scheme == "tcp" || scheme == "tcp+tls" then "socket"
  else if scheme == "ws" || scheme == "wss" then "http"
  else if scheme == "udp" then "packet"
  else if scheme == "stdio" || scheme == "stdio+tls" then "stdio"
  else if scheme == "dns" then "dns"
  else "?"

inductive Cell
  | noserver                       -- a TLS endpoint without a certificate does not start
  | refused                        -- no session on the client
  | est (tech : Tech) (secure : Bool) (echo : Bool) (clear : Bool)
  deriving DecidableEq, Repr

/-- hypothesis table for crypto/tls + x509 with the rig's certificate (names `localhost`, 127.0.0.1; signed by the rig
    CA): a verifying client accepts it iff it has the CA and addresses the server by a name on the certificate.
    `tcp`/`ws`/`udp` upstreams are addressed as 127.0.0.1, stdio passes no host, dns passes the tunnel domain. -/
def hostOnCert (scheme : String) : Bool := !(scheme == "stdio" || scheme == "stdio+tls" || scheme == "dns")

/-- does crypto/tls accept the server certificate under this client configuration (see `hostOnCert`) -/
def accepts (scheme : String) (insecure ca : Bool) : Bool := insecure || (ca && hostOnCert scheme)

/-- one cell, given the verdict `acc` of the client's certificate verification -/
def cellCore (scheme : String) (scert must acc : Bool) : Cell :=
  let ctls := tlsSchemes.contains scheme
  if ctls && !scert then .noserver
  else
    -- the carrier: TLS schemes dial TLS first (stdin+tls never verifies)
    let carrierOk := !ctls || scheme == "stdio+tls" || acc
    if !carrierOk then .refused
    else
      let e : KindEnv := ⟨ctls, false, must⟩
      let s0 := secureArgValue (secureArgClass (kindOfScheme scheme)) e
      let scfg : SrvCfg := ⟨ctls, if scert then .ok else .empty⟩
      let p := honestPair scfg s0 acc
      match p.client with
      | .established _ t s _ =>
        if must && !s then .refused
        else
          let echo := match p.server with
            | .established _ ts _ _ => (t == .tls) == (ts == .tls)
            | _ => false
          .est t s echo (!(ctls || t == .tls))
      | _ => .refused

def cell (scheme : String) (scert must insecure ca : Bool) : Cell :=
  cellCore scheme scert must (accepts scheme insecure ca)

end SA.Security

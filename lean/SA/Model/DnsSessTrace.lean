/-
  SA.Model.DnsSessTrace — the projection of a multi-session server history onto ONE session object (C13 ∘ C07).

  `sessTrace cd dom sid ops` lists, in order, the only two kinds of step of the history `ops` that reach the queue pair
  (InQueue / OutQueue) of the session object `sid`:

  * `pkt ack p` — a message that (a) names a command with a request form and carries the identifier `i` of a live
    slot holding `sid`, (b) comes from `sid`'s owner address, (c) is processed while `sid` is live in slot `i`, and
    decodes (with `sid`'s upstream codec) to a packet request with acknowledgement `ack` and optional packet `p`
    (`pktReq`); what `ServerDnsListener.packet` then does to the queues is `pktStep`, what it answers `pktAns`;
  * `wr data cs` — an application-side `Write(data)` on the connection object `sid` that was not skipped (object exists,
    data non-empty, not closed, no unacknowledged data reported, fragment size ≠ 0), cut into the chunks `cs`.

  SA.Proofs.DnsServerQueues proves that the queue pair of `sid` after ANY history is the fold of `qstep` over this
  trace — nothing else in the history (other sessions, other addresses, spoofed identifiers, closes, expiry, option
  changes) reaches it.  SA.Proofs.DnsServerRefine proves `qstep` equal to the server end of SA.Model.Queue (C07).
-/
import SA.Model.DnsSessions
import SA.Model.Queue

namespace SA.DnsServer
open SA.Go SA.Go.Res

/-- the two queues of a session object -/
abbrev QPair := InQ × OutQ

def Sess.q (s : Sess) : QPair := (s.inq, s.outq)

/-- `ServerDnsListener.packet` on the queues of the validated session:
    `out.UpdateAcked(ack); err := in.Append(pkt); if err == nil { out.NextChunk() }` -/
def pktStep (q : QPair) (ack : Nat) (pkt : Option (Nat × List Nat)) : QPair :=
  match q.1.append pkt with
  | none => (q.1, q.2.updateAcked ack)
  | some i => (i, (q.2.updateAcked ack).nextChunk.1)

/-- the answer `packet` computes for the validated session (before `WrapDnsResponse` may drop it) -/
def pktAns (q : QPair) (ack : Nat) (pkt : Option (Nat × List Nat)) : Ans :=
  match q.1.append pkt with
  | none => .err 99 "other"
  | some i => .pktOk (u16 (i.next + 65535)) (q.2.updateAcked ack).nextChunk.2

/-- events that reach one session's queue pair -/
inductive SEv where
  | pkt (ack : Nat) (p : Option (Nat × List Nat))
  | wr (data : List Nat) (cs : List (List Nat))
  deriving DecidableEq, Repr

def qstep (q : QPair) : SEv → QPair
  | .pkt a p => pktStep q a p
  | .wr _ cs => (q.1, q.2.addChunks cs)

/-- Is `m` a packet request for a live session from that session's owner?  Returns the session object, the
    acknowledgement and the packet.  Uses the model's own decoding path (StripDomain, command table, request header,
    the *named session's* upstream codec). -/
def pktReq (cd : Codec) (dom : List Nat) (σ : Srv) (m : Msg) : Option (Nat × Nat × Option (Nat × List Nat)) :=
  match stripDomain m.name dom with
  | .ok request =>
    match findCmd SA.Gen.commandTable request with
    | .ok (some (code, needsUser, true, _)) =>
      match decodeHeader needsUser request with
      | .ok (some (_, uid)) =>
        match σ.live[uid]? with
        | some (some s) =>
          if (σ.sess s).owner = m.addr then
            match decodeRequest cd code needsUser true (σ.sess s).up request with
            | .ok (some (.packet _ a p)) => some (s, a, p)
            | _ => none
          else none
        | _ => none
      | _ => none
    | _ => none
  | .panic => none

/-- does the application-side Write reach the out-queue? (the guard of `appWrite`) -/
def writeReaches (σ : Srv) (s : Nat) (d : List Nat) : Bool :=
  decide (s < σ.heap.length ∧ d ≠ []) && !(decide ((σ.sess s).closed = true ∨ (σ.sess s).outq.hasData = true ∨ (σ.sess s).frag = 0))

/-- the events of one op of the history that reach session object `sid` -/
def evOf (cd : Codec) (dom : List Nat) (sid : Nat) (σ : Srv) : Op → List SEv
  | .msg m =>
    match pktReq cd dom σ m with
    | some (s, a, p) => if s = sid then [.pkt a p] else []
    | none => []
  | .write s d => if s = sid ∧ writeReaches σ s d = true then [.wr d (chunks d.length (σ.sess s).frag d)] else []
  | _ => []

def sessTraceFrom (cd : Codec) (dom : List Nat) (sid : Nat) : Srv → List Op → List SEv
  | _, [] => []
  | σ, op :: r => evOf cd dom sid σ op ++ sessTraceFrom cd dom sid (step cd dom σ op) r

/-- the projection of the history `ops` (from a fresh listener) onto session object `sid` -/
def sessTrace (cd : Codec) (dom : List Nat) (sid : Nat) (ops : List Op) : List SEv :=
  sessTraceFrom cd dom sid Srv.init ops

/-- the bytes the application wrote to the connection object (the Writes that reached the out-queue) -/
def writtenOf : List SEv → List Nat
  | [] => []
  | .wr d _ :: r => d ++ writtenOf r
  | .pkt _ _ :: r => writtenOf r

/-- the payloads of the packets the owner sent to the session -/
def payloadsOf : List SEv → List (List Nat)
  | [] => []
  | .pkt _ (some p) :: r => p.2 :: payloadsOf r
  | _ :: r => payloadsOf r

/-- the chunks the application's Writes were cut into -/
def chunksOf : List SEv → List (List Nat)
  | [] => []
  | .wr _ cs :: r => cs ++ chunksOf r
  | .pkt _ _ :: r => chunksOf r

/-- the answers given to the packet requests of the trace (in order): the answers to `sid`'s owner that carry
    stream data -/
def ansTraceFrom (cd : Codec) (dom : List Nat) (sid : Nat) : Srv → List Op → List Ans
  | _, [] => []
  | σ, op :: r =>
    (match op with
     | .msg m =>
       match pktReq cd dom σ m with
       | some (s, _, _) =>
         if s = sid then
           match onMessage cd dom σ m with
           | .ok (_, a) => [a]
           | .panic => []
         else []
       | none => []
     | _ => []) ++ ansTraceFrom cd dom sid (step cd dom σ op) r

def ansTrace (cd : Codec) (dom : List Nat) (sid : Nat) (ops : List Op) : List Ans :=
  ansTraceFrom cd dom sid Srv.init ops

/-- the answers `packet` computes along a trace, starting from the queue pair `q` -/
def expectedAns : QPair → List SEv → List Ans
  | _, [] => []
  | q, .pkt a p :: r => pktAns q a p :: expectedAns (pktStep q a p) r
  | q, .wr d cs :: r => expectedAns (qstep q (.wr d cs)) r

/-- two lists of the same length whose elements are related one by one -/
def Pointwise {α β : Type} (P : α → β → Prop) : List α → List β → Prop
  | [], [] => True
  | a :: as, b :: bs => P a b ∧ Pointwise P as bs
  | _, _ => False

/-- the decoders return bytes (`Decode` returns a `[]byte`) -/
def Codec.Bytes (cd : Codec) : Prop := ∀ c i d, cd.dec c i = some d → ∀ b ∈ d, b < 256

end SA.DnsServer

/-! ### the server end of the two-endpoint model of C07, as a trace -/

namespace SA.Queue

/-- what reaches endpoint B in one event of the two-endpoint model -/
inductive BEv where
  | serve (q : Query)
  | wr (data : List Nat) (cs : List (List Nat))
  deriving Repr

def bstep (c : Cfg) (e : End) : BEv → End
  | .serve q => (serve c e q).1
  | .wr d cs => { e with outq := cs.foldl OutQ.addChunk e.outq, accR := d :: e.accR, pend := some d.length }

/-- the response B computes for a served query -/
def bresp (c : Cfg) (e : End) : BEv → List Resp
  | .serve q => [(serve c e q).2]
  | .wr _ _ => []

def bEv (c : Cfg) (mtu : Nat) (st : Sys) : Ev → List BEv
  | .write true data => if st.b.outq.out ≠ [] then [] else [.wr data (chunks mtu data)]
  | .xchg (.rp k) =>
    match st.hist[k]? with
    | none => []
    | some q => [.serve q]
  | .xchg .ql => []
  | .xchg .al => [.serve (mkQuery c st.a).2]
  | .xchg .d => [.serve (mkQuery c st.a).2]
  | .xchg .dup1 => [.serve (mkQuery c st.a).2, .serve (mkQuery c st.a).2]
  | .xchg .dup2 => [.serve (mkQuery c st.a).2, .serve (mkQuery c st.a).2]
  | _ => []

/-- the events of a history that reach endpoint B, in order -/
def bTrace (c : Cfg) (mtu : Nat) : Sys → List Ev → List BEv
  | _, [] => []
  | st, e :: es => bEv c mtu st e ++ bTrace c mtu (stepS c mtu st e) es

/-- events that touch B in no other way than `bEv` lists: no application Read at B (the C13 model has none: its
    `buf` is everything ever released), no forged packets / acknowledgements at B (excluded by C07's hypothesis anyway) -/
def plainB : Ev → Bool
  | .read true _ => false
  | .inject true _ _ => false
  | .fack true _ => false
  | _ => true

/-- the responses B computes along a trace -/
def respTrace (c : Cfg) : End → List BEv → List Resp
  | _, [] => []
  | e, x :: r => bresp c e x ++ respTrace c (bstep c e x) r

end SA.Queue

namespace SA.DnsServer

def ofPkt (p : SA.Queue.Pkt) : Nat × List Nat := (p.seq, p.data)
def toPkt (p : Nat × List Nat) : SA.Queue.Pkt := ⟨p.1, p.2⟩

/-- forget the ghost fields of a query: what the wire carries -/
def eraseB : SA.Queue.BEv → SEv
  | .serve q => .pkt q.ack (q.pkt.map ofPkt)
  | .wr d cs => .wr d cs

/-- the answer of `packet` that corresponds to a response of the two-endpoint model -/
def ansOfResp : SA.Queue.Resp → Ans
  | .err => .err 99 "other"
  | .ok ack pkt _ _ => .pktOk ack (pkt.map ofPkt)

end SA.DnsServer

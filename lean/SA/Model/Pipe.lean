/-
  SA.Model.Pipe — process model of streams.PipeData (internal/streams/pipes.go) and of its callers
  (client listener HandleConnection, server muxHandler/multiplexToUpstream), for C14 and C17.

  Three activities: copier D (down→up), copier U (up→down) — each `io.CopyBuffer` until its read side
  ends, then ONE send on its result channel, then exit — and `main`, which `select`s once on both
  channels, closes the opposite end (and on a non-EOF result also its own end) and returns; it never
  receives again.  Channel capacity, which ends each `select` arm closes, and whether the server-side
  caller closes the target connection come from regenerated facts (SA.Gen.C14).

  Data (C17): each end has a list of chunks still to be read from it (`dIn`/`uIn`), a flag that its
  peer has finished (`dFin`/`uFin`: `Read` returns EOF once the chunks are consumed) and the bytes
  written to it so far.  A `Read` on a locally closed end fails; a `Write` to a locally closed end fails.
-/
import SA.Base.Util
import SA.Gen.C14
import SA.Model.CarrierClose
namespace SA.Pipe

inductive End | down | up
  deriving DecidableEq, Repr

inductive Res | eof | err
  deriving DecidableEq, Repr

inductive Copier
  | copying                   -- in (or about to call) Read on its source
  | writing (chunk : List Nat) -- has read `chunk`, in Write on its destination
  | sending (r : Res)
  | done
  deriving DecidableEq, Repr

inductive Caller
  | none       -- PipeData alone (also the listener's direct-forward path, which closes nothing afterwards)
  | both       -- client listener HandleConnection: TryClose(up); TryClose(conn) after PipeData returns
  | downOnly   -- server: multiplexToUpstream's deferred close of the multiplexed stream only
  deriving DecidableEq, Repr

/-- the code-dependent parameters (from SA.Gen.C14) -/
structure Cfg where
  cap : Nat                 -- capacity of downPipe / upPipe
  armD : List End           -- ends closed by the `<-downPipe` arm
  armDErr : List End        -- … additionally when the result is not io.EOF
  armU : List End
  armUErr : List End
  caller : Caller
  muxClosesTarget : Bool    -- server muxHandler closes the target connection it opened
  deriving Repr

structure St where
  dIn : List (List Nat)     -- chunks still readable from `down`
  uIn : List (List Nat)
  dFin : Bool               -- down's peer has finished writing: EOF after the chunks
  uFin : Bool
  dGone : Bool              -- down's peer has closed completely: a Write to `down` fails
  uGone : Bool
  dStall : Bool             -- down's peer has stopped reading: a Write to `down` blocks (until `down` is closed locally)
  uStall : Bool
  dClosed : Bool            -- Close() has been called on `down` (by PipeData or its caller)
  uClosed : Bool
  dOut : List Nat           -- bytes written to `down`
  uOut : List Nat
  cd : Copier               -- copier down→up
  cu : Copier               -- copier up→down
  chD : Nat                 -- results buffered in downPipe
  chU : Nat
  chDr : Res                -- (value of the buffered result; meaningful when chD > 0)
  chUr : Res
  mainDone : Bool
  mainRes : Option Res      -- what PipeData returned: none = nil
  callerDone : Bool
  closeLog : List End       -- order of Close calls, for the correspondence
  deriving Repr

def init (dIn uIn : List (List Nat)) : St :=
  { dIn := dIn, uIn := uIn, dFin := false, uFin := false, dGone := false, uGone := false, dStall := false, uStall := false,
    dClosed := false, uClosed := false,
    dOut := [], uOut := [], cd := .copying, cu := .copying, chD := 0, chU := 0, chDr := .eof, chUr := .eof,
    mainDone := false, mainRes := none, callerDone := false, closeLog := [] }

inductive Act
  | finDown            -- environment: the peer of `down` finishes writing (EOF after pending chunks)
  | finUp
  | goneDown           -- environment: the peer of `down` closes completely (implies finDown)
  | goneUp
  | stallDown          -- environment: the peer of `down` stops reading
  | stallUp
  | stepD              -- copier D: one Read + Write, or observe end / failure
  | stepU
  | sendD              -- copier D: hand its result to the channel
  | sendU
  | recvD              -- main: `case err := <-downPipe`
  | recvU
  | callerClose        -- the caller's closes after PipeData returned
  deriving DecidableEq, Repr

def closeEnd (s : St) : End → St
  | .down => if s.dClosed then s else { s with dClosed := true, closeLog := s.closeLog ++ [.down] }
  | .up => if s.uClosed then s else { s with uClosed := true, closeLog := s.closeLog ++ [.up] }

def closeAll (s : St) (es : List End) : St := es.foldl closeEnd s

/-- main's handling of a received result -/
def mainArm (c : Cfg) (s : St) (fromD : Bool) (r : Res) : St :=
  let es := if fromD then c.armD ++ (if r = .err then c.armDErr else [])
            else c.armU ++ (if r = .err then c.armUErr else [])
  let s := closeAll s es
  { s with mainDone := true, mainRes := if r = .err then some .err else none }

/-- `step c s a = some s'` when action `a` is enabled in `s` -/
def step (c : Cfg) (s : St) : Act → Option St
  | .finDown => if s.dFin then none else some { s with dFin := true }
  | .finUp => if s.uFin then none else some { s with uFin := true }
  | .goneDown => if s.dGone then none else some { s with dGone := true, dFin := true }
  | .goneUp => if s.uGone then none else some { s with uGone := true, uFin := true }
  | .stallDown => if s.dStall then none else some { s with dStall := true }
  | .stallUp => if s.uStall then none else some { s with uStall := true }
  | .stepD =>
      match s.cd with
      | .copying =>
          if s.dClosed then some { s with cd := .sending .err }          -- Read on a locally closed conn
          else match s.dIn with
            | chunk :: rest => some { s with dIn := rest, cd := .writing chunk }
            | [] => if s.dFin then some { s with cd := .sending .eof } else none  -- blocked in Read
      | .writing chunk =>
          if s.uClosed ∨ s.uGone then some { s with cd := .sending .err } -- Write fails
          else if s.uStall then none                                       -- blocked in Write
          else some { s with uOut := s.uOut ++ chunk, cd := .copying }
      | _ => none
  | .stepU =>
      match s.cu with
      | .copying =>
          if s.uClosed then some { s with cu := .sending .err }
          else match s.uIn with
            | chunk :: rest => some { s with uIn := rest, cu := .writing chunk }
            | [] => if s.uFin then some { s with cu := .sending .eof } else none
      | .writing chunk =>
          if s.dClosed ∨ s.dGone then some { s with cu := .sending .err }
          else if s.dStall then none
          else some { s with dOut := s.dOut ++ chunk, cu := .copying }
      | _ => none
  | .sendD =>
      match s.cd with
      | .sending r =>
          if s.chD < c.cap then some { s with cd := .done, chD := s.chD + 1, chDr := r }
          else if c.cap = 0 ∧ ¬ s.mainDone then          -- rendezvous with the waiting select
            some { (mainArm c s true r) with cd := .done }
          else none                                        -- blocked forever once main has returned
      | _ => none
  | .sendU =>
      match s.cu with
      | .sending r =>
          if s.chU < c.cap then some { s with cu := .done, chU := s.chU + 1, chUr := r }
          else if c.cap = 0 ∧ ¬ s.mainDone then
            some { (mainArm c s false r) with cu := .done }
          else none
      | _ => none
  | .recvD =>
      if ¬ s.mainDone ∧ 0 < s.chD then some (mainArm c { s with chD := s.chD - 1 } true s.chDr) else none
  | .recvU =>
      if ¬ s.mainDone ∧ 0 < s.chU then some (mainArm c { s with chU := s.chU - 1 } false s.chUr) else none
  | .callerClose =>
      if s.mainDone ∧ ¬ s.callerDone then
        let s := match c.caller with
          | .none => s
          | .both => closeAll s [.up, .down]
          | .downOnly => closeAll s (if c.muxClosesTarget then [.up, .down] else [.down])
        some { s with callerDone := true }
      else none

def allActs : List Act := [.finDown, .finUp, .goneDown, .goneUp, .stallDown, .stallUp, .stepD, .stepU, .sendD, .sendU, .recvD, .recvU, .callerClose]

/-- run a schedule; actions that are not enabled are skipped -/
def run (c : Cfg) : St → List Act → St
  | s, [] => s
  | s, a :: as => match step c s a with
    | some s' => run c s' as
    | none => run c s as

/-- no activity of the program (copiers, main, caller) can move -/
def quiescent (c : Cfg) (s : St) : Bool :=
  [Act.stepD, .stepU, .sendD, .sendU, .recvD, .recvU, .callerClose].all (fun a => (step c s a).isNone)

/-- goroutines of this PipeData call that still exist -/
def liveCopiers (s : St) : Nat :=
  (if s.cd = .done then 0 else 1) + (if s.cu = .done then 0 else 1)

/-- let the program run until nothing can move (fixed fair order; the environment does not act) -/
def settle (c : Cfg) : Nat → St → St
  | 0, s => s
  | fuel + 1, s =>
      match [Act.stepD, .stepU, .sendD, .sendU, .recvD, .recvU, .callerClose].findSome? (fun a => step c s a) with
      | some s' => settle c fuel s'
      | none => s

/-! ### line protocol: `pipe <pd|mux> <events…>` — events: `wd<n>` / `wu<n>` (n bytes arrive at down / up),
    `cd` / `cu` (the peer of down / up closes completely), `hd` / `hu` (it half-closes: end-of-stream for our
    reads, still accepting our writes), `sd` / `su` (it stops reading: our writes block).
    After every event the program runs to quiescence.
    Result: `ret=<nil|err|-> dOut=<n> uOut=<n> dClosed=<b> uClosed=<b> live=<k>`. -/

def feed (s : St) (e : End) (n : Nat) : St :=
  match e with
  | .down => { s with dIn := s.dIn ++ [List.replicate n 0] }
  | .up => { s with uIn := s.uIn ++ [List.replicate n 0] }

def applyEvent (c : Cfg) (s : St) (ev : String) : Option St :=
  let fuel := 64 + s.dIn.length + s.uIn.length
  match ev.toList with
  | ['c', 'd'] => some (settle c fuel ((step c s .goneDown).getD s))
  | ['c', 'u'] => some (settle c fuel ((step c s .goneUp).getD s))
  | ['h', 'd'] => some (settle c fuel ((step c s .finDown).getD s))
  | ['h', 'u'] => some (settle c fuel ((step c s .finUp).getD s))
  | ['s', 'd'] => some (settle c fuel ((step c s .stallDown).getD s))
  | ['s', 'u'] => some (settle c fuel ((step c s .stallUp).getD s))
  | 'w' :: 'd' :: n => (String.ofList n).toNat?.map (fun k => settle c fuel (feed s .down k))
  | 'w' :: 'u' :: n => (String.ofList n).toNat?.map (fun k => settle c fuel (feed s .up k))
  | _ => none

def render (s : St) : String :=
  let ret := if ¬ s.mainDone then "-" else match s.mainRes with | some _ => "err" | none => "nil"
  s!"ret={ret} dOut={s.dOut.length} uOut={s.uOut.length} dClosed={boolStr s.dClosed} uClosed={boolStr s.uClosed} live={liveCopiers s}"

def handleWith (c : Cfg) (evs : List String) : String :=
  match evs.foldlM (applyEvent c) (init [] []) with
  | some s => render s
  | none => "bad-op"

def endOfName : String → Option End
  | "up" => some .up | "down" => some .down | _ => none

/-- the configuration of the current code, from the regenerated facts -/
def genCfg (caller : Caller) : Cfg :=
  { cap := Gen.pipeChanCap,
    armD := Gen.pipeArmDown.filterMap endOfName, armDErr := Gen.pipeArmDownErr.filterMap endOfName,
    armU := Gen.pipeArmUp.filterMap endOfName, armUErr := Gen.pipeArmUpErr.filterMap endOfName,
    caller := caller, muxClosesTarget := Gen.muxClosesTarget }

def handle (toks : List String) : String :=
  match toks with
  | "pd" :: evs => handleWith (genCfg .none) evs
  | "mux" :: evs => handleWith (genCfg .downOnly) evs
  | _ => "bad-op"

/-- e2e prediction for `life <carrier> <n> <closer> <ending>`: goroutines left per finished logical
    connection (two PipeData calls per connection: client listener and server channel hop) and whether
    a dead session is serviced in a busy loop -/
def handleLife (toks : List String) : String :=
  -- a session that ends while its carrier write is blocked: SA.Model.CarrierClose
  match CarrierClose.lifeBlocked toks with
  | some r => r
  | none =>
  match toks with
  | [carrier, n, "badpeer", ending] =>
      -- refused sessions: the branch of AcceptConnection taken after a failed handshake only logs and closes, so a
      -- refused session is released whatever its peer does next; with anything else in that branch the model declines
      if (carrier = "tcp" ∨ carrier = "tcptls" ∨ carrier = "starttls") ∧ (ending = "hold" ∨ ending = "close")
          ∧ (n.toNat?.getD 0 > 0) then
        if Gen.refusalCloses ∧ Gen.refusalOtherCalls.isEmpty then "grow=0 fd=0 closed=true" else "unmodelled"
      else "bad-op"
  | [_carrier, _n, _closer, "slowdial"] =>
      -- the session ends while the server is connecting to a slow target: the handler dials on its own goroutine, gets
      -- the connection, finds its logical connection dead (PipeData returns at once) and closes the target
      if Gen.muxDialInline then "grow=0 spin=false" else "unmodelled"
  | [_carrier, _n, closer, ending] =>
      let c := genCfg .both
      -- one run of each hop with the scenario's closing side; the leak per hop is what the model leaves alive
      let acts : List Act := if closer = "target"
        then [.goneUp, .stepU, .sendU, .recvU, .stepD, .sendD, .callerClose]
        else [.goneDown, .stepD, .sendD, .recvD, .stepU, .sendU, .callerClose]
      let s := settle c 64 (run c (init [] []) acts)
      let grow := 2 * liveCopiers s
      let spin := ending = "garbage" ∧ Gen.acceptOtherErr ≠ "return" ∧ "smux.ErrInvalidProtocol" ∉ Gen.acceptTerminalErrs
      s!"grow={grow} spin={boolStr (decide spin)}"
  | _ => "bad-op"

/-! ### refused sessions: the branch of server.AcceptConnection taken after a failed session handshake -/

/-- a step of that branch: logging, closing the connection, or a call that returns only when the peer moves
    (a read, a copy, a wait for the peer's hang-up) -/
inductive RStep | log | close | waitPeer
  deriving DecidableEq, Repr

/-- the branch of the code as it is: one `waitPeer` for every call the regenerated fact lists besides logging and
    the close, then the close (if there is one) -/
def refusalSteps : List RStep :=
  Gen.refusalOtherCalls.map (fun _ => RStep.waitPeer) ++ (if Gen.refusalCloses then [RStep.close] else [])

/-- run the branch against a peer that will make `moves` more moves (send bytes, hang up) and then stay silent with
    its end open: is the refused connection closed? -/
def refusalRun : List RStep → Nat → Bool
  | [], _ => false
  | .close :: _, _ => true
  | .log :: r, k => refusalRun r k
  | .waitPeer :: _, 0 => false
  | .waitPeer :: r, k + 1 => refusalRun r k

/-- e2e prediction for `burst <carrier> <conns> <size>`: every connection delivers all data, then end-of-stream -/
def handleBurst (toks : List String) : String :=
  match toks with
  | [_, _, _] => "ok"
  | _ => "bad-op"

/-- e2e prediction for `stdiol <carrier> <mode> <size>` (the client's standard-streams listener: the same
    HandleConnection → PipeData path as a socket listener, the application being a pair of pipes): all data, then
    end-of-stream, in the direction the mode names -/
def handleStdiol (toks : List String) : String :=
  match toks with
  | [_, mode, size] =>
      if (mode = "echo" ∨ mode = "up" ∨ mode = "down") ∧ size.toNat?.getD 0 > 0 then "ok" else "bad-op"
  | _ => "bad-op"

end SA.Pipe

/-
  SA.Model.DnsResp — DNS tunnel responses (property C10).

  Mirrors, function by function:
    commands/cmd_*.go      Encode / Decode of the seven response types (cmd_error.go included)
    commands/serializer.go EncodeDnsResponseWithParams, DecodeDnsResponseWithParams
    util/wrap.go           WrapDnsResponse{A,AAAA,Cname,Srv,Mx,Txt,Private,Null}, TypePriority,
                           UnwrapDnsResponse, unescapePresentation
    util/query_types.go, util/socketace_private_rr.go (type numbers, from SA.Gen)
  miekg/dns record packing is MODELLED, NOT VERIFIED (`rrOverWire`): A needs 4 bytes, AAAA 16; NULL and
  registered private records are opaque; a private record whose type number is not registered comes
  back as an unknown (RFC 3597) record; TXT strings and names as in SA.Model.DnsWire.
  Codecs are parameters (`b32` hard-wired Base32, `down` the downstream codec).  Core Lean only.
-/
import SA.Model.DnsReq
import SA.Gen.C12Nul

namespace SA.DnsResp
open SA.DnsWire SA.WireCodec SA.DnsReq

inductive Resp
  | version (ver uid : Nat) (err : Option (List Nat))
  | options (err : Option (List Nat))
  | packet (err : Option (List Nat)) (ack : Nat) (pkt : Option (Nat × List Nat))
  | downEnc (err : Option (List Nat)) (data : List Nat)
  | upEnc (err : Option (List Nat)) (data : List Nat)
  | fragSize (err : Option (List Nat)) (frag : Nat) (data : List Nat)
  | error (err : Option (List Nat))
  deriving DecidableEq, Repr

def statusBody (err : Option (List Nat)) (okBody : List Nat) : List Nat :=
  match err with
  | some e => 255 :: e
  | none => okBody

/-- the per-response Encode (ErrorResponse with a nil Err is a nil dereference in the code; the driver
    never builds one) -/
def encodeResp (b32 down : Codec) : Resp → List Nat
  | .version ver uid err => 118 :: encodeUserId uid ++ b32.enc (le32 ver ++ statusBody err [0])
  | .options err => 111 :: b32.enc (statusBody err [0])
  | .packet err ack pkt =>
    99 :: down.enc (statusBody err (match pkt with
      | some (seq, data) => 1 :: le16 ack ++ le16 seq ++ data
      | none => 0 :: le16 ack))
  | .downEnc err data =>
    match err with
    | some e => 121 :: 101 :: b32.enc e
    | none => 121 :: 111 :: down.enc data
  | .upEnc err data => 122 :: b32.enc (statusBody err (0 :: data))
  | .fragSize err frag data => 114 :: down.enc (statusBody err (0 :: le32 frag ++ data))
  | .error err => 101 :: b32.enc (err.getD [])

/-- `data.ReadString(0)` then the `err != io.EOF` test: a NUL inside the text makes the code return
    `errors.WithStack(nil)`, i.e. success with no error recorded -/
def errText (rest : List Nat) : Option (List Nat) := if rest.contains 0 then none else some rest

/-- the same read with the guard the decoders have now (regenerated fact `errTextNulRejected`): a NUL inside the text is
    a malformed answer (decode error); without the guard it used to be "success, no error recorded" -/
def withErr {α : Type} (rest : List Nat) (k : Option (List Nat) → α) : Dec α :=
  if rest.contains 0 then (if SA.Gen.errTextNulRejected then .err else .ok (k none)) else .ok (k (some rest))

/-- strconv.ParseInt(s, 36, 16) of two characters, then uint16() -/
def parseUid36 (a b : Nat) : Option Nat :=
  if a = 43 ∨ a = 45 then
    match base36Val b with
    | some v => some (if a = 45 then (65536 - v) % 65536 else v)
    | none => none
  else
    match base36Val a, base36Val b with
    | some x, some y => some (x * 36 + y)
    | _, _ => none

/-- the per-response Decode; `data` starts with the command letter (already matched) -/
def decodeBody (b32 down : Codec) (code : Nat) (data : List Nat) : Dec Resp :=
  let rest := data.drop 1
  if code = 118 then
    match rest with
    | a :: b :: enc =>
      match parseUid36 a b with
      | none => .err
      | some uid =>
        match b32.dec enc with
        | none => .err
        | some d =>
          match rd32 d with
          | none => .err
          | some (ver, r) =>
            match r with
            | [] => .err
            | st :: txt => if st % 2 = 1 then withErr txt (fun e => .version ver uid e) else .ok (.version ver uid none)
    | _ => .err        -- "Version response too short!"
  else if code = 111 then
    match b32.dec rest with
    | none => .err
    | some [] => .err
    | some (st :: txt) => if st % 2 = 1 then withErr txt (fun e => .options e) else .ok (.options none)
  else if code = 99 then
    match down.dec rest with
    | none => .err
    | some [] => .err
    | some (st :: r) =>
      if st = 255 then withErr r (fun e => .packet e 0 none)
      else if st = 1 then
        match rd16 r with
        | none => .err
        | some (ack, r1) =>
          match rd16 r1 with
          | none => .err
          | some (seq, d) => .ok (.packet none ack (some (seq, d)))
      else if st = 0 then
        match rd16 r with
        | none => .err
        | some (ack, _) => .ok (.packet none ack none)
      else .ok (.packet none 0 none)
  else if code = 121 then
    match rest with
    | [] => .err
    | k :: enc =>
      if k = 101 then
        match b32.dec enc with
        | none => .err
        | some t => .ok (.downEnc (some t) [])
      else if k = 111 then
        match down.dec enc with
        | none => .err
        | some d => .ok (.downEnc none d)
      else .err
  else if code = 122 then
    match b32.dec rest with
    | none => .err
    | some [] => .err
    | some (st :: r) => if st % 2 = 1 then withErr r (fun e => .upEnc e []) else .ok (.upEnc none r)
  else if code = 114 then
    match down.dec rest with
    | none => .err
    | some [] => .err
    | some (st :: r) =>
      if st % 2 = 1 then withErr r (fun e => .fragSize e 0 [])
      else match rd32 r with
        | none => .err
        | some (f, d) => .ok (.fragSize none f d)
  else if code = 101 then
    match b32.dec rest with
    | none => .err
    | some t => withErr t (fun e => .error e)
  else .panic

def hasResponse (code : Nat) : Bool :=
  match SA.Gen.C09.commandTable.find? (·.1 == code) with
  | some (_, _, _, r) => r
  | none => false

/-- serializer.go DecodeDnsResponseWithParams on the unwrapped bytes: an answer without data and a
    reserved command letter (nil `NewResponse`) are reported as errors (they were an index panic and a
    nil call before the C12 repairs) -/
def decodeResp (b32 down : Codec) (data : List Nat) : Dec Resp :=
  match data with
  | [] => .err
  | c :: _ =>
    match SA.Gen.C09.commandTable.find? (fun e => c == e.1 || lower c == e.1) with
    | none => .err
    | some (code, _, _, hasR) => if hasR then decodeBody b32 down code data else .err

/-! ### wrap.go -/

inductive RRType | null | priv | txt | srv | mx | cname | aaaa | a
  deriving DecidableEq, Repr

/-- an answer record as far as the tunnel looks at it -/
inductive RR
  | a (d : List Nat)
  | aaaa (d : List Nat)
  | null (d : List Nat)
  | priv (d : List Nat)
  | txt (ss : List (List Nat))
  | mx (pref : Nat) (name : List Nat)
  | srv (prio : Nat) (name : List Nat)
  | cname (name : List Nat)
  | unknown
  deriving DecidableEq, Repr

def b32Char (n : Nat) : Nat := SA.Gen.C09.c09cb32.getD (n % 32) 0

/-- enc.Base32CharToInt: −1 for a foreign character -/
def b32CharToInt (c : Nat) : Int :=
  match indexOf SA.Gen.C09.c09cb32 c with
  | some i => i
  | none =>
    match indexOf SA.Gen.C09.c09cb32 (lower c) with
    | some i => if 65 ≤ c ∧ c ≤ 90 then i else -1
    | none => -1

def orderTag (order : Nat) : List Nat := [b32Char order, b32Char (order / 16)]

/-- fixed-size records with a binary order prefix (A, AAAA, NULL, PRIVATE) -/
def chunkRecs (chunk : Nat) (pre : Nat → List Nat) : Nat → Nat → List Nat → List (List Nat)
  | 0, _, _ => []
  | fuel + 1, order, data =>
    if data.isEmpty then []
    else (pre order ++ data.take chunk) :: chunkRecs chunk pre fuel (order + 1) (data.drop chunk)

/-- name-carrying records; none = PrepareHostname error.  `mk order chunk` builds the target. -/
def nameRecs (maxLen : Nat) (mk : Nat → List Nat → Option RR) : Nat → Nat → List Nat → Option (List RR)
  | 0, _, _ => some []
  | fuel + 1, order, data =>
    if data.isEmpty then some []
    else
      match mk order (data.take maxLen) with
      | none => none
      | some rr => (nameRecs maxLen mk fuel (order + 1) (data.drop maxLen)).map (rr :: ·)

def escapeBackslashes (s : List Nat) : List Nat := s.flatMap (fun b => if b == bsl then [bsl, bsl] else [b])

/-- the strings of WrapDnsResponseTxt in order; `first` = this string opens a record -/
def txtStrings (chunk perRec : Nat) : Nat → Nat → Nat → List Nat → List (List (List Nat)) → List (List Nat) → List (List (List Nat))
  | 0, _, _, _, recs, cur => if cur.isEmpty then recs.reverse else (cur.reverse :: recs).reverse
  | fuel + 1, order, _, data, recs, cur =>
    if data.isEmpty then (if cur.isEmpty then recs.reverse else (cur.reverse :: recs).reverse)
    else
      let pre := if cur.isEmpty then orderTag order else []
      let order' := if cur.isEmpty then order + 1 else order
      let s := pre ++ data.take chunk
      let s := if SA.Gen.C09.wrapTxtEscapes then escapeBackslashes s else s
      let cur' := s :: cur
      if cur'.length = perRec then txtStrings chunk perRec fuel order' 0 (data.drop chunk) (cur'.reverse :: recs) []
      else txtStrings chunk perRec fuel order' 0 (data.drop chunk) recs cur'

/-- WrapDnsResponse; none = an error is returned (A: more than 255 records; CNAME/MX: ErrTooLong).
    Domains so long that GetLongestDataString ≤ 0 are outside the model (the code loops or panics). -/
def wrap (t : RRType) (domain data : List Nat) : Option (List RR) :=
  let n := data.length
  let maxLen := (longestDataString domain.length).toNat
  match t with
  | .a =>
    let recs := chunkRecs SA.Gen.C09.wrapChunkA (fun o => [o % 256]) n 1 data
    if recs.length > 255 then none else some (recs.map .a)
  | .aaaa => some ((chunkRecs SA.Gen.C09.wrapChunkAAAA (fun o => le16 o) n 1 data).map .aaaa)
  | .null => some ((chunkRecs SA.Gen.C09.wrapChunkNull (fun o => le16 o) n 1 data).map .null)
  | .priv => some ((chunkRecs SA.Gen.C09.wrapChunkPrivate (fun o => le16 o) n 1 data).map .priv)
  | .txt => some ((txtStrings SA.Gen.C09.wrapChunkTxt SA.Gen.C09.wrapTxtStrings n 0 0 data [] []).map .txt)
  | .cname =>
    if maxLen = 0 then none else
    nameRecs maxLen (fun o c => (prepareHostname (orderTag o ++ c) domain).map .cname) n 1 data
  | .mx =>
    if maxLen = 0 then none else
    nameRecs maxLen (fun o c => (prepareHostname c domain).map (.mx ((o * 10) % 65536))) n 1 data
  | .srv =>
    if maxLen = 0 then none else
    nameRecs maxLen (fun o c => some (.srv (o % 65536) (c ++ dot :: (domain ++ [dot])))) n 1 data

/-- one record through Pack and Unpack (modelled miekg behaviour) -/
def rrOverWire : RR → Except WireErr RR
  | .a d => if d.length = 4 then .ok (.a d) else .error .pack
  | .aaaa d => if d.length = 16 then .ok (.aaaa d) else .error .pack
  | .null d => if d.length ≤ 65535 then .ok (.null d) else .error .pack
  | .priv d =>
    if d.length > 65535 then .error .pack
    else if SA.Gen.C09.queryTypePrivate = SA.Gen.C09.typeSocketAce then .ok (.priv d) else .ok .unknown
  | .txt ss =>
    let ws := ss.map txtToWire
    if ws.any (fun w => w.length > 255) then .error .pack
    else if (ws.map (fun w => w.length + 1)).sum > 65535 then .error .pack
    else .ok (.txt (ws.map txtFromWire))
  | .mx p name => (nameOverWire name).map (fun ls => .mx p (unpackName ls))
  | .srv p name => (nameOverWire name).map (fun ls => .srv p (unpackName ls))
  | .cname name => (nameOverWire name).map (fun ls => .cname (unpackName ls))
  | .unknown => .ok .unknown

def answersOverWire : List RR → Except WireErr (List RR)
  | [] => .ok []
  | r :: rest =>
    match rrOverWire r with
    | .error e => .error e
    | .ok r' =>
      match answersOverWire rest with
      | .error e => .error e
      | .ok rs => .ok (r' :: rs)

/-- TypePriority; none = index panic on a too-short record -/
def typePriority : RR → Option Int
  | .null d => match rd16 d with
    | some (o, _) => some (10000 + o)
    | none => none
  | .priv d => match rd16 d with
    | some (o, _) => some (20000 + o)
    | none => none
  | .txt ss => match ss with
    | (c0 :: c1 :: _) :: _ => some (30000 + (b32CharToInt c0 + b32CharToInt c1 * 32))
    | _ => none
  | .mx p _ => some (40000 + p)
  | .srv p _ => some (50000 + p)
  | .cname n => match n with
    | c0 :: c1 :: _ => some (60000 + (b32CharToInt c0 + b32CharToInt c1 * 32))
    | _ => none
  | .aaaa d => match rd16 d with
    | some (o, _) => some (70000 + o)
    | none => none
  | .a d => match d with
    | o :: _ => some (80000 + o)
    | [] => none
  | .unknown => some 90000

def insertByKey (x : Int × RR) : List (Int × RR) → List (Int × RR)
  | [] => [x]
  | y :: ys => if x.1 < y.1 then x :: y :: ys else y :: insertByKey x ys

/-- stable sort by priority (sort.Slice is not stable; keys are distinct on every path driven) -/
def sortByKey (xs : List (Int × RR)) : List (Int × RR) := xs.foldr insertByKey []

/-- the target of a name-carrying record without its last `len(domain)+2` characters — the *configured
    spelling's* length, whatever miekg printed.  A target too short for that holds no data: the record is
    skipped (repaired code; it was a slice panic). -/
def stripNameTail (name : List Nat) (domainLen : Nat) : Option (List Nat) :=
  if name.length < domainLen + 2 then some [] else some (name.take (name.length - domainLen - 2))

def nameData (s : List Nat) : List Nat :=
  if SA.Gen.C09.unwrapUnescapesNames then unescapePresentation true s else undotify s

/-- what UnwrapDnsResponse appends for one record; none = slice panic -/
def unwrapOne (domainLen : Nat) : RR → Option (List Nat)
  | .null d => if d.length < 2 then none else some (d.drop 2)
  | .priv d => if d.length < 2 then none else some (d.drop 2)
  | .txt ss =>
    let j := ss.flatten
    let j := if SA.Gen.C09.unwrapUnescapesTxt then unescapePresentation false j else j
    if j.length < 2 then none else some (j.drop 2)
  | .mx _ n => (stripNameTail n domainLen).map nameData
  | .srv _ n => (stripNameTail n domainLen).map nameData
  | .cname n => if n.length < 2 then none else (stripNameTail (n.drop 2) domainLen).map nameData
  | .aaaa d => if d.length < 2 then none else some (d.drop 2)
  | .a d => if d.length < 1 then none else some (d.drop 1)
  | .unknown => some []

/-- UnwrapDnsResponse; none = panic -/
def unwrap (domainLen : Nat) (answers : List RR) : Option (List Nat) :=
  match answers.mapM (fun r => (typePriority r).map (fun k => (k, r))) with
  | none => none
  | some keyed => ((sortByKey keyed).mapM (fun kr => unwrapOne domainLen kr.2)).map List.flatten

/-! ### the whole path -/

inductive Outcome
  | encError
  | packError
  | unpackError
  | decError (answers unwrapped : Nat)
  | panic
  | ok (answers unwrapped : Nat) (r : Resp)
  deriving DecidableEq, Repr

/-- does the spelling end in an unescaped dot (a final '.' after an even number of backslashes)? -/
def endsInUnescapedDot (s : List Nat) : Bool :=
  match s.reverse with
  | c :: before => c == dot && (before.takeWhile (· == bsl)).length % 2 == 0
  | [] => false

/-- the query the answer replies to: a name under the tunnel domain, fully qualified exactly once however
    the domain is spelled in the configuration (harness `questionNameFor`) -/
def questionName (domain : List Nat) : List Nat :=
  [99, 97, 98, 99, 48, 48, dot] ++ domain ++ (if endsInUnescapedDot domain then [] else [dot])

/-- the question name `cabc00.<domain>.` of the harness must itself pack (domain labels ≤ 63, …) -/
def questionOk (domain : List Nat) : Bool :=
  match nameOverWire (questionName domain) with
  | .ok _ => true
  | .error _ => false

/-- server Encode → WrapDnsResponse → Pack → Unpack → UnwrapDnsResponse → client Decode -/
def roundTrip (b32 down : Codec) (t : RRType) (domain : List Nat) (r : Resp) : Outcome :=
  match wrap t domain (encodeResp b32 down r) with
  | none => .encError
  | some answers =>
    if !questionOk domain then .packError else
    match answersOverWire answers with
    | .error .pack => .packError
    | .error .unpack => .unpackError
    | .ok sent =>
      -- modelled miekg: the header's ANCOUNT is 16 bits; Pack writes len(Answer) mod 2^16, Unpack reads
      -- that many records and ignores the rest of the message
      let got := sent.take (sent.length % 65536)
      match unwrap domain.length got with
      | none => .panic
      | some data =>
        match decodeResp b32 down data with
        | .ok r' => .ok got.length data.length r'
        | .err => .decError got.length data.length
        | .panic => .panic

/-! ### line protocol -/

def errTok : Option (List Nat) → String
  | none => "_"
  | some e => toHex e

def render : Resp → String
  | .version ver uid err => s!"v {ver} {uid} {errTok err}"
  | .options err => s!"o {errTok err}"
  | .packet err ack none => s!"c {errTok err} {ack} 0 0 -"
  | .packet err ack (some (seq, d)) => s!"c {errTok err} {ack} 1 {seq} {toHex d}"
  | .downEnc err d => s!"y {errTok err} {toHex d}"
  | .upEnc err d => s!"z {errTok err} {toHex d}"
  | .fragSize err f d => s!"r {errTok err} {f} {toHex d}"
  | .error err => s!"e {errTok err}"

def parseErr (s : String) : Option (Option (List Nat)) := if s = "_" then some none else (fromHex s).map some

def parseResp : List String → Option Resp
  | ["v", ver, uid, e] => do
    let ver ← ver.toNat?
    let uid ← uid.toNat?
    let e ← parseErr e
    pure (.version ver uid e)
  | ["o", e] => (parseErr e).map .options
  | ["c", e, ack, has, seq, d] => do
    let e ← parseErr e
    let ack ← ack.toNat?
    let seq ← seq.toNat?
    let d ← fromHex d
    pure (.packet e ack (if has = "1" then some (seq, d) else none))
  | ["y", e, d] => do
    let e ← parseErr e
    let d ← fromHex d
    pure (.downEnc e d)
  | ["z", e, d] => do
    let e ← parseErr e
    let d ← fromHex d
    pure (.upEnc e d)
  | ["r", e, f, d] => do
    let e ← parseErr e
    let f ← f.toNat?
    let d ← fromHex d
    pure (.fragSize e f d)
  | ["e", e] => match parseErr e with
    | some (some t) => some (.error (some t))
    | _ => none
  | _ => none

def parseRRType (s : String) : Option RRType :=
  if s = "null" then some .null else if s = "priv" then some .priv else if s = "txt" then some .txt
  else if s = "srv" then some .srv else if s = "mx" then some .mx else if s = "cname" then some .cname
  else if s = "aaaa" then some .aaaa else if s = "a" then some .a else none

/-- the downstream codec of an op line -/
def ofLetterResp (letter : Nat) (o : Oracle) : Option Codec :=
  match SA.Codec.fromCode letter with
  | none => none
  | some .b32 => some (ofC08 .b32)
  | some .b64 => some (ofC08 .b64)
  | some .b64u => some (ofC08 .b64u)
  | some .raw => some (ofC08 .raw)
  | some _ => some (tableCodec o)

/-- one response op -/
def handleOne : List String → String
  | codec :: domain :: rr :: oracle :: fields =>
    match codec.toList, parseRRType rr, parseResp fields with
    | [c], some t, some r =>
      -- Base32/64/64u/Raw are property C08's models (exact also on streams no encoder produced: a tunnel domain
      -- that is measured wrongly leaves foreign characters in the stream); Base85/91/128 are looked up from the
      -- op line's table of what the real codec answered in this very case
      match ofLetterResp c.toNat (parseOracle oracle) with
      | none => "bad-op"
      | some down =>
        match roundTrip (ofC08 .b32) down t (strBytes domain) r with
        | .encError => "enc-error"
        | .packError => "pack-error"
        | .unpackError => "unpack-error"
        | .panic => "PANIC"
        | .decError a u => s!"dec-error {a} {u}"
        | .ok a u r' => s!"ok {a} {u} {render r'}"
    | _, _, _ => "bad-op"
  | _ => "bad-op"

/-! ### several responses at the same moment

The server forms every answer on the goroutine of its query, through the same downstream codec singletons,
`wrap.go` and serializer values; the model of the response path is a function of the one response, so a
batch processed concurrently is the list of the single results (`C10_batch_pointwise`).  The `par` op of the
`dnsresp` component drives the real code that way and compares. -/

/-- split an op list at the separator token `;` -/
def splitOps : List String → List (List String)
  | [] => [[]]
  | t :: rest =>
    match splitOps rest with
    | [] => [[t]]          -- unreachable: splitOps never returns []
    | cur :: more => if t == ";" then [] :: cur :: more else (t :: cur) :: more

def handleBatch (ops : List (List String)) : List String := ops.map handleOne

def handle : List String → String
  | "par" :: g :: iters :: rest =>
    let ops := splitOps rest
    if g.toNat?.isNone || iters.toNat?.isNone || ops.any (fun o => o.isEmpty || o.head? == some "par") then "bad-op"
    else String.intercalate " ; " (handleBatch ops)
  | ts => handleOne ts

end SA.DnsResp

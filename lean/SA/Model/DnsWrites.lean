/-
  SA.Model.DnsWrites — what `Write` reports: histories of several application writes on the client
  (`ClientDnsConnection.Write` → `OutQueue.Write` → `addChunk` → `OnChunkAdded` = `outChunkAdded` →
  `SendAndReceive`, 5 tries) and on the server's user connection (`OutQueue.Write` without a callback),
  the poll loop's body (`SendAndReceive(out.NextChunk())`) and application reads, over the queue pair
  of SA.Model.Queue.  Every step is carried out as SA.Queue events (`Ev`) on `Sys`, and the events are
  recorded (ghost `evs`), so that the theorems of C07 about `runS` apply to every history of this model:

    addChunk(data)            = `.write false data`   (one fragment: one chunk; `out` is empty at that point)
    one try of the retry loop = `.xchg .d` / `.xchg .ql` / `.xchg .al` (fate of the communicator call)
    out.NextChunk()           = `.xchg .ql` (the query is built — `cleanAckedChunks` — and goes nowhere)

  The loop of `OutQueue.Write`:

      for len(b) > 0 { data, b = …; err = q.addChunk(data); n += len(data); if err != nil { return } }

  The position of `n += len(data)` relative to the error return is the regenerated fact
  `SA.Gen.c07WriteCount` (0 = before: a fragment counts as soon as it is enqueued; 1 = after).

  The application at each end sends a fixed stream; a write of k bytes hands the next k bytes to Write
  and advances by the n returned (the caller continues with b[n:]).  `posU` = Σ n at the client.
-/
import SA.Model.Queue
import SA.Model.DnsExchange
import SA.Model.PollGiveUp
namespace SA.DnsWrites
open SA.Queue

abbrev XF := SA.DnsExchange.Fate

structure Facts where
  cfg : Cfg
  tries : Nat      -- SendAndReceive: for i := 1; i <= tries; i++
  test : Nat       -- how a timeout is recognised (see SA.Model.DnsExchange)
  countPos : Nat   -- OutQueue.Write: 0 = count, then `if err != nil { return }`; 1 = return first
  /-- the poll loop of `Handshake`'s goroutine: what it hands to `SendAndReceive`
      (0 = `dc.out.NextChunk()`: the oldest unacknowledged fragment, nil when there is none; 1 = `nil`: a bare poll) -/
  pollArg : Nat := 0
  /-- statements of that loop which leave it other than through `for !dc.Closed()` (break / return / goto) -/
  pollStops : Nat := 0
  deriving Repr, DecidableEq

def Facts.gen : Facts := ⟨Cfg.gen, Gen.c07Tries, Gen.c07TimeoutTest, Gen.c07WriteCount, Gen.c07PollArg, Gen.c07PollStops⟩

inductive WEv
  | w (k : Nat)   -- client Write of the next k upstream bytes
  | W (k : Nat)   -- server Write of the next k downstream bytes
  | p             -- one turn of the poll loop
  | r (k : Nat)   -- server application reads ≤ k bytes
  | R (k : Nat)   -- client application reads ≤ k bytes
  | D | N         -- client out-queue write deadline in the past / none
  deriving Repr, DecidableEq

/-- what the exchange machinery works on -/
structure Core where
  sys : Sys
  /-- ghost: the SA.Queue events carried out so far, newest first -/
  evs : List Ev := []
  fates : List XF := []
  /-- fate of a communicator call once the script is used up (`ok`; `dnspoll`: the state of the path) -/
  dflt : XF := .ok
  calls : Nat := 0

structure St where
  core : Core
  /-- Σ n of the client's Writes that returned: the upstream stream is accepted up to here -/
  posU : Nat := 0
  posD : Nat := 0
  /-- client Write parked in its first waitEmptyQueue (size) -/
  pendU : Option Nat := none
  /-- server Write parked in its last waitEmptyQueue (size) -/
  pendD : Option Nat := none
  dl : Bool := false
  tr : List String := []

def downOff : Nat := 7919
/-- the application streams -/
def streamU (off n : Nat) : List Nat := genBytes off n
def streamD (off n : Nat) : List Nat := genBytes (downOff + off) n

section model
variable (f : Facts) (mtu : Nat)

def Core.ap (s : Core) (e : Ev) : Core := { s with sys := stepS f.cfg mtu s.sys e, evs := e :: s.evs }

def St.say (s : St) (t : String) : St := { s with tr := t :: s.tr }

/-- `out.NextChunk()` at the client -/
def nextChunk (s : Core) : Core := Core.ap f mtu s (.xchg .ql)

/-- one `dc.Query(req, …)`: the communicator's fate decides; Bool = the response was handled without error -/
def tryOnce (s : Core) : Core × XF × Bool :=
  let ft := s.fates.head?.getD s.dflt
  let s0 := { s with fates := s.fates.tail, calls := s.calls + 1 }
  match ft with
  | .ok =>
    let m := mkQuery f.cfg s0.sys.a
    let r := serve f.cfg s0.sys.b m.2
    (Core.ap f mtu s0 (.xchg .d), ft, (clientRecv f.cfg m.1 r.2).2)
  | .ql => (Core.ap f mtu s0 (.xchg .ql), ft, false)
  | .st => (Core.ap f mtu s0 (.xchg .ql), ft, false)
  | .al => (Core.ap f mtu s0 (.xchg .al), ft, false)
  | .er => (s0, ft, false)

/-- the retry loop of `SendAndReceive`; `left` = tries still available; Bool = returned nil -/
def sendRecv : Nat → Core → Core × Bool
  | 0, s => (s, true)
  | left + 1, s =>
    let r := tryOnce f mtu s
    match r.2.1 with
    | .ok => (r.1, r.2.2)
    | .er => (r.1, false)
    | _ =>
      if f.test = 1 then (if left = 0 then (r.1, false) else sendRecv left r.1)
      else (r.1, false)

/-- `outChunkAdded`: `for chunk := NextChunk(); chunk != nil; chunk = NextChunk() { SendAndReceive(chunk) … }`
    (no fuel left: the Go loop would not end; reported as a failure) -/
def chunkAdded : Nat → Core → Core × Bool
  | 0, s => (s, false)
  | fuel + 1, s =>
    let s1 := nextChunk f mtu s
    if s1.sys.a.outq.out = [] then (s1, true)
    else
      let r := sendRecv f mtu f.tries s1
      if r.2 then chunkAdded fuel r.1 else (r.1, false)

/-- the fragment loop of `OutQueue.Write` at the client; result = (state, n, err == nil) -/
def writeLoop : List (List Nat) → Core → Nat → Core × Nat × Bool
  | [], s, n => (s, n, true)
  | d :: ds, s, n =>
    let s1 := Core.ap f mtu s (.write false d)                     -- addChunk: the fragment is in `out`
    let r := chunkAdded f mtu (s1.sys.a.outq.out.length + 3) s1    -- … and OnChunkAdded runs
    if f.countPos = 0 then
      -- n += len(data); if err != nil { return }
      (if r.2 then writeLoop ds r.1 (n + d.length) else (r.1, n + d.length, false))
    else
      -- if err != nil { return }; n += len(data)
      (if r.2 then writeLoop ds r.1 (n + d.length) else (r.1, n, false))

def wTok (letter : String) (n : Nat) (ok : Bool) : String :=
  letter ++ toString n ++ (if ok then "k" else "e")

/-- a client Write that got past its first waitEmptyQueue; the caller advances by n.  After the loop
    `return n, q.waitEmptyQueue()`: the queue is empty, but a deadline set meanwhile is looked at first. -/
def doWriteU (s : St) (k : Nat) (pre : String) : St :=
  let r := writeLoop f mtu (chunks mtu (streamU s.posU k)) s.core 0
  St.say { s with core := r.1, posU := s.posU + r.2.1 } (pre ++ wTok "w" r.2.1 (r.2.2 && !s.dl))

/-- a parked server Write returns once its out-queue is empty -/
def settleD (s : St) : St :=
  match s.pendD with
  | some k =>
    if s.core.sys.b.outq.out = [] then St.say { s with pendD := none, posD := s.posD + k } ("+" ++ wTok "W" k true)
    else s
  | none => s

/-- a parked client Write runs once the out-queue is empty -/
def settleU (s : St) : St :=
  match s.pendU with
  | some k => if s.core.sys.a.outq.out = [] then doWriteU f mtu { s with pendU := none } k "+" else s
  | none => s

def settle (s : St) : St := settleD (settleU f mtu (settleD s))

/-! ### the poll loop (the goroutine `Handshake` starts)

      for !dc.Closed() { <sleep>; if <no query for that long> { err := dc.SendAndReceive(<arg>); … } }

  `<arg>` is the regenerated fact `pollArg`.  With `dc.out.NextChunk()` a turn retransmits the oldest
  unacknowledged fragment — the only place where a fragment that a Write gave up on (five lost exchanges)
  is ever sent again.  With `nil` the turn is a bare poll: it acknowledges and fetches, and sends nothing;
  that exchange is not one of SA.Queue's events (`bareXchg`, not recorded in `evs`). -/

/-- a query that carries an acknowledgement and no fragment: `SendAndReceive(nil)` (no `NextChunk`, so no
    `cleanAckedChunks` at the client either) -/
def bareQuery (c : Cfg) (e : End) : Query := ⟨ackOf c e.inq.next, none, e.inq.cnt, e.outq.hd⟩

/-- one bare exchange: `handled` = the query reached the server, `answered` = the answer came back;
    Bool = the response was handled without error -/
def bareXchg (c : Cfg) (st : Sys) (handled answered : Bool) : Sys × Bool :=
  if handled then
    let r := serve c st.b (bareQuery c st.a)
    if answered then
      let a := clientRecv c st.a r.2
      ({ st with a := a.1, b := r.1 }, a.2)
    else ({ st with b := r.1 }, false)
  else (st, false)

def tryOnceBare (s : Core) : Core × XF × Bool :=
  let ft := s.fates.head?.getD s.dflt
  let s0 := { s with fates := s.fates.tail, calls := s.calls + 1 }
  match ft with
  | .ok => let r := bareXchg f.cfg s0.sys true true; ({ s0 with sys := r.1 }, ft, r.2)
  | .al => ({ s0 with sys := (bareXchg f.cfg s0.sys true false).1 }, ft, false)
  | _ => (s0, ft, false)

def sendRecvBare : Nat → Core → Core × Bool
  | 0, s => (s, true)
  | left + 1, s =>
    let r := tryOnceBare f s
    match r.2.1 with
    | .ok => (r.1, r.2.2)
    | .er => (r.1, false)
    | _ =>
      if f.test = 1 then (if left = 0 then (r.1, false) else sendRecvBare left r.1)
      else (r.1, false)

/-- the body of one turn of the loop; Bool = `SendAndReceive` returned nil -/
def pollBody (s : Core) : Core × Bool :=
  if f.pollArg = 0 then sendRecv f mtu f.tries (nextChunk f mtu s) else sendRecvBare f f.tries s

/-- `n` turns of the loop.  A turn whose body failed ends the loop when the source has a statement that
    leaves it (`pollStops ≠ 0`); the regenerated loop has none: it goes on for as long as the connection
    is open. -/
def pollLoop : Nat → Core → Core
  | 0, s => s
  | n + 1, s =>
    let r := pollBody f mtu s
    if r.2 = false ∧ f.pollStops ≠ 0 then r.1 else pollLoop n r.1

def poll (s : St) : St :=
  let r := pollBody f mtu s.core
  St.say { s with core := r.1 } (if r.2 then "pk" else "pe")

def stepW (s : St) : WEv → St
  | .w k =>
    if s.pendU.isSome then St.say s "w-"
    else if s.dl then St.say s "w0e"
    else if s.core.sys.a.outq.out ≠ [] then St.say { s with pendU := some k } "wp"
    else doWriteU f mtu s k ""
  | .W k =>
    if s.pendD.isSome then St.say s "W-"
    else if k = 0 then St.say s "W0k"
    else St.say { s with core := Core.ap f mtu s.core (.write true (streamD s.posD k)), pendD := some k } "Wp"
  | .p => poll f mtu s
  | .r k =>
    let n := min k s.core.sys.b.inq.buf.length
    St.say { s with core := Core.ap f mtu s.core (.read true k) } ("r" ++ toString n)
  | .R k =>
    let n := min k s.core.sys.a.inq.buf.length
    St.say { s with core := Core.ap f mtu s.core (.read false k) } ("R" ++ toString n)
  | .D => St.say { s with dl := true } "D"
  | .N => St.say { s with dl := false } "N"

/-- one event, then the Writes it released return; tokens of one event are joined -/
def stepE (s : St) (e : WEv) : St := St.say (settle f mtu (stepW f mtu s e)) " "

def runW (s : St) : List WEv → St
  | [] => s
  | e :: es => runW (stepE f mtu s e) es

def outstanding (s : St) : Bool :=
  s.core.sys.a.outq.out ≠ [] || s.core.sys.b.outq.out ≠ [] || s.pendU.isSome || s.pendD.isSome

/-- the loss-free tail: polls until nothing is outstanding -/
def tail : Nat → St → St
  | 0, s => s
  | fuel + 1, s => if outstanding s then tail fuel (settle f mtu (poll f mtu s)) else s

end model

def start (sab sba : Nat) (fates : List XF) : St := { core := { sys := init sab sba, fates := fates } }

/-! ## line protocol -/

def parseNum (s : String) : Option Nat :=
  match s.toNat? with
  | some k => if toString k = s ∧ k ≤ 5000 then some k else none
  | none => none

def parseEv (t : String) : Option WEv :=
  if t = "p" then some .p else if t = "D" then some .D else if t = "N" then some .N
  else
    match t.toList with
    | c :: d :: ds =>
      match parseNum (String.ofList (d :: ds)) with
      | none => none
      | some k =>
        if c = 'w' then some (.w k) else if c = 'W' then some (.W k)
        else if c = 'r' then some (.r k) else if c = 'R' then some (.R k) else none
    | _ => none

def splitSlash : List String → List String × List String
  | [] => ([], [])
  | t :: ts => if t = "/" then ([], ts) else let r := splitSlash ts; (t :: r.1, r.2)

/-- `dnswrites mtu=<m> sab=<s> sba=<s> <event>* [/ <fate>*]` -/
def handleWith (f : Facts) (toks : List String) : String :=
  match toks with
  | t1 :: t2 :: t3 :: rest =>
    match kv "mtu" t1, kv "sab" t2, kv "sba" t3 with
    | some mtu, some sab, some sba =>
      if mtu = 0 ∨ mtu > 100 ∨ sab ≥ MOD ∨ sba ≥ MOD then "bad-op" else
      let sp := splitSlash rest
      match sp.1.mapM parseEv, sp.2.mapM SA.DnsExchange.parseFate with
      | some evs, some fates =>
        let s1 := runW f mtu (start sab sba fates) evs
        let s2 := St.say { s1 with core := { s1.core with fates := [] } } "|"
        let y := s2.core.sys
        let s3 := tail f mtu (y.a.outq.out.length + y.b.outq.out.length + 8) s2
        let z := s3.core.sys
        String.join s3.tr.reverse ++ " accU=" ++ toString s3.posU ++ " relU=" ++ digest z.b.inq.rel
          ++ " accD=" ++ toString s3.posD ++ " relD=" ++ digest z.a.inq.rel
          ++ " out=" ++ natList (z.a.outq.out.map (·.seq)) ++ "/" ++ natList (z.b.outq.out.map (·.seq))
          ++ " calls=" ++ toString s3.core.calls
      | _, _ => "bad-op"
    | _, _, _ => "bad-op"
  | _ => "bad-op"

def handle (toks : List String) : String := handleWith Facts.gen toks

/-! ## `dnspoll`: histories in which only the client's own poll loop moves what is left over

  `dnspoll mtu=<m> <event>*` — `L<q|a|s|e>`: from now on every communicator call has that fate (`dflt`);
  `H`: the path heals and the loop turns until nothing is outstanding (`tail`, i.e. `poll` + the Writes it
  releases).  While the path is down the loop's turns change nothing that is printed (they fail, or — answer
  lost — repeat what the Write's own attempts already delivered), so they are not run; reads are not looked
  at then.  The poll tokens are not printed: how often the real loop fired is a matter of timing.
  `P<k>` (during an outage): the loop makes `k` more turns, each failing with a new error value of the outage's cause; the
  loop's give-up bookkeeping (SA.PollGiveUp, regenerated rule) is run over them, also over the one turn an `L` waits for and
  the successful turn after an `H`; when it closes the connection the history ends: result `CLOSED`. -/

inductive PEv
  | ev (e : WEv)
  | L (kind : XF)
  | H
  /-- the outage goes on for `k` more turns of the loop (each fails; only the loop is sending) -/
  | P (k : Nat)
  deriving Repr

/-- what failed, by kind of outage: query / answer lost = the same network time-out, the sentinel time-out, another error -/
def causeOf : XF → Nat
  | .ok => 0 | .ql => 1 | .al => 1 | .st => 2 | .er => 3

def parsePTurns (t : String) : Option Nat :=
  match t.toList with
  | 'P' :: d :: ds =>
    match parseNum (String.ofList (d :: ds)) with
    | some k => if 1 ≤ k ∧ k ≤ 60 then some k else none
    | none => none
  | _ => none

def parsePEv (t : String) : Option PEv :=
  if t = "H" then some .H
  else if (parsePTurns t).isSome then (parsePTurns t).map .P
  else if t = "Lq" then some (.L .ql) else if t = "La" then some (.L .al)
  else if t = "Ls" then some (.L .st) else if t = "Le" then some (.L .er)
  else match parseEv t with
    | some (.w k) => some (.ev (.w k))
    | some (.W k) => some (.ev (.W k))
    | some (.r k) => some (.ev (.r k))
    | some (.R k) => some (.ev (.R k))
    | _ => none

structure PSt where
  st : St
  lossy : Bool := false
  hang : Bool := false
  toks : List String := []   -- newest first
  /-- bookkeeping of the loop's give-up rule (SA.PollGiveUp) and the next fresh error identity -/
  loop : SA.PollGiveUp.LoopSt := {}
  nid : Nat := 0
  /-- the loop has closed the connection by itself -/
  closed : Bool := false

section pollmodel
variable (f : Facts) (mtu : Nat)

/-- the path is healthy: the loop turns until nothing is outstanding; result: the Writes that returned
    (client's first) and whether something is still outstanding when the fuel is used up -/
def rest (s : St) : St × String × Bool :=
  let s0 := settle f mtu { s with tr := [] }
  let y := s0.core.sys
  let s1 := tail f mtu (y.a.outq.out.length + y.b.outq.out.length + 8) s0
  let ts := s1.tr.reverse.filter (fun t => t.startsWith "+")
  (s1, String.join (ts.filter (fun t => t.startsWith "+w") ++ ts.filter (fun t => t.startsWith "+W")), outstanding s1)

-- the loop's give-up rule (regenerated: SA.PollGiveUp.Rule.gen)
variable (g : SA.PollGiveUp.Rule)

def stepP (p : PSt) : PEv → PSt
  | .L kind =>
    -- the component waits until the loop has met the new outage once: one failing turn
    let l := SA.PollGiveUp.run g p.loop (SA.PollGiveUp.outage p.nid (causeOf kind) 1)
    { p with st := { p.st with core := { p.st.core with dflt := kind } }, lossy := true, toks := "L" :: p.toks,
             loop := l, nid := p.nid + 1, closed := l.closed }
  | .H =>
    let r := rest f mtu { p.st with core := { p.st.core with dflt := .ok } }
    { p with st := r.1, lossy := false, hang := p.hang || r.2.2, toks := ("H" ++ r.2.1) :: p.toks,
             loop := SA.PollGiveUp.turn g p.loop .ok }
  | .P k =>
    if p.lossy then
      let l := SA.PollGiveUp.run g p.loop (SA.PollGiveUp.outage p.nid (causeOf p.st.core.dflt) k)
      { p with loop := l, nid := p.nid + k, closed := l.closed, toks := "P" :: p.toks }
    else { p with toks := "P-" :: p.toks }
  | .ev e =>
    match e, p.lossy with
    | .r _, true => { p with toks := "r-" :: p.toks }
    | .R _, true => { p with toks := "R-" :: p.toks }
    | _, _ =>
      let s1 := stepW f mtu { p.st with tr := [] } e
      let t := String.join s1.tr.reverse
      if t = "Wp" ∧ p.lossy = false then
        let r := rest f mtu s1
        { p with st := r.1, hang := p.hang || r.2.2, toks := (t ++ r.2.1) :: p.toks }
      else { p with st := s1, toks := t :: p.toks }

def runP (p : PSt) : List PEv → PSt
  | [] => p
  | e :: es => if p.hang || p.closed then p else runP (stepP f mtu g p e) es

end pollmodel

def handlePollWith (f : Facts) (toks : List String) : String :=
  match toks with
  | t1 :: rest =>
    match kv "mtu" t1 with
    | some mtu =>
      if mtu = 0 ∨ mtu > 100 then "bad-op" else
      match rest.mapM parsePEv with
      | some evs =>
        let p1 := runP f mtu SA.PollGiveUp.Rule.gen { st := start 0 0 [] } evs
        if p1.hang then "HANG" else
        if p1.closed then "CLOSED" else
        let p2 := stepP f mtu SA.PollGiveUp.Rule.gen p1 .H
        if p2.hang then "HANG" else
        let z := p2.st.core.sys
        let ts := match p2.toks with
          | t :: ts => ("|" ++ t) :: ts
          | [] => []
        String.intercalate " " ts.reverse ++ " accU=" ++ toString p2.st.posU ++ " relU=" ++ digest z.b.inq.rel
          ++ " accD=" ++ toString p2.st.posD ++ " relD=" ++ digest z.a.inq.rel
          ++ " out=" ++ natList (z.a.outq.out.map (·.seq)) ++ "/" ++ natList (z.b.outq.out.map (·.seq))
      | none => "bad-op"
    | none => "bad-op"
  | _ => "bad-op"

def handlePoll (toks : List String) : String := handlePollWith Facts.gen toks

end SA.DnsWrites

/-
  SA.Model.DnsWrites — what `Write` reports: histories of several application writes on the client
  (`ClientDnsConnection.Write` → `OutQueue.Write` → `addChunk` → `OnChunkAdded` = `outChunkAdded` →
  `SendAndReceive`, 5 tries) and on the server's user connection (`OutQueue.Write` without a callback),
  the poll loop's body (`SendAndReceive(out.NextChunk())`) and application reads, over the queue pair
  of SA.Model.Queue.  Every step is carried out as SA.Queue events (`Ev`) on `Sys`, and the events are
  recorded (ghost `evs`), so that the theorems of C07 about `runS` apply to every history of this model:

    addChunk(data)            = `.write false data`   (one fragment: one chunk; `out` is empty at that point)
    one try of the retry loop = `.xchg .d` / `.xchg .ql` / `.xchg .al` (fate of the communicator call)
    out.NextChunk()           = `.xchg .ql` (the query is built — `cleanAckedChunks` — and goes nowhere)

  The loop of `OutQueue.Write`:

      for len(b) > 0 { data, b = …; err = q.addChunk(data); n += len(data); if err != nil { return } }

  The position of `n += len(data)` relative to the error return is the regenerated fact
  `SA.Gen.c07WriteCount` (0 = before: a fragment counts as soon as it is enqueued; 1 = after).

  The application at each end sends a fixed stream; a write of k bytes hands the next k bytes to Write
  and advances by the n returned (the caller continues with b[n:]).  `posU` = Σ n at the client.
-/
import SA.Model.Queue
import SA.Model.DnsExchange
namespace SA.DnsWrites
open SA.Queue

abbrev XF := SA.DnsExchange.Fate

structure Facts where
  cfg : Cfg
  tries : Nat      -- SendAndReceive: for i := 1; i <= tries; i++
  test : Nat       -- how a timeout is recognised (see SA.Model.DnsExchange)
  countPos : Nat   -- OutQueue.Write: 0 = count, then `if err != nil { return }`; 1 = return first
  deriving Repr, DecidableEq

def Facts.gen : Facts := ⟨Cfg.gen, Gen.c07Tries, Gen.c07TimeoutTest, Gen.c07WriteCount⟩

inductive WEv
  | w (k : Nat)   -- client Write of the next k upstream bytes
  | W (k : Nat)   -- server Write of the next k downstream bytes
  | p             -- one turn of the poll loop
  | r (k : Nat)   -- server application reads ≤ k bytes
  | R (k : Nat)   -- client application reads ≤ k bytes
  | D | N         -- client out-queue write deadline in the past / none
  deriving Repr, DecidableEq

/-- what the exchange machinery works on -/
structure Core where
  sys : Sys
  /-- ghost: the SA.Queue events carried out so far, newest first -/
  evs : List Ev := []
  fates : List XF := []
  calls : Nat := 0

structure St where
  core : Core
  /-- Σ n of the client's Writes that returned: the upstream stream is accepted up to here -/
  posU : Nat := 0
  posD : Nat := 0
  /-- client Write parked in its first waitEmptyQueue (size) -/
  pendU : Option Nat := none
  /-- server Write parked in its last waitEmptyQueue (size) -/
  pendD : Option Nat := none
  dl : Bool := false
  tr : List String := []

def downOff : Nat := 7919
/-- the application streams -/
def streamU (off n : Nat) : List Nat := genBytes off n
def streamD (off n : Nat) : List Nat := genBytes (downOff + off) n

section model
variable (f : Facts) (mtu : Nat)

def Core.ap (s : Core) (e : Ev) : Core := { s with sys := stepS f.cfg mtu s.sys e, evs := e :: s.evs }

def St.say (s : St) (t : String) : St := { s with tr := t :: s.tr }

/-- `out.NextChunk()` at the client -/
def nextChunk (s : Core) : Core := Core.ap f mtu s (.xchg .ql)

/-- one `dc.Query(req, …)`: the communicator's fate decides; Bool = the response was handled without error -/
def tryOnce (s : Core) : Core × XF × Bool :=
  let ft := s.fates.head?.getD .ok
  let s0 := { s with fates := s.fates.tail, calls := s.calls + 1 }
  match ft with
  | .ok =>
    let m := mkQuery f.cfg s0.sys.a
    let r := serve f.cfg s0.sys.b m.2
    (Core.ap f mtu s0 (.xchg .d), ft, (clientRecv f.cfg m.1 r.2).2)
  | .ql => (Core.ap f mtu s0 (.xchg .ql), ft, false)
  | .st => (Core.ap f mtu s0 (.xchg .ql), ft, false)
  | .al => (Core.ap f mtu s0 (.xchg .al), ft, false)
  | .er => (s0, ft, false)

/-- the retry loop of `SendAndReceive`; `left` = tries still available; Bool = returned nil -/
def sendRecv : Nat → Core → Core × Bool
  | 0, s => (s, true)
  | left + 1, s =>
    let r := tryOnce f mtu s
    match r.2.1 with
    | .ok => (r.1, r.2.2)
    | .er => (r.1, false)
    | _ =>
      if f.test = 1 then (if left = 0 then (r.1, false) else sendRecv left r.1)
      else (r.1, false)

/-- `outChunkAdded`: `for chunk := NextChunk(); chunk != nil; chunk = NextChunk() { SendAndReceive(chunk) … }`
    (no fuel left: the Go loop would not end; reported as a failure) -/
def chunkAdded : Nat → Core → Core × Bool
  | 0, s => (s, false)
  | fuel + 1, s =>
    let s1 := nextChunk f mtu s
    if s1.sys.a.outq.out = [] then (s1, true)
    else
      let r := sendRecv f mtu f.tries s1
      if r.2 then chunkAdded fuel r.1 else (r.1, false)

/-- the fragment loop of `OutQueue.Write` at the client; result = (state, n, err == nil) -/
def writeLoop : List (List Nat) → Core → Nat → Core × Nat × Bool
  | [], s, n => (s, n, true)
  | d :: ds, s, n =>
    let s1 := Core.ap f mtu s (.write false d)                     -- addChunk: the fragment is in `out`
    let r := chunkAdded f mtu (s1.sys.a.outq.out.length + 3) s1    -- … and OnChunkAdded runs
    if f.countPos = 0 then
      -- n += len(data); if err != nil { return }
      (if r.2 then writeLoop ds r.1 (n + d.length) else (r.1, n + d.length, false))
    else
      -- if err != nil { return }; n += len(data)
      (if r.2 then writeLoop ds r.1 (n + d.length) else (r.1, n, false))

def wTok (letter : String) (n : Nat) (ok : Bool) : String :=
  letter ++ toString n ++ (if ok then "k" else "e")

/-- a client Write that got past its first waitEmptyQueue; the caller advances by n.  After the loop
    `return n, q.waitEmptyQueue()`: the queue is empty, but a deadline set meanwhile is looked at first. -/
def doWriteU (s : St) (k : Nat) (pre : String) : St :=
  let r := writeLoop f mtu (chunks mtu (streamU s.posU k)) s.core 0
  St.say { s with core := r.1, posU := s.posU + r.2.1 } (pre ++ wTok "w" r.2.1 (r.2.2 && !s.dl))

/-- a parked server Write returns once its out-queue is empty -/
def settleD (s : St) : St :=
  match s.pendD with
  | some k =>
    if s.core.sys.b.outq.out = [] then St.say { s with pendD := none, posD := s.posD + k } ("+" ++ wTok "W" k true)
    else s
  | none => s

/-- a parked client Write runs once the out-queue is empty -/
def settleU (s : St) : St :=
  match s.pendU with
  | some k => if s.core.sys.a.outq.out = [] then doWriteU f mtu { s with pendU := none } k "+" else s
  | none => s

def settle (s : St) : St := settleD (settleU f mtu (settleD s))

def poll (s : St) : St :=
  let r := sendRecv f mtu f.tries (nextChunk f mtu s.core)
  St.say { s with core := r.1 } (if r.2 then "pk" else "pe")

def stepW (s : St) : WEv → St
  | .w k =>
    if s.pendU.isSome then St.say s "w-"
    else if s.dl then St.say s "w0e"
    else if s.core.sys.a.outq.out ≠ [] then St.say { s with pendU := some k } "wp"
    else doWriteU f mtu s k ""
  | .W k =>
    if s.pendD.isSome then St.say s "W-"
    else if k = 0 then St.say s "W0k"
    else St.say { s with core := Core.ap f mtu s.core (.write true (streamD s.posD k)), pendD := some k } "Wp"
  | .p => poll f mtu s
  | .r k =>
    let n := min k s.core.sys.b.inq.buf.length
    St.say { s with core := Core.ap f mtu s.core (.read true k) } ("r" ++ toString n)
  | .R k =>
    let n := min k s.core.sys.a.inq.buf.length
    St.say { s with core := Core.ap f mtu s.core (.read false k) } ("R" ++ toString n)
  | .D => St.say { s with dl := true } "D"
  | .N => St.say { s with dl := false } "N"

/-- one event, then the Writes it released return; tokens of one event are joined -/
def stepE (s : St) (e : WEv) : St := St.say (settle f mtu (stepW f mtu s e)) " "

def runW (s : St) : List WEv → St
  | [] => s
  | e :: es => runW (stepE f mtu s e) es

def outstanding (s : St) : Bool :=
  s.core.sys.a.outq.out ≠ [] || s.core.sys.b.outq.out ≠ [] || s.pendU.isSome || s.pendD.isSome

/-- the loss-free tail: polls until nothing is outstanding -/
def tail : Nat → St → St
  | 0, s => s
  | fuel + 1, s => if outstanding s then tail fuel (settle f mtu (poll f mtu s)) else s

end model

def start (sab sba : Nat) (fates : List XF) : St := { core := { sys := init sab sba, fates := fates } }

/-! ## line protocol -/

def parseNum (s : String) : Option Nat :=
  match s.toNat? with
  | some k => if toString k = s ∧ k ≤ 5000 then some k else none
  | none => none

def parseEv (t : String) : Option WEv :=
  if t = "p" then some .p else if t = "D" then some .D else if t = "N" then some .N
  else
    match t.toList with
    | c :: d :: ds =>
      match parseNum (String.ofList (d :: ds)) with
      | none => none
      | some k =>
        if c = 'w' then some (.w k) else if c = 'W' then some (.W k)
        else if c = 'r' then some (.r k) else if c = 'R' then some (.R k) else none
    | _ => none

def splitSlash : List String → List String × List String
  | [] => ([], [])
  | t :: ts => if t = "/" then ([], ts) else let r := splitSlash ts; (t :: r.1, r.2)

/-- `dnswrites mtu=<m> sab=<s> sba=<s> <event>* [/ <fate>*]` -/
def handleWith (f : Facts) (toks : List String) : String :=
  match toks with
  | t1 :: t2 :: t3 :: rest =>
    match kv "mtu" t1, kv "sab" t2, kv "sba" t3 with
    | some mtu, some sab, some sba =>
      if mtu = 0 ∨ mtu > 100 ∨ sab ≥ MOD ∨ sba ≥ MOD then "bad-op" else
      let sp := splitSlash rest
      match sp.1.mapM parseEv, sp.2.mapM SA.DnsExchange.parseFate with
      | some evs, some fates =>
        let s1 := runW f mtu (start sab sba fates) evs
        let s2 := St.say { s1 with core := { s1.core with fates := [] } } "|"
        let y := s2.core.sys
        let s3 := tail f mtu (y.a.outq.out.length + y.b.outq.out.length + 8) s2
        let z := s3.core.sys
        String.join s3.tr.reverse ++ " accU=" ++ toString s3.posU ++ " relU=" ++ digest z.b.inq.rel
          ++ " accD=" ++ toString s3.posD ++ " relD=" ++ digest z.a.inq.rel
          ++ " out=" ++ natList (z.a.outq.out.map (·.seq)) ++ "/" ++ natList (z.b.outq.out.map (·.seq))
          ++ " calls=" ++ toString s3.core.calls
      | _, _ => "bad-op"
    | _, _, _ => "bad-op"
  | _ => "bad-op"

def handle (toks : List String) : String := handleWith Facts.gen toks

end SA.DnsWrites

/-
  SA.Model.DnsAnswers — WHICH answer the client takes for an outstanding exchange.

  SA.Model.DnsExchange knows five outcomes of a communicator call, and in every one of them the answer that
  comes back (if any) is the answer to the query just sent.  A real path also delivers answers late: the
  answer to send i arrives while the client is waiting for the answer to send j > i — with the DNS message
  id and the question of send i.  This model gives answers an identity (the index of the send they answer)
  and follows `ClientDnsConnection.Write` → `OutQueue.Write` → `outChunkAdded` → `SendAndReceive` →
  `QueryWithData` for one application write of one or more fragments, upstream only:

    fate of the j-th communicator call (sends are numbered from 0 over the whole write)
      ok          query handled by the server, answered
      ql          query lost                               al   handled, answer lost
      st          the communicator returns smux.ErrTimeout er   any other error
      late<k>     handled; the answer is withheld (the client sees a network timeout) and is delivered in
                  reply to send j+k, with its original id and question, in place of that send's own answer
      dup         handled, answered; a second copy of the answer is delivered in reply to send j+1
      fid         handled, answered, but the path has rewritten the message id to one no query ever had

  What `QueryWithData`/`SendAndReceive` do with the identity of an answer is the parameter `ring`:
    none      nothing — no code above the communicator looks at the answer's id or question (the regenerated
              fact `SA.Gen.c07AnswerIdChecks = []`); an answer is an answer
    some r    iodine's rule: the id must be one of the last r query ids, anything else is a plain
              (non-timeout) error, which ends the retry loop

  `filter` = the communicator is miekg's UDP client (`dns.Client.ExchangeWithConn` on a packet connection,
  what `NetConnectionClientCommunicator` uses): datagrams whose id differs from the query's are skipped and
  the client keeps waiting, so a late answer, a second copy and a foreign id never reach `QueryWithData`.

  The server has handled fragment `cur` once any send carrying it was handled; an answer acknowledges the
  fragment its query carried (`LastAckedSeqNo = in.NextSeqNo-1` after `Append`), so an answer to a send of an
  EARLIER fragment returns nil from `SendAndReceive` without emptying `out`, and `outChunkAdded` sends again.
-/
import SA.Model.Queue
import SA.Model.DnsExchange
namespace SA.DnsAnswers

inductive AFate
  | ok | ql | al | st | er
  | late (k : Nat)
  | dup
  | fid
  deriving DecidableEq, Repr

/-- the query reaches the server -/
def AFate.handled : AFate → Bool
  | .ok | .al | .late _ | .dup | .fid => true
  | _ => false

/-- fates beyond the script are `ok` -/
def fateAt (fs : List AFate) (j : Nat) : AFate := fs[j]?.getD .ok

/-- the path delivers the answer to send i (or its second copy) in reply to send j -/
def dueAt (fs : List AFate) (i j : Nat) : Bool :=
  match fateAt fs i with
  | .late k => k != 0 && i + k == j
  | .dup => i + 1 == j
  | _ => false

/-- the oldest send whose answer is delivered in reply to send j (others due at the same time are dropped) -/
def dueFrom (fs : List AFate) (j : Nat) : Option Nat := (List.range j).find? (fun i => dueAt fs i j)

/-- what `Communicator.SendAndReceive` hands to `QueryWithData` -/
inductive Seen
  | ans (origin : Option Nat)   -- an answer; the send it answers (`none`: an id no query had)
  | tmo                         -- a timeout (network or sentinel)
  | err
  deriving DecidableEq, Repr

def sees (filter : Bool) (fs : List AFate) (j : Nat) : Seen :=
  if filter then
    match fateAt fs j with
    | .ok | .dup => .ans (some j)
    | .er => .err
    | _ => .tmo
  else
    match fateAt fs j with
    | .er => .err
    | .st => .tmo
    | f =>
      match dueFrom fs j with
      | some i => .ans (some i)
      | none =>
        match f with
        | .ok | .dup => .ans (some j)
        | .fid => .ans none
        | _ => .tmo

/-- does the code above the communicator take the answer with this origin for send j -/
def accepts (ring : Option Nat) (j : Nat) (o : Option Nat) : Bool :=
  match ring, o with
  | none, _ => true
  | some r, some i => decide (j - i < r)
  | some _, none => false

structure P where
  ring : Option Nat
  filter : Bool
  test : Nat       -- how a timeout is recognised (SA.Model.DnsExchange)
  tries : Nat
  countPos : Nat   -- OutQueue.Write: n += len(data) before (0) / after (1) the error return
  deriving Repr

inductive Out
  | fail
  | got (origin : Option Nat)
  deriving DecidableEq, Repr

/-- the retry loop of `SendAndReceive` from send `j`; result = (index of the next send, outcome) -/
def loopA (p : P) (fs : List AFate) : Nat → Nat → Nat × Out
  | 0, j => (j, .got (some j))
  | left + 1, j =>
    match sees p.filter fs j with
    | .err => (j + 1, .fail)
    | .tmo =>
      if p.test = 1 then (if left = 0 then (j + 1, .fail) else loopA p fs left (j + 1))
      else (j + 1, .fail)
    | .ans o => if accepts p.ring j o then (j + 1, .got o) else (j + 1, .fail)

/-- some send in [j, j') reached the server -/
def anyHandled (fs : List AFate) (j j' : Nat) : Bool :=
  (List.range' j (j' - j)).any (fun i => (fateAt fs i).handled)

/-- the accepted answer acknowledges fragment `cur`: it answers a send that carried it -/
def acks (hist : List Nat) (cur : Nat) : Option Nat → Bool
  | none => true
  | some i => hist[i]? == some cur

structure W where
  j : Nat := 0              -- communicator calls so far
  srv : Nat := 0            -- fragments the server has appended
  hist : List Nat := []     -- fragment carried by each send
  deriving Repr, DecidableEq

/-- `outChunkAdded` for fragment `cur`: SendAndReceive until `out.NextChunk()` is nil -/
def chunkAddedA (p : P) (fs : List AFate) (cur : Nat) : Nat → W → W × Bool
  | 0, w => (w, false)
  | fuel + 1, w =>
    let r := loopA p fs p.tries w.j
    let w' : W := { j := r.1, hist := w.hist ++ List.replicate (r.1 - w.j) cur,
                    srv := if w.srv = cur ∧ anyHandled fs w.j r.1 then cur + 1 else w.srv }
    match r.2 with
    | .fail => (w', false)
    | .got o => if acks w'.hist cur o then (w', true) else chunkAddedA p fs cur fuel w'

/-- the fragment loop of `OutQueue.Write`; result = (state, n, err == nil) -/
def writeLoopA (p : P) (fs : List AFate) : List (List Nat) → Nat → W → Nat → W × Nat × Bool
  | [], _, w, n => (w, n, true)
  | d :: ds, cur, w, n =>
    let r := chunkAddedA p fs cur (fs.length + 12) w
    if r.2 then writeLoopA p fs ds (cur + 1) r.1 (n + d.length)
    else (r.1, if p.countPos = 0 then n + d.length else n, false)

def writeA (p : P) (mtu : Nat) (data : List Nat) (fs : List AFate) : W × Nat × Bool :=
  writeLoopA p fs (SA.Queue.chunks mtu data) 0 {} 0

/-- the only id rule the model knows besides "none" is iodine's ring of the last three query ids -/
def ringGen : Option Nat := if Gen.c07AnswerIdChecks = [] then none else some 3

def P.gen (filter : Bool) : P := ⟨ringGen, filter, Gen.c07TimeoutTest, Gen.c07Tries, Gen.c07WriteCount⟩

def parseAFate (s : String) : Option AFate :=
  if s = "ok" then some .ok else if s = "ql" then some .ql else if s = "al" then some .al
  else if s = "st" then some .st else if s = "er" then some .er
  else if s = "dup" then some .dup else if s = "fid" then some .fid
  else if s.startsWith "late" then
    match (s.drop 4).toNat? with
    | some k => if 1 ≤ k ∧ k ≤ 9 ∧ s.length = 5 then some (.late k) else none
    | none => none
  else none

/-- `dnsretry <hex payload 1..8 bytes> ids|udp mtu=<m> <fate>*` → `calls=<n|-> n=<n> err=<ok|err> srv=<hex>` -/
def handleWith (ring : Option Nat) (toks : List String) : String :=
  match toks with
  | h :: mode :: m :: rest =>
    match fromHex h, SA.Queue.kv "mtu" m, rest.mapM parseAFate with
    | some d, some mtu, some fs =>
      if d.length = 0 ∨ d.length > 8 ∨ mtu = 0 ∨ mtu > 8 ∨ (mode ≠ "ids" ∧ mode ≠ "udp") then "bad-op"
      else if mode = "udp" ∧ (fs.any (fun f => f == .st || f == .er)) then "bad-op" else
      let p : P := { P.gen (mode = "udp") with ring := ring }
      let r := writeA p mtu d fs
      "calls=" ++ (if mode = "udp" then "-" else toString r.1.j) ++ " n=" ++ toString r.2.1
        ++ " err=" ++ (if r.2.2 then "ok" else "err")
        ++ " srv=" ++ toHex (((SA.Queue.chunks mtu d).take r.1.srv).flatten)
    | _, _, _ => "bad-op"
  | _ => "bad-op"

/-- `dnsretry`: the lines of SA.Model.DnsExchange (answer = answer to the query just sent) and the lines with
    answer identities -/
def handle (toks : List String) : String :=
  match toks with
  | _ :: mode :: _ => if mode = "ids" ∨ mode = "udp" then handleWith ringGen toks else SA.DnsExchange.handle toks
  | _ => SA.DnsExchange.handle toks

end SA.DnsAnswers

/-
  SA.Model.CarrierClose — what happens when a physical session is ended locally (smux `Session.Close` →
  `conn.Close()` of the carrier wrapper chain) while the multiplexer's send loop is BLOCKED in a carrier
  Write (the peer has stopped reading, the kernel's buffers are full) and the peer keeps its end open.

  Three activities (untimed, any interleaving):
  * the closing goroutine (acceptStream after a protocol violation, the keep-alive after its time-out,
    Upstreams.discard / Shutdown on the client): it walks through the calls the `Close` methods of the wrapper
    chain make BEFORE the socket underneath is closed (regenerated: `Gen.carrierCloseCalls`,
    `Gen.sessionEndCalls`), then closes the socket.  A call that carries a finite deadline returns by itself
    (`bounded`); any other call (a write, a flush, a control frame, a lock, a wait for a goroutine) needs the
    carrier's write path and returns only once the blocked Write is over (`waits`);
  * the send loop: blocked in Write until the socket is closed (then the Write fails and the loop ends); when it
    is not blocked it ends as soon as the session is marked dead;
  * the receive loop: in Read (nothing arrives) until the socket is closed.
  The peer does nothing (it does not read and does not hang up): that is the situation the property is about.
-/
import SA.Model.StalledSession
import SA.Base.Util
import SA.Gen.C14Close
namespace SA.CarrierClose

inductive PreStep | bounded | waits
  deriving DecidableEq, Repr

inductive Act | closer | sender | receiver
  deriving DecidableEq, Repr

structure St where
  pre : List PreStep        -- calls the closing goroutine still has to get through before the socket is closed
  closerDone : Bool
  sockClosed : Bool
  senderLive : Bool
  writerBlocked : Bool      -- the send loop sits in a Write that cannot finish while the socket is open
  receiverLive : Bool
  deriving DecidableEq, Repr

def init (pre : List PreStep) (blocked : Bool) : St :=
  { pre := pre, closerDone := false, sockClosed := false, senderLive := true, writerBlocked := blocked, receiverLive := true }

def step (s : St) : Act → Option St
  | .closer =>
      if s.closerDone then none else
      match s.pre with
      | [] => some { s with closerDone := true, sockClosed := true }
      | .bounded :: r => some { s with pre := r }
      | .waits :: r => if s.writerBlocked then none else some { s with pre := r }
  | .sender =>
      if s.senderLive ∧ (s.writerBlocked = false ∨ s.sockClosed = true) then
        some { s with senderLive := false, writerBlocked := false }
      else none
  | .receiver =>
      if s.receiverLive ∧ s.sockClosed = true then some { s with receiverLive := false } else none

def run : St → List Act → St
  | s, [] => s
  | s, a :: as => match step s a with
      | some s' => run s' as
      | none => run s as

def quiescent (s : St) : Bool :=
  (step s .closer).isNone && (step s .sender).isNone && (step s .receiver).isNone

/-- goroutines of the session still there: the closing one until it is through, the two loops -/
def live (s : St) : Nat :=
  (if s.closerDone then 0 else 1) + (if s.senderLive then 1 else 0) + (if s.receiverLive then 1 else 0)

def stepOf (k : String × String) : PreStep := if k.2 = "bounded" then .bounded else .waits

/-- the code as it is: the calls of every wrapper's Close (any of them can be on the chain of a carrier) and of the
    client's session-ending functions -/
def genPre : List PreStep :=
  (Gen.carrierCloseCalls.flatMap (·.2)).map stepOf ++ (Gen.sessionEndCalls.flatMap (·.2)).map stepOf

/-- a fair schedule long enough for every activity to finish what it can -/
def settle (s : St) : St :=
  run s ((List.replicate (s.pre.length + 2) [Act.closer, Act.sender, Act.receiver]).flatten)

def blockSCarriers : List String := ["tcp", "tcptls", "starttls", "ws", "wss", "stdio", "stdiotls"]
def blockCCarriers : List String := ["tcp", "tcptls", "starttls", "ws", "wss"]

/-- e2e prediction for `life <carrier> <rounds> blockS|blockC <ending>` (none = not such an op) -/
def lifeBlocked (toks : List String) : Option String :=
  -- every round leaves what one session leaves
  let render (_rounds : Nat) : String :=
    let s := settle (init genPre true)
    s!"grow={live s} fd={if s.sockClosed then 0 else 1} blocked=true"
  match toks with
  | ["tcp", "1", "blockS", "rstall"] => some StalledSession.rstall
  | [carrier, n, "blockS", ending] =>
      let k := n.toNat?.getD 0
      if carrier ∈ blockSCarriers ∧ ending ∈ ["garbage", "cut", "cutwait", "timeout"] ∧ k ≥ 1
          ∧ (k = 1 ∨ ¬ (carrier = "stdio" ∨ carrier = "stdiotls")) then some (render k) else some "bad-op"
  | [carrier, n, "blockC", ending] =>
      let k := n.toNat?.getD 0
      if carrier ∈ blockCCarriers ∧ ending ∈ ["sessclose", "clishutdown", "timeout"] ∧ k = 1 then some (render k)
      else some "bad-op"
  | _ => none

end SA.CarrierClose

/-
  SA.Model.TlsServerKinds — which configuration object each server KIND hands to the TLS layer.

  internal/server has five kinds of server (socket: tcp / unix, plain or `+tls`; packet: udp / unixgram over kcp;
  stdio; http: ws / wss; dns).  Each has a StartTLS path — it passes a certificate manager to
  `AcceptConnection` → `NewServerConnection` → `upgrade` → `tls.Server(conn, manager.GetTlsConfig())` — and, except
  the packet server, a TLS-listener path (`X.GetTlsConfig()` for `tls.Listen` / `http.Server.TLSConfig` /
  `tls.Server` / the DNS library's `TLSConfig`).  Every server struct embeds `cert.ServerConfig`, which embeds
  `cert.Config`; BOTH satisfy `cert.TlsConfig`.  The base `Config.GetTlsConfig` supplies the certificate and the CA
  pool but never applies `RequireClientCert`: a kind that hands `&st.Config` instead of `&st.ServerConfig` admits
  clients without an acceptable certificate although the option is set.  The expression each kind passes is a
  regenerated fact (SA.Gen.c05ServerManagerSites); the model follows it.
-/
import SA.Model.TlsConfig
import SA.Gen.C05Kinds
namespace SA.TlsConfig

inductive SrvKind | socket | packet | stdio | http | dns
  deriving DecidableEq, Repr
inductive SrvPath | starttls | listener
  deriving DecidableEq, Repr

/-- (file, function, role, class of the manager expression) -/
abbrev MgrSite := String × String × String × String

def SrvKind.file : SrvKind → String
  | .socket => "socket_server.go"
  | .packet => "packet_server.go"
  | .stdio => "stdio_server.go"
  | .http => "http_server.go"
  | .dns => "dns_server.go"

def SrvPath.role : SrvPath → String
  | .starttls => "starttls"
  | .listener => "listener"

/-- the paths a kind has: the packet server has no TLS listener -/
def SrvKind.hasPath : SrvKind → SrvPath → Bool
  | .packet, .listener => false
  | _, _ => true

/-- the file whose code serves kind `k` on path `p`: the DNS server embeds SocketServer and runs its accept loop -/
def siteFile (dnsEmbeds : Bool) (k : SrvKind) (p : SrvPath) : String :=
  if k = .dns ∧ p = .starttls ∧ dnsEmbeds then SrvKind.socket.file else k.file

/-- the classes of the manager expressions at the sites serving (k, p) -/
def managerClasses (sites : List MgrSite) (dnsEmbeds : Bool) (k : SrvKind) (p : SrvPath) : List String :=
  (sites.filter (fun s => s.1 == siteFile dnsEmbeds k p && s.2.2.1 == p.role)).map (·.2.2.2)

/-- does (k, p) hand the full server configuration to the TLS layer? (at least one site, every site `ServerConfig`) -/
def handsServerConfig (sites : List MgrSite) (dnsEmbeds : Bool) (k : SrvKind) (p : SrvPath) : Bool :=
  let cs := managerClasses sites dnsEmbeds k p
  !cs.isEmpty && cs.all (· == "ServerConfig")

/-- the *tls.Config the server kind gives crypto/tls on this path: `ServerConfig.GetTlsConfig` when the manager is the
    ServerConfig, else what the base `Config.GetTlsConfig` yields (certificate + CA pool, ClientAuth untouched) -/
def serverCfgFor (guardErrNil : Bool) (sites : List MgrSite) (dnsEmbeds : Bool) (k : SrvKind) (p : SrvPath) (so : Opts) : Res TlsCfg :=
  if handsServerConfig sites dnsEmbeds k p then serverGetTlsConfig guardErrNil so else configGetTlsConfig so

/-- `established` with the server side of kind `sk` on path `p` -/
def establishedOn (X : X509) (F : Facts) (sites : List MgrSite) (dnsEmbeds : Bool) (k : Kind) (sk : SrvKind) (p : SrvPath)
    (hostport resolved : Name) (co so : Opts) : Bool :=
  match clientCfgFor F.sites k co, serverCfgFor F.guardErrNil sites dnsEmbeds sk p so with
  | .ok ccfg, .ok scfg =>
    match scfg.certs.head? with
    | none => false
    | some peer =>
      clientAccepts X { ccfg with serverName := nameFor F k hostport resolved } peer
        && serverAdmits X scfg ccfg.certs.head?
  | _, _ => false

/-! ## driver: `authmatrix` with the server kind of every carrier -/

/-- carrier → client kind, "host must be `-`", server kind + path (`none`: the harness calls AcceptConnection itself) -/
def parseCarrier : String → Option (Kind × Bool × Option (SrvKind × SrvPath))
  | "pipe" => some (.startTls, false, none)
  | "tcp" => some (.startTls, false, some (.socket, .starttls))
  | "tcp+tls" => some (.socketTls, false, some (.socket, .listener))
  | "unix" => some (.startTls, true, some (.socket, .starttls))
  | "unix+tls" => some (.socketTls, true, some (.socket, .listener))
  | "udp" => some (.startTls, false, some (.packet, .starttls))
  | "stdin" => some (.startTls, true, some (.stdio, .starttls))
  | "stdin+tls" => some (.stdioTls, true, some (.stdio, .listener))
  | "ws" => some (.startTls, false, some (.http, .starttls))
  | "wss" => some (.httpTls, false, some (.http, .listener))
  | "dns" => some (.startTls, true, some (.dns, .starttls))
  | _ => none

def handleAuthmatrixK (toks : List String) : String :=
  match toks with
  | [carrier, hostname, scert, ins, cca, ccert, sreq, sca] =>
    let r : Option String := do
      let (k, noHost, sk) ← parseCarrier carrier
      let ins ← parseBit ins
      let sreq ← parseBit sreq
      if !(serverCertClasses.contains scert) then none
      if !(clientCertClasses.contains ccert) then none
      if !(caTokens.contains cca) || !(caTokens.contains sca) then none
      if noHost != (hostname == "-") then none
      let (hostPart, special) ← decodeHostTok hostname
      if special && noHost then none
      if !special && (carrier == "tcp" || carrier == "tcp+tls" || carrier == "udp" || carrier == "ws" || carrier == "wss") && !(hostname == "localhost" || hostname == "127.0.0.1") then none
      if !special && carrier == "pipe" && hostname.toList.any (fun c => c == ':' || c == '/' || c == '[' || c == ']') then none
      let caSrc := caSrcOf
      let so : Opts := leafSrc scert { ca := caSrc sca, flag := sreq }
      let co0 : Opts := { ca := caSrc cca, flag := ins }
      let co : Opts := if ccert = "none" then co0 else leafSrc ("c" ++ ccert) co0
      let hostport : Name := if noHost then [] else stripUserinfo hostPart ++ ":4443".toList
      let est := match sk with
        | none => established refX509 genFacts k hostport (refResolve hostport) co so
        | some (s, p) => establishedOn refX509 genFacts SA.Gen.c05ServerManagerSites SA.Gen.c05DnsUsesSocketAccept k s p
            hostport (refResolve hostport) co so
      pure (if est then "established" else "refused")
    r.getD "bad-op"
  | _ => "bad-op"

end SA.TlsConfig

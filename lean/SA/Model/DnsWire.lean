/-
  SA.Model.DnsWire — the DNS name / character-string layer shared by the request (C09) and response
  (C10) models.

  socketace side (mirrored function by function):
    util/dotify.go Dotify, util/consts.go PrepareHostname / GetLongestDataString,
    commands/utils.go StripDomain, util/wrap.go unescapePresentation / Undotify.
  miekg/dns v1.1.34 side (MODELLED, NOT VERIFIED — validated per generated case by the harness):
    packDomainName  → `packName`   (presentation string → labels; \DDD and \c escapes; label < 64;
                                     no empty label; must end in an unescaped dot)
    UnpackDomainName → `unpackName` (labels → presentation string; . space ' @ ; ( ) " \ get a
                                     backslash, bytes < 0x20 or > 0x7e become \DDD; 255-octet budget)
    packTxtString / unpackString → `txtToWire` / `txtFromWire`.
  Bytes are `Nat`s (< 256 on every path the driver takes).  Core Lean only.
-/
import SA.Base.Util
import SA.Gen.Consts
import SA.Gen.C09

namespace SA.DnsWire

def dot : Nat := 46
def bsl : Nat := 92

def isDigit (b : Nat) : Bool := 48 ≤ b && b ≤ 57

/-- dddToByte: byte arithmetic, i.e. modulo 256 -/
def ddd (a b c : Nat) : Nat := ((a - 48) * 100 + (b - 48) * 10 + (c - 48)) % 256

/-- do three decimal digits follow?  (the `\\DDD` test of miekg and of StripDomain's regexp) -/
def threeDigits : List Nat → Bool
  | d1 :: d2 :: d3 :: _ => isDigit d1 && isDigit d2 && isDigit d3
  | _ => false

def dddOf : List Nat → Nat
  | d1 :: d2 :: d3 :: _ => ddd d1 d2 d3
  | _ => 0

/-! ### socketace: Dotify, PrepareHostname, GetLongestDataString -/

def dotifyAux (stride : Nat) : Nat → List Nat → List Nat
  | 0, buf => buf
  | fuel + 1, buf =>
    if stride < buf.length then buf.take stride ++ dot :: dotifyAux stride fuel (buf.drop stride) else buf

/-- util/dotify.go Dotify (a dot after every `stride` characters while more than `stride` remain) -/
def dotify (buf : List Nat) : List Nat := dotifyAux SA.Gen.C09.dotifyStride buf.length buf

/-- util/consts.go PrepareHostname; none = ErrTooLong -/
def prepareHostname (data domain : List Nat) : Option (List Nat) :=
  let d := if data.length > SA.Gen.labelMaxLen then dotify data else data
  let h := d ++ dot :: (domain ++ [dot])
  if h.length > SA.Gen.hostnameMaxLen - SA.Gen.C09.prepareSlack then none else some h

/-- util/consts.go GetLongestDataString (Int: negative for over-long domains) -/
def longestDataString (domainLen : Nat) : Int :=
  let space : Int := (SA.Gen.hostnameMaxLen : Int) - domainLen - 2 - 1
  -- int(math.Ceil(float64(space)/60)); exact for these magnitudes
  space - (space + (SA.Gen.labelMaxLen : Int) - 1) / (SA.Gen.labelMaxLen : Int)

/-! ### miekg: names -/

/-- isDomainNameLabelSpecial -/
def nameSpecial (b : Nat) : Bool :=
  b == 46 || b == 32 || b == 39 || b == 64 || b == 59 || b == 40 || b == 41 || b == 34 || b == 92

def escDDD (b : Nat) : List Nat := [bsl, 48 + b / 100, 48 + b / 10 % 10, 48 + b % 10]

/-- how UnpackDomainName renders one label byte -/
def escNameByte (b : Nat) : List Nat :=
  if nameSpecial b then [bsl, b] else if b < 32 || b > 126 then escDDD b else [b]

/-- UnpackDomainName: labels → presentation string -/
def unpackName (labels : List (List Nat)) : List Nat :=
  if labels.isEmpty then [dot] else labels.flatMap (fun l => l.flatMap escNameByte ++ [dot])

/-- packDomainName's loop.  `cur` = the label being collected, `acc` = finished labels,
    `wasDot` as in the Go code, `skip` = characters of an escape sequence still to be passed over.  none = ErrRdata / ErrFqdn (also used for the one shape this model
    does not follow: an empty first label before more labels). -/
def packLoop : Nat → List Nat → List Nat → List (List Nat) → Bool → Option (List (List Nat))
  | _, [], cur, acc, _ => if cur.isEmpty then some acc else none
  | skip + 1, _ :: rest, cur, acc, wasDot => packLoop skip rest cur acc wasDot
  | 0, c :: rest, cur, acc, wasDot =>
    if c == bsl then
      match rest with
      | [] => none
      | d1 :: _ =>
        if threeDigits rest then packLoop 3 rest (cur ++ [dddOf rest]) acc false
        else packLoop 1 rest (cur ++ [d1]) acc false
    else if c == dot then
      if wasDot then none
      else if cur.length ≥ 64 then none
      else if cur.isEmpty then (if rest.isEmpty && acc.isEmpty then some [] else none)
      else packLoop 0 rest [] (acc ++ [cur]) true
    else packLoop 0 rest (cur ++ [c]) acc false

def packName (s : List Nat) : Option (List (List Nat)) := packLoop 0 s [] [] false

/-- UnpackDomainName's budget: 255 minus (len+1) per label must stay positive -/
def nameBudgetOk (labels : List (List Nat)) : Bool :=
  (labels.map (fun l => l.length + 1)).sum < 255

inductive WireErr | pack | unpack
deriving DecidableEq, Repr

/-- a name through Pack then Unpack -/
def nameOverWire (s : List Nat) : Except WireErr (List (List Nat)) :=
  match packName s with
  | none => .error .pack
  | some ls => if nameBudgetOk ls then .ok ls else .error .unpack

/-! ### miekg: TXT character strings -/

/-- packTxtString: presentation → wire bytes -/
def txtToWireGo : Nat → List Nat → List Nat
  | _, [] => []
  | skip + 1, _ :: rest => txtToWireGo skip rest
  | 0, c :: rest =>
    if c == bsl then
      match rest with
      | [] => []
      | d1 :: _ =>
        if threeDigits rest then dddOf rest :: txtToWireGo 3 rest else d1 :: txtToWireGo 1 rest
    else c :: txtToWireGo 0 rest

def txtToWire (s : List Nat) : List Nat := txtToWireGo 0 s

def escTxtByte (b : Nat) : List Nat :=
  if b == 34 || b == 92 then [bsl, b] else if b < 32 || b > 126 then escDDD b else [b]

/-- unpackString: wire bytes → presentation -/
def txtFromWire (w : List Nat) : List Nat := w.flatMap escTxtByte

/-! ### socketace: undoing the escapes -/

/-- util/wrap.go unescapePresentation (added by the C10 repair); dots dropped when `dropDots` -/
def unescGo (dropDots : Bool) : Nat → List Nat → List Nat
  | _, [] => []
  | skip + 1, _ :: rest => unescGo dropDots skip rest
  | 0, c :: rest =>
    if c == dot && dropDots then unescGo dropDots 0 rest
    else if c == bsl then
      match rest with
      | [] => [bsl]
      | d1 :: _ =>
        if threeDigits rest then dddOf rest :: unescGo dropDots 3 rest else d1 :: unescGo dropDots 1 rest
    else c :: unescGo dropDots 0 rest

def unescapePresentation (dropDots : Bool) (s : List Nat) : List Nat := unescGo dropDots 0 s

/-- util/dotify.go Undotify -/
def undotify (s : List Nat) : List Nat := s.filter (· != dot)

def lower (b : Nat) : Nat := if 65 ≤ b ∧ b ≤ 90 then b + 32 else b

def hasSuffix (s t : List Nat) : Bool := t.length ≤ s.length && s.drop (s.length - t.length) == t

/-- commands/utils.go StripDomain's loop; none = the index panic on a trailing backslash.
    ParseInt(…, 10, 16) of three digits never fails; byte(num) is modulo 256. -/
def stripGo : Nat → List Nat → Option (List Nat)
  | _, [] => some []
  | skip + 1, _ :: rest => stripGo skip rest
  | 0, c :: rest =>
    if c == dot then stripGo 0 rest
    else if c != bsl then (stripGo 0 rest).map (c :: ·)
    else
      match rest with
      | [] => none
      | d1 :: _ =>
        if threeDigits rest then (stripGo 3 rest).map (dddOf rest :: ·)
        else (stripGo 1 rest).map (d1 :: ·)

def stripLoop (s : List Nat) : Option (List Nat) := stripGo 0 s

/-- commands/utils.go StripDomain (ASCII lower-casing: its input is an unpacked name, which is ASCII) -/
def stripDomain (data domain : List Nat) : Option (List Nat) :=
  let suffix := dot :: (domain.map lower ++ [dot])
  let d := if hasSuffix (data.map lower) suffix then data.take (data.length - (domain.length + 2)) else data
  stripLoop d

end SA.DnsWire

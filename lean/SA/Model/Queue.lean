/-
  SA.Model.Queue — executable model of internal/streams/dns/util/queue.go (InQueue / OutQueue)
  and of the packet exchange that joins two endpoints
  (ClientDnsConnection.SendAndReceive: request `ack = in.NextSeqNo-1, pkt = out.NextChunk()`,
   response handling `out.UpdateAcked(ack); in.Append(pkt)`;
   ServerDnsListener.packet: `out.UpdateAcked(req.ack); in.Append(req.pkt);` error or
   `ack = in.NextSeqNo-1, pkt = out.NextChunk()`).

  Sequence numbers are `Nat` with explicit `% 65536`.  The code's constants and decisive shapes
  (MaxCachedChunks, which end of `acked` each trimming keeps, the window loop bounds, the ack offset)
  are parameters (`Cfg`), instantiated from the regenerated `SA.Gen.c07*` facts by `Cfg.gen`.

  Ghost fields (never read by the modelled code, never printed): `InQ.cnt/rel`, `OutQ.W/ackIdx`,
  `End.acc`, `Query.gAck/gPkt`, `Resp.ok … gAck gPkt`.  They carry the chunk indices the
  invariants of SA.Proofs.Queue talk about.
-/
import SA.Base.Util
import SA.Gen.C07
namespace SA.Queue

/-- 2^16: sequence numbers are uint16 -/
notation "MOD" => 65536

structure Pkt where
  seq : Nat
  data : List Nat
  deriving DecidableEq, Repr, Inhabited

/-- facts taken from the source -/
structure Cfg where
  max : Nat       -- MaxCachedChunks
  outTrim : Nat   -- OutQueue.cleanAckedChunks: 0 acked[0:Max], 1 acked[len-Max:], 2 acked[1:]
  inTrim : Nat    -- InQueue.Append, in-order branch
  wlo : Nat       -- window loop: for i := next+wlo; i != next+whi; i++
  whi : Nat
  ackOff : Nat    -- LastAckedSeqNo = in.NextSeqNo - ackOff
  deriving Repr, DecidableEq

def Cfg.gen : Cfg :=
  { max := Gen.c07MaxCachedChunks, outTrim := Gen.c07OutTrim, inTrim := Gen.c07InTrim,
    wlo := Gen.c07WindowLo, whi := Gen.c07WindowHi, ackOff := Gen.c07AckOffset }

/-- `if len(acked) > Max { acked = acked[..] }` -/
def applyTrim (code max : Nat) (l : List Nat) : List Nat :=
  if l.length > max then
    (if code = 0 then l.take max else if code = 1 then l.drop (l.length - max) else l.drop 1)
  else l

/-! ## InQueue -/

structure InQ where
  next : Nat
  buf : List Nat := []
  future : List Pkt := []
  acked : List Nat := []
  /-- ghost: number of packets released in order -/
  cnt : Nat := 0
  /-- ghost: every packet payload ever released to the reader, newest first -/
  relR : List (List Nat) := []
  deriving Repr

/-- ghost: every byte ever released to the reader -/
def InQ.rel (q : InQ) : List Nat := q.relR.reverse.flatten

/-- `appendPacket` -/
def InQ.appendPacket (q : InQ) (p : Pkt) : InQ :=
  { q with buf := q.buf ++ p.data, next := (q.next + 1) % MOD, cnt := q.cnt + 1, relR := p.data :: q.relR }

/-- first packet of `future` with the wanted sequence number, and the list without it -/
def extractFirst (n : Nat) : List Pkt → Option (Pkt × List Pkt)
  | [] => none
  | p :: ps =>
    if p.seq = n then some (p, ps)
    else match extractFirst n ps with
      | none => none
      | some (x, r) => some (x, p :: r)

/-- `for len(q.future) > 0 && added { … }` -/
def InQ.drain : Nat → InQ → InQ
  | 0, q => q
  | f + 1, q =>
    match extractFirst q.next q.future with
    | none => q
    | some (p, rest) => InQ.drain f { q.appendPacket p with future := rest }

/-- closed form of the acceptance-window loop: the loop visits `(hi - lo) mod 2^16` values starting at
    `next+lo`.  Specification only; `InQ.append` runs the loop itself (`inWindowL`), and
    `SA.Queue.inWindowL_eq` (SA.Proofs.QueueWindow) proves the two equal for uint16 arguments. -/
def inWindow (c : Cfg) (next seq : Nat) : Bool :=
  (seq + MOD - (next + c.wlo) % MOD) % MOD < (c.whi + MOD - c.wlo % MOD) % MOD

/-- `for i := …; i != stop; i++ { if i == seq { inWindow = true } }` with `i` a uint16 (the increment
    wraps); `acc` is the variable `inWindow`.  The fuel only makes the recursion structural: from any
    uint16 start the loop reaches `stop` after at most 65535 increments (`windowLoop_eq`). -/
def windowLoop (stop seq : Nat) : Nat → Nat → Bool → Bool
  | 0, _, acc => acc
  | f + 1, i, acc =>
    if i = stop then acc else windowLoop stop seq f ((i + 1) % MOD) (acc || decide (i = seq))

/-- `inWindow := false; for i := q.NextSeqNo + lo; i != q.NextSeqNo + hi; i++ { … }` -/
def inWindowL (c : Cfg) (next seq : Nat) : Bool :=
  windowLoop ((next + c.whi) % MOD) seq MOD ((next + c.wlo) % MOD) false

/-- `InQueue.Append`; the Bool is "returned nil" -/
def InQ.append (c : Cfg) (q : InQ) : Option Pkt → InQ × Bool
  | none => (q, true)
  | some p =>
    if p.seq ∈ q.acked then (q, true)
    else if p.seq = q.next then
      let q1 := q.appendPacket p
      let q2 := { q1 with acked := q1.acked ++ [p.seq] }
      let q3 := InQ.drain q2.future.length q2
      ({ q3 with acked := applyTrim c.inTrim c.max q3.acked }, true)
    else if inWindowL c q.next p.seq then
      ({ q with future := q.future ++ [p], acked := q.acked ++ [p.seq] }, true)
    else (q, false)

/-- `Read(p)` with `len(p) = n`, only issued when data is waiting -/
def InQ.read (q : InQ) (n : Nat) : InQ × List Nat :=
  ({ q with buf := q.buf.drop n }, q.buf.take n)

/-! ## OutQueue -/

structure OutQ where
  next : Nat
  out : List Pkt := []
  acked : List Nat := []
  /-- ghost: every chunk ever added, newest first -/
  WR : List (List Nat) := []
  /-- ghost: number of chunks ever added (= WR.length) -/
  nW : Nat := 0
  /-- ghost: for every element of `acked`, the receiver's release count when that ack was produced -/
  ackIdx : List Nat := []
  deriving Repr

/-- ghost: every chunk ever added, in order -/
def OutQ.W (q : OutQ) : List (List Nat) := q.WR.reverse

def eraseFirstSeq (v : Nat) : List Pkt → List Pkt
  | [] => []
  | p :: ps => if p.seq = v then ps else p :: eraseFirstSeq v ps

/-- the double loop of `cleanAckedChunks` -/
def cleanOut (acked : List Nat) (out : List Pkt) : List Pkt :=
  acked.foldl (fun o v => eraseFirstSeq v o) out

/-- `cleanAckedChunks` -/
def OutQ.clean (c : Cfg) (q : OutQ) : OutQ :=
  { q with out := cleanOut q.acked q.out,
           acked := applyTrim c.outTrim c.max q.acked,
           ackIdx := applyTrim c.outTrim c.max q.ackIdx }

/-- `UpdateAcked(v)`; `g` is the ghost index of the ack -/
def OutQ.updateAcked (c : Cfg) (q : OutQ) (v g : Nat) : OutQ :=
  if v ∈ q.acked then q
  else OutQ.clean c { q with acked := q.acked ++ [v], ackIdx := q.ackIdx ++ [g] }

/-- `addChunk` (without the OnChunkAdded callback) -/
def OutQ.addChunk (q : OutQ) (data : List Nat) : OutQ :=
  { q with out := q.out ++ [⟨q.next, data⟩], next := (q.next + 1) % MOD, WR := data :: q.WR, nW := q.nW + 1 }

/-- ghost: index of the head of `out` -/
def OutQ.hd (q : OutQ) : Nat := q.nW - q.out.length

/-- the chunking loop of `OutQueue.Write` (`mtu = 0` does not terminate in Go; here it runs out of fuel) -/
def chunksAux (mtu : Nat) : Nat → List Nat → List (List Nat)
  | 0, _ => []
  | f + 1, b =>
    if b = [] then []
    else if b.length > mtu then b.take mtu :: chunksAux mtu f (b.drop mtu)
    else [b]

def chunks (mtu : Nat) (b : List Nat) : List (List Nat) := chunksAux mtu b.length b

/-! ## Two endpoints and the exchange -/

structure End where
  inq : InQ
  outq : OutQ
  /-- ghost: payloads accepted by writes at this end, newest first -/
  accR : List (List Nat) := []
  /-- size of the write still waiting for its chunks to be acknowledged (trace only) -/
  pend : Option Nat := none
  deriving Repr

/-- ghost: bytes accepted by writes at this end -/
def End.acc (e : End) : List Nat := e.accR.reverse.flatten

structure Query where
  ack : Nat
  pkt : Option Pkt
  gAck : Nat   -- ghost
  gPkt : Nat   -- ghost
  deriving Repr

inductive Resp
  | err
  | ok (ack : Nat) (pkt : Option Pkt) (gAck gPkt : Nat)
  deriving Repr

/-- `in.NextSeqNo - k` over uint16 -/
def ackOf (c : Cfg) (next : Nat) : Nat := (next + MOD - c.ackOff % MOD) % MOD

/-- client: `chunk := out.NextChunk(); req := {ack: in.NextSeqNo-1, pkt: chunk}` -/
def mkQuery (c : Cfg) (e : End) : End × Query :=
  let o := e.outq.clean c
  ({ e with outq := o }, ⟨ackOf c e.inq.next, o.out.head?, e.inq.cnt, o.hd⟩)

/-- server: `ServerDnsListener.packet` -/
def serve (c : Cfg) (e : End) (q : Query) : End × Resp :=
  let o1 := e.outq.updateAcked c q.ack q.gAck
  let r := e.inq.append c q.pkt
  if r.2 then
    let o2 := o1.clean c
    ({ e with inq := r.1, outq := o2 }, .ok (ackOf c r.1.next) o2.out.head? r.1.cnt o2.hd)
  else ({ e with outq := o1 }, .err)

/-- client: handling of the response in `SendAndReceive`; Bool = "returned nil" -/
def clientRecv (c : Cfg) (e : End) : Resp → End × Bool
  | .err => (e, false)
  | .ok ack pkt g _ =>
    let o := e.outq.updateAcked c ack g
    let r := e.inq.append c pkt
    ({ e with outq := o, inq := r.1 }, r.2)

inductive Fate
  | d            -- query and answer delivered
  | ql           -- query lost
  | al           -- answer lost
  | dup1         -- query duplicated, client gets the first answer
  | dup2         -- query duplicated, client gets the second answer
  | rp (k : Nat) -- the query sent k+1 exchanges ago reaches the server again; its answer is discarded
  deriving Repr, DecidableEq

inductive Ev
  | write (sideB : Bool) (data : List Nat)
  | read (sideB : Bool) (n : Nat)
  | xchg (f : Fate)
  /-- forged packet handed to `in.Append` (outside the fates of the property; correspondence only) -/
  | inject (sideB : Bool) (seq : Nat) (data : List Nat)
  /-- forged acknowledgement handed to `out.UpdateAcked` (correspondence only) -/
  | fack (sideB : Bool) (v : Nat)
  deriving Repr

structure Sys where
  a : End
  b : End
  hist : List Query := []   -- queries sent so far, newest first
  deriving Repr

def init (sab sba : Nat) : Sys :=
  { a := { inq := { next := sba }, outq := { next := sab } },
    b := { inq := { next := sab }, outq := { next := sba } } }

/-- `OutQueue.Write(b, mtu)` up to the point where it waits for the queue to drain.  A Write issued
    while the previous one is still waiting blocks (sequential writer): modelled as not issued. -/
def writeEnd (mtu : Nat) (e : End) (data : List Nat) : End :=
  if e.outq.out ≠ [] then e
  else
    let cs := chunks mtu data
    { e with outq := cs.foldl OutQ.addChunk e.outq, accR := data :: e.accR,
             pend := some data.length }

def readEnd (e : End) (n : Nat) : End :=
  if e.inq.buf = [] then e else { e with inq := (e.inq.read n).1 }

def xchgS (c : Cfg) (st : Sys) : Fate → Sys
  | .rp k =>
    match st.hist[k]? with
    | none => st
    | some q => { st with b := (serve c st.b q).1 }
  | .ql =>
    let m := mkQuery c st.a
    { st with a := m.1, hist := m.2 :: st.hist }
  | .al =>
    let m := mkQuery c st.a
    { st with a := m.1, hist := m.2 :: st.hist, b := (serve c st.b m.2).1 }
  | .d =>
    let m := mkQuery c st.a
    let s := serve c st.b m.2
    { st with a := (clientRecv c m.1 s.2).1, hist := m.2 :: st.hist, b := s.1 }
  | .dup1 =>
    let m := mkQuery c st.a
    let s1 := serve c st.b m.2
    let s2 := serve c s1.1 m.2
    { st with a := (clientRecv c m.1 s1.2).1, hist := m.2 :: st.hist, b := s2.1 }
  | .dup2 =>
    let m := mkQuery c st.a
    let s1 := serve c st.b m.2
    let s2 := serve c s1.1 m.2
    { st with a := (clientRecv c m.1 s2.2).1, hist := m.2 :: st.hist, b := s2.1 }

def stepS (c : Cfg) (mtu : Nat) (st : Sys) : Ev → Sys
  | .write false data => { st with a := writeEnd mtu st.a data }
  | .write true data => { st with b := writeEnd mtu st.b data }
  | .read false n => { st with a := readEnd st.a n }
  | .read true n => { st with b := readEnd st.b n }
  | .xchg f => xchgS c st f
  | .inject false sq data => { st with a := { st.a with inq := (st.a.inq.append c (some ⟨sq, data⟩)).1 } }
  | .inject true sq data => { st with b := { st.b with inq := (st.b.inq.append c (some ⟨sq, data⟩)).1 } }
  | .fack false v => { st with a := { st.a with outq := st.a.outq.updateAcked c v 0 } }
  | .fack true v => { st with b := { st.b with outq := st.b.outq.updateAcked c v 0 } }

def runS (c : Cfg) (mtu : Nat) (st : Sys) : List Ev → Sys
  | [] => st
  | e :: es => runS c mtu (stepS c mtu st e) es

/-! ## Trace and line protocol (not used by the theorems) -/

def pktStr : Option Pkt → String
  | none => "-"
  | some p => toString p.seq ++ ":" ++ toHex p.data

def respStr : Resp → String
  | .err => "E"
  | .ok ack pkt _ _ => toString ack ++ "," ++ pktStr pkt

def fateStr : Fate → String
  | .d => "d" | .ql => "ql" | .al => "al" | .dup1 => "dup1" | .dup2 => "dup2"
  | .rp k => "rp" ++ toString k

/-- what the harness records for one exchange -/
def xchgT (c : Cfg) (st : Sys) (f : Fate) : String :=
  let okS (b : Bool) := if b then "ok" else "E"
  match f with
  | .rp k =>
    match st.hist[k]? with
    | none => "x" ++ fateStr f ++ "(none)"
    | some q => "x" ++ fateStr f ++ "(q" ++ toString q.ack ++ "," ++ pktStr q.pkt ++ ";s" ++ respStr (serve c st.b q).2 ++ ")"
  | _ =>
    let m := mkQuery c st.a
    let qs := "x" ++ fateStr f ++ "(q" ++ toString m.2.ack ++ "," ++ pktStr m.2.pkt
    match f with
    | .ql => qs ++ ")"
    | .al => qs ++ ";s" ++ respStr (serve c st.b m.2).2 ++ ")"
    | .d =>
      let s := serve c st.b m.2
      qs ++ ";s" ++ respStr s.2 ++ ";c" ++ okS (clientRecv c m.1 s.2).2 ++ ")"
    | .dup1 =>
      let s1 := serve c st.b m.2
      let s2 := serve c s1.1 m.2
      qs ++ ";s" ++ respStr s1.2 ++ ";s" ++ respStr s2.2 ++ ";c" ++ okS (clientRecv c m.1 s1.2).2 ++ ")"
    | .dup2 =>
      let s1 := serve c st.b m.2
      let s2 := serve c s1.1 m.2
      qs ++ ";s" ++ respStr s1.2 ++ ";s" ++ respStr s2.2 ++ ";c" ++ okS (clientRecv c m.1 s2.2).2 ++ ")"
    | .rp _ => qs

def sideStr (b : Bool) : String := if b then "b" else "a"

def stepT (c : Cfg) (mtu : Nat) (st : Sys) : Ev → String
  | .write s data =>
    let e := if s then st.b else st.a
    if e.outq.out ≠ [] then "w" ++ sideStr s ++ "!"
    else "w" ++ sideStr s ++ toString data.length ++ "/" ++ toString (chunks mtu data).length
  | .read s n =>
    let e := if s then st.b else st.a
    if e.inq.buf = [] then "r" ++ sideStr s ++ "=~"
    else "r" ++ sideStr s ++ "=" ++ toHex (e.inq.read n).2
  | .xchg f => xchgT c st f
  | .inject s sq data =>
    let e := if s then st.b else st.a
    "i" ++ sideStr s ++ "=" ++ (if (e.inq.append c (some ⟨sq, data⟩)).2 then "ok" else "E")
  | .fack s _ => "u" ++ sideStr s

/-- a waiting Write returns once `out` is empty -/
def settleEnd (e : End) : End × Option Nat :=
  match e.pend with
  | some n => if e.outq.out = [] then ({ e with pend := none }, some n) else (e, none)
  | none => (e, none)

def settle (st : Sys) : Sys × String :=
  let a := settleEnd st.a
  let b := settleEnd st.b
  let s1 := match a.2 with | some n => " Wa=" ++ toString n | none => ""
  let s2 := match b.2 with | some n => " Wb=" ++ toString n | none => ""
  ({ st with a := a.1, b := b.1 }, s1 ++ s2)

def fnv (bs : List Nat) : Nat :=
  bs.foldl (fun h b => ((h ^^^ b) * 16777619) % 4294967296) 2166136261

def fnvStr (s : String) : Nat := fnv (s.toList.map Char.toNat)

def digest (bs : List Nat) : String := toString bs.length ++ ":" ++ toString (fnv bs)

/-- run with trace; the trace is kept as a reversed list of pieces -/
def runT (c : Cfg) (mtu : Nat) : Sys → List Ev → List String → Sys × List String
  | st, [], acc => (st, acc)
  | st, e :: es, acc =>
    let t := stepT c mtu st e
    let s := settle (stepS c mtu st e)
    runT c mtu s.1 es ((t ++ s.2) :: acc)

def endStr (e : End) : String :=
  "in=" ++ toString e.inq.next ++ "," ++ digest e.inq.buf ++ ",f=[" ++ natList (e.inq.future.map (·.seq)) ++ "],k=["
    ++ natList e.inq.acked ++ "] out=" ++ toString e.outq.next ++ ",[" ++ natList (e.outq.out.map (·.seq)) ++ "],k=["
    ++ natList e.outq.acked ++ "]"

def genByte (k : Nat) : Nat := (k * 167 + (k / 256) * 13 + 7) % 256

def genBytes (off n : Nat) : List Nat := (List.range n).map (fun i => genByte (off + i))

/-- `[ n body ]` → body repeated n times (not nested) -/
def expand : Nat → List String → Option (List String)
  | 0, _ => none
  | _, [] => some []
  | f + 1, "[" :: n :: rest =>
    match n.toNat? with
    | none => none
    | some k =>
      let body := rest.takeWhile (· ≠ "]")
      match rest.dropWhile (· ≠ "]") with
      | "]" :: rest' =>
        match expand f rest' with
        | some r => some ((List.replicate k body).flatten ++ r)
        | none => none
      | _ => none
  | f + 1, t :: rest =>
    match expand f rest with
    | some r => some (t :: r)
    | none => none

def parseFate (s : String) : Option Fate :=
  if s = "d" then some .d else if s = "ql" then some .ql else if s = "al" then some .al
  else if s = "dup1" then some .dup1 else if s = "dup2" then some .dup2
  else if s.startsWith "rp" then (s.drop 2).toNat?.map Fate.rp
  else none

/-- flat tokens → events; `offA/offB` = bytes generated so far by `ga`/`gb` -/
def parseEvs : List String → Nat → Nat → List Ev → Option (List Ev)
  | [], _, _, acc => some acc.reverse
  | "wa" :: h :: rest, oa, ob, acc => match fromHex h with
    | some d => parseEvs rest oa ob (.write false d :: acc) | none => none
  | "wb" :: h :: rest, oa, ob, acc => match fromHex h with
    | some d => parseEvs rest oa ob (.write true d :: acc) | none => none
  | "ga" :: n :: rest, oa, ob, acc => match n.toNat? with
    | some k => parseEvs rest (oa + k) ob (.write false (genBytes oa k) :: acc) | none => none
  | "gb" :: n :: rest, oa, ob, acc => match n.toNat? with
    | some k => parseEvs rest oa (ob + k) (.write true (genBytes ob k) :: acc) | none => none
  | "ra" :: n :: rest, oa, ob, acc => match n.toNat? with
    | some k => parseEvs rest oa ob (.read false k :: acc) | none => none
  | "rb" :: n :: rest, oa, ob, acc => match n.toNat? with
    | some k => parseEvs rest oa ob (.read true k :: acc) | none => none
  | "ia" :: n :: h :: rest, oa, ob, acc => match n.toNat?, fromHex h with
    | some k, some d => if k < MOD then parseEvs rest oa ob (.inject false k d :: acc) else none
    | _, _ => none
  | "ib" :: n :: h :: rest, oa, ob, acc => match n.toNat?, fromHex h with
    | some k, some d => if k < MOD then parseEvs rest oa ob (.inject true k d :: acc) else none
    | _, _ => none
  | "ua" :: n :: rest, oa, ob, acc => match n.toNat? with
    | some k => if k < MOD then parseEvs rest oa ob (.fack false k :: acc) else none
    | none => none
  | "ub" :: n :: rest, oa, ob, acc => match n.toNat? with
    | some k => if k < MOD then parseEvs rest oa ob (.fack true k :: acc) else none
    | none => none
  | "x" :: f :: rest, oa, ob, acc => match parseFate f with
    | some ft => parseEvs rest oa ob (.xchg ft :: acc) | none => none
  | _, _, _, _ => none

def kv (key : String) (tok : String) : Option Nat :=
  if tok.startsWith (key ++ "=") then (tok.drop (key.length + 1)).toNat? else none

/-- `queue sab=<n> sba=<n> mtu=<n> <events>` -/
def handleWith (c : Cfg) (toks : List String) : String :=
  match toks with
  | t1 :: t2 :: t3 :: rest =>
    match kv "sab" t1, kv "sba" t2, kv "mtu" t3 with
    | some sab, some sba, some mtu =>
      if sab ≥ MOD ∨ sba ≥ MOD ∨ mtu = 0 then "bad-op" else
      match expand (rest.length + 1) rest with
      | none => "bad-op"
      | some flat =>
        match parseEvs flat 0 0 [] with
        | none => "bad-op"
        | some evs =>
          let r := runT c mtu (init sab sba) evs []
          let st := r.1
          let tr := " ".intercalate r.2.reverse
          let trS := if tr.length ≤ 700 then tr else "#" ++ toString (fnvStr tr)
          "A{" ++ endStr st.a ++ "} B{" ++ endStr st.b ++ "} relA=" ++ digest st.a.inq.rel ++ " relB="
            ++ digest st.b.inq.rel ++ " accA=" ++ digest st.a.acc ++ " accB=" ++ digest st.b.acc ++ " T=" ++ trS
    | _, _, _ => "bad-op"
  | _ => "bad-op"

def handle (toks : List String) : String := handleWith Cfg.gen toks

end SA.Queue

/-
  SA.Model.Schemes — executable model of how socketace turns an address string into a transport
  (property C18).  Mirrors, function by function:

    addr.ParseAddress / ProtoAddress.UnmarshalFlag   (TrimSpace + the part of url.Parse that decides
                                                     the scheme: fragment cut, control bytes, getScheme,
                                                     lower-casing, "first path segment" rule)
    server.unmarshalServer, server.unmarshalChannel, Channels.UnmarshalFlag (ChannelRegex),
    upstream.unmarshalUpstream, Listeners.UnmarshalFlag (name~listen~forward splitter),
    ProtoAddress.Addr, and the "+tls" decision chain of every Startup / Connect.

  Everything that is a table, a regex source, a group index, a guard or an if-chain in the Go source
  comes from SA.Gen (regenerated from the source on every run) and is *interpreted* here.
  Strings are `List Char` inside the model (`Str`) so that the kernel can evaluate everything.
-/
import SA.Base.Util
import SA.Gen.C18
namespace SA.Schemes
open SA.Gen

abbrev Str := List Char

/-! ## small string library over `List Char` -/

def hasPrefix : Str → Str → Bool
  | _, [] => true
  | [], _ :: _ => false
  | c :: cs, p :: ps => c == p && hasPrefix cs ps

def dropPrefix? : Str → Str → Option Str
  | s, [] => some s
  | [], _ :: _ => none
  | c :: cs, p :: ps => if c == p then dropPrefix? cs ps else none

def hasSuffix (s suf : Str) : Bool := hasPrefix s.reverse suf.reverse

def containsSub : Str → Str → Bool
  | [], sub => sub.isEmpty
  | c :: cs, sub => hasPrefix (c :: cs) sub || containsSub cs sub

/-- strings.Split on a one-character separator -/
def splitOnChar (sep : Char) : Str → List Str
  | [] => [[]]
  | c :: cs =>
    match splitOnChar sep cs with
    | [] => [[]]   -- unreachable
    | h :: t => if c == sep then [] :: h :: t else (c :: h) :: t

def lower (s : Str) : Str := s.map Char.toLower

/-- Go `unicode.IsSpace` (what strings.TrimSpace strips) -/
def isSpace (c : Char) : Bool :=
  let n := c.toNat
  n == 0x20 || (0x09 ≤ n && n ≤ 0x0d) || n == 0x85 || n == 0xA0 || n == 0x1680 ||
  (0x2000 ≤ n && n ≤ 0x200a) || n == 0x2028 || n == 0x2029 || n == 0x202f || n == 0x205f || n == 0x3000

def trimLeft (s : Str) : Str := s.dropWhile isSpace
def trim (s : Str) : Str := (trimLeft (trimLeft s).reverse).reverse

/-! ## url.Parse, as far as the scheme is concerned -/

def isCtl (c : Char) : Bool := c.toNat < 0x20 || c.toNat == 0x7f

/-- net/url getScheme.  `none` = error "missing protocol scheme"; `some ([], whole)` = no scheme. -/
def getSchemeAux (whole : Str) : Str → Str → Option (Str × Str)
  | _, [] => some ([], whole)
  | acc, c :: cs =>
    if c.isAlpha then getSchemeAux whole (c :: acc) cs
    else if c.isDigit || c == '+' || c == '-' || c == '.' then
      (if acc.isEmpty then some ([], whole) else getSchemeAux whole (c :: acc) cs)
    else if c == ':' then
      (if acc.isEmpty then none else some (acc.reverse, cs))
    else some ([], whole)

def getScheme (u : Str) : Option (Str × Str) := getSchemeAux u [] u

inductive Err | scheme | url | syntax | shape | other
  deriving DecidableEq, Repr

/-- what url.Parse still checks once the scheme is split off.  `restOk` is net/url's verdict on the
    authority, port, escapes and fragment — third-party, an oracle here; it is consulted exactly where
    url.Parse goes on validating.  `t` = trimmed input, `u` = `t` up to '#', `s` = lower-cased scheme. -/
def accepts (restOk : Str → Bool) (t u s rest : Str) : Bool :=
  let path := rest.takeWhile (· != '?')
  if !hasPrefix path ['/'] then
    if !s.isEmpty then (t.length == u.length || restOk t)          -- opaque URL: only the fragment is still checked
    else if (path.takeWhile (· != '/')).contains ':' then false      -- "first path segment in URL cannot contain colon"
    else restOk t
  else restOk t

/-- `ParseAddress`: the scheme of the parsed URL, or the url error. -/
def parseAddress (restOk : Str → Bool) (a : Str) : Except Err Str :=
  let t := trim a
  let u := t.takeWhile (· != '#')
  if u.any isCtl then .error .url
  else match getScheme u with
    | none => .error .url
    | some (s, rest) => if accepts restOk t u (lower s) rest then .ok (lower s) else .error .url

/-! ## the scheme tables -/

def lookup (tbl : List (List String × String)) (s : Str) : Option String :=
  match tbl with
  | [] => none
  | (keys, t) :: rest => if keys.any (fun k => k.toList == s) then some t else lookup rest s

def keysOf (tbl : List (List String × String)) : List String := tbl.flatMap (·.1)

inductive Pos | server | channel | upstream | listener
  deriving DecidableEq, Repr

def tableOf : Pos → List (List String × String)
  | .server => serverSchemes
  | .channel => channelSchemes
  | .upstream => upstreamSchemes
  | .listener => listenerSchemes

def defaultIsError : Pos → Bool
  | .server => serverSchemesDefaultIsError
  | .channel => channelSchemesDefaultIsError
  | .upstream => upstreamSchemesDefaultIsError
  | .listener => listenerSchemesDefaultIsError

/-- concrete Go type behind a constructor / composite literal named in a switch -/
def goType (p : Pos) (ctor : String) : String :=
  match p, ctor with
  | .server, "NewHttpServer" => "*server.HttpServer"
  | .server, "NewIoServer" => "*server.IoServer"
  | .server, "NewSocketServer" => "*server.SocketServer"
  | .server, "NewPacketServer" => "*server.PacketServer"
  | .server, "NewDnsServer" => "*server.DnsServer"
  | .channel, c => "*server." ++ c
  | .upstream, c => "*upstream." ++ c
  | .listener, c => "*listener." ++ c
  | .server, c => "*server." ++ c

/-! ## interpreter for the extracted if-chains -/

/-- regex `\+.+$` replaced by "": cut at the first '+' that has something after it (scheme alphabet: no newline) -/
def plusEnd : Str → Str
  | [] => []
  | c :: cs => if c == '+' && !cs.isEmpty then [] else c :: plusEnd cs

def condHolds (cond : String) (scheme : Str) (secure : Bool) : Bool :=
  if cond == "else" then true
  else if cond == "HasTls" then containsSub scheme "+tls".toList
  else if cond == "secure" then secure
  else match dropPrefix? cond.toList "HasSuffix:".toList with
    | some lit => hasSuffix scheme lit
    | none =>
      match dropPrefix? cond.toList "eq:".toList with
      | some alts => (splitOnChar '|' alts).any (· == scheme)
      | none => false

def digitsToNat (s : Str) : Nat := s.foldl (fun n c => n * 10 + (c.toNat - 48)) 0

def applyAction (a : String) (s : Str) : Str :=
  match dropPrefix? a.toList "strip:".toList with
  | some n => s.take (s.length - digitsToNat n)
  | none =>
  match dropPrefix? a.toList "set:".toList with
  | some x => x
  | none =>
  if a == "plusEnd" then plusEnd s else
  match dropPrefix? a.toList "append:".toList with
  | some x => s ++ x
  | none =>
  match dropPrefix? a.toList "ifeq:".toList with
  | some ab =>
    (match splitOnChar ':' ab with
     | [x, y] => if s == x then y else s
     | _ => s)
  | none => s

structure ChainResult where
  scheme : Str
  secure : Bool
  calls : List String
  deriving DecidableEq, Repr

/-- first branch whose condition holds; its secure assignment (if any), scheme rewrites, calls -/
def evalChain (ch : List TlsBranch) (scheme : Str) (secure : Bool) : ChainResult :=
  match ch with
  | [] => ⟨scheme, secure, []⟩
  | b :: rest =>
    if condHolds b.cond scheme secure then
      ⟨b.actions.foldl (fun s a => applyAction a s) scheme, b.secure.getD secure, b.calls⟩
    else evalChain rest scheme secure

/-! ## what the constructed object does when started / connected -/

/-- `ProtoAddress.Addr()` followed by Listen/Dial on (Network(), String()): the network actually used,
    `none` when resolving fails for every host -/
def addrNetwork (scheme : Str) : Option Str :=
  match lookup addrSchemes scheme with
  | none => none            -- netAddress{scheme}: net.Listen/Dial reject an unknown network
  | some r =>
    let strip := hasSuffix r.toList "/strip".toList
    let net := if strip then plusEnd scheme else scheme
    let fn := if strip then r.toList.take (r.length - 6) else r.toList
    if fn == "ResolveTCPAddr".toList then
      (if net == "tcp".toList || net == "tcp4".toList || net == "tcp6".toList then some "tcp".toList else none)
    else if fn == "ResolveUDPAddr".toList then
      (if net == "udp".toList || net == "udp4".toList || net == "udp6".toList then some "udp".toList else none)
    else if fn == "ResolveUnixAddr".toList then
      (if net == "unix".toList || net == "unixgram".toList || net == "unixpacket".toList then some net else none)
    else none

/-- what can be observed of a started server / connecting upstream / started listener -/
structure Run where
  failed : Bool := false
  carrier : String := ""        -- sock | http | stdio | packet | dns | ws | listen
  network : Str := []           -- network of the listener / dialer where there is one
  scheme : Str := []            -- Address.Scheme after the rewrite
  tls : Bool := false           -- the wire is encrypted (tls.Listen / ServeTLS / tls.Dial / tls.Client / TLS handshake on stdio)
  secure : Bool := false        -- secure flag handed to AcceptConnection / NewClientConnection
  observable : Bool := true     -- the harness runs it
  deriving DecidableEq, Repr

def runOf (p : Pos) (ctor : String) (scheme : Str) : Run :=
  match p, ctor with
  | .server, "NewSocketServer" =>
    let c := evalChain socketStartupTls scheme false
    let l := evalChain socketStartupListen c.scheme c.secure
    match addrNetwork c.scheme with
    | none => { failed := true }
    | some n => { carrier := "sock", network := n, scheme := c.scheme, tls := l.calls == ["tls.Listen"], secure := c.secure,
                  failed := !(l.calls == ["tls.Listen"] || l.calls == ["net.Listen"]) }
  | .server, "NewHttpServer" =>
    let c := evalChain httpStartupTls scheme false
    let l := evalChain httpStartupServe c.scheme c.secure
    { carrier := "http", network := "tcp".toList, scheme := c.scheme, tls := l.calls == ["ServeTLS"], secure := c.secure }
  | .server, "NewIoServer" =>
    let c := evalChain stdioStartupTls scheme false
    { carrier := "stdio", scheme := c.scheme, tls := c.secure, secure := c.secure }
  | .server, "NewPacketServer" =>
    match addrNetwork scheme with
    | none => { failed := true }
    | some n => { carrier := "packet", network := n, scheme := scheme }
  | .server, "NewDnsServer" =>
    let c := evalChain dnsStartupTls scheme false
    match lookup dnsStartupNets c.scheme with
    | none => { failed := true }
    | some n => { carrier := "dns", network := n.toList, scheme := c.scheme, tls := c.secure, secure := c.secure,
                  failed := !dnsStartupNetsDefaultIsError && false }
  | .upstream, "Http" =>
    let c := evalChain httpConnectTls scheme false
    if c.scheme == "ws".toList then { carrier := "ws", network := "tcp".toList, scheme := c.scheme, tls := false, secure := c.secure }
    else if c.scheme == "wss".toList then { carrier := "ws", network := "tcp".toList, scheme := c.scheme, tls := true, secure := c.secure }
    else { failed := true }     -- the websocket dialer refuses anything but ws / wss
  | .upstream, "Socket" =>
    let c := evalChain socketConnectTls scheme false
    match addrNetwork scheme with
    | none => { failed := true }
    | some n => { carrier := "sock", network := n, scheme := c.scheme, tls := c.calls == ["tls.Dial"], secure := c.secure,
                  failed := !(c.calls == ["tls.Dial"] || c.calls == ["net.Dial"]) }
  | .upstream, "InputOutput" =>
    let c := evalChain stdioConnectTls scheme false
    { carrier := "stdio", scheme := c.scheme, tls := c.calls == ["tls.Client"], secure := c.secure }
  | .upstream, "Packet" =>
    match addrNetwork scheme with
    | none => { failed := true }
    | some n => { carrier := "packet", network := n, scheme := scheme }
  | .upstream, "Dns" =>
    if scheme == dnsConnectScheme.toList then { carrier := "dns", network := "udp".toList, scheme := scheme, observable := false }
    else { failed := true }
  | .listener, "SocketListener" => { carrier := "listen", network := scheme, scheme := scheme }
  | .listener, "InputOutputListener" => { carrier := "stdio", scheme := scheme, observable := false }
  | .channel, "NetworkChannel" => { carrier := "dial", network := scheme, scheme := scheme, observable := false }
  | .channel, "SocksChannel" => { carrier := "socks", scheme := scheme, observable := false }
  | _, _ => { failed := true }

def tlsWord (b : Bool) : String := if b then "tls" else "plain"

/-- the harness's `R=` rendering of a run -/
def runStr (p : Pos) (ctor : String) (r : Run) : String :=
  if !r.observable then "-"
  else if r.failed then "error"
  else if r.scheme == "udp6".toList then "error"   -- environment, not scheme: the harness's host 127.0.0.1 has no udp6 address
  else
    let net := String.ofList r.network
    let sch := String.ofList r.scheme
    match p, ctor with
    | .server, "NewSocketServer" => s!"sock,{net},{tlsWord r.tls},{boolStr r.secure}"
    | .server, "NewHttpServer" => s!"http,{sch},{boolStr r.secure}"
    | .server, "NewIoServer" => s!"stdio,{sch},{tlsWord r.tls}"
    | .server, "NewPacketServer" => s!"packet,kcp.Listener,{net}"
    -- last field: what really serves DNS (the harness probes the bound socket from outside); dns.Server.Net gets "-tls"
    -- appended when secure
    | .server, "NewDnsServer" => s!"dns,dns.ServerDnsListener,{sch},{boolStr r.secure},{net}{if r.tls then "-tls" else ""}"
    | .upstream, "Http" => s!"ws,{tlsWord r.tls}"
    | .upstream, "Socket" => s!"sock,{net},{tlsWord r.tls}"
    | .upstream, "InputOutput" => s!"stdio,{tlsWord r.tls}"
    | .upstream, "Packet" => s!"packet,{net}"
    | .listener, "SocketListener" => s!"listen,{net}"
    | _, _ => "unknown-type"

/-! ## the parsers -/

inductive Outcome
  | ok (ctor : String) (scheme : Str) (name : Str)
  | error (e : Err)
  | panic
  deriving DecidableEq, Repr

/-- `switch address.Scheme` of the position -/
def dispatch (p : Pos) (scheme name : Str) : Outcome :=
  match lookup (tableOf p) scheme with
  | some ctor => .ok ctor scheme name
  | none => if defaultIsError p then .error .scheme else .ok "nil" scheme name

/-- parse the address, then dispatch on its scheme -/
def parseAndDispatch (restOk : Str → Bool) (p : Pos) (addr name : Str) : Outcome :=
  match parseAddress restOk addr with
  | .error e => .error e
  | .ok s => dispatch p s name

inductive Kind | str | missing | nonstr | notmap
  deriving DecidableEq, Repr

/-- unmarshalServer / unmarshalChannel on one list element -/
def unmarshalElem (restOk : Str → Bool) (p : Pos) (k : Kind) (addr name : Str) : Outcome :=
  match k with
  | .notmap => .error .shape
  | .str => parseAndDispatch restOk p addr name
  | .missing =>
    if p == .channel then (if channelNilAddressGuard then .error .shape else .panic) else .error .shape
  | .nonstr =>
    if p == .channel then (if channelNonStringGuard || channelNilAddressGuard then .error .shape else .panic) else .error .shape

/-- ChannelRegex `^([a-z0-9_^/]*)->((tcp|udp|unix|unixgram|unixpacket):(.*))$` (side condition in
    SA.Props.C18: `Gen.channelRegexSrc` is this source).  Returns the groups [0..4]. -/
def nameChar (c : Char) : Bool := c.isLower || c.isDigit || c == '_' || c == '^' || c == '/'

def channelProtos : List Str := ["tcp".toList, "udp".toList, "unix".toList, "unixgram".toList, "unixpacket".toList]

def channelRegexMatch (s : Str) : Option (List Str) :=
  let name := s.takeWhile nameChar
  match dropPrefix? (s.dropWhile nameChar) ['-', '>'] with
  | none => none
  | some after =>
    let proto := after.takeWhile (· != ':')
    match after.dropWhile (· != ':') with
    | [] => none
    | _ :: rest =>
      if channelProtos.contains proto && !rest.contains '\n' then some [s, name, after, proto, rest] else none

def trimPrefix (s p : Str) : Str := (dropPrefix? s p).getD s

/-- Channels.UnmarshalFlag -/
def channelFlag (restOk : Str → Bool) (v : Str) : Outcome :=
  match channelRegexMatch v with
  | none => .error .syntax
  | some g =>
    let name := g.getD channelFlagNameIdx []
    if channelFlagViaTable then
      unmarshalElem restOk .channel .str (g.getD channelFlagSchemeIdx [] ++ "://".toList ++ trimPrefix (g.getD channelFlagHostIdx []) "//".toList) name
    else
      match parseAddress restOk (g.getD channelFlagSchemeIdx []) with
      | .error e => .error e
      | .ok s => .ok "NetworkChannel" s name

/-- Listeners.UnmarshalFlag -/
def listenerFlag (restOk : Str → Bool) (v : Str) : Outcome :=
  let data := trim v
  if hasPrefix data listenerJsonPrefix.toList && hasSuffix data listenerJsonSuffix.toList then
    .error .other            -- json.Unmarshal of a text that starts with "}" always fails
  else if data.contains '~' then
    let parts := splitOnChar '~' data
    let name := parts.getD listenerNameIdx []
    match parseAddress restOk (parts.getD listenerAddrIdx []) with
    | .error e => .error e
    | .ok s =>
      let fwd : Except Err Str :=
        if parts.length ≥ listenerForwardMinParts then parseAddress restOk (parts.getD listenerForwardIdx []) else .ok []
      match fwd with
      | .error e => .error e
      | .ok _ => dispatch .listener s name
  else .error .syntax

inductive Form | json | flag | yaml
  deriving DecidableEq, Repr

structure Op where
  pos : Pos
  form : Form
  kind : Kind
  val : Str
  deriving Repr

/-- the configuration parser of a position, for every input form.  YAML reaches the same Go functions
    through `yaml.Marshal`/`Unmarshal` + `UnmarshalYAML`, the --server flag through `UnmarshalJSON`. -/
def parseOp (restOk : Str → Bool) (o : Op) : Outcome :=
  match o.pos, o.form with
  | .server, _ => unmarshalElem restOk .server o.kind o.val []
  | .channel, .flag => channelFlag restOk o.val
  | .channel, _ => unmarshalElem restOk .channel o.kind o.val "ch1".toList
  | .upstream, _ => parseAndDispatch restOk .upstream o.val []
  | .listener, _ => listenerFlag restOk o.val

/-! ## line protocol -/

def errStr : Err → String
  | .scheme => "scheme" | .url => "url" | .syntax => "syntax" | .shape => "shape" | .other => "other"

def parsePos : String → Option Pos
  | "server" => some .server | "channel" => some .channel | "upstream" => some .upstream
  | "listener" => some .listener | _ => none
def parseForm : String → Option Form
  | "json" => some .json | "flag" => some .flag | "yaml" => some .yaml | _ => none
def parseKind : String → Option Kind
  | "str" => some .str | "missing" => some .missing | "nonstr" => some .nonstr | "notmap" => some .notmap | _ => none

def utf8 (bs : List Nat) : Option Str :=
  (String.fromUTF8? (ByteArray.mk (bs.map UInt8.ofNat).toArray)).map String.toList

def hexOfStr (s : Str) : String := toHex ((String.ofList s).toUTF8.toList.map UInt8.toNat)

def render (o : Op) (run : Bool) (r : Outcome) : String :=
  match r with
  | .panic => "PANIC"
  | .error e => "error " ++ errStr e
  | .ok ctor scheme name =>
    let named := o.pos == .channel || o.pos == .listener
    let runnable := o.pos != .channel
    "ok T=" ++ goType o.pos ctor ++ " S=" ++ String.ofList scheme ++
      (if named then " N=" ++ hexOfStr name else "") ++
      " R=" ++ (if run && runnable then runStr o.pos ctor (runOf o.pos ctor scheme) else "-")

/-- driver entry: `<pos> <form> <kind> <hex value> <run>`; the url oracle accepts (the generator only
    writes tails net/url accepts). -/
def handle (toks : List String) : String :=
  match toks with
  | [p, f, k, h, run] =>
    match parsePos p, parseForm f, parseKind k, (fromHex h).bind utf8 with
    | some p, some f, some k, some v =>
      let o : Op := ⟨p, f, k, v⟩
      render o (run == "1") (parseOp (fun _ => true) o)
    | _, _, _, _ => "bad-op"
  | _ => "bad-op"

end SA.Schemes

/-
  C16: an idle session on a healthy carrier is not a lost session.

  The multiplexer's keep-alive: an end sends a NOP frame every `I` seconds and, every `T` seconds, closes the session if
  no frame at all arrived during the period that just ended.  On an idle session the only frames an end receives are the
  peer's NOPs, at the multiples of the PEER's `I`.  `periodHasFrame I T n`: does the n-th period (n·T, (n+1)·T] of an end
  whose time-out is `T` contain a multiple of the peer's interval `I`?
-/
namespace SA.KeepAlive

def periodHasFrame (I T n : Nat) : Bool := decide (n * T < ((n + 1) * T / I) * I)

/-- the idle session survives `periods` time-out periods at this end -/
def survives (I T periods : Nat) : Bool := (List.range periods).all (periodHasFrame I T)

end SA.KeepAlive

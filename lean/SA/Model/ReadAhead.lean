/-
  C17 / C01: protocol selection through a buffered reader (internal/server/communicator.go clientFirstConn).

  The logical stream delivers its bytes in chunks (one per Read of the stream below; any chunking).  The server selects
  the channel by reading exactly `k` bytes (the selection tokens) through a buffered reader: when its buffer is empty it
  takes the WHOLE next chunk into the buffer and hands out what was asked for; the rest of the chunk stays in the buffer.
  After the selection the channel handler copies everything that is left to the target.  `viaWrapper`: the handler reads
  through the same buffered reader (what the code does: `mux.Handle(newClientFirstConn(stream))`); `viaStream`: the
  handler is given the stream below it (what a "the wrapper is only needed for the selection" rewrite does).
-/
namespace SA.ReadAhead

/-- buffered reader: bytes already taken from the stream but not yet handed out, and the chunks still in the stream -/
structure BR where
  buf  : List Nat
  rest : List (List Nat)
deriving Repr, DecidableEq

def BR.ofChunks (cs : List (List Nat)) : BR := ⟨[], cs⟩

/-- everything a reader of the wrapper will still see -/
def BR.remaining (s : BR) : List Nat := s.buf ++ s.rest.flatten

/-- read exactly `k` bytes (or up to the end of the stream) through the buffered reader -/
def take : Nat → BR → List Nat × BR
  | 0, s => ([], s)
  | k+1, ⟨b :: buf, rest⟩ =>
      let r := take k ⟨buf, rest⟩
      (b :: r.1, r.2)
  | k+1, ⟨[], c :: rest⟩ => take (k+1) ⟨c, rest⟩
  | _+1, ⟨[], []⟩ => ([], ⟨[], []⟩)
termination_by k s => k + s.rest.length

/-- what the target is sent when the handler reads through the wrapper / from the stream below it -/
def viaWrapper (k : Nat) (cs : List (List Nat)) : List Nat := (take k (BR.ofChunks cs)).2.remaining
def viaStream (k : Nat) (cs : List (List Nat)) : List Nat := (take k (BR.ofChunks cs)).2.rest.flatten

/-- driver: `readahead <k> <chunk lengths…>` → number of bytes the target is handed -/
def handle (toks : List String) : String :=
  match toks with
  | k :: lens =>
    match k.toNat?, lens.mapM String.toNat? with
    | some k, some ls =>
      let cs := (ls.foldl (fun (acc : List (List Nat) × Nat) l => (acc.1 ++ [(List.range l).map (· + acc.2)], acc.2 + l)) ([], 0)).1
      s!"target={(viaWrapper k cs).length}"
    | _, _ => "bad-op"
  | _ => "bad-op"

end SA.ReadAhead

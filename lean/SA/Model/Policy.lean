/-
  SA.Model.Policy — the client's connection policy (C16) as a state machine.

  Mirrors, function by function:
    internal/client/listener/listener.go   ConnectDirectly, HandleConnection
    internal/client/upstream/upstream.go   Upstreams.Connect (critical section + retry loop), open,
                                           openStream, discard, Shutdown
    internal/client/upstream/{socket,http,packet,dns,input_output}.go  Connect: dial, handshake,
                                           secure guard
    internal/socketace/client.go           NewClientConnection: deadline, close on failure

  One *local connection* is a thread that walks through `Connect`: the critical section under the
  mutex (`enter`: liveness test, `open` over the upstream list), `OpenStream` on the session it saw
  (`stream`), `discard` of a lost session (`discard`) and at most one more round.  The environment
  cuts the carrier, restarts the server and calls Shutdown.  `run` executes any interleaving of these
  steps; the line protocol runs each local connection to completion.

  What the code does is selected by `Facts`, whose current values are regenerated from the Go source
  (SA.Gen.c16…): the tree before the repairs is `Facts.before`.
-/
import SA.Base.Util
import SA.Gen.C16
namespace SA.Policy

/-- what dialling an upstream leads to -/
inductive Kind
  | refused    -- the dial fails
  | silent     -- accepts the connection, reads, never answers
  | hsError    -- answers something that is no handshake and closes
  | okPlain    -- completes the handshake, no encryption
  | okSecure   -- completes the handshake, encrypted
  deriving DecidableEq, Repr

/-- the listener's forward address -/
inductive Fwd
  | absent | ok | dead | nohost | noscheme
  deriving DecidableEq, Repr

/-- the decisive shapes of the code -/
structure Facts where
  discardOnLoss : Bool          -- openStream: a session that refuses a stream is closed and forgotten
  retry : Bool                  -- Connect: one more round after a lost session
  deadline : Option Nat         -- NewClientConnection: handshake deadline (ms)
  closesFailed : Bool           -- NewClientConnection: a connection whose handshake failed is closed
  closesRejected : Bool         -- upstream kinds: a connection rejected as insecure is closed
  deriving DecidableEq, Repr

def Facts.current : Facts :=
  { discardOnLoss := Gen.c16DiscardOnLoss, retry := Gen.c16RetryAfterLoss, deadline := Gen.c16HandshakeDeadlineMs,
    closesFailed := Gen.c16ClosesFailed, closesRejected := Gen.c16ClosesRejected }

/-- the tree before the three repairs -/
def Facts.before : Facts :=
  { discardOnLoss := false, retry := false, deadline := none, closesFailed := false, closesRejected := false }

structure Cfg where
  mustSecure : Bool
  fwd : Fwd
  ups : List (Kind × Kind)      -- per upstream: what a dial leads to before / after the server restart
  deriving Repr

/-- a physical connection that reached its peer -/
structure Phys where
  up : Nat                      -- index of the upstream
  cut : Bool                    -- the carrier is lost (server side closed)
  closed : Bool                 -- closed by the client (the wrapper's Closed() flag; the session dies with it)
  deriving DecidableEq, Repr

inductive Out
  | direct | up (i : Nat) | fail | blocked
  deriving DecidableEq, Repr

/-- where a local connection is inside HandleConnection / Connect -/
inductive Pc
  | start (known : Bool) (attempt : Nat)              -- about to take the mutex
  | have (known : Bool) (attempt : Nat) (id : Nat)    -- left the critical section with session `id`
  | lost (known : Bool) (attempt : Nat) (id : Nat)    -- OpenStream failed; about to discard
  | done (o : Out) (carrier : Option Nat)             -- served over physical connection `carrier`, or not
  deriving DecidableEq, Repr

/-- what the local connections share: the Upstreams object and the physical connections -/
structure Sh where
  conns : List Phys             -- every physical connection that reached a peer; position = identity
  stored : Option Nat           -- ul.connection / ul.session
  phase : Nat                   -- 0 before the first server restart
  blocked : Bool                -- a Connect sits in its critical section for ever (mutex never released)
  dials : List Nat              -- log: upstream indices in dial order
  deriving DecidableEq, Repr

structure St where
  sh : Sh
  pcs : List Pc                 -- the local connections
  deriving Repr

/-- a configuration whose upstreams behave the same before and after a restart -/
def Cfg.simple (ms : Bool) (fwd : Fwd) (ks : List Kind) : Cfg := { mustSecure := ms, fwd := fwd, ups := ks.map (fun k => (k, k)) }

def Sh.init : Sh := { conns := [], stored := none, phase := 0, blocked := false, dials := [] }
def init : St := { sh := Sh.init, pcs := [] }

def kindAt (phase : Nat) (p : Kind × Kind) : Kind := if phase = 0 then p.1 else p.2

/-- the upstream completes a handshake that meets the security requirement -/
def usable (ms : Bool) : Kind → Bool
  | .okSecure => true
  | .okPlain => !ms
  | _ => false

/-- ConnectDirectly: forward given ∧ host ≠ "" ∧ scheme ≠ "" ∧ dial ok -/
def directUsable : Fwd → Bool
  | .ok => true
  | _ => false

inductive OpenRes
  | opened (id : Nat) | exhausted | stuck
  deriving DecidableEq, Repr

/-- `open`: the upstreams in list order from index `i`; a failing one leaves its physical connection
    behind closed or not (Facts), a silent one without a deadline never returns. -/
def openLoop (F : Facts) (ms : Bool) (phase : Nat) :
    List (Kind × Kind) → Nat → List Phys → List Nat → List Phys × List Nat × OpenRes
  | [], _, conns, dials => (conns, dials, .exhausted)
  | p :: rest, i, conns, dials =>
    match kindAt phase p with
    | .refused => openLoop F ms phase rest (i + 1) conns (dials ++ [i])
    | .silent =>
      match F.deadline with
      | none => (conns ++ [{ up := i, cut := false, closed := false }], dials ++ [i], .stuck)
      | some _ => openLoop F ms phase rest (i + 1) (conns ++ [{ up := i, cut := false, closed := F.closesFailed }]) (dials ++ [i])
    | .hsError => openLoop F ms phase rest (i + 1) (conns ++ [{ up := i, cut := true, closed := F.closesFailed }]) (dials ++ [i])
    | .okPlain =>
      if ms then openLoop F ms phase rest (i + 1) (conns ++ [{ up := i, cut := false, closed := F.closesRejected }]) (dials ++ [i])
      else (conns ++ [{ up := i, cut := false, closed := false }], dials ++ [i], .opened conns.length)
    | .okSecure => (conns ++ [{ up := i, cut := false, closed := false }], dials ++ [i], .opened conns.length)

/-- connection.Closed() of physical connection `id` -/
def closedFlag (conns : List Phys) (id : Nat) : Bool :=
  match conns[id]? with
  | some p => p.closed
  | none => true

/-- session.OpenStream() succeeds on `id` -/
def physAlive (conns : List Phys) (id : Nat) : Bool :=
  match conns[id]? with
  | some p => !p.cut && !p.closed
  | none => false

def closeAt (conns : List Phys) (id : Nat) : List Phys :=
  conns.modify id (fun p => { p with closed := true })

/-- the liveness test of Connect: `connection == nil || connection.Closed()` (the session's own
    IsClosed() adds nothing in the model: a session dies exactly when its connection is closed) -/
def needOpen (sh : Sh) : Bool :=
  match sh.stored with
  | none => true
  | some id => closedFlag sh.conns id

/-- the critical section of Connect -/
def tEnter (F : Facts) (c : Cfg) (sh : Sh) : Pc → Option (Sh × Pc)
  | .start known a =>
    if sh.blocked then none
    else if needOpen sh then
      match openLoop F c.mustSecure sh.phase c.ups 0 sh.conns sh.dials with
      | (conns, dials, .opened id) => some ({ sh with conns := conns, dials := dials, stored := some id }, .have known a id)
      | (conns, dials, .exhausted) => some ({ sh with conns := conns, dials := dials, stored := none }, .done .fail none)
      | (conns, dials, .stuck) => some ({ sh with conns := conns, dials := dials, stored := none, blocked := true }, .done .blocked none)
    else
      match sh.stored with
      | some id => some (sh, .have known a id)
      | none => none
  | _ => none

/-- openStream on the session the thread saw: OpenStream, then protocol selection -/
def tStream (F : Facts) (sh : Sh) : Pc → Option (Sh × Pc)
  | .have known a id =>
    if physAlive sh.conns id then
      if known then
        match sh.conns[id]? with
        | some p => some (sh, .done (.up p.up) (some id))
        | none => none
      else some (sh, .done .fail none)       -- protocol selection fails; the session is left alone
    else if F.discardOnLoss then some (sh, .lost known a id)
    else some (sh, .done .fail none)
  | _ => none

/-- discard (under the mutex), then the retry decision of Connect -/
def tDiscard (F : Facts) (sh : Sh) : Pc → Option (Sh × Pc)
  | .lost known a id =>
    if sh.blocked then none
    else
      let sh' := if sh.stored = some id then { sh with conns := closeAt sh.conns id, stored := none } else sh
      if F.retry && a == 0 then some (sh', .start known (a + 1))
      else some (sh', .done .fail none)
  | _ => none

inductive TK | enter | stream | discard
  deriving DecidableEq, Repr

def tStep (F : Facts) (c : Cfg) (sh : Sh) (pc : Pc) : TK → Option (Sh × Pc)
  | .enter => tEnter F c sh pc
  | .stream => tStream F sh pc
  | .discard => tDiscard F sh pc

def envCut (sh : Sh) : Sh := { sh with conns := sh.conns.map (fun p => { p with cut := true }) }
def envRestart (sh : Sh) : Sh := { envCut sh with phase := 1 }
/-- Upstreams.Shutdown (its goroutine needs the mutex) -/
def envClose (sh : Sh) : Sh :=
  if sh.blocked then sh
  else match sh.stored with
    | some id => { sh with conns := closeAt sh.conns id, stored := none }
    | none => sh

inductive Act
  | spawn (known : Bool)        -- a new local connection for a channel the server knows / does not know
  | thread (t : Nat) (k : TK)   -- thread t takes its next step of the given kind
  | cut | restart | close       -- environment: carrier cut, server restart, Upstreams.Shutdown
  deriving DecidableEq, Repr

def step (F : Facts) (c : Cfg) (s : St) : Act → Option St
  | .spawn known =>
    -- HandleConnection: the direct attempt first; the upstreams only when it fails
    if directUsable c.fwd then some { s with pcs := s.pcs ++ [.done .direct none] }
    else some { s with pcs := s.pcs ++ [.start known 0] }
  | .thread t k =>
    match s.pcs[t]? with
    | some pc => (tStep F c s.sh pc k).map (fun r => { sh := r.1, pcs := s.pcs.set t r.2 })
    | none => none
  | .cut => some { s with sh := envCut s.sh }
  | .restart => some { s with sh := envRestart s.sh }
  | .close => some { s with sh := envClose s.sh }

/-- run a schedule; steps that are not enabled are skipped -/
def run (F : Facts) (c : Cfg) : St → List Act → St
  | s, [] => s
  | s, a :: as => match step F c s a with
    | some s' => run F c s' as
    | none => run F c s as

/-- physical connections the client holds -/
def held (sh : Sh) : Nat := (sh.conns.filter (fun p => !p.closed)).length

/-- one local connection on its own -/
def soloRun (F : Facts) (c : Cfg) : Sh → Pc → List TK → Sh × Pc
  | sh, pc, [] => (sh, pc)
  | sh, pc, k :: ks => match tStep F c sh pc k with
    | some (sh', pc') => soloRun F c sh' pc' ks
    | none => soloRun F c sh pc ks

/-- two rounds at most -/
def solo : List TK := [.enter, .stream, .discard, .enter, .stream, .discard]

/-- a new local connection (HandleConnection), run to completion: the state afterwards, its outcome,
    the physical connection that carries it -/
def connect (F : Facts) (c : Cfg) (sh : Sh) (known : Bool) : Sh × Out × Option Nat :=
  if directUsable c.fwd then (sh, .direct, none)
  else match soloRun F c sh (.start known 0) solo with
    | (sh', .done o car) => (sh', o, car)
    | (sh', _) => (sh', .blocked, none)

/-- first usable upstream in list order (offset from the head) -/
def firstUsable (ms : Bool) (phase : Nat) : List (Kind × Kind) → Option Nat
  | [] => none
  | p :: rest => if usable ms (kindAt phase p) then some 0 else (firstUsable ms phase rest).map (· + 1)

/-! ### time: worst-case duration of one dial attempt, `none` = unbounded -/

def attemptBound (F : Facts) (dialT : Nat) : Kind → Option Nat
  | .refused => some dialT
  | _ => F.deadline.map (dialT + ·)

/-! ### stall points: WHERE in the handshake an upstream goes silent

`NewClientConnection` arms one deadline before the first request and takes it off in its deferred closure, i.e.
after `upgrade` — and with it `startTls` / `tls.Conn.Handshake` — has returned.  `deadlineSpansHandshake` is that
statement about the source, computed from the regenerated list of every deadline call of client.go with its
placement and from the call chain of the phases; the bound of an attempt towards a peer that stalls at a given
point is the deadline only while the deadline is still in force at that point. -/

inductive StallPt
  | start          -- never answers at all (`S`)
  | afterHello     -- answers the first request (200 + capabilities), then silence (`A`)
  | startTls       -- answers 200 and 101, then silence: the client is inside tls.Conn.Handshake (`L`)
  | tlsRecord      -- … and a TLS record cut short (`K`)
  deriving DecidableEq, Repr

/-- the deadline calls of client.go the model was written against -/
def expectedDeadlineSites : List (String × String × String × String) := [
  ("NewClientConnection", "SetDeadline", "time.Now().Add(HandshakeTimeout)", "after"),
  ("NewClientConnection", "SetDeadline", "time.Time{}", "deferred !(err!=nil)")]

/-- … and who runs which phase: the StartTLS handshake runs inside `upgrade`, inside `NewClientConnection` -/
def expectedHandshakeChain : List (String × String) := [
  ("NewClientConnection", "connection.handshake"),
  ("NewClientConnection", "connection.upgrade"),
  ("ClientConnection.upgrade", "cc.startTls"),
  ("ClientConnection.startTls", "tlsConn.Handshake")]

/-- the deadline armed before the first request is still in force during the upgrade exchange and the
    StartTLS handshake: it is set once, before every phase, cleared only when `NewClientConnection` returns
    without error, and all phases run inside `NewClientConnection` -/
def deadlineSpansHandshake (sites : List (String × String × String × String)) (chain : List (String × String)) : Bool :=
  sites == expectedDeadlineSites && chain == expectedHandshakeChain

/-- worst-case duration of a dial attempt towards a peer that stalls at `p`; `spans = false`: the deadline does
    not reach beyond the text handshake -/
def stallBound (F : Facts) (spans : Bool) (dialT : Nat) : StallPt → Option Nat
  | .start | .afterHello => F.deadline.map (dialT + ·)
  | .startTls | .tlsRecord => if spans then F.deadline.map (dialT + ·) else none

/-! ### line protocol: `policy <mustSecure> <forward> <upstreams> <history>` (see go/harness/c16_policy.go) -/

def kindOfChar : Char → Option Kind
  | 'R' => some .refused | 'S' => some .silent | 'H' => some .hsError | 'P' => some .okPlain | 'T' => some .okSecure
  | 'Q' => some .okSecure                     -- plain carrier, the server offers StartTLS: the client upgrades
  -- a peer that answers correctly up to a later point of the handshake and then goes silent is a silent
  -- upstream whatever the point (`StallPt`): A after the first response, L inside the StartTLS handshake,
  -- K inside a TLS record
  | 'A' => some .silent | 'L' => some .silent | 'K' => some .silent
  | _ => none

def scriptOf (s : String) : Option (Kind × Kind) :=
  match s.toList with
  | [a] => (kindOfChar a).map (fun k => (k, k))
  | [a, b] => match kindOfChar a, kindOfChar b with
    | some x, some y => some (x, y)
    | _, _ => none
  | _ => none

def fwdOf : String → Option Fwd
  | "-" => some .absent | "ok" => some .ok | "dead" => some .dead | "nohost" => some .nohost | "noscheme" => some .noscheme
  | _ => none

def outStr : Out → String
  | .direct => "DD" | .up i => s!"U{i}" | .fail => "F" | .blocked => "B"

def insertSorted (x : String) : List String → List String
  | [] => [x]
  | y :: ys => if x < y ∨ x = y then x :: y :: ys else y :: insertSorted x ys

def sortStrs (xs : List String) : List String := xs.foldr insertSorted []

def digits (xs : List Nat) : String :=
  if xs.isEmpty then "-" else String.join (xs.map toString)

structure Sim where
  sh : Sh
  kept : List (Option Nat)      -- kept local connections: the physical connection that carries each (none = direct)
  toks : List String

def simConnects (F : Facts) (c : Cfg) (m : Sim) (known : Bool) (n : Nat) (keep : Bool) : Sim :=
  let d0 := m.sh.dials.length
  let (sh, outs, kept) := (List.range n).foldl (fun (acc : Sh × List String × List (Option Nat)) _ =>
      let (sh, outs, kept) := acc
      let (sh', o, car) := connect F c sh known
      let served := match o with | .direct => true | .up _ => true | _ => false
      (sh', outs ++ [outStr o], if keep && served then kept ++ [car] else kept)) (m.sh, [], m.kept)
  let tok := "+".intercalate (sortStrs outs) ++ "/" ++ digits (sh.dials.drop d0) ++ "/" ++ toString (held sh)
  { sh := sh, kept := kept, toks := m.toks ++ [tok] }

def simEvent (F : Facts) (c : Cfg) (m : Sim) : Char → Option Sim
  | 'c' => some (simConnects F c m true 1 true)
  | 'd' => some (simConnects F c m true 1 false)
  | 'u' => some (simConnects F c m false 1 false)
  | '2' => some (simConnects F c m true 2 true)
  | '3' => some (simConnects F c m true 3 true)
  | 'x' => let sh := envCut m.sh; some { m with sh := sh, toks := m.toks ++ [s!"x/{held sh}"] }
  | 'r' => let sh := envRestart m.sh; some { m with sh := sh, toks := m.toks ++ [s!"r/{held sh}"] }
  | 'k' => let sh := envClose m.sh; some { m with sh := sh, toks := m.toks ++ [s!"k/{held sh}"] }
  | 'v' =>
    let alive := (m.kept.filter (fun k => match k with
      | none => true
      | some id => physAlive m.sh.conns id)).length
    some { m with toks := m.toks ++ [s!"v{alive}"] }
  | _ => none

def handleWith (F : Facts) (toks : List String) : String :=
  match toks with
  | [ms, fwd, ups, hist] =>
    let scripts := (ups.splitOn ",").map scriptOf
    match (if ms = "0" then some false else if ms = "1" then some true else none), fwdOf fwd with
    | some ms, some fwd =>
      if scripts.length < 1 ∨ scripts.length > 4 ∨ scripts.any Option.isNone ∨ hist.length = 0 ∨ hist.length > 24 then "bad-op"
      else
        let c : Cfg := { mustSecure := ms, fwd := fwd, ups := scripts.filterMap id }
        match hist.toList.foldlM (simEvent F c) { sh := Sh.init, kept := [], toks := [] } with
        | some m => " ".intercalate m.toks
        | none => "bad-op"
    | _, _ => "bad-op"
  | _ => "bad-op"

def handle (toks : List String) : String := handleWith Facts.current toks

/-! ### e2e predictions: `polnet …` (see go/harness/c16_polnet.go) -/

def secureCarrier : String → Option Bool
  | "tcp" | "ws" => some false
  | "tcptls" | "starttls" | "wss" => some true
  | _ => none

def servedStr : Out → String
  | .direct => "served" | .up _ => "served" | _ => "failed"

def handlePolnetWith (F : Facts) (toks : List String) : String :=
  match toks with
  | ["idle", carrier, _secs] =>
    -- an idle session on a healthy carrier is kept: nothing in the model makes a stored live session go away by itself
    match secureCarrier carrier with
    | some sec =>
      let c := Cfg.simple sec .absent [if sec then .okSecure else .okPlain]
      let (s1, o1, _) := connect F c Sh.init true
      let (s2, o2, _) := connect F c s1 true
      s!"first={servedStr o1} after={servedStr o2} physical={s2.dials.length}"
    | none => "bad-op"
  | [loss, carrier] =>
    -- "cut": the carrier is cut; "sessclose": the stored session has closed itself (keep-alive); either way the stored
    -- session fails Connect's liveness test or its OpenStream, is replaced once, and the replacement is reused
    if loss ≠ "cut" ∧ loss ≠ "sessclose" then "bad-op" else
    match secureCarrier carrier with
    | some sec =>
      let c := Cfg.simple sec .absent [if sec then .okSecure else .okPlain]
      let (s1, o1, _) := connect F c Sh.init true
      let (s2, o2, _) := connect F c (envCut s1) true
      s!"first={servedStr o1} after={servedStr o2} physical={s2.dials.length}"
    | none => "bad-op"
  | ["fwd", mode, carrier] =>
    match secureCarrier carrier, (if mode = "ok" then some Fwd.ok else if mode = "dead" then some Fwd.dead else none) with
    | some _, some fwd =>
      let (s1, o1, _) := connect F (Cfg.simple false fwd [.okPlain]) Sh.init true
      let by_ := match o1 with | .direct => "forward" | .up _ => "upstream" | _ => "nobody"
      s!"by={by_} physical={s1.dials.length}"
    | _, _ => "bad-op"
  | ["first", bad, carrier] =>
    let kind : Option (Kind × Bool) := match bad with
      | "refused" => some (.refused, false) | "garbage" => some (.hsError, false)
      | "silent" => some (.silent, false) | "silenttls" => some (.silent, false)
      | "stalltls" => some (.silent, false) | "silentws" => some (.silent, false)
      | "insecure" | "insecurews" => some (.okPlain, true) | _ => none
    match secureCarrier carrier, kind with
    | some sec, some (k, ms) =>
      if ms && !sec then "bad-op"
      else
        let c := Cfg.simple ms .absent [k, if sec then .okSecure else .okPlain]
        let (s1, o1, _) := connect F c Sh.init true
        let (s2, o2, _) := connect F c s1 true
        -- physical connections the good upstream saw
        s!"first={servedStr o1} second={servedStr o2} physical={(s2.dials.filter (· == 1)).length}"
    | _, _ => "bad-op"
  | _ => "bad-op"

def handlePolnet (toks : List String) : String := handlePolnetWith Facts.current toks

/-! ### upstream lists of a verifying client: `poltls <mode> <upstream>…` (see go/harness/c16_poltls.go)

The client has the CA, no insecure flag and requires security; the upstreams of one list are addressed by
different names, are of different kinds and present different certificates.  What a dial of an upstream leads to —
and so whether it is usable — is a function of that upstream alone (how it is addressed, what stands behind it),
never of what was tried before it. -/

inductive CertNames | both | nameonly | iponly
  deriving DecidableEq, Repr

/-- one upstream as the client is given it, and what stands behind it -/
structure UpDesc where
  carrier : String          -- tcptls | starttls | wss
  byName : Bool             -- addressed as `localhost` (else as 127.0.0.1)
  cert : CertNames          -- names on the server certificate
  live : Bool               -- somebody listens
  deriving DecidableEq, Repr

/-- x509 hypothesis: the certificate is accepted iff it carries the name the upstream is addressed by -/
def certCovers : CertNames → Bool → Bool
  | .both, _ => true
  | .nameonly, n => n
  | .iponly, n => !n

/-- usable: live and verifiable under its own name -/
def UpDesc.usable (d : UpDesc) (live : Bool) : Bool := live && certCovers d.cert d.byName

/-- what a dial leads to: verification fails inside the dial on the TLS carriers, in StartTLS on a plain socket -/
def UpDesc.kind (d : UpDesc) (live : Bool) : Kind :=
  if !live then .refused
  else if certCovers d.cert d.byName then .okSecure
  else if d.carrier == "starttls" then .hsError
  else .refused

/-- scripts (before / after the loss) of the list from index `i`; `lost` = the upstream that is gone afterwards -/
def descScripts (lost : Option Nat) : List UpDesc → Nat → List (Kind × Kind)
  | [], _ => []
  | d :: ds, i => (d.kind d.live, d.kind (d.live && !(lost == some i))) :: descScripts lost ds (i + 1)

def descCfg (ds : List UpDesc) (lost : Option Nat) : Cfg :=
  { mustSecure := true, fwd := .absent, ups := descScripts lost ds 0 }

/-- first usable upstream of the list (offset from the head), `after` = after the loss of `lost` -/
def firstDesc (lost : Option Nat) (after : Bool) : List UpDesc → Nat → Option Nat
  | [], _ => none
  | d :: ds, i =>
    if d.usable (d.live && !(after && lost == some i)) then some 0 else (firstDesc lost after ds (i + 1)).map (· + 1)

def certOf : String → Option CertNames
  | "both" => some .both | "nameonly" => some .nameonly | "iponly" => some .iponly | _ => none

def descOf (s : String) : Option UpDesc :=
  match s.splitOn ":" with
  | [c, h, ce, l] =>
    match certOf ce with
    | some cert =>
      if (c == "tcptls" || c == "starttls" || c == "wss") && (h == "ip" || h == "name") && (l == "live" || l == "dead") then
        some { carrier := c, byName := h == "name", cert := cert, live := l == "live" }
      else none
    | none => none
  | _ => none

def handlePoltlsWith (F : Facts) (toks : List String) : String :=
  match toks with
  | mode :: rest =>
    let ds := rest.map descOf
    if rest.length < 2 ∨ rest.length > 3 ∨ ds.any Option.isNone then "bad-op"
    else
      let ds := ds.filterMap id
      if mode = "fail" then
        let o1 := (connect F (descCfg ds none) Sh.init true).2.1
        let o2 := (connect F (descCfg ds.reverse none) Sh.init true).2.1
        s!"fwd={outStr o1} rev={outStr o2}"
      else if mode = "cut" then
        let c := descCfg ds none
        let (s1, o1, _) := connect F c Sh.init true
        let (_, o2, _) := connect F c (envCut s1) true
        s!"first={outStr o1} after={outStr o2}"
      else if mode = "kill" then
        let lost := match (connect F (descCfg ds none) Sh.init true).2.1 with
          | .up j => some j
          | _ => none
        let c := descCfg ds lost
        let (s1, o1, _) := connect F c Sh.init true
        let (_, o2, _) := connect F c (envRestart s1) true
        s!"first={outStr o1} after={outStr o2}"
      else "bad-op"
  | _ => "bad-op"

def handlePoltls (toks : List String) : String := handlePoltlsWith Facts.current toks

end SA.Policy

/-
  SA.Model.DnsServer — the DNS-tunnel server's message handler (C12 server half, C13).

  Mirrors internal/streams/dns/dns_server_connection.go (onMessage, newUser, validateAndGetUser, packet,
  version, setOptionsRequest, testDownstreamFragmentSize, testUpstreamEncoder, testDownstreamEncoder,
  closeConnection), commands/{commands,serializer,utils,cmd_*}.go (request decoding) and the parts of
  util/queue.go the handler calls (InQueue.Append, OutQueue.UpdateAcked / NextChunk / Write's chunking).

  * Session objects are Go pointers: the model keeps a heap (`Srv.heap`, index = creation ordinal `sid`) and the two
    tables `live` / `retired` hold sids.
  * Indexing / slicing / nil-func calls are explicit (`SA.Go.Res`), so "the handler cannot panic" is a statement
    about this function.
  * The codecs (internal/util/enc, third-party base32/64/85/91/128) are *parameters*: `Codec.dec code input`
    is what `enc.FromCode(code).Decode(input)` returns (`none` = error) and `Codec.encLen code n` the length of
    `Encode` of n bytes.  Theorems quantify over every `Codec`; the executable driver reads `dec` from the op line.
-/
import SA.Base.Util
import SA.Model.GoSlice
import SA.Gen.Consts
import SA.Gen.C12
import SA.Gen.C13

namespace SA.DnsServer
open SA.Go SA.Go.Res

/-! ### queues (util/queue.go, the operations reachable from a message) -/

structure InQ where
  next : Nat := 0
  buf : List Nat := []
  future : List (Nat × List Nat) := []
  acked : List Nat := []
  deriving DecidableEq, Repr

structure OutQ where
  next : Nat := 0
  out : List (Nat × List Nat) := []
  acked : List Nat := []
  hasData : Bool := false
  deriving DecidableEq, Repr

def u16 (n : Nat) : Nat := n % 65536

/-- the `for len(q.future) > 0 && added` loop of Append: move in-order packets out of `future` (fuel = |future|) -/
def drainFuture : Nat → InQ → InQ
  | 0, q => q
  | fuel + 1, q =>
    match q.future.find? (fun f => f.1 == q.next) with
    | none => q
    | some f =>
      drainFuture fuel { q with buf := q.buf ++ f.2, next := u16 (q.next + 1),
                                future := q.future.eraseP (fun g => g.1 == q.next) }

/-- is `seq` one of NextSeqNo+1 … NextSeqNo+MaxCachedChunks-1 (uint16 arithmetic)? -/
def inWindow (next seq : Nat) : Bool :=
  let d := u16 (seq + 65536 - next)
  1 ≤ d && d < SA.Gen.maxCachedChunks

/-- InQueue.Append; `none` = ErrInvalidSequenceNumber -/
def InQ.append (q : InQ) (pkt : Option (Nat × List Nat)) : Option InQ :=
  match pkt with
  | none => some q
  | some (seq, data) =>
    if q.acked.contains seq then some q
    else if seq == q.next then
      let q1 : InQ := { q with buf := q.buf ++ data, next := u16 (q.next + 1), acked := q.acked ++ [seq] }
      let q2 := drainFuture q1.future.length q1
      some (if q2.acked.length > SA.Gen.maxCachedChunks then { q2 with acked := q2.acked.drop 1 } else q2)
    else if inWindow q.next seq then
      some { q with future := q.future ++ [(seq, data)], acked := q.acked ++ [seq] }
    else none

/-- OutQueue.cleanAckedChunks -/
def OutQ.clean (q : OutQ) : OutQ :=
  let out := q.acked.foldl (fun o a => o.eraseP (fun c => c.1 == a)) q.out
  let acked := if q.acked.length > SA.Gen.maxCachedChunks then q.acked.drop (q.acked.length - SA.Gen.maxCachedChunks) else q.acked
  { q with out := out, acked := acked, hasData := !out.isEmpty }

def OutQ.updateAcked (q : OutQ) (seq : Nat) : OutQ :=
  if q.acked.contains seq then q else ({ q with acked := q.acked ++ [seq] } : OutQ).clean

/-- OutQueue.NextChunk -/
def OutQ.nextChunk (q : OutQ) : OutQ × Option (Nat × List Nat) :=
  let q' := q.clean
  (q', q'.out.head?)

/-- the chunking loop of OutQueue.Write for mtu > 0 (fuel = |b|) -/
def chunks : Nat → Nat → List Nat → List (List Nat)
  | 0, _, _ => []
  | fuel + 1, mtu, b => if b.isEmpty then [] else if b.length > mtu then b.take mtu :: chunks fuel mtu (b.drop mtu) else [b]

def OutQ.addChunks (q : OutQ) : List (List Nat) → OutQ
  | [] => q
  | c :: cs => OutQ.addChunks { q with out := q.out ++ [(q.next, c)], next := u16 (q.next + 1) } cs

/-! ### sessions and the server -/

structure Sess where
  uid : Nat
  owner : Nat
  last : Nat
  closed : Bool := false
  up : Nat := 84
  down : Nat := 84
  frag : Nat := SA.Gen.defaultDownstreamFragmentSize
  lazy : Bool := false
  multi : Bool := false
  inq : InQ := {}
  outq : OutQ := {}
  deriving DecidableEq, Repr

instance : Inhabited Sess := ⟨{ uid := 0, owner := 0, last := 0 }⟩

structure Srv where
  live : List (Option Nat)
  retired : List (Option Nat)
  heap : List Sess
  now : Nat
  deriving DecidableEq, Repr

def Srv.init : Srv :=
  { live := List.replicate SA.Gen.maxUsers none, retired := List.replicate SA.Gen.maxUsers none, heap := [], now := 0 }

def Srv.sess (σ : Srv) (sid : Nat) : Sess := σ.heap.getD sid default

def Srv.modify (σ : Srv) (sid : Nat) (f : Sess → Sess) : Srv :=
  { σ with heap := σ.heap.set sid (f (σ.sess sid)) }

inductive VErr where
  | ok | badIp | badConn | badUser
  deriving DecidableEq, Repr

/-- validateAndGetUser: `s.connections[userId]` is an index into a fixed-size slice -/
def validate (σ : Srv) (uid addr : Nat) : Res (Srv × Option Nat × VErr) := do
  let l ← idxOpt σ.live uid
  match l with
  | none =>
    let r ← idxOpt σ.retired uid
    match r with
    | some rs => if (σ.sess rs).owner = addr then pure (σ, some rs, .badConn) else pure (σ, none, .badUser)
    | none => pure (σ, none, .badUser)
  | some ls =>
    if (σ.sess ls).owner ≠ addr then pure (σ, some ls, .badIp)
    else pure (σ.modify ls (fun s => { s with last := σ.now }), some ls, .ok)

/-- index of the first `none` -/
def firstFree : List (Option Nat) → Option Nat
  | [] => none
  | none :: _ => some 0
  | some _ :: r => (firstFree r).map (· + 1)

/-- newUser -/
def newUser (σ : Srv) (addr : Nat) : Srv × Option Nat :=
  match firstFree σ.live with
  | none => (σ, none)
  | some i =>
    let sid := σ.heap.length
    ({ σ with live := σ.live.set i (some sid), heap := σ.heap ++ [{ uid := i, owner := addr, last := σ.now }] }, some i)

/-- closeConnection(u) for the session object `sid` -/
def closeConnection (σ : Srv) (sid : Nat) : Res Srv := do
  let u := σ.sess sid
  let cur ← idxOpt σ.live u.uid
  if cur ≠ some sid then pure σ else
  let (σ1, _, e) ← validate σ u.uid u.owner
  if e ≠ .ok then pure σ1 else
  pure ({ σ1 with live := σ1.live.set u.uid none, retired := σ1.retired.set u.uid (some sid) }.modify sid
          (fun s => { s with closed := true }))

/-! ### request decoding (commands/*.go) -/

structure Codec where
  dec : Nat → List Nat → Option (List Nat)
  encLen : Nat → Nat → Nat
  /-- inputs on which the real `Decode` does not return at all (a Go panic inside the decoder, e.g. an inverse
      alphabet table that does not cover every octet) -/
  panics : Nat → List Nat → Bool := fun _ _ => false

/-- the decoders are total functions: `Decode` returns (a value or an error) on every input.  This is the explicit
    hypothesis of the no-panic theorems; the harness ties it to the real decoders by an exhaustive sweep (every single
    octet and every pair of octets, every registered codec) and by recording `PANIC` oracle entries otherwise. -/
def Codec.Total (cd : Codec) : Prop := ∀ c i, cd.panics c i = false

/-- one call of `enc.FromCode(code).Decode(input)`: panics where the decoder does -/
def Codec.decode (cd : Codec) (c : Nat) (i : List Nat) : Res (Option (List Nat)) :=
  if cd.panics c i then .panic else .ok (cd.dec c i)

theorem Codec.decode_total {cd : Codec} (h : cd.Total) (c : Nat) (i : List Nat) : cd.decode c i = .ok (cd.dec c i) := by
  unfold Codec.decode; rw [h c i]; rfl

def asciiLower (b : Nat) : Nat := if 65 ≤ b ∧ b ≤ 90 then b + 32 else b
def asciiUpper (b : Nat) : Nat := if 97 ≤ b ∧ b ≤ 122 then b - 32 else b

/-- `strings.ToLower(string(data[0:1]))[0]`: a byte ≥ 0x80 is invalid UTF-8 and becomes U+FFFD (EF BF BD) -/
def lowerFirst (b : Nat) : Nat := if b < 128 then asciiLower b else 239

/-- Command.IsOfType -/
def isOfType (code : Nat) (data : List Nat) : Res Bool :=
  if data.length = 0 then pure false else do
    let b ← idx data 0
    if b = code then pure true else do
      let s ← slice data 0 1
      let c ← idx (s.map lowerFirst) 0
      pure (c = code)

/-- commands.StripDomain (fixed code: a dangling backslash is dropped).  `dom` is the tunnel domain. -/
def unescapeF : Nat → List Nat → List Nat
  | 0, _ => []
  | _ + 1, [] => []
  | f + 1, 46 :: r => unescapeF f r
  | f + 1, 92 :: a :: b :: c :: r' =>
    if 48 ≤ a ∧ a ≤ 57 ∧ 48 ≤ b ∧ b ≤ 57 ∧ 48 ≤ c ∧ c ≤ 57 then
      (((a - 48) * 100 + (b - 48) * 10 + (c - 48)) % 256) :: unescapeF f r'
    else a :: unescapeF f (b :: c :: r')
  | f + 1, 92 :: a :: r => a :: unescapeF f r
  | _ + 1, [92] => []
  | f + 1, c :: r => c :: unescapeF f r

/-- the loop of StripDomain (every iteration consumes at least one byte, so |data| iterations suffice) -/
def unescape (d : List Nat) : List Nat := unescapeF d.length d

def hasSuffixFold (data suffix : List Nat) : Bool :=
  suffix.length ≤ data.length && (data.drop (data.length - suffix.length)).map asciiLower == suffix.map asciiLower

def stripDomain (data dom : List Nat) : Res (List Nat) := do
  let sfx := [46] ++ dom ++ [46]
  let d ← if hasSuffixFold data sfx then slice data 0 (data.length - (dom.length + 2)) else pure data
  pure (unescape d)

def digit36 (c : Nat) : Option Nat :=
  if 48 ≤ c ∧ c ≤ 57 then some (c - 48)
  else if 97 ≤ c ∧ c ≤ 122 then some (c - 87)
  else if 65 ≤ c ∧ c ≤ 90 then some (c - 55)
  else none

/-- strconv.ParseUint(two characters, 36, 16) -/
def parse36 (s : List Nat) : Option Nat :=
  match s with
  | [a, b] => do
    let x ← digit36 a
    let y ← digit36 b
    pure (x * 36 + y)
  | _ => none

/-- DecodeRequestHeader (after ValidateType): `none` = error returned -/
def decodeHeader (needsUser : Bool) (req : List Nat) : Res (Option (List Nat × Nat)) :=
  if req.length < 4 then pure none else do
    let req ← sliceFrom req 4
    if needsUser then
      if req.length < 2 then pure none else do
        let two ← slice req 0 2
        match parse36 two with
        | none => pure none
        | some uid => do
          let rest ← sliceFrom req 2
          pure (some (rest, uid))
    else pure (some (req, 0))

def le16 (b : List Nat) : Option (Nat × List Nat) :=
  match b with
  | x :: y :: r => some (x + 256 * y, r)
  | _ => none

def le32 (b : List Nat) : Option (Nat × List Nat) :=
  match b with
  | x :: y :: z :: w :: r => some (x + 256 * y + 65536 * z + 16777216 * w, r)
  | _ => none

/-- enc.FromCode: upper-cased code looked up in the encoder list; a byte ≥ 0x80 never matches -/
def fromCode (b : Nat) : Option Nat :=
  if b < 128 then (if SA.Gen.encoderCodes.contains (asciiUpper b) then some (asciiUpper b) else none) else none

/-- SetOptionsRequest.readBool on the next byte -/
def tri (v : Nat) : Option Bool := if v = 1 then some true else if v = 0 then some false else none

structure Options where
  lazy : Option Bool := none
  multi : Option Bool := none
  closed : Option Bool := none
  down : Option Nat := none
  up : Option Nat := none
  frag : Option Nat := none
  deriving DecidableEq, Repr

inductive Req where
  | version (v : Nat)
  | options (uid : Nat) (o : Options)
  | fragTest (uid size : Nat)
  | downTest (code : Nat)
  | upTest (uid : Nat) (pattern : List Nat)
  | packet (uid ack : Nat) (pkt : Option (Nat × List Nat))
  deriving DecidableEq, Repr

/-- SetOptionsRequest.Decode after the base32 step; `none` = error.  A body that ends inside the three flags is
    accepted with the flags read so far (the code returns nil there). -/
def decodeOptionsBody (uid : Nat) (d : List Nat) : Option Req :=
  match d with
  | [] => some (.options uid {})
  | a :: [] => some (.options uid { lazy := tri a })
  | a :: b :: [] => some (.options uid { lazy := tri a, multi := tri b })
  | a :: b :: c :: r =>
    let o : Options := { lazy := tri a, multi := tri b, closed := tri c }
    match r with
    | [] => none
    | dn :: r1 =>
      match (if dn = 32 then some none else (fromCode dn).map some) with
      | none => none
      | some down =>
        match r1 with
        | [] => none
        | upc :: r2 =>
          match (if upc = 32 then some none else (fromCode upc).map some) with
          | none => none
          | some up =>
            match le32 r2 with
            | none => none
            | some (f, _) => some (.options uid { o with down := down, up := up, frag := if f = 4294967295 then none else some f })

/-- PacketRequest.Decode after the codec step -/
def decodePacketBody (uid : Nat) (d : List Nat) : Option Req :=
  match le16 d with
  | none => none
  | some (ack, r) =>
    match r with
    | [] => none
    | has :: r1 =>
      if has % 2 = 1 then
        match le16 r1 with
        | none => none
        | some (seq, data) => some (.packet uid ack (some (seq, data)))
      else some (.packet uid ack none)

/-- Serializer.DecodeDnsRequest for the command with letter `code` (whose NewRequest is `hasReq`), with upstream
    encoder `up`.  Outer `Res`: panics; inner `Option`: decode error (→ BADCODEC). -/
def decodeRequest (cd : Codec) (code : Nat) (needsUser hasReq : Bool) (up : Nat) (req : List Nat) : Res (Option Req) := do
  let _ ← callField hasReq ()          -- req := c.NewRequest()
  let h ← decodeHeader needsUser req    -- every Decode starts with DecodeRequestHeader
  match h with
  | none => pure none
  | some (body, uid) =>
    if code = 118 then       -- 'v'
      do let r ← cd.decode 84 body
         pure (r.bind fun d => (le32 d).map fun p => Req.version p.1)
    else if code = 111 then  -- 'o'
      do let r ← cd.decode 84 body
         pure (r.bind (decodeOptionsBody uid))
    else if code = 114 then  -- 'r'
      do let r ← cd.decode 84 body
         pure (r.bind fun d => (le32 d).map fun p => Req.fragTest uid p.1)
    else if code = 121 then  -- 'y'
      if body.length = 0 then pure none else do
        let c ← idx body 0
        pure ((fromCode c).map Req.downTest)
    else if code = 122 then  -- 'z'
      pure (some (.upTest uid body))
    else if code = 99 then   -- 'c'
      do let r ← cd.decode up body
         pure (r.bind (decodePacketBody uid))
    else pure none

/-! ### answers -/

inductive Ans where
  /-- onMessage returned `(msg, err)`: the answer could not be wrapped in the requested record type -/
  | drop
  /-- onMessage returned `(nil, err)`: the request header cannot be decoded, there is no answer object at all -/
  | ignored
  | err (cmd : Nat) (e : String)
  | version (uid : Nat)
  | optionsOk
  | frag (size : Nat)
  | upOk (data : List Nat)
  | downOk (code : Nat)
  | pktOk (ack : Nat) (pkt : Option (Nat × List Nat))
  deriving DecidableEq, Repr

def ceilDiv (a b : Nat) : Nat := (a + b - 1) / b

/-- util.GetLongestDataString -/
def longestData (domLen : Nat) : Nat :=
  let space := SA.Gen.hostnameMaxLen - domLen - 2 - 1
  space - ceilDiv space SA.Gen.labelMaxLen

/-- util.PrepareHostname returns ErrTooLong for n data bytes -/
def hostTooLong (domLen n : Nat) : Bool :=
  (if n > SA.Gen.labelMaxLen then n + (n - 1) / 57 else n) + domLen + 2 > SA.Gen.hostnameMaxLen - 2

/-- does util.WrapDnsResponse fail for L bytes of (already encoded) data? -/
def wrapFails (qtype domLen L : Nat) : Bool :=
  if qtype = SA.Gen.c12QueryTypeNull ∨ qtype = SA.Gen.c12QueryTypePrivate ∨ qtype = 16 ∨ qtype = 33 ∨ qtype = 28 then false
  else if qtype = 1 then decide (ceilDiv L 3 > 255)
  else if qtype = 15 then hostTooLong domLen (min L (longestData domLen))
  else if qtype = 5 then hostTooLong domLen (2 + min L (longestData domLen))
  else true

structure Msg where
  addr : Nat
  qtype : Nat
  name : List Nat
  hint : Nat := 84
  deriving DecidableEq, Repr

/-- an answer leaves the server only if WrapDnsResponse accepts its encoded length: `prefix` unencoded bytes plus
    `n` bytes encoded with `code` -/
def finish (cd : Codec) (m : Msg) (domLen : Nat) (pfx code n : Nat) (a : Ans) : Ans :=
  if wrapFails m.qtype domLen (pfx + cd.encLen code n) then .drop else a

/-- an error answer of command `cmd`: `pfx` unencoded bytes, then `extra` bytes and the error text encoded with `code` -/
def errAns (cd : Codec) (m : Msg) (domLen : Nat) (cmd : Nat) (pfx code extra : Nat) (e : String) : Ans :=
  finish cd m domLen pfx code (extra + e.length) (.err cmd e)

def vErrName : VErr → String
  | .ok => "OK"
  | .badIp => SA.Gen.errBadIp
  | .badConn => SA.Gen.errBadConn
  | .badUser => SA.Gen.errBadUser

/-! ### handlers -/

/-- the downstream codec of `user.Serializer` when a user was found, of the default serializer otherwise -/
def downOf (σ : Srv) (user : Option Nat) : Nat :=
  match user with
  | some s => (σ.sess s).down
  | none => 84

def hPacket (cd : Codec) (domLen : Nat) (σ : Srv) (m : Msg) (uid ack : Nat) (pkt : Option (Nat × List Nat)) : Res (Srv × Ans) := do
  let (σ1, user, e) ← validate σ uid m.addr
  let code := downOf σ1 user
  match user, e with
  | some s, .ok =>
    let u := σ1.sess s
    let outq := u.outq.updateAcked ack
    match u.inq.append pkt with
    | none => pure (σ1.modify s (fun x => { x with outq := outq }), finish cd m domLen 1 code 70 (.err 99 "other"))
    | some inq =>
      let (outq', chunk) := outq.nextChunk
      let σ2 := σ1.modify s (fun x => { x with inq := inq, outq := outq' })
      let ack' := u16 (inq.next + 65535)
      match chunk with
      | none => pure (σ2, finish cd m domLen 1 code 3 (.pktOk ack' none))
      | some c => pure (σ2, finish cd m domLen 1 code (5 + c.2.length) (.pktOk ack' (some c)))
  | _, e => pure (σ1, errAns cd m domLen 99 1 code 1 (vErrName e))

def hVersion (cd : Codec) (domLen : Nat) (σ : Srv) (m : Msg) (v : Nat) : Srv × Ans :=
  if v ≠ SA.Gen.protocolVersion then (σ, errAns cd m domLen 118 3 84 5 SA.Gen.errBadVersion)
  else match newUser σ m.addr with
    | (σ1, some uid) => (σ1, finish cd m domLen 3 84 5 (.version uid))
    | (σ1, none) => (σ1, errAns cd m domLen 118 3 84 5 SA.Gen.errServerFull)

def applyOptions (s : Sess) (o : Options) : Sess :=
  let s := match o.up with | some c => { s with up := c } | none => s
  let s := match o.down with | some c => { s with down := c } | none => s
  let s := match o.frag with | some f => { s with frag := f } | none => s
  let s := match o.lazy with | some b => { s with lazy := b } | none => s
  match o.multi with | some b => { s with multi := b } | none => s

/-- the range check of setOptionsRequest on the requested downstream fragment size -/
def badFrag : Option Nat → Bool
  | some f => f == 0 || decide (f > SA.Gen.maxDownstreamFragmentSize)
  | none => false

def hOptions (cd : Codec) (domLen : Nat) (σ : Srv) (m : Msg) (uid : Nat) (o : Options) : Res (Srv × Ans) := do
  let (σ1, user, e) ← validate σ uid m.addr
  match user, e with
  | some s, .ok =>
    if o.closed = some true then do
      let σ2 ← closeConnection σ1 s
      pure (σ2, finish cd m domLen 1 84 1 .optionsOk)
    else if badFrag o.frag then
      pure (σ1, errAns cd m domLen 111 1 84 1 SA.Gen.errBadFrag)
    else pure (σ1.modify s (fun x => applyOptions x o), finish cd m domLen 1 84 1 .optionsOk)
  | _, e => pure (σ1, errAns cd m domLen 111 1 84 1 (vErrName e))

def hFragTest (cd : Codec) (domLen : Nat) (σ : Srv) (m : Msg) (uid size : Nat) : Res (Srv × Ans) := do
  let (σ1, user, e) ← validate σ uid m.addr
  let code := downOf σ1 user
  match e with
  | .ok =>
    if size > SA.Gen.maxDownstreamFragmentSize then pure (σ1, errAns cd m domLen 114 1 code 1 SA.Gen.errBadFrag)
    else pure (σ1, finish cd m domLen 1 code (5 + size) (.frag size))
  | e => pure (σ1, errAns cd m domLen 114 1 code 1 (vErrName e))

def hUpTest (cd : Codec) (domLen : Nat) (σ : Srv) (m : Msg) (uid : Nat) (pattern : List Nat) : Res (Srv × Ans) := do
  let (σ1, _, e) ← validate σ uid m.addr
  match e with
  | .ok => pure (σ1, finish cd m domLen 1 84 (1 + pattern.length) (.upOk pattern))
  | e => pure (σ1, errAns cd m domLen 122 1 84 1 (vErrName e))

def downloadCodecCheckLen : Nat := 48

def hDownTest (cd : Codec) (domLen : Nat) (σ : Srv) (m : Msg) (code : Nat) : Srv × Ans :=
  (σ, finish cd m domLen 2 code downloadCodecCheckLen (.downOk code))

/-- the upstream codec of `user.Serializer` when a user was found, of the default serializer otherwise -/
def upOf (σ : Srv) (user : Option Nat) : Nat :=
  match user with
  | some s => (σ.sess s).up
  | none => 84

/-- first entry of the command table whose letter matches the request -/
def findCmd : List (Nat × Bool × Bool × Bool) → List Nat → Res (Option (Nat × Bool × Bool × Bool))
  | [], _ => pure none
  | c :: cs, req => do
    let t ← isOfType c.1 req
    if t then pure (some c) else findCmd cs req

/-- ServerDnsListener.onMessage for a message with one question -/
def onMessage (cd : Codec) (dom : List Nat) (σ : Srv) (m : Msg) : Res (Srv × Ans) := do
  let domLen := dom.length
  let request ← stripDomain m.name dom
  let c ← findCmd SA.Gen.commandTable request
  let badCommand := errAns cd m domLen 101 1 84 0 SA.Gen.errBadCommand
  match c with
  | none => pure (σ, badCommand)
  | some (code, needsUser, hasReq, _) =>
    if !hasReq then pure (σ, badCommand) else do
    let h ← decodeHeader needsUser request
    match h with
    | none => pure (σ, .ignored)
    | some (_, uid) =>
      let (σ1, user, uerr) ← validate σ uid m.addr
      let up := upOf σ1 user
      if user.isNone && needsUser then pure (σ1, errAns cd m domLen 101 1 84 0 SA.Gen.errBadUser)
      else if user.isSome && uerr = .badConn then pure (σ1, errAns cd m domLen 101 1 84 0 SA.Gen.errBadConn)
      else do
        let r ← decodeRequest cd code needsUser hasReq up request
        match r with
        | none => pure (σ1, errAns cd m domLen 101 1 84 0 SA.Gen.errBadCodec)
        | some (.downTest code') => pure (hDownTest cd domLen σ1 m code')
        | some (.upTest u p) => hUpTest cd domLen σ1 m u p
        | some (.fragTest u n) => hFragTest cd domLen σ1 m u n
        | some (.options u o) => hOptions cd domLen σ1 m u o
        | some (.version v) => pure (hVersion cd domLen σ1 m v)
        | some (.packet u a p) => hPacket cd domLen σ1 m u a p

/-! ### application side -/

/-- userConnection.Write as the harness drives it (returns after the last chunk; skipped while the queue still
    reports unacknowledged data) -/
def appWrite (σ : Srv) (sid : Nat) (data : List Nat) : Srv :=
  if sid < σ.heap.length ∧ data ≠ [] then
    let u := σ.sess sid
    if u.closed ∨ u.outq.hasData ∨ u.frag = 0 then σ
    else σ.modify sid (fun x => { x with outq := x.outq.addChunks (chunks data.length x.frag data) })
  else σ

def appClose (σ : Srv) (sid : Nat) : Res Srv :=
  if sid < σ.heap.length then closeConnection σ sid else pure σ

end SA.DnsServer

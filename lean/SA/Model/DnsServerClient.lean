/-
  SA.Model.DnsServerClient — the DNS-tunnel client's answer decoder (C12 client half).

  Mirrors util/wrap.go TypePriority + UnwrapDnsResponse, commands/serializer.go DecodeDnsResponseWithParams and the
  Decode methods of the seven response types (commands/cmd_*.go), with every index / slice / nil-func call explicit
  (`SA.Go.Res`).  The codecs are the `Codec` parameter of SA.Model.DnsServer.
-/
import SA.Model.DnsSessions
import SA.Gen.C12Nul

namespace SA.DnsClient
open SA.Go SA.Go.Res SA.DnsServer

/-- an answer record as miekg/dns hands it to the decoder -/
inductive RR where
  | null (d : List Nat)
  | priv (d : List Nat)
  | txt (ss : List (List Nat))
  | mx (pref : Nat) (name : List Nat)
  | srv (prio : Nat) (target : List Nat)
  | cname (target : List Nat)
  | aaaa (d : List Nat)
  | a (d : List Nat)
  | other
  deriving DecidableEq, Repr

def cb32 : List Nat := "abcdefghijklmnopqrstuvwxyz012345".toList.map Char.toNat
def cb32U : List Nat := "ABCDEFGHIJKLMNOPQRSTUVWXYZ012345".toList.map Char.toNat

/-- enc.Base32CharToInt (−1 when the character is in neither alphabet) -/
def base32CharToInt (c : Nat) : Int :=
  match cb32.idxOf? c with
  | some i => i
  | none =>
    match cb32U.idxOf? c with
    | some i => i
    | none => -1

def u32 (x : Int) : Nat := (x % 4294967296).toNat

def le16At (d : List Nat) : Res Nat := do
  let s ← slice d 0 2
  let x ← idx s 0
  let y ← idx s 1
  pure (x + 256 * y)

/-- util.TypePriority (fixed code: records too short for their order tag rank last) -/
def typePriority : RR → Res Nat
  | .null d => if d.length < 2 then pure 90000 else do pure (10000 + (← le16At d))
  | .priv d => if d.length < 2 then pure 90000 else do pure (20000 + (← le16At d))
  | .txt ss =>
    if ss.length = 0 then pure 90000 else
    match ss with
    | [] => panic
    | s0 :: _ =>
      if s0.length < 2 then pure 90000 else do
        let c1 ← idx s0 0
        let c2 ← idx s0 1
        pure ((30000 + u32 (base32CharToInt c1 + base32CharToInt c2 * 32)) % 4294967296)
  | .mx p _ => pure (40000 + p)
  | .srv p _ => pure (50000 + p)
  | .cname t =>
    if t.length < 2 then pure 90000 else do
      let c1 ← idx t 0
      let c2 ← idx t 1
      pure ((60000 + u32 (base32CharToInt c1 + base32CharToInt c2 * 32)) % 4294967296)
  | .aaaa d => if d.length < 2 then pure 90000 else do pure (70000 + (← le16At d))
  | .a d => if d.length < 1 then pure 90000 else do pure (80000 + (← idx d 0))
  | .other => pure 90000

/-- sort.Slice on up to 12 elements is an insertion sort (stable) -/
def insertByPrio (x : Nat × RR) : List (Nat × RR) → List (Nat × RR)
  | [] => [x]
  | y :: r => if x.1 < y.1 then x :: y :: r else y :: insertByPrio x r

def sortByPrio (xs : List (Nat × RR)) : List (Nat × RR) := xs.foldl (fun acc x => insertByPrio x acc) []

/-- util.unescapePresentation: undo miekg's presentation escapes `\\DDD` and `\\c`; with `dropDots` unescaped dots are
    dropped; a backslash that is the last byte is kept (fuel = |s|) -/
def unescPresF (dropDots : Bool) : Nat → List Nat → List Nat
  | 0, _ => []
  | _ + 1, [] => []
  | f + 1, 92 :: a :: b :: c :: r' =>
    if 48 ≤ a ∧ a ≤ 57 ∧ 48 ≤ b ∧ b ≤ 57 ∧ 48 ≤ c ∧ c ≤ 57 then
      (((a - 48) * 100 + (b - 48) * 10 + (c - 48)) % 256) :: unescPresF dropDots f r'
    else a :: unescPresF dropDots f (b :: c :: r')
  | f + 1, 92 :: a :: r => a :: unescPresF dropDots f r
  | f + 1, c :: r => if c = 46 ∧ dropDots then unescPresF dropDots f r else c :: unescPresF dropDots f r

def unescPres (dropDots : Bool) (s : List Nat) : List Nat := unescPresF dropDots s.length s

def undotify (d : List Nat) : List Nat := unescPres true d

/-- the data one record contributes in UnwrapDnsResponse (fixed code) -/
def recordData (domLen : Nat) : RR → Res (List Nat)
  | .null d => if d.length ≥ 2 then sliceFrom d 2 else pure []
  | .priv d => if d.length ≥ 2 then sliceFrom d 2 else pure []
  | .txt ss => let j := unescPres false ss.flatten; if j.length ≥ 2 then sliceFrom j 2 else pure []
  | .mx _ n => if n.length ≥ domLen + 2 then do pure (undotify (← slice n 0 (n.length - domLen - 2))) else pure []
  | .srv _ t => if t.length ≥ domLen + 2 then do pure (undotify (← slice t 0 (t.length - domLen - 2))) else pure []
  | .cname t =>
    if t.length ≥ domLen + 4 then do
      let d ← sliceFrom t 2
      pure (undotify (← slice d 0 (d.length - domLen - 2)))
    else pure []
  | .aaaa d => if d.length ≥ 2 then sliceFrom d 2 else pure []
  | .a d => if d.length ≥ 1 then sliceFrom d 1 else pure []
  | .other => pure []

def mapRes {α β : Type} (f : α → Res β) : List α → Res (List β)
  | [] => pure []
  | x :: xs => do
    let y ← f x
    let ys ← mapRes f xs
    pure (y :: ys)

/-- util.UnwrapDnsResponse: the comparator of the sort evaluates TypePriority of every record as soon as there are
    two of them -/
def unwrap (domLen : Nat) (rrs : List RR) : Res (List Nat) := do
  let sorted ←
    if rrs.length < 2 then pure rrs else do
      let ps ← mapRes typePriority rrs
      pure ((sortByPrio (ps.zip rrs)).map (·.2))
  let parts ← mapRes (recordData domLen) sorted
  pure parts.flatten

/-- the error text carried by a response: `none` when `ReadString(0)` finds a NUL (the decoders then return nil
    without setting Err) -/
def errText (d : List Nat) : Option (List Nat) := if d.contains 0 then none else some d

def errName (t : List Nat) : String :=
  let s := String.ofList (t.map Char.ofNat)
  if t.all (· < 128) && knownErrors.contains s then s else "other"

/-- status byte followed by the error text; result = rendered error or "OK" -/
def errOf (rest : List Nat) : String :=
  match errText rest with
  | none => "OK"
  | some t => errName t

/-- with the decoders' guard (regenerated fact `errTextNulRejected`) a NUL inside the text is a decode error (`none`) -/
def errOfD (rest : List Nat) : Option String :=
  match errText rest with
  | none => if SA.Gen.errTextNulRejected then none else some "OK"
  | some t => some (errName t)

/-- strconv.ParseInt(two characters, 36, 16) as a uint16 -/
def parseInt36 (s : List Nat) : Option Nat :=
  match s with
  | [43, b] => digit36 b
  | [45, b] => (digit36 b).map fun d => (65536 - d) % 65536
  | [a, b] => do
    let x ← digit36 a
    let y ← digit36 b
    pure (x * 36 + y)
  | _ => none

def pktStr : Option (Nat × List Nat) → String
  | none => "none"
  | some (s, d) => s!"{s}:{toHex d}"

/-- the Decode method of the response type with letter `code` (lower case), on data whose first byte matches;
    `none` = error returned -/
def decodeResponse (cd : Codec) (code down : Nat) (data : List Nat) : Res (Option String) := do
  if data.length = 0 then pure none else
  let body ← sliceFrom data 1
  if code = 118 then      -- 'v'
    if body.length < 2 then pure none else do
      let two ← slice body 0 2
      match parseInt36 two with
      | none => pure none
      | some uid => do
        let rest ← sliceFrom body 2
        cd.decode 84 rest >>= fun dv => pure <| dv.bind fun val => (le32 val).bind fun (ver, r) =>
          match r with
          | [] => none
          | st :: r' => if st % 2 = 1 then (errOfD r').map (fun e => s!"v:{e}:{uid}:{ver}") else some s!"v:OK:{uid}:{ver}"
  else if code = 101 then -- 'e'
    cd.decode 84 body >>= fun dv => pure <| dv.bind fun val => (errOfD val).map fun e => s!"e:{e}"
  else if code = 111 then -- 'o'
    cd.decode 84 body >>= fun dv => pure <| dv.bind fun val =>
      match val with
      | [] => none
      | st :: r => if st % 2 = 1 then (errOfD r).map (fun e => s!"o:{e}") else some "o:OK"
  else if code = 122 then -- 'z'
    cd.decode 84 body >>= fun dv => pure <| dv.bind fun val =>
      match val with
      | [] => none
      | st :: r => if st % 2 = 1 then (errOfD r).map (fun e => s!"z:{e}:-") else some s!"z:OK:{toHex r}"
  else if code = 121 then -- 'y'
    if data.length > 1 then do
      let k ← idx data 1
      let rest ← sliceFrom data 2
      if k = 101 then cd.decode 84 rest >>= fun dv => pure <| dv.map fun d => s!"y:{errName d}:-"
      else if k = 111 then cd.decode down rest >>= fun dv => pure <| dv.map fun d => s!"y:OK:{toHex d}"
      else pure none
    else pure none
  else if code = 114 then -- 'r'
    cd.decode down body >>= fun dv => pure <| dv.bind fun val =>
      match val with
      | [] => none
      | st :: r =>
        if st % 2 = 1 then (errOfD r).map (fun e => s!"r:{e}:0:-")
        else (le32 r).map fun (size, d) => s!"r:OK:{size}:{toHex d}"
  else if code = 99 then  -- 'c'
    cd.decode down body >>= fun dv => pure <| dv.bind fun val =>
      match val with
      | [] => none
      | st :: r =>
        if st = 255 then (errOfD r).map (fun e => s!"c:{e}:0:none")
        else if st = 1 then
          (le16 r).bind fun (ack, r1) => (le16 r1).map fun (seq, d) => s!"c:OK:{ack}:{pktStr (some (seq, d))}"
        else if st = 0 then (le16 r).map fun (ack, _) => s!"c:OK:{ack}:none"
        else some "c:OK:0:none"
  else pure none

/-- Serializer.DecodeDnsResponseWithParams -/
def decodeAnswer (cd : Codec) (domLen down : Nat) (rrs : List RR) : Res (Option String) := do
  let data ← unwrap domLen rrs
  if data.length = 0 then pure none else do
  let c ← findCmd SA.Gen.commandTable data
  match c with
  | none => pure none
  | some (code, _, _, hasResp) =>
    if !hasResp then pure none else do
    let _ ← callField hasResp ()
    decodeResponse cd code down data

/-! ### driver -/

def parseRR (t : String) : Option RR :=
  match t.splitOn ":" with
  | ["N", h] => (fromHex h).map RR.null
  | ["P", h] => (fromHex h).map RR.priv
  | ["T", h] => if h = "" then some (.txt []) else ((h.splitOn ",").mapM fromHex).map RR.txt
  | ["M", p, h] => do pure (.mx ((← p.toNat?) % 65536) (← fromHex h))   -- dns.MX.Preference is a uint16
  | ["S", p, h] => do pure (.srv ((← p.toNat?) % 65536) (← fromHex h))  -- dns.SRV.Priority is a uint16
  | ["C", h] => (fromHex h).map RR.cname
  | ["Q", h] => (fromHex h).map RR.aaaa
  | ["A", h] => (fromHex h).map RR.a
  | ["X"] => some .other
  | _ => none

def handleCli (toks : List String) : String :=
  match toks with
  | d :: c :: rest =>
    match fromHex d, c.toList with
    | some dom, [code] =>
      if !rest.contains "--" then "bad-op" else
      let (orc, recT) := splitAtDashes rest
      match recT.mapM parseRR with
      | none => "bad-op"
      | some rrs =>
        match decodeAnswer (oracleCodec (parseOracle orc) (parsePanics orc)) dom.length code.toNat rrs with
        | .panic => "PANIC"
        | .ok none => "ERR"
        | .ok (some s) => s
    | _, _ => "bad-op"
  | _ => "bad-op"

def handle (toks : List String) : String :=
  match toks with
  | "srv" :: rest => SA.DnsServer.handle rest
  -- the same line over a real socket (udp / tcp) to a real miekg server started by the real communicator
  | "net" :: _ :: rest => SA.DnsServer.handle rest
  | "cli" :: rest => handleCli rest
  -- `clihs <dom> <letter> <nth> <payload>`: the real client's Handshake with one answer of the real server replaced:
  -- whatever the answer, Handshake returns (C12's client clause; the decoders are total, every type assertion on a
  -- response is checked)
  | ["clihs", _, _, _, _] => "done"
  -- `dec|enc <code> …`: the real codec on one input / a swept range.  The codecs are parameters of the models and the
  -- theorems assume `Codec.Total`, so the model's answer is the hypothesis itself: the call returns.
  | "dec" :: _ :: _ => "RETURNS"
  | "enc" :: _ :: _ => "RETURNS"
  | _ => "bad-op"

end SA.DnsClient

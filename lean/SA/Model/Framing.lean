/-
  SA.Model.Framing — executable model of the byte-stream glue socketace puts between the application
  and the carrier (C01):

  * `Src`      : a stream transport as the reader sees it — the bytes still to arrive, cut into the
                 chunks the underlying `Read` calls will return (the adversary picks the cuts).
                 Contract assumed of TCP / unix sockets / TLS / an smux stream / a KCP session / io.Pipe.
  * `bufRead`  : bufio.Reader.Read as used by streams.BufferedInputConnection (buffer `Gen.maxHeaderSize`)
  * `wsWrite`  : WebsocketTunnelConnection.Write — split at `Gen.bufferSize` into binary messages
  * `wsRead`   : WebsocketTunnelConnection.Read — one message per call; what happens when the caller's
                 buffer is shorter than the message is decided by the regenerated fact
                 `Gen.wsReadKeepsTail` (false: the code returns an error and the session dies;
                 true: the unread tail is kept for the next Read)
  * `copyLoop` : io.CopyBuffer as used by streams.pipeData (buffer `Gen.bufferSize`)
-/
import SA.Base.Util
import SA.Gen.Consts
import SA.Gen.C01
namespace SA.Framing

/-- remaining arrival chunks; end-of-stream after the last one -/
abbrev Src := List (List Nat)

/-- one `Read(p)` with `len(p) = n` on a stream transport: at most `n` bytes of the first
    non-empty chunk; `[]` means end-of-stream (only when nothing is left) -/
def srcRead : Src → Nat → List Nat × Src
  | [], _ => ([], [])
  | [] :: rest, n => srcRead rest n
  | (b :: bs) :: rest, n =>
      if (b :: bs).length ≤ n then (b :: bs, rest)
      else ((b :: bs).take n, (b :: bs).drop n :: rest)

/-- bufio.Reader state: unread buffered bytes + the underlying transport -/
structure Buf where
  buf : List Nat
  src : Src
  deriving Repr

/-- bufio.Reader.Read(p), len(p) = n > 0, buffer size `size` -/
def bufRead (size : Nat) (b : Buf) (n : Nat) : List Nat × Buf :=
  if b.buf ≠ [] then (b.buf.take n, { b with buf := b.buf.drop n })
  else if size ≤ n then
    let r := srcRead b.src n
    (r.1, { buf := [], src := r.2 })
  else
    let r := srcRead b.src size
    (r.1.take n, { buf := r.1.drop n, src := r.2 })

/-- WebsocketTunnelConnection.Write: the messages one Write(p) produces -/
def wsWrite (size : Nat) (p : List Nat) : List (List Nat) :=
  if size = 0 then [p] else
  if p.length ≤ size then [p] else p.take size :: wsWrite size (p.drop size)
termination_by p.length
decreasing_by simp; omega

/-- websocket reader state: tail of a partly-read message + messages still to arrive -/
structure Ws where
  pending : List Nat
  msgs : List (List Nat)
  deriving Repr

inductive RdOut
  | data (bs : List Nat)
  | eof
  | err            -- "Buffer to small": the carrier is unusable from here on
  deriving Repr, DecidableEq

/-- WebsocketTunnelConnection.Read(p), len(p) = n -/
def wsRead (keepsTail : Bool) (w : Ws) (n : Nat) : RdOut × Ws :=
  if w.pending ≠ [] then (.data (w.pending.take n), { w with pending := w.pending.drop n })
  else match w.msgs with
    | [] => (.eof, w)
    | m :: rest =>
        if m.length ≤ n then (.data m, { pending := [], msgs := rest })
        else if keepsTail then (.data (m.take n), { pending := m.drop n, msgs := rest })
        else (.err, { pending := [], msgs := rest })

/-- bytes a reader state still owes its caller -/
def Buf.content (b : Buf) : List Nat := b.buf ++ b.src.flatten
def Ws.content (w : Ws) : List Nat := w.pending ++ w.msgs.flatten

/-- io.CopyBuffer(dst, src, buf) over a stream transport: every chunk read is written in full -/
def copyLoop (bufSize : Nat) : Nat → Src → List (List Nat)
  | 0, _ => []
  | fuel + 1, s =>
      let r := srcRead s bufSize
      if r.1 = [] then [] else r.1 :: copyLoop bufSize fuel r.2

/-! ### driver: lengths only (the harness fills the stream with position-dependent bytes and checks
    the contents itself) -/

def stream (n : Nat) (start : Nat := 0) : List Nat := (List.range n).map (fun i => (start + i) % 251)

def mkChunks : Nat → List Nat → Src
  | _, [] => []
  | start, n :: rest => stream n start :: mkChunks (start + n) rest

def parseNats (s : String) : Option (List Nat) :=
  if s = "-" then some [] else (s.splitOn ",").mapM (·.toNat?)

def runBuf (size : Nat) : Buf → List Nat → List String
  | _, [] => []
  | b, n :: ns =>
      let r := bufRead size b n
      if r.1 = [] then ["eof"] else toString r.1.length :: runBuf size r.2 ns

def runWs (keeps : Bool) : Ws → List Nat → List String
  | _, [] => []
  | w, n :: ns =>
      match wsRead keeps w n with
      | (.data bs, w') => toString bs.length :: runWs keeps w' ns
      | (.eof, _) => ["eof"]
      | (.err, _) => ["err"]

/-- the real stack on a websocket carrier: bufio over the websocket reader.  The bufio layer sees the
    websocket as its underlying Read. -/
structure WsBuf where
  buf : List Nat
  ws : Ws

def wsBufRead (keeps : Bool) (size : Nat) (b : WsBuf) (n : Nat) : RdOut × WsBuf :=
  if b.buf ≠ [] then (.data (b.buf.take n), { b with buf := b.buf.drop n })
  else if size ≤ n then
    let r := wsRead keeps b.ws n
    (r.1, { buf := [], ws := r.2 })
  else
    match wsRead keeps b.ws size with
    | (.data bs, w') => (.data (bs.take n), { buf := bs.drop n, ws := w' })
    | (o, w') => (o, { buf := [], ws := w' })

def runWsBuf (keeps : Bool) (size : Nat) : WsBuf → List Nat → List String
  | _, [] => []
  | b, n :: ns =>
      match wsBufRead keeps size b n with
      | (.data bs, b') => toString bs.length :: runWsBuf keeps size b' ns
      | (.eof, _) => ["eof"]
      | (.err, _) => ["err"]

/-! ### server side of a new logical stream: `clientFirstConn` (communicator.go)

  Reads go through a bufio.Reader of `Gen.bufferSize`; the first `Write` first `Peek(1)`s, i.e. waits
  until the client's first bytes are buffered (or the stream has ended, in which case the write fails). -/

structure CF where
  rd : Buf
  peeked : Bool
  peekOk : Bool
  deriving Repr

/-- bufio.Reader.Peek(1): fill the buffer with one underlying read when it is empty; nothing is consumed -/
def peek1 (size : Nat) (b : Buf) : Bool × Buf :=
  if b.buf ≠ [] then (true, b)
  else
    let r := srcRead b.src size
    (r.1 ≠ [], { buf := r.1, src := r.2 })

def cfRead (size : Nat) (c : CF) (n : Nat) : List Nat × CF :=
  let r := bufRead size c.rd n
  (r.1, { c with rd := r.2 })

/-- `Write(p)`: true = handed to the underlying stream, false = refused with the Peek's error -/
def cfWrite (size : Nat) (c : CF) : Bool × CF :=
  if c.peeked then (c.peekOk, c)
  else
    let r := peek1 size c.rd
    (r.1, { rd := r.2, peeked := true, peekOk := r.1 })

/-! ### client/server wrapper of a multiplexed stream: `MuxStreamConnection.Read` (muxstream_connection.go)

  The underlying stream may answer end-of-stream although data is still buffered (smux 1.5.14: data-arrived and
  peer-finished are both ready, the select picks the latter); it hands the data over on the next call.  The model of
  the underlying stream is a script of what successive `Read` calls return. -/

inductive RawRead
  | data (bs : List Nat)
  | eof                     -- (0, io.EOF)
  | err
  deriving Repr, DecidableEq

/-- one `Read` of the wrapper over a script of underlying results: an `eof` is retried once -/
def muxRead : List RawRead → RawRead × List RawRead
  | [] => (.eof, [])
  | .eof :: rest =>
      match rest with
      | [] => (.eof, [])
      | r :: rest' => (r, rest')
  | r :: rest => (r, rest)

/-- reads until the wrapper reports end-of-stream or an error; the data handed to the caller -/
def muxDrain : Nat → List RawRead → List Nat
  | 0, _ => []
  | fuel + 1, s =>
      match muxRead s with
      | (.data bs, rest) => bs ++ muxDrain fuel rest
      | _ => []

/-- all data in a script up to its first genuine end: an `eof` directly followed by data is spurious -/
def scriptData : List RawRead → List Nat
  | [] => []
  | .data bs :: rest => bs ++ scriptData rest
  | .eof :: .data bs :: rest => bs ++ scriptData rest
  | _ => []

def runCF (size : Nat) : CF → List String → List String
  | _, [] => []
  | c, op :: ops =>
      match op.toList with
      | 'r' :: n =>
          match (String.ofList n).toNat? with
          | some k =>
              let r := cfRead size c k
              if r.1 = [] then ["eof"] else toString r.1.length :: runCF size r.2 ops
          | none => ["bad"]
      | ['w'] =>
          let r := cfWrite size c
          (if r.1 then "w" else "wfail") :: runCF size r.2 ops
      | _ => ["bad"]

def parseRaw (t : String) : Option RawRead :=
  if t = "e" then some .eof else if t = "x" then some .err
  else t.toNat?.map (fun n => .data (List.replicate n 0))

def runMux : Nat → List RawRead → List String
  | 0, _ => []
  | fuel + 1, s =>
      match muxRead s with
      | (.data bs, rest) => toString bs.length :: runMux fuel rest
      | (.eof, _) => ["eof"]
      | (.err, _) => ["err"]

def handle (toks : List String) : String :=
  match toks with
  | ["cf", chunks, "|", ops] =>
      match parseNats chunks with
      | some cs => " ".intercalate (runCF Gen.bufferSize
          { rd := { buf := [], src := mkChunks 0 cs }, peeked := false, peekOk := false } (ops.splitOn ","))
      | none => "bad-op"
  | ["mux", script] =>
      match (script.splitOn ",").mapM parseRaw with
      | some sc => " ".intercalate (runMux (sc.length + 2) sc)
      | none => "bad-op"
  | ["bufio", chunks, "|", reads] =>
      match parseNats chunks, parseNats reads with
      | some cs, some rs =>
          " ".intercalate (runBuf Gen.maxHeaderSize { buf := [], src := mkChunks 0 cs } rs)
      | _, _ => "bad-op"
  | [kind, writes, "|", reads] =>
      match parseNats writes, parseNats reads with
      | some ws, some rs =>
          let msgs := (mkChunks 0 ws).flatMap (wsWrite Gen.bufferSize)
          if kind = "ws" then
            " ".intercalate (runWs Gen.wsReadKeepsTail { pending := [], msgs := msgs } rs)
          else if kind = "wsbuf" then
            " ".intercalate (runWsBuf Gen.wsReadKeepsTail Gen.maxHeaderSize { buf := [], ws := { pending := [], msgs := msgs } } rs)
          else "bad-op"
      | _, _ => "bad-op"
  | _ => "bad-op"

/-- e2e prediction (`bytes <carrier> <mode> <len> <part> <seed>`): the spec is a private FIFO pipe per
    logical connection, so every transfer is delivered intact and followed by end-of-stream -/
def handleBytes (toks : List String) : String :=
  match toks with
  | [carrier, mode, _len, _part, _seed] => carrier ++ " " ++ mode ++ " ok"
  | _ => "bad-op"

end SA.Framing

/-
  C15 / C12: what the DNS library lets through to the handler, and what the handler's first step (commands.ComposeRequest)
  does with it.  A message is abstracted to the list of its question names (and whether it is a query at all).
    * library default `MsgAcceptFunc`: a response, a non-query opcode, or a question count other than one is answered
      by the library itself (FORMERR / NOTIMP / ignored) and never reaches the handler;
    * ComposeRequest: one question → `Question[0].Name`; several → sorts by `Name[0]`, `Name[1]` of EVERY question and
      strips two characters from each (index out of range on a name shorter than two characters, e.g. the root name ".");
      none → `Question[0]` of an empty slice.
-/
namespace SA.DnsFront

structure Msg where
  isQuery : Bool
  names   : List (List Nat)     -- the question names, as byte strings
deriving Repr, DecidableEq

/-- library default: reaches the handler? -/
def acceptedByDefault (m : Msg) : Bool := m.isQuery && m.names.length == 1

/-- an accept function "minus the exactly-one-question rule" -/
def acceptedAnyCount (m : Msg) : Bool := m.isQuery

/-- ComposeRequest: none = the goroutine panics (nothing recovers it: the process dies) -/
def composeRequest (m : Msg) : Option (List Nat) :=
  match m.names with
  | [] => none
  | [n] => some n
  | ns => if ns.all (fun n => decide (2 ≤ n.length)) then some (ns.map (·.drop 2)).flatten else none

end SA.DnsFront

namespace SA.DnsFront
/-- driver: `dnsfront <len…>` (or `-` for no question) → ok | panic -/
def handle (toks : List String) : String :=
  let names? : Option (List (List Nat)) :=
    if toks = ["-"] then some [] else toks.mapM (fun t => t.toNat?.map (fun n => List.replicate n 97))
  match toks, names? with
  | [], _ => "bad-op"
  | _, some ns => if (composeRequest ⟨true, ns⟩).isSome then "ok" else "panic"
  | _, none => "bad-op"
end SA.DnsFront

/-
  SA.Model.SecSpell — C04 end to end, per upstream scheme SPELLING (second op form of `seckinds`,
  go/harness/c04_spell.go): every spelling of the regenerated `unmarshalUpstream` switch
  (`Gen.upstreamSchemes`, C18's table) against a server of the same carrier family that is plain or TLS.

  What the client dials and what it tells the handshake comes from C18's interpretation of the regenerated
  `+tls` chains (`Schemes.runOf .upstream`): `r.tls` = the transport really dialled is TLS, `r.secure` = the
  value of the flag variable the chain sets; the `secure` ARGUMENT of NewClientConnection is C04's regenerated
  class (`Gen.c04SecureArgs`) evaluated with that flag.  The two may disagree - that is the regression class
  "the scheme the user wrote and the transport dialled disagree about encryption".
-/
import SA.Model.Security
import SA.Model.Schemes
namespace SA.Security
open SA.Handshake SA.Schemes

/-- upstream type (constructor named by the parser's switch) → C04's kind name -/
def kindOfCtor (ctor : String) : String :=
  if ctor == "Socket" then "socket" else if ctor == "Http" then "http" else if ctor == "Packet" then "packet"
  else if ctor == "InputOutput" then "stdio" else if ctor == "Dns" then "dns" else "?"

def baseWord (s : Str) : Str := s.takeWhile (· != '+')

/-- the spelling *says* TLS -/
def spellTls (s : Str) : Bool :=
  hasSuffix s "+tls".toList || baseWord s == "https".toList || baseWord s == "wss".toList

inductive Cell2
  | badscheme
  | noserver
  | refused
  | est (tech : Tech) (secure echo clear : Bool) (first : Option Bool)   -- first: some true = TLS record, none = datagrams
  deriving DecidableEq, Repr

/-- rig environment (not scheme logic): the harness's relay is reached as 127.0.0.1 (no udp6 address), KCP over a
    unixgram name that is not there never answers, and a TLS handshake over SOCK_SEQPACKET never completes -/
def envRefused (s : Str) (stls : Bool) : Bool :=
  baseWord s == "udp6".toList || baseWord s == "unixgram".toList || (s == "unixpacket+tls".toList && stls)

/-- x509 hypothesis table of the rig (certificate names `localhost`, 127.0.0.1): tcp / websocket / udp relays are
    addressed as 127.0.0.1; a unix socket is addressed by its file name, stdin passes no host, dns the tunnel domain -/
def hostOnCert2 (ctor : String) (s : Str) : Bool :=
  ctor == "Http" || ctor == "Packet" || (ctor == "Socket" && baseWord s == "tcp".toList)

/-- after the carrier question is settled: the client dialled TLS or not (`dialTls`), it tells the handshake `s0`,
    the server's carrier is TLS or not, has a certificate or not; `noVerify` = this kind never verifies the
    carrier certificate (stdin+tls) -/
def cellCore2 (datagram noVerify dialTls s0 stls scert must acc : Bool) : Cell2 :=
  if dialTls != stls then .refused
  else if dialTls && !(noVerify || acc) then .refused
  else
    let scfg : SrvCfg := ⟨stls, if scert then .ok else .empty⟩
    let p := honestPair scfg s0 acc
    match p.client with
    | .established _ t s _ =>
      if must && !s then .refused
      else
        let echo := match p.server with
          | .established _ ts _ _ => (t == .tls) == (ts == .tls)
          | _ => false
        .est t s echo (!(dialTls || t == .tls)) (if datagram then none else some dialTls)
    | _ => .refused

/-- the `secure` argument this spelling's Connect passes: C04's regenerated argument class over the flag variable
    C18's chain sets for this spelling -/
def spellArg (ctor : String) (r : Run) (must : Bool) : Bool :=
  secureArgValue (secureArgClass (kindOfCtor ctor)) ⟨r.secure, false, must⟩

def cellSpellAcc (s : Str) (stls scert must acc : Bool) : Cell2 :=
  match lookup (tableOf .upstream) s with
  | none => .badscheme
  | some ctor =>
    let r := runOf .upstream ctor s
    let datagram := ctor == "Packet" || ctor == "Dns"
    if stls && !scert then .noserver
    else if datagram && stls then .noserver
    else if r.failed || envRefused s stls then .refused
    else cellCore2 datagram (ctor == "InputOutput") r.tls (spellArg ctor r must) stls scert must acc

def cellSpell (s : Str) (stls scert must insecure ca : Bool) : Cell2 :=
  cellSpellAcc s stls scert must
    (insecure || (ca && (match lookup (tableOf .upstream) s with | some ctor => hostOnCert2 ctor s | none => false)))

/-- the clauses of the property on one cell (what the harness monitor checks from the op and the observations) -/
def cellSafe2 (saysTls stls scert must : Bool) : Cell2 → Bool
  | .est t s echo clear first =>
    (!must || (s && (t == .tls || first == some true) && echo && !clear)) &&
    (!(scert && !stls) || (t == .tls && s && echo)) &&
    (!s || !clear) &&
    !(s && t == .underlying && first == some false) &&
    !(saysTls && first == some false)
  | _ => true

end SA.Security

/-
  SA.Model.Codec — executable model of internal/util/enc/*.go (property C08).

  Bytes are `List Nat` (`SA.Bytes`).  Two layers:

  * spec layer (library code, modelled at the level of its documented algorithm and tied to the
    real library by correspondence only): generic radix-2^k bit packing (`radixDigits`, stdlib
    base32/base64 encode; luci base128 decode), ascii85 (`a85Enc`, `a85DecLoop` incl. the silent
    "fewer than 4 bytes free" return), basE91 as in mtraver/base91 (`b91EncLoop`, `b91DecLoop`);
  * implementation-shaped layer for the code that lives in the repo: `Base128Encoder.Encode`
    (`b128EncLoop`, `whichByte/bufByte`), `escape128/unescape128` (unknown byte -> 0, silently),
    `Base85Encoder.Encode/Decode` (substitution, which part of the scratch buffer is returned, how
    the decode buffer is sized), `Base192Encoder` as written (uint16/uint8 arithmetic), Raw.

  Alphabets, codes, ratios, substitution pairs and three decisive shapes come from `SA.Gen`
  (regenerated from the Go source on every check run).  Core Lean only.
-/
import SA.Base.Util
import SA.Gen.C08
namespace SA.Codec

/-! ## bits -/

/-- MSB-first `n`-bit representation of `x mod 2^n` -/
def toBits : Nat → Nat → List Bool
  | 0, _ => []
  | n + 1, x => x.testBit n :: toBits n x

/-- value of an MSB-first bit list -/
def fromBits : List Bool → Nat
  | [] => 0
  | b :: bs => (if b then 2 ^ bs.length else 0) + fromBits bs

/-- `m` consecutive `k`-bit groups of `bits`, each as a number -/
def takeDigits (k : Nat) : Nat → List Bool → List Nat
  | 0, _ => []
  | m + 1, bits => fromBits (bits.take k) :: takeDigits k m (bits.drop k)

def bytesToBits (bs : List Nat) : List Bool := bs.flatMap (toBits 8)

def digitsToBits (k : Nat) (ds : List Nat) : List Bool := ds.flatMap (toBits k)

/-- a bit string as `k`-bit digits, the last one zero-padded: ⌈len/k⌉ digits -/
def digitsOf (k : Nat) (bits : List Bool) : List Nat :=
  takeDigits k ((bits.length + k - 1) / k) (bits ++ List.replicate (k - 1) false)

/-- generic radix-2^k encoder: bytes -> MSB-first bits -> zero-pad to a multiple of k -> k-bit digits -/
def radixDigits (k : Nat) (bs : List Nat) : List Nat := digitsOf k (bytesToBits bs)

/-- generic radix-2^k decoder: digits -> bits -> the first `n` bytes -/
def radixBytes (k n : Nat) (ds : List Nat) : List Nat :=
  takeDigits 8 n (digitsToBits k ds)

/-! ## alphabets -/

def alphaChar (alpha : List Nat) (d : Nat) : Nat := alpha.getD d 0

def alphaIdx (alpha : List Nat) (c : Nat) : Option Nat :=
  let i := alpha.idxOf c
  if i < alpha.length then some i else none

/-! ## Base32 / Base64 / Base64u (stdlib, NoPadding) -/

def isNewline (c : Nat) : Bool := c == 10 || c == 13

/-- bytes decoded from `m` base32 characters: full quanta give 5, a final quantum of 2/4/5/7 gives
    1/2/3/4, a final quantum of 1/3/6 characters gives nothing (and no error: Go's switch has no case) -/
def b32Bytes (m : Nat) : Nat :=
  5 * (m / 8) + (match m % 8 with | 2 => 1 | 4 => 2 | 5 => 3 | 7 => 4 | _ => 0)

def b32Enc (bs : List Nat) : List Nat := (radixDigits 5 bs).map (alphaChar Gen.cb32)

/-- position of the first element not satisfying `p` -/
def firstBad (p : Nat → Bool) : List Nat → Nat → Option (Nat × Nat × List Nat)
  | [], _ => none
  | c :: rest, i => if p c then firstBad p rest (i + 1) else some (i, c, rest)

/-- encoding/base32 `DecodeString` with `NoPadding`: newlines are stripped first; `byte(NoPadding)` is
    0xFF, so a 0xFF at quantum position >= 2 with fewer than 8 bytes after it is taken for padding. -/
def b32Dec (src : List Nat) : Option (List Nat) :=
  let s := src.filter (fun c => !isNewline c)
  let inAlpha := fun c => (alphaIdx Gen.cb32 c).isSome
  match firstBad inAlpha s 0 with
  | none => some (radixBytes 5 (b32Bytes s.length) (s.filterMap (alphaIdx Gen.cb32)))
  | some (i, c, rest) =>
    let j := i % 8
    if c == 255 && j ≥ 2 && rest.length < 8 then
      if rest.length + j < 7 then none
      else if (rest.take (7 - j)).any (fun x => x != 255) then none
      else if j == 3 || j == 6 then none
      else some (radixBytes 5 (b32Bytes i) ((s.take i).filterMap (alphaIdx Gen.cb32)))
    else none

/-- bytes decoded from `m` base64 characters (`m % 4 = 1` is an error) -/
def b64Bytes (m : Nat) : Nat := 3 * (m / 4) + (m % 4 - 1)

def b64EncWith (alpha : List Nat) (bs : List Nat) : List Nat := (radixDigits 6 bs).map (alphaChar alpha)

/-- encoding/base64 `DecodeString` with `NoPadding`, non-strict: `\r` `\n` are skipped anywhere,
    every other byte must be in the alphabet, a final single character is an error, trailing bits
    are ignored. -/
def b64DecWith (alpha : List Nat) (src : List Nat) : Option (List Nat) :=
  let s := src.filter (fun c => !isNewline c)
  if s.all (fun c => (alphaIdx alpha c).isSome) then
    if s.length % 4 == 1 then none
    else some (radixBytes 6 (b64Bytes s.length) (s.filterMap (alphaIdx alpha)))
  else none

/-! ## Base128: the repo's own encoder loop, luci's decoder at spec level -/

/-- `Base128Encoder.Encode` loop: `w` = whichByte (1..7), `buf` = bufByte.  The trailing append is
    unconditional in the original code and guarded by `whichByte > 1` in the repaired code
    (`Gen.b128TailGuarded`). -/
def b128EncLoop (guarded : Bool) (w buf : Nat) : List Nat → List Nat
  | [] => if guarded && w == 1 then [] else [buf]
  | v :: rest =>
    let elem := buf + v / 2 ^ w                   -- bufByte | (val >> whichByte): disjoint bits
    let buf' := (v % 2 ^ w) * 2 ^ (7 - w)         -- (val & (1<<whichByte - 1)) << (7 - whichByte)
    if w == 7 then elem :: buf' :: b128EncLoop guarded 1 0 rest
    else elem :: b128EncLoop guarded (w + 1) buf' rest

def escape128 (ds : List Nat) : List Nat := ds.map (alphaChar Gen.cb128)

/-- `cb128Invert[v]`: a Go map lookup, 0 for bytes outside the alphabet -/
def unescape128 (cs : List Nat) : List Nat := cs.map (fun c => (alphaIdx Gen.cb128 c).getD 0)

def b128Enc (bs : List Nat) : List Nat := escape128 (b128EncLoop Gen.b128TailGuarded 1 0 bs)

/-- luci base128.DecodeString after `unescape128`: length check `EncodedLen(DecodedLen n) == n`
    (fails exactly when n % 8 = 1), then 7-bit groups concatenated, first `7n/8` bytes. -/
def b128Dec (cs : List Nat) : Option (List Nat) :=
  let ds := unescape128 cs
  let dl := ds.length * 7 / 8
  if (dl * 8 + 6) / 7 != ds.length then none
  else some (radixBytes 7 dl ds)

/-! ## Base85: encoding/ascii85 with the repo's substitution -/

def a85Digits (v : Nat) : List Nat :=
  [v / 52200625 % 85 + 33, v / 614125 % 85 + 33, v / 7225 % 85 + 33, v / 85 % 85 + 33, v % 85 + 33]

def be32 (a b c d : Nat) : Nat := a * 16777216 + b * 65536 + c * 256 + d

/-- ascii85.Encode: what it reports as written (`n` bytes) -/
def a85Enc : List Nat → List Nat
  | [] => []
  | [a] => (a85Digits (be32 a 0 0 0)).take 2
  | [a, b] => (a85Digits (be32 a b 0 0)).take 3
  | [a, b, c] => (a85Digits (be32 a b c 0)).take 4
  | a :: b :: c :: d :: rest =>
    if be32 a b c d == 0 then 122 :: a85Enc rest else a85Digits (be32 a b c d) ++ a85Enc rest

/-- digits of a short final group that ascii85.Encode wrote into the scratch buffer but did not count -/
def a85Spill : List Nat → List Nat
  | [] => []
  | [a] => (a85Digits (be32 a 0 0 0)).drop 2
  | [a, b] => (a85Digits (be32 a b 0 0)).drop 3
  | [a, b, c] => (a85Digits (be32 a b c 0)).drop 4
  | _ :: _ :: _ :: _ :: rest => a85Spill rest

def substOf (pairs : List (Nat × Nat)) (c : Nat) : Nat :=
  match pairs.lookup c with
  | some r => r
  | none => c

/-- `Base85Encoder.Encode`: either `dst[:n]` (repaired) or the whole `MaxEncodedLen` scratch buffer -/
def b85Enc (bs : List Nat) : List Nat :=
  let out := a85Enc bs
  let buf :=
    if Gen.b85EncodeReturnsCount then out
    else
      let w := out ++ a85Spill bs
      w ++ List.replicate ((bs.length + 3) / 4 * 5 - w.length) 0
  buf.map (substOf Gen.b85EncSubst)

def be32Bytes (v : Nat) : List Nat := [v / 16777216 % 256, v / 65536 % 256, v / 256 % 256, v % 256]

/-- ascii85.Decode(dst, src, flush=true) with `len(dst) = cap`; `ndst` bytes already written,
    `v`/`nb` the group accumulator (uint32) and its digit count. -/
def a85DecLoop (cap ndst v nb : Nat) : List Nat → Option (List Nat)
  | [] =>
    if nb == 0 then some []
    else if nb == 1 then none
    else
      let v := match nb with
        | 2 => (v * 614125 + 614124) % 4294967296
        | 3 => (v * 7225 + 7224) % 4294967296
        | _ => (v * 85 + 84) % 4294967296
      some ((be32Bytes v).take (nb - 1))
  | b :: rest =>
    if cap - ndst < 4 then some []                       -- `if len(dst)-ndst < 4 { return }`: no error
    else if b ≤ 32 then a85DecLoop cap ndst v nb rest
    else if b == 122 && nb == 0 then
      (a85DecLoop cap (ndst + 4) 0 0 rest).map ([0, 0, 0, 0] ++ ·)
    else if 33 ≤ b && b ≤ 117 then
      let v := (v * 85 + (b - 33)) % 4294967296
      if nb + 1 == 5 then (a85DecLoop cap (ndst + 4) 0 0 rest).map (be32Bytes v ++ ·)
      else a85DecLoop cap ndst v (nb + 1) rest
    else none

/-- `Base85Encoder.Decode` -/
def b85Dec (data : List Nat) : Option (List Nat) :=
  let source := data.map (substOf Gen.b85DecSubst)
  a85DecLoop (Gen.b85DecodeBufFactor * source.length) 0 0 0 source

/-! ## Base91 (mtraver/base91 = Henke's basE91) -/

/-- `Encoding.Encode`: `q` = queue, `nb` = numBits; output = digit values (0..90) -/
def b91EncLoop (q nb : Nat) : List Nat → List Nat
  | [] =>
    if nb > 0 then
      if nb > 7 ∨ q > 90 then [q % 91, q / 91] else [q % 91]
    else []
  | x :: rest =>
    let q := q + x * 2 ^ nb                   -- queue |= uint(src[i]) << numBits   (queue < 2^numBits)
    let nb := nb + 8
    if nb > 13 then
      if q % 8192 > 88 then
        (q % 8192 % 91) :: (q % 8192 / 91) :: b91EncLoop (q / 8192) (nb - 13) rest
      else
        (q % 16384 % 91) :: (q % 16384 / 91) :: b91EncLoop (q / 16384) (nb - 14) rest
    else b91EncLoop q nb rest

def b91Enc (bs : List Nat) : List Nat := (b91EncLoop 0 0 bs).map (alphaChar Gen.cb91)

/-- `k` little-endian bytes of `q` -/
def bytesLE : Nat → Nat → List Nat
  | 0, _ => []
  | k + 1, q => q % 256 :: bytesLE k (q / 256)

/-- `Encoding.Decode` on digit values; `v` = the pending first digit of a pair -/
def b91DecLoop (q nb : Nat) (v : Option Nat) : List Nat → List Nat
  | [] =>
    match v with
    | none => []
    | some v => [(q + v * 2 ^ nb) % 256]
  | d :: rest =>
    match v with
    | none => b91DecLoop q nb (some d) rest
    | some v0 =>
      let v := v0 + d * 91
      let q := q + v * 2 ^ nb
      let nb := nb + (if v % 8192 > 88 then 13 else 14)
      -- do { dst[n] = byte(queue); queue >>= 8; numBits -= 8 } while numBits > 7   (numBits >= 13 here)
      bytesLE (nb / 8) q ++ b91DecLoop (q / 256 ^ (nb / 8)) (nb % 8) none rest

def b91Dec (cs : List Nat) : Option (List Nat) :=
  if cs.all (fun c => (alphaIdx Gen.cb91 c).isSome) then
    some (b91DecLoop 0 0 none (cs.filterMap (alphaIdx Gen.cb91)))
  else none

/-! ## Base192, as written (uint16 `val/bufNum`, `byte(...)` truncation) -/

def b192EncStep (wb buf val : Nat) : List Nat × Nat × Nat :=
  let data := val >>> wb
  let rem := val - (data <<< wb)
  let elem := buf ||| data
  ([elem / 192 % 256, elem % 192], (if wb + 1 == 16 then 1 else wb + 1), (rem <<< (15 - wb)) % 65536)

def b192EncLoop (wb buf : Nat) (last : Bool) : List Nat → List Nat
  | [] =>
    let wb := wb - 1
    if wb == 0 || (wb == 7 && last) then []
    else if wb == 7 || !last then [buf / 192 % 256]
    else []
  | [a] =>
    let r := b192EncStep wb buf (a * 256)
    r.1 ++ b192EncLoop r.2.1 r.2.2 true []
  | a :: b :: rest =>
    let r := b192EncStep wb buf (a * 256 + b)
    r.1 ++ b192EncLoop r.2.1 r.2.2 false rest

def b192Enc (bs : List Nat) : List Nat := b192EncLoop 1 0 false bs

def b192DecStep (wb buf val : Nat) : List Nat × Nat × Nat :=
  let decoded := ((val >>> 8) * 192) ||| (val &&& 255)
  let out :=
    if wb != 1 then
      let buf := buf ||| (decoded >>> (16 - wb))
      [buf >>> 8 % 256, buf &&& 255]
    else []
  (out, (if wb + 1 == 15 then 0 else wb + 1), (decoded <<< wb) % 65536)

def b192DecLoop (wb buf : Nat) : List Nat → List Nat
  | [] => []
  | [a] =>
    let r := b192DecStep wb buf (a * 256)
    r.1
  | a :: b :: rest =>
    let r := b192DecStep wb buf (a * 256 + b)
    r.1 ++ b192DecLoop r.2.1 r.2.2 rest

def b192Dec (cs : List Nat) : Option (List Nat) := some (b192DecLoop 1 0 cs)

/-! ## registry -/

inductive Codec | b32 | b64 | b64u | b85 | b91 | b128 | b192 | raw
  deriving DecidableEq, Repr

def Codec.ofName : String → Option Codec
  | "b32" => some .b32 | "b64" => some .b64 | "b64u" => some .b64u | "b85" => some .b85
  | "b91" => some .b91 | "b128" => some .b128 | "b192" => some .b192 | "raw" => some .raw
  | _ => none

def Codec.code : Codec → Nat
  | .b32 => Gen.code_b32 | .b64 => Gen.code_b64 | .b64u => Gen.code_b64u | .b85 => Gen.code_b85
  | .b91 => Gen.code_b91 | .b128 => Gen.code_b128 | .b192 => Gen.code_b192 | .raw => Gen.code_raw

/-- expansion ratio as an exact rational (numerator, denominator) -/
def Codec.ratio : Codec → Nat × Nat
  | .b32 => (Gen.ratioNum_b32, Gen.ratioDen_b32) | .b64 => (Gen.ratioNum_b64, Gen.ratioDen_b64)
  | .b64u => (Gen.ratioNum_b64u, Gen.ratioDen_b64u) | .b85 => (Gen.ratioNum_b85, Gen.ratioDen_b85)
  | .b91 => (Gen.ratioNum_b91, Gen.ratioDen_b91) | .b128 => (Gen.ratioNum_b128, Gen.ratioDen_b128)
  | .b192 => (Gen.ratioNum_b192, Gen.ratioDen_b192) | .raw => (Gen.ratioNum_raw, Gen.ratioDen_raw)

/-- the codecs `enc.FromCode` can return, in its order -/
def registry : List Codec := Gen.registryNames.filterMap Codec.ofName

def encode : Codec → List Nat → List Nat
  | .b32 => b32Enc | .b64 => b64EncWith Gen.cb64 | .b64u => b64EncWith Gen.cb64u | .b85 => b85Enc
  | .b91 => b91Enc | .b128 => b128Enc | .b192 => b192Enc | .raw => id

def decode : Codec → List Nat → Option (List Nat)
  | .b32 => b32Dec | .b64 => b64DecWith Gen.cb64 | .b64u => b64DecWith Gen.cb64u | .b85 => b85Dec
  | .b91 => b91Dec | .b128 => b128Dec | .b192 => b192Dec | .raw => some

/-- `enc.FromCode`: upper-case the letter, first registry entry with that code -/
def fromCode (c : Nat) : Option Codec :=
  let c := if Gen.fromCodeUppercases && 97 ≤ c && c ≤ 122 then c - 32 else c
  registry.find? (fun cd => cd.code == c)

/-- DNS-safe byte: not a control character or space (<= 32), not DEL, not '.', not '\\' -/
def dnsSafe (c : Nat) : Bool := 32 < c && c != 127 && c != 46 && c != 92 && c < 256

/-- ⌈num·n/den⌉ -/
def ceilMul (r : Nat × Nat) (n : Nat) : Nat := (r.1 * n + r.2 - 1) / r.2

/-! ## line protocol

`codec <letter> enc <hex>` / `codec <letter> dec <hex>`: one call.

`codec <letter> pair <hexA> <hexB>`, `codec <letter> seq <hex>…`, `codec <letter> par <G> <iters> <hex>…`:
several inputs go through the *same* encoder value; the harness keeps every result (no copy) while the later
calls run (`par`: from G goroutines at once) and prints what the retained results hold **afterwards**.  The
model is pure, so its line is simply "every input encoded, every encoding decoded": model = code on these
ops says that the results of the real encoder are independent values (no result changes under, or shares
memory with, another call). -/

def decTok (cd : Codec) (e : List Nat) : String :=
  match decode cd e with
  | some r => toHex r
  | none => "err"

/-- `E <encodings…> D <decodings of those encodings…>` -/
def seqLine (cd : Codec) (ins : List (List Nat)) : String :=
  let es := ins.map (encode cd)
  " ".intercalate (["E"] ++ es.map toHex ++ ["D"] ++ es.map (decTok cd))

def parseAll (hs : List String) : Option (List (List Nat)) := hs.mapM fromHex

def handle : List String → String
  | l :: op :: r0 :: rs =>
    let rest := r0 :: rs
    match l.toList with
    | [ch] =>
      match fromCode ch.toNat with
      | none => "bad-codec"
      | some cd =>
        if op == "enc" then
          match rest with
          | [hx] => match fromHex hx with
            | some bs => toHex (encode cd bs)
            | none => "bad-op"
          | _ => "bad-op"
        else if op == "dec" then
          match rest with
          | [hx] => match fromHex hx with
            | some bs => decTok cd bs
            | none => "bad-op"
          | _ => "bad-op"
        else if op == "pair" then
          match rest, parseAll rest with
          | [_, _], some ins => seqLine cd ins
          | _, _ => "bad-op"
        else if op == "seq" then
          match rest, parseAll rest with
          | _ :: _, some ins => seqLine cd ins
          | _, _ => "bad-op"
        else if op == "par" then
          match rest with
          | g :: it :: hs =>
            match g.toNat?, it.toNat?, hs, parseAll hs with
            | some _, some _, _ :: _, some ins => seqLine cd ins
            | _, _, _, _ => "bad-op"
          | _ => "bad-op"
        else "bad-op"
    | _ => "bad-op"
  | _ => "bad-op"

end SA.Codec

import SA.Model.DnsSessions
namespace SA.Drv.DnsServer
/-- component keyword → handler over the remaining tokens of the line -/
def entries : List (String × (List String → String)) :=
  [("dnssess", SA.DnsServer.handle)]
end SA.Drv.DnsServer

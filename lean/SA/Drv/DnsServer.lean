import SA.Model.DnsSessions
import SA.Model.DnsServerClient
namespace SA.Drv.DnsServer
/-- component keyword → handler over the remaining tokens of the line -/
def entries : List (String × (List String → String)) :=
  [("dnssess", SA.DnsServer.handle), ("dnsexpire", SA.DnsServer.handle), ("dnsfuzz", SA.DnsClient.handle)]
end SA.Drv.DnsServer

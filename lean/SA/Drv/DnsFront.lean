import SA.Model.DnsFront
namespace SA.Drv.DnsFront
def entries : List (String × (List String → String)) := [("dnsfront", SA.DnsFront.handle)]
end SA.Drv.DnsFront

/-
  Line-protocol driver for `hs-server` / `hs-client` (C06, C04): parses the op line the harness
  documents in go/harness/c06_handshake.go and prints the model's canonical result.
-/
import SA.Model.Handshake
import SA.Model.Security
namespace SA.Drv.Handshake
open SA SA.Handshake SA.Security

def strOf (b : B) : String := String.ofList (b.map Char.ofNat)

/-- `<hex>` or `<n>*<hex>` -/
def parsePart (p : String) : Option B :=
  match p.splitOn "*" with
  | [h] => fromHex h
  | [n, h] => do
    let k ← n.toNat?
    let b ← fromHex h
    pure (List.replicate k b).flatten
  | _ => none

def parseScript (s : String) : Option B :=
  if s = "-" then some [] else do
    let parts ← (s.splitOn ",").mapM parsePart
    pure parts.flatten

def chunksOf (k : Nat) (fuel : Nat) (d : B) : List B :=
  match fuel with
  | 0 => []
  | f + 1 => if d.isEmpty then [] else d.take k :: chunksOf k f (d.drop k)

def cutAt (d : B) (prev : Nat) : List Nat → List B
  | [] => if prev < d.length then [d.drop prev] else []
  | o :: os =>
    let o := min o d.length
    if o > prev then ((d.drop prev).take (o - prev)) :: cutAt d o os else cutAt d prev os

def applySeg (seg : String) (d : B) : Option (List B) :=
  match seg.toList with
  | ['a'] => some (if d.isEmpty then [] else [d])
  | ['b'] => some (d.map fun x => [x])
  | 'n' :: ks => do
    let k ← (String.ofList ks).toNat?
    if k = 0 then none else pure (chunksOf k (d.length + 1) d)
  | 'c' :: os => do
    let offs ← ((String.ofList os).splitOn ".").mapM String.toNat?
    pure (cutAt d 0 offs)
  | _ => none

structure Peer where
  tls : Bool
  after : B

def parsePeer (s : String) : Option Peer :=
  if s = "eof" then some ⟨false, []⟩
  else if s = "tls" then some ⟨true, []⟩
  else if s.startsWith "plain:" then (fromHex (String.ofList (s.toList.drop 6))).map fun b => ⟨false, b⟩
  else none

def parseCert : String → Option CertMode
  | "nil" => some .nil | "ok" => some .ok | "err" => some .err
  | "empty" => some .empty | "nilcfg" => some .nilcfg | "okerr" => some .okerr
  | _ => none

def techStr : Tech → String
  | .none => strOf Gen.securityNone
  | .underlying => strOf Gen.securityUnderlying
  | .tls => strOf Gen.securityTls

def statusLine (code : Nat) : String := "HTTP/1.1 " ++ strOf (statusText code)

def wroteStr (w : Wrote) : String :=
  statusLine w.code ++ "{" ++ ";".intercalate (w.headers.map fun kv => strOf kv.1 ++ ": " ++ strOf kv.2) ++ "}"

def hexCap (b : B) : String :=
  if b.length > 256 then toHex (b.take 256) ++ ".." ++ toString b.length else toHex b

def srvStr (r : SrvResult) : String :=
  let w := " w=" ++ "|".intercalate (r.written.map wroteStr)
  match r.out with
  | .established v t s l =>
    "established " ++ toHex v ++ " " ++ techStr t ++ " secure=" ++ boolStr s ++ " left=" ++
      (if t = .tls then "app-ok" else toHex l) ++ w
  | .refused st => "refused " ++ toString st ++ w
  | .closed => "closed" ++ w
  | .tlsfail => "closed" ++ w
  | .panic => "PANIC"

def combine (rs : List String) : String :=
  match rs with
  | [] => "bad-op"
  | r0 :: rest =>
    if rest.all (· == r0) then r0 ++ " segs=" ++ toString rs.length
    else "DIFF " ++ " || ".intercalate rs

def withAfter (cs : List B) (p : Peer) : List B := if p.after.isEmpty then cs else cs ++ [p.after]

def handleServerOne (toks : List String) : String :=
  match toks with
  | [sec, cert, peer, script, segs] =>
    match parseCert cert, parsePeer peer, parseScript script with
    | some cm, some p, some d =>
      let cfg : SrvCfg := ⟨sec == "1", cm⟩
      let tls : B → Bool := fun left => p.tls && left.isEmpty
      match (segs.splitOn "/").mapM (fun s => applySeg s d) with
      | some css => combine (css.map fun cs => srvStr (serverRun cfg tls (withAfter cs p)))
      | none => "bad-op"
    | _, _, _ => "bad-op"
  | _ => "bad-op"

def cliStr (must : String) (r : CliResult) : String :=
  let w := " w=" ++ toString r.requests ++ " req2=" ++ (if r.requests ≥ 2 then hexCap r.req2 else "-")
  match guard (must == "1") r with
  | .ok v t s l =>
    "established " ++ hexCap v ++ " " ++ techStr t ++ " secure=" ++ boolStr s ++ " left=" ++
      (if t = .tls then "app-ok" else toHex l) ++ w
  | .insecureRejected => "insecure-rejected" ++ w
  | .failed (.refused st) => "refused " ++ toString st ++ w
  | .failed .tlsfail => "tlsfail" ++ w
  | .failed .panic => "PANIC"
  | .failed _ => "error" ++ w

def handleClientOne (toks : List String) : String :=
  match toks with
  | [sec, mgr, must, peer, script, segs] =>
    match parsePeer peer, parseScript script with
    | some p, some d =>
      -- what crypto/tls does with the harness certificate under each client configuration (hypothesis table)
      let accepts := mgr == "skip" || (mgr == "verify" && must == "-")
      let tls : B → Bool := fun left => p.tls && accepts && left.isEmpty
      match (segs.splitOn "/").mapM (fun s => applySeg s d) with
      | some css => combine (css.map fun cs => cliStr must (clientRun (sec == "1") tls (withAfter cs p)))
      | none => "bad-op"
    | _, _ => "bad-op"
  | _ => "bad-op"

/-! ## several connections at the same moment (`par <G> <iters> <op> ; <op> ; …`)

  The models are functions of the one connection's configuration and byte stream: nothing a handshake could leave
  behind for, or share with, another one.  So the model of G goroutines handling the listed connections at the same
  moment, again and again, is the list of the single outcomes — whatever G, the repetitions and the interleaving. -/

/-- split an op list at the separator token `;` -/
def splitOps : List String → List (List String)
  | [] => [[]]
  | t :: rest =>
    match splitOps rest with
    | [] => [[t]]          -- unreachable: splitOps never returns []
    | cur :: more => if t == ";" then [] :: cur :: more else (t :: cur) :: more

/-- outcomes of a batch: pointwise the outcomes of the single connections -/
def handleBatch (one : List String → String) (ops : List (List String)) : List String := ops.map one

def handlePar (one : List String → String) : List String → String
  | "par" :: g :: iters :: rest =>
    let ops := splitOps rest
    if g.toNat?.isNone || iters.toNat?.isNone || ops.any (fun o => o.isEmpty || o.head? == some "par") then "bad-op"
    else String.intercalate " ; " (handleBatch one ops)
  | ts => one ts

def handleServer : List String → String := handlePar handleServerOne
def handleClient : List String → String := handlePar handleClientOne

def entries : List (String × (List String → String)) :=
  [("hs-server", handleServer), ("hs-client", handleClient)]

end SA.Drv.Handshake

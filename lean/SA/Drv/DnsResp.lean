import SA.Model.DnsResp
namespace SA.Drv.DnsResp
def entries : List (String × (List String → String)) := [("dnsresp", SA.DnsResp.handle)]
end SA.Drv.DnsResp

import SA.Model.TrustSource
namespace SA.Drv.TrustSource
/-- component keyword → handler over the remaining tokens of the line -/
def entries : List (String × (List String → String)) :=
  [("cafault", SA.TrustSource.handleCafault)]
end SA.Drv.TrustSource

import SA.Model.Codec
namespace SA.Drv.Codec
/-- component keyword → handler over the remaining tokens of the line -/
def entries : List (String × (List String → String)) := [("codec", SA.Codec.handle)]
end SA.Drv.Codec

import SA.Model.DnsReq
namespace SA.Drv.DnsReq
def entries : List (String × (List String → String)) := [("dnsreq", SA.DnsReq.handle)]
end SA.Drv.DnsReq

import SA.Model.DnsExchange
import SA.Model.DnsWrites
namespace SA.Drv.DnsExchange
def entries : List (String × (List String → String)) :=
  [("dnsretry", SA.DnsExchange.handle), ("dnswrites", SA.DnsWrites.handle),
   ("dnspoll", SA.DnsWrites.handlePoll)]
end SA.Drv.DnsExchange

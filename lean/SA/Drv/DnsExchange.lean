import SA.Model.DnsExchange
namespace SA.Drv.DnsExchange
def entries : List (String × (List String → String)) := [("dnsretry", SA.DnsExchange.handle)]
end SA.Drv.DnsExchange

import SA.Model.DnsExchange
import SA.Model.DnsWrites
import SA.Model.DnsAnswers
namespace SA.Drv.DnsExchange
def entries : List (String × (List String → String)) :=
  [("dnsretry", SA.DnsAnswers.handle), ("dnswrites", SA.DnsWrites.handle),
   ("dnspoll", SA.DnsWrites.handlePoll)]
end SA.Drv.DnsExchange

import SA.Model.Socks
namespace SA.Drv.Socks
def entries : List (String × (List String → String)) := [("socks", SA.Socks.handle)]
end SA.Drv.Socks

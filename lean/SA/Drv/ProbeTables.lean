import SA.Model.ProbeTables
namespace SA.Drv.ProbeTables
/-- component keyword → handler over the remaining tokens of the line -/
def entries : List (String × (List String → String)) := [("patterns", SA.ProbeTables.handle)]
end SA.Drv.ProbeTables

import SA.Model.ReqCert
namespace SA.Drv.ReqCert
def entries : List (String × (List String → String)) := [("reqcert", SA.ReqCert.handle)]
end SA.Drv.ReqCert

import SA.Model.Wrappers
namespace SA.Drv.Wrap
/-- component keyword → handler over the remaining tokens of the line -/
def entries : List (String × (List String → String)) := [("wrap", SA.Wrappers.handle)]
end SA.Drv.Wrap

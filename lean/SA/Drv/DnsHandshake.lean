import SA.Model.DnsHandshake
namespace SA.Drv.DnsHandshake
/-- component keyword → handler over the remaining tokens of the line -/
def entries : List (String × (List String → String)) := [("dnshs", SA.DnsHandshake.handle)]
end SA.Drv.DnsHandshake

import SA.Model.Queue
namespace SA.Drv.Queue
/-- component keyword → handler over the remaining tokens of the line -/
def entries : List (String × (List String → String)) := [("queue", SA.Queue.handle)]
end SA.Drv.Queue

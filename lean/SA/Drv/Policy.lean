import SA.Model.Policy
namespace SA.Drv.Policy
def entries : List (String × (List String → String)) := [("policy", SA.Policy.handle), ("polnet", SA.Policy.handlePolnet),
  ("poltls", SA.Policy.handlePoltls)]
end SA.Drv.Policy

import SA.Model.TlsConfig
import SA.Model.TlsServerKinds
namespace SA.Drv.TlsConfig
/-- component keyword → handler over the remaining tokens of the line -/
def entries : List (String × (List String → String)) :=
  [("tlscfg", SA.TlsConfig.handleTlscfg), ("authmatrix", SA.TlsConfig.handleAuthmatrixK),
   ("tlshist", SA.TlsConfig.handleTlshist)]
end SA.Drv.TlsConfig

/-
  Line-protocol driver for `seckinds` (C04 end to end): `<scheme> <scert> <must> <insecure> <ca>`, see
  go/harness/c04_kinds.go.
-/
import SA.Model.Security
import SA.Model.SecSpell
import SA.Model.SecFront
namespace SA.Drv.SecKinds
open SA SA.Handshake SA.Security

def schemes : List String := ["tcp", "tcp+tls", "ws", "wss", "udp", "stdio", "stdio+tls", "dns"]

def bit? : String → Option Bool
  | "0" => some false | "1" => some true | _ => none

def techStr : Tech → String
  | .none => String.ofList (Gen.securityNone.map Char.ofNat)
  | .underlying => String.ofList (Gen.securityUnderlying.map Char.ofNat)
  | .tls => String.ofList (Gen.securityTls.map Char.ofNat)

def b01 (b : Bool) : String := if b then "1" else "0"

def firstStr : Option Bool → String
  | none => "na" | some true => "tls" | some false => "plain"

def spellOk (s : String) : Bool :=
  s.toList.all (fun ch => (ch ≥ 'a' && ch ≤ 'z') || (ch ≥ '0' && ch ≤ '9') || ch == '+')

/-- the rewrites of the opening request the harness knows (go/harness/c04_inject.go, same list) -/
def injections : List String :=
  ["none", "ctl", "xff", "xfp", "xfpuc", "xfplist", "xfpwss", "fwd", "xfssl", "feh", "xurl", "xscheme", "xfport", "cfv", "tlsinfo",
   "origin", "host443", "absurl", "abswss", "query", "subproto", "all"]

def srvStr : Option Bool → String
  | none => "none" | some true => "stls" | some false => "nostls"

def parseFront (s : String) : Option Front :=
  if s.startsWith "inj:" then (if injections.any (fun n => s == "inj:" ++ n) then some .inject else none) else
  if s == "srvpw" then some .srvpw else
  if s == "pass" then some .pass else if s == "tlsdrop" then some .tlsdrop else if s == "loop" then some .loop
  else if s == "s200" || s == "s404" then some .status
  else match s.splitOn ":" with
    | [c, t] =>
      if !["r301", "r302", "r303", "r307", "r308"].contains c then none
      else if t == "ws" || t == "http" then some (.redirect false)
      else if t == "wss" || t == "https" then some (.redirect true)
      else none
    | _ => none

def handle (toks : List String) : String :=
  match toks with
  | [sp, fr, t, a, b, c, d] =>
    if !spellOk sp then "bad-op" else
    match parseFront fr, bit? t, bit? a, bit? b, bit? c, bit? d with
    | some f, some stls, some scert, some must, some insecure, some ca =>
      let srv := if f == .inject then " srv=" ++ srvStr (srvAdvert sp.toList scert) else ""
      match cellFront sp.toList f stls scert must insecure ca with
      | .badscheme => "badscheme"
      | .noserver => "noserver"
      | .refused => "refused" ++ srv
      | .est t s echo clear first =>
        "est " ++ techStr t ++ " secure=" ++ b01 s ++ " echo=" ++ (if echo then "ok" else "fail") ++ " wire=" ++
          (if clear then "clear" else "opaque") ++ " first=" ++ firstStr first ++ " hops=" ++ toString (hopsOf sp.toList f) ++ srv
    | _, _, _, _, _, _ => "bad-op"
  | ["spellings"] =>
    -- the candidates of the harness (bases x {"", "+tls"}) are a superset of the regenerated switch, or this line differs
    ",".intercalate ((SA.Schemes.keysOf (SA.Schemes.tableOf .upstream)).toArray.qsort (· < ·)).toList
  | [sp, t, a, b, c, d] =>
    if !spellOk sp then "bad-op" else
    match bit? t, bit? a, bit? b, bit? c, bit? d with
    | some stls, some scert, some must, some insecure, some ca =>
      match cellSpell sp.toList stls scert must insecure ca with
      | .badscheme => "badscheme"
      | .noserver => "noserver"
      | .refused => "refused"
      | .est t s echo clear first =>
        "est " ++ techStr t ++ " secure=" ++ b01 s ++ " echo=" ++ (if echo then "ok" else "fail") ++ " wire=" ++
          (if sp.startsWith "dns" then "na" else if clear then "clear" else "opaque") ++ " first=" ++ firstStr first
    | _, _, _, _, _ => "bad-op"
  | [scheme, a, b, c, d] =>
    if !schemes.contains scheme then "bad-op" else
    match bit? a, bit? b, bit? c, bit? d with
    | some scert, some must, some insecure, some ca =>
      match cell scheme scert must insecure ca with
      | .noserver => "noserver"
      | .refused => "refused"
      | .est t s echo clear =>
        "est " ++ techStr t ++ " secure=" ++ b01 s ++ " echo=" ++ (if echo then "ok" else "fail") ++ " wire=" ++
          (if scheme == "dns" then "na" else if clear then "clear" else "opaque")
    | _, _, _, _ => "bad-op"
  | _ => "bad-op"

def entries : List (String × (List String → String)) := [("seckinds", handle)]

end SA.Drv.SecKinds

import SA.Model.AcceptFail
namespace SA.Drv.Accept
def entries : List (String × (List String → String)) := [("hol", SA.Accept.handleHol), ("stall", SA.Accept.handleStallF), ("xtalk", SA.Accept.handleXtalk), ("isolate", SA.Accept.handleIsolate), ("recon", SA.Accept.handleRecon)]
end SA.Drv.Accept

import SA.Model.DnsLoss
namespace SA.Drv.DnsLoss
def entries : List (String × (List String → String)) := [("dnsloss", SA.DnsLoss.handle)]
end SA.Drv.DnsLoss

import SA.Model.ReadAhead
namespace SA.Drv.ReadAhead
def entries : List (String × (List String → String)) := [("readahead", SA.ReadAhead.handle)]
end SA.Drv.ReadAhead

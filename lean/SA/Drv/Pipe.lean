import SA.Model.Pipe
namespace SA.Drv.Pipe
def entries : List (String × (List String → String)) := [("pipe", SA.Pipe.handle), ("life", SA.Pipe.handleLife), ("burst", SA.Pipe.handleBurst), ("stdiol", SA.Pipe.handleStdiol)]
end SA.Drv.Pipe

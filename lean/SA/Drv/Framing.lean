import SA.Model.Framing
namespace SA.Drv.Framing
def entries : List (String × (List String → String)) := [("framing", SA.Framing.handle), ("bytes", SA.Framing.handleBytes)]
end SA.Drv.Framing

/- Line-protocol driver for `certfault` (C04): `<client spelling> <fault> <must>`, see go/harness/c04_certfault.go. -/
import SA.Model.CertFault
namespace SA.Drv.CertFault

def entries : List (String × (List String → String)) := [("certfault", SA.CertFault.handle)]

end SA.Drv.CertFault

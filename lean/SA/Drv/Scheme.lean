import SA.Model.Schemes
namespace SA.Drv.Scheme
/-- component keyword → handler over the remaining tokens of the line -/
def entries : List (String × (List String → String)) := [("scheme", SA.Schemes.handle)]
end SA.Drv.Scheme

import SA.Model.Routing
namespace SA.Drv.Route
/-- component keyword → handler over the remaining tokens of the line -/
def entries : List (String × (List String → String)) := [("route", SA.Routing.handle), ("expose", SA.Routing.handleExpose)]
end SA.Drv.Route

import SA.Model.DnsCommit
namespace SA.Drv.DnsCommit
/-- component keyword → handler over the remaining tokens of the line -/
def entries : List (String × (List String → String)) := [("dnscommit", SA.DnsCommit.handle)]
end SA.Drv.DnsCommit

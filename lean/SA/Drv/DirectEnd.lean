import SA.Model.DirectEnd
namespace SA.Drv.DirectEnd
def entries : List (String × (List String → String)) := [("poldirect", SA.DirectEnd.handle)]
end SA.Drv.DirectEnd

/-
  C10, continued — the tunnel domain as configured.

  Wrapping writes the configured domain into the MX / CNAME / SRV target (`PrepareHostname`, WrapDnsResponseSrv)
  and unwrapping removes `len(domain)+2` characters; the two sides agree only if the domain comes back from
  the wire as long as it was written.  The model takes the domain as the byte string of the configuration
  (any spelling: final dot, case, one label or many, long, characters that need escaping, malformed) and the
  `dnsresp` / `dnsreq` correspondence drives every spelling class through the real code.  What the current
  code does for a domain written *fully qualified* (with its final dot) is stated here: the target gets two
  dots at its end, which is not a DNS name, so nothing is sent — a reported failure, for every name-carrying
  record type, codec, response and payload; never a decoded response.  (A change that makes one side accept
  the final dot without the other makes the client cut one character too many — that is what the monitor
  `silent difference` exhibits; this theorem is the model's side of "lossless or reported".)
-/
import SA.Props.C10
import SA.Proofs.DnsDomain
namespace SA.DnsResp
open SA.DnsWire SA.WireCodec SA.DnsReq

theorem b32Char_ne_bsl (n : Nat) : b32Char n ≠ bsl := by
  have h : ∀ i, i < 32 → SA.Gen.C09.c09cb32.getD i 0 ≠ 92 := by decide
  exact h (n % 32) (Nat.mod_lt _ (by decide))

/-- the first record of a name-carrying answer, when there is data -/
theorem nameRecs_head (maxLen : Nat) (mk : Nat → List Nat → Option RR) (fuel o : Nat) (data : List Nat)
    (hd : data ≠ []) (recs : List RR) (h : nameRecs maxLen mk (fuel + 1) o data = some recs) :
    ∃ rr rest, mk o (data.take maxLen) = some rr ∧ recs = rr :: rest := by
  have he : data.isEmpty = false := by cases data <;> simp_all
  simp only [nameRecs, he, Bool.false_eq_true, if_false] at h
  cases hm : mk o (data.take maxLen) with
  | none => simp [hm] at h
  | some rr =>
    simp only [hm] at h
    cases hr : nameRecs maxLen mk fuel (o + 1) (data.drop maxLen) with
    | none => simp [hr] at h
    | some rest => simp [hr] at h; exact ⟨rr, rest, rfl, h.symm⟩

theorem answersOverWire_head_pack (r : RR) (rest : List RR) (h : rrOverWire r = .error .pack) :
    answersOverWire (r :: rest) = .error .pack := by
  simp [answersOverWire, h]

/-- **C10, a tunnel domain written with its final dot is a reported failure** for MX, CNAME and SRV answers:
    every codec, every response, every payload (without backslashes in the encoded stream — all selectable
    codecs but Raw/Base85/Base91… see `C10_exception`), every domain text `p` without backslashes: the outcome
    is an error from wrapping or from packing; the client never decodes anything. -/
theorem C10_fqdn_domain_reported (b32 down : Codec) (t : RRType) (ht : isName t = true)
    (p : List Nat) (r : Resp)
    (hp : ∀ c ∈ p, c ≠ bsl) (hdata : ∀ c ∈ encodeResp b32 down r, c ≠ bsl) :
    roundTrip b32 down t (p ++ [dot]) r = .encError ∨ roundTrip b32 down t (p ++ [dot]) r = .packError := by
  have hne := encodeResp_ne_nil b32 down r
  generalize hdt : encodeResp b32 down r = data at hdata hne
  have hlen : data.length = (data.length - 1) + 1 := by
    cases data with
    | nil => exact absurd rfl hne
    | cons _ _ => simp
  have htake : ∀ k, ∀ c ∈ data.take k, c ≠ bsl := fun k c hc => hdata c (List.mem_of_mem_take hc)
  cases hw : wrap t (p ++ [dot]) data with
  | none => left; unfold roundTrip; simp [hdt, hw]
  | some answers =>
    right
    have hpack : answersOverWire answers = .error .pack := by
      cases t with
      | null => simp [isName] at ht
      | priv => simp [isName] at ht
      | txt => simp [isName] at ht
      | aaaa => simp [isName] at ht
      | a => simp [isName] at ht
      | cname =>
        simp only [wrap] at hw
        split at hw
        · cases hw
        · rw [hlen] at hw
          obtain ⟨rr, rest, hmk, rfl⟩ := nameRecs_head _ _ _ _ _ hne _ hw
          obtain ⟨host, hh, rfl⟩ := Option.map_eq_some_iff.mp hmk
          · apply answersOverWire_head_pack
            have := prepareHostname_fqdn _ p host hh (by
              intro c hc
              rcases List.mem_append.mp hc with h | h
              · simp only [orderTag, List.mem_cons, List.mem_nil_iff, or_false] at h
                rcases h with h | h <;> rw [h] <;> exact b32Char_ne_bsl _
              · exact htake _ c h) hp
            simp only [rrOverWire, this]
            rfl
      | mx =>
        simp only [wrap] at hw
        split at hw
        · cases hw
        · rw [hlen] at hw
          obtain ⟨rr, rest, hmk, rfl⟩ := nameRecs_head _ _ _ _ _ hne _ hw
          obtain ⟨host, hh, rfl⟩ := Option.map_eq_some_iff.mp hmk
          · apply answersOverWire_head_pack
            have := prepareHostname_fqdn _ p host hh (htake _) hp
            simp only [rrOverWire, this]
            rfl
      | srv =>
        simp only [wrap] at hw
        split at hw
        · cases hw
        · rw [hlen] at hw
          obtain ⟨rr, rest, hmk, rfl⟩ := nameRecs_head _ _ _ _ _ hne _ hw
          simp only [Option.some.injEq] at hmk
          subst hmk
          apply answersOverWire_head_pack
          have : data.take (longestDataString (p ++ [dot]).length).toNat ++ dot :: (p ++ [dot] ++ [dot])
              = (data.take (longestDataString (p ++ [dot]).length).toNat ++ dot :: p) ++ [dot, dot] := by simp
          simp only [rrOverWire, this]
          rw [nameOverWire_dotdot]
          · rfl
          · intro c hc
            rcases List.mem_append.mp hc with h | h
            · exact htake _ c h
            · rcases List.mem_cons.mp h with h | h
              · rw [h]; decide
              · exact hp c h
    unfold roundTrip
    simp only [hdt, hw, hpack]
    split <;> rfl

/-- non-vacuity, and the spelling of the seeded regression: "t.example.org." over MX, CNAME and SRV with the
    local Base32 is a pack error in the model (as in the unchanged code), and the same domain without the dot
    round-trips -/
example : ∀ t ∈ [RRType.mx, RRType.cname, RRType.srv],
    roundTrip base32 base32 t [116, 46, 101, 120, 46] (.packet none 4660 (some (17185, [11, 48, 85, 122, 159])))
      = .packError
    ∧ roundTrip base32 base32 t [116, 46, 101, 120] (.packet none 4660 (some (17185, [11, 48, 85, 122, 159])))
      = .ok 1 17 (.packet none 4660 (some (17185, [11, 48, 85, 122, 159]))) := by decide

/-- the other record types do not look at the domain's spelling: the same response arrives -/
example : ∀ t ∈ [RRType.null, RRType.priv, RRType.txt],
    roundTrip base32 base32 t [116, 46, 101, 120, 46] (.packet none 4660 (some (17185, [11, 48, 85, 122, 159])))
      = .ok 1 17 (.packet none 4660 (some (17185, [11, 48, 85, 122, 159]))) := by decide

end SA.DnsResp

#print axioms SA.DnsResp.C10_fqdn_domain_reported

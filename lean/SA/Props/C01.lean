/-
  C01 — End-to-end byte-stream fidelity over every transport (the socketace glue; transports are
  hypotheses).

  What is proved here, for all payloads, all segmentations chosen by the transports and all caller
  buffer sizes:
    * the copy loop of `streams.pipeData` writes exactly the bytes it reads          (copy_loop)
    * the buffered reader left in the read path after the handshake conserves the stream (bufio_handoff)
    * `WebsocketTunnelConnection.Write` splits a write into messages ≤ BufferSize whose
      concatenation is the write                                                    (ws_split)
    * the websocket read path conserves the stream and never fails — *iff the regenerated fact
      `Gen.wsReadKeepsTail` is true*                                                (ws_keeps_tail, ws_stream)
    * any stack of lawful layers is lawful, so the two copy loops composed with a lawful carrier
      deliver exactly what was written                                              (stack_preserves)
  Third-party transports (TCP, unix, TLS, smux stream, KCP, io.Pipe, gorilla message delivery) enter as
  the hypothesis `Reader.Lawful`; the e2e correspondence samples that hypothesis, it does not prove it.
-/
import SA.Proofs.Framing
import SA.Proofs.ReadAhead
import SA.Gen.C17ReadAhead
import SA.Gen.PkgVars
import SA.Gen.LoopVars
import SA.Proofs.DnsLoss
namespace SA.Framing

/-- a reader layer: `read s n` returns at most … bytes and the next state; `content` = bytes it still owes -/
structure Reader (σ : Type) where
  read : σ → Nat → List Nat × σ
  content : σ → List Nat

/-- stream contract: a read hands over a prefix of what is owed (nothing lost, duplicated, reordered)
    and makes progress while something is owed -/
def Reader.Lawful {σ : Type} (r : Reader σ) : Prop :=
  (∀ s n, (r.read s n).1 ++ r.content (r.read s n).2 = r.content s) ∧
  (∀ s n, 0 < n → r.content s ≠ [] → (r.read s n).1 ≠ [])

/-- io.CopyBuffer over any reader: the list of chunks written -/
def Reader.copy {σ : Type} (r : Reader σ) (bufSize : Nat) : Nat → σ → List (List Nat)
  | 0, _ => []
  | fuel + 1, s =>
      let x := r.read s bufSize
      if x.1 = [] then [] else x.1 :: r.copy bufSize fuel x.2

/-- bufio.Reader of buffer `size` stacked on any reader -/
def Reader.buffered {σ : Type} (r : Reader σ) (size : Nat) : Reader (List Nat × σ) where
  read := fun (buf, s) n =>
    if buf ≠ [] then (buf.take n, (buf.drop n, s))
    else if size ≤ n then let x := r.read s n; (x.1, ([], x.2))
    else let x := r.read s size; (x.1.take n, (x.1.drop n, x.2))
  content := fun (buf, s) => buf ++ r.content s

def srcReader : Reader Src := { read := srcRead, content := List.flatten }

theorem srcReader_lawful : srcReader.Lawful :=
  ⟨srcRead_conserve, fun s n hn hc => srcRead_progress s n hn hc⟩

/-- **copy_loop**: the chunks written by the copy loop concatenate to exactly what the reader owed. -/
theorem C01_copy_loop_preserves {σ : Type} (r : Reader σ) (hl : r.Lawful) (bufSize : Nat) (hb : 0 < bufSize)
    (s : σ) (fuel : Nat) (hf : (r.content s).length < fuel) :
    (r.copy bufSize fuel s).flatten = r.content s := by
  induction fuel generalizing s with
  | zero => omega
  | succ k ih =>
    simp only [Reader.copy]
    have hc := hl.1 s bufSize
    split
    · rename_i h
      by_cases he : r.content s = []
      · simp [he]
      · exact absurd h (hl.2 s bufSize hb he)
    · rename_i h
      simp only [List.flatten_cons]
      have hlen : (r.content (r.read s bufSize).2).length < k := by
        have : (r.read s bufSize).1.length + (r.content (r.read s bufSize).2).length = (r.content s).length := by
          rw [← List.length_append, hc]
        have hpos : 0 < (r.read s bufSize).1.length := List.length_pos_iff.mpr h
        omega
      rw [ih _ hlen, hc]

/-- the copy loop in debug mode (`SOCKETACE_PIPE_DEBUG=1`): the destination is `io.MultiWriter(w, logWriter)`, so every
    chunk goes to `w` first and then to the log writer; when that one reports a count other than the chunk's length the
    copy ends with io.ErrShortWrite after the chunk it has just forwarded.  `logCount` = what logWriter.Write reports. -/
def Reader.copyDbg {σ : Type} (r : Reader σ) (logCount : List Nat → Nat) (bufSize : Nat) : Nat → σ → List (List Nat)
  | 0, _ => []
  | fuel + 1, s =>
      let x := r.read s bufSize
      if x.1 = [] then []
      else if logCount x.1 = x.1.length then x.1 :: r.copyDbg logCount bufSize fuel x.2
      else [x.1]

/-- **debug_copy**: with a log writer that reports every chunk as fully written the debug-mode copy loop writes exactly
    what the plain one writes (hence everything `C01_copy_loop_preserves` says holds for it). -/
theorem C01_debug_copy_is_copy {σ : Type} (r : Reader σ) (logCount : List Nat → Nat) (hl : ∀ c, logCount c = c.length)
    (bufSize fuel : Nat) (s : σ) : r.copyDbg logCount bufSize fuel s = r.copy bufSize fuel s := by
  induction fuel generalizing s with
  | zero => rfl
  | succ k ih =>
    simp only [Reader.copyDbg, Reader.copy, hl, ↓reduceIte]
    split
    · rfl
    · rw [ih]

/-- streams/pipes.go logWriter.Write returns `len(p), nil` (regenerated) -/
theorem C01_log_writer_reports_all : Gen.logWriterReturnsLen = true := by decide

/-- **witness_short_log**: a log writer that reports at most 2 bytes cuts the stream after the first longer chunk. -/
theorem C01_witness_short_log :
    (srcReader.copyDbg (fun c => min c.length 2) 8 10 [[1, 2, 3], [4, 5]]).flatten = [1, 2, 3] ∧
    (srcReader.copy 8 10 [[1, 2, 3], [4, 5]]).flatten = [1, 2, 3, 4, 5] := by decide

/-- **stack_preserves (one layer)**: putting the handshake's buffered reader on top of a lawful
    layer gives a lawful layer — whatever the buffer size and the caller's read sizes. -/
theorem C01_buffered_lawful {σ : Type} (r : Reader σ) (hl : r.Lawful) (size : Nat) (hs : 0 < size) :
    (r.buffered size).Lawful := by
  constructor
  · rintro ⟨buf, s⟩ n
    simp only [Reader.buffered]
    split
    · simp [← List.append_assoc]
    · rename_i h
      have hb : buf = [] := by simpa using h
      subst hb
      split
      · simpa using hl.1 s n
      · simp only [List.nil_append]
        rw [← List.append_assoc, List.take_append_drop]; exact hl.1 s size
  · rintro ⟨buf, s⟩ n hn hc
    simp only [Reader.buffered] at hc ⊢
    split
    · rename_i h
      cases buf with
      | nil => simp at h
      | cons x xs => cases n with
        | zero => omega
        | succ k => simp
    · rename_i h
      have hb : buf = [] := by simpa using h
      subst hb
      have hsrc : r.content s ≠ [] := by simpa using hc
      split
      · exact hl.2 s n hn hsrc
      · have := hl.2 s size hs hsrc
        cases hr : (r.read s size).1 with
        | nil => exact absurd hr this
        | cons x xs => cases n with
          | zero => omega
          | succ k => simp [hr]

/-- **bufio_handoff** on the model of the code (buffer = `Gen.maxHeaderSize`): for every sequence of
    caller buffer sizes, what has been returned so far followed by what the reader still owes is the
    original stream. -/
def readsBuf (size : Nat) : Buf → List Nat → List (List Nat) × Buf
  | b, [] => ([], b)
  | b, n :: ns =>
      let r := bufRead size b n
      let rest := readsBuf size r.2 ns
      (r.1 :: rest.1, rest.2)

theorem C01_bufio_handoff (b : Buf) (ns : List Nat) :
    (readsBuf Gen.maxHeaderSize b ns).1.flatten ++ (readsBuf Gen.maxHeaderSize b ns).2.content = b.content := by
  induction ns generalizing b with
  | nil => simp [readsBuf]
  | cons n ns ih =>
    simp only [readsBuf, List.flatten_cons, List.append_assoc]
    rw [ih, bufRead_conserve]

theorem C01_bufio_progress (b : Buf) (n : Nat) (hn : 0 < n) (hc : b.content ≠ []) :
    (bufRead Gen.maxHeaderSize b n).1 ≠ [] :=
  bufRead_progress _ (by decide) b n hn hc

/-- **ws_split**: the messages of one `Write(p)` concatenate to `p`, each at most `BufferSize` long. -/
theorem C01_ws_split (p : List Nat) :
    (wsWrite Gen.bufferSize p).flatten = p ∧ ∀ m ∈ wsWrite Gen.bufferSize p, m.length ≤ Gen.bufferSize :=
  ⟨wsWrite_flatten _ p, wsWrite_le _ (by decide) p⟩

/-- **ws_keeps_tail** — the regenerated fact the websocket carrier's fidelity rests on: `Read` must
    not reject a message longer than the caller's buffer (the 4096-byte bufio buffer in practice). -/
theorem C01_ws_keeps_tail : Gen.wsReadKeepsTail = true := by decide

/-- **ws_stream**: with that fact, a websocket read of the current code never fails, hands over a
    prefix of what is owed, and reports end-of-stream only when nothing is owed — for all messages
    and all caller buffer sizes. -/
theorem C01_ws_stream (w : Ws) (n : Nat) :
    (wsRead Gen.wsReadKeepsTail w n).1 ≠ .err ∧
    (∀ bs, (wsRead Gen.wsReadKeepsTail w n).1 = .data bs →
        bs ++ (wsRead Gen.wsReadKeepsTail w n).2.content = w.content) ∧
    ((wsRead Gen.wsReadKeepsTail w n).1 = .eof → w.content = []) := by
  rw [C01_ws_keeps_tail]; exact wsRead_keeps w n

def WsBuf.content (b : WsBuf) : List Nat := b.buf ++ b.ws.content

/-- the stack actually used on a websocket carrier (bufio reader of the handshake over the
    websocket reader), one read -/
theorem wsBufRead_keeps (size : Nat) (b : WsBuf) (n : Nat) :
    (wsBufRead true size b n).1 ≠ .err ∧
    (∀ bs, (wsBufRead true size b n).1 = .data bs → bs ++ (wsBufRead true size b n).2.content = b.content) := by
  unfold wsBufRead WsBuf.content
  split
  · refine ⟨by simp, ?_⟩
    intro bs h; simp at h; subst h; simp [← List.append_assoc]
  · rename_i hb
    have hbe : b.buf = [] := by simpa using hb
    split
    · have h := wsRead_keeps b.ws n
      refine ⟨h.1, ?_⟩
      intro bs hbs
      simpa [hbe] using h.2.1 bs hbs
    · have h := wsRead_keeps b.ws size
      cases hr : wsRead true b.ws size with
      | mk o w' =>
        cases o with
        | data bs =>
          refine ⟨by simp, ?_⟩
          intro cs hcs
          simp at hcs; subst hcs
          have := h.2.1 bs (by rw [hr])
          rw [hr] at this
          simp only [hbe, List.nil_append]
          rw [← List.append_assoc, List.take_append_drop]; exact this
        | eof => exact ⟨by simp, by intro bs h; simp at h⟩
        | err => exact absurd (by rw [hr]) h.1

theorem wsRead_eof (w : Ws) (n : Nat) (h : (wsRead true w n).1 = .eof) : (wsRead true w n).2 = w := by
  unfold wsRead at h ⊢
  split
  · rename_i hp; simp [hp] at h
  · rename_i hp
    cases hm : w.msgs with
    | nil => simp
    | cons m rest => rw [hm] at h; simp [hp] at h; split at h <;> simp at h

theorem wsBufRead_eof (size : Nat) (b : WsBuf) (n : Nat) (h : (wsBufRead true size b n).1 = .eof) :
    (wsBufRead true size b n).2.content = b.content := by
  unfold wsBufRead at h ⊢
  by_cases hb : b.buf ≠ []
  · simp [hb] at h
  · have hbe : b.buf = [] := by simpa using hb
    simp only [hb, ite_false] at h ⊢
    by_cases hs : size ≤ n
    · simp only [hs, ite_true] at h ⊢
      simp [WsBuf.content, hbe, wsRead_eof b.ws n h]
    · simp only [hs, ite_false] at h ⊢
      cases hw : wsRead true b.ws size with
      | mk o w' =>
        rw [hw] at h
        cases o with
        | data bs => simp at h
        | err => simp at h
        | eof =>
          have := wsRead_eof b.ws size (by rw [hw])
          rw [hw] at this
          simp at this
          simp [WsBuf.content, hbe, this]

/-- a run of reads with the given caller buffer sizes: chunks returned, whether an error occurred -/
def readsWsBuf (keeps : Bool) (size : Nat) : WsBuf → List Nat → List (List Nat) × Bool × WsBuf
  | b, [] => ([], false, b)
  | b, n :: ns =>
      match wsBufRead keeps size b n with
      | (.data bs, b') => let r := readsWsBuf keeps size b' ns; (bs :: r.1, r.2.1, r.2.2)
      | (.eof, b') => ([], false, b')
      | (.err, b') => ([], true, b')

/-- **ws_stack_handoff** (the property for the websocket carrier's read path): for all written
    messages and all sequences of caller buffer sizes, the stack `bufio ∘ wsRead` of the current
    code never fails, and what it returned followed by what it still owes is the written stream. -/
theorem C01_ws_stack_handoff (b : WsBuf) (ns : List Nat) :
    (readsWsBuf Gen.wsReadKeepsTail Gen.maxHeaderSize b ns).2.1 = false ∧
    ((readsWsBuf Gen.wsReadKeepsTail Gen.maxHeaderSize b ns).1.flatten ++
      (readsWsBuf Gen.wsReadKeepsTail Gen.maxHeaderSize b ns).2.2.content = b.content) := by
  rw [C01_ws_keeps_tail]
  induction ns generalizing b with
  | nil => simp [readsWsBuf]
  | cons n ns ih =>
    have h := wsBufRead_keeps Gen.maxHeaderSize b n
    simp only [readsWsBuf]
    cases hr : wsBufRead true Gen.maxHeaderSize b n with
    | mk o b' =>
      cases o with
      | data bs =>
        simp only [List.flatten_cons, List.append_assoc]
        have hc := h.2 bs (by rw [hr])
        rw [hr] at hc
        exact ⟨(ih b').1, by rw [(ih b').2]; exact hc⟩
      | eof =>
        simp only [List.flatten_nil, List.nil_append, true_and]
        have := wsBufRead_eof Gen.maxHeaderSize b n (by rw [hr])
        rw [hr] at this; exact this
      | err => exact absurd (by rw [hr]) h.1

/-- what the rejecting variant does (the behaviour of the code before the repair): a message longer
    than the bufio buffer is an error and the carrier is dead (shown with buffer 16 / message 20 so
    that the kernel evaluates it; the real sizes are 4096 / any smux frame above 4088 payload bytes,
    replayed on the implementation by corpus/C01). -/
theorem C01_witness_ws_reject :
    (readsWsBuf false 16 { buf := [], ws := { pending := [], msgs := [stream 20] } } [8]).2.1 = true := by
  decide

/-- **frame_fits**: one smux frame (8-byte header + MaxFrameSize payload) is one websocket message
    on both ends. -/
theorem C01_frame_fits :
    8 + Gen.maxFrameSizeServer ≤ Gen.bufferSize ∧ 8 + Gen.maxFrameSizeClient ≤ Gen.bufferSize ∧
    Gen.copyBufferSize = Gen.bufferSize := by decide

/-- **stack_preserves (end to end)**: two copy loops (client listener hop, server channel hop) over
    lawful layers deliver to the target exactly what the application's socket owed — for every
    payload and every segmentation the layers choose.  `mid` is how the carrier re-chunks what the
    first hop wrote. -/
theorem C01_stack_preserves {σ : Type} (app : Reader σ) (happ : app.Lawful) (s : σ)
    (rechunk : List (List Nat) → Src) (hre : ∀ cs, (rechunk cs).flatten = cs.flatten)
    (f1 f2 : Nat) (h1 : (app.content s).length < f1) (h2 : (app.content s).length < f2) :
    (srcReader.copy Gen.copyBufferSize f2
        (rechunk (app.copy Gen.copyBufferSize f1 s))).flatten = app.content s := by
  have e1 := C01_copy_loop_preserves app happ Gen.copyBufferSize (by decide) s f1 h1
  have e2 := C01_copy_loop_preserves srcReader srcReader_lawful Gen.copyBufferSize (by decide)
    (rechunk (app.copy Gen.copyBufferSize f1 s)) f2 (by
      show (List.flatten _).length < f2
      rw [hre, e1]; exact h2)
  rw [e2]; show (List.flatten _) = _; rw [hre, e1]

/-! ### the two wrappers added around logical streams -/

theorem peek1_conserve (size : Nat) (b : Buf) : (peek1 size b).2.content = b.content := by
  unfold peek1 Buf.content
  split
  · rfl
  · rename_i h
    have hb : b.buf = [] := by simpa using h
    simp [hb, srcRead_conserve]

/-- **client_first_gate**: the server's first `Write` on a new logical stream is handed on only when bytes from the
    client are buffered (so the client has registered the stream), it consumes none of them, and reads through the
    wrapper conserve the stream before and after — for all arrival chunkings and read sizes. -/
theorem C01_client_first_gate (c : CF) (hfresh : c.peeked = false) :
    ((cfWrite Gen.bufferSize c).1 = true → (cfWrite Gen.bufferSize c).2.rd.buf ≠ []) ∧
    (cfWrite Gen.bufferSize c).2.rd.content = c.rd.content ∧
    (∀ n, (cfRead Gen.bufferSize c n).1 ++ (cfRead Gen.bufferSize c n).2.rd.content = c.rd.content) := by
  refine ⟨?_, ?_, ?_⟩
  · simp only [cfWrite, hfresh]
    simp only [Bool.false_eq_true, ↓reduceIte]
    unfold peek1
    split
    · intro _; assumption
    · intro h; simpa using h
  · simp only [cfWrite, hfresh]
    simp only [Bool.false_eq_true, ↓reduceIte]
    exact peek1_conserve _ _
  · intro n; exact bufRead_conserve _ _ _

/-- **mux_retry**: reading through `MuxStreamConnection` until it reports end-of-stream hands over all data up to
    the genuine end, whatever spurious single end-of-stream answers the multiplexer interleaves. -/
theorem C01_mux_retry_delivers (s : List RawRead) (fuel : Nat) (hf : s.length < fuel) :
    muxDrain fuel s = scriptData s := by
  induction fuel generalizing s with
  | zero => omega
  | succ k ih =>
    match s with
    | [] => simp [muxDrain, muxRead, scriptData]
    | .data bs :: rest =>
      simp only [muxDrain, muxRead, scriptData]
      rw [ih rest (by simp at hf; omega)]
    | .err :: rest => simp [muxDrain, muxRead, scriptData]
    | [.eof] => simp [muxDrain, muxRead, scriptData]
    | .eof :: .data bs :: rest =>
      simp only [muxDrain, muxRead, scriptData]
      rw [ih rest (by simp at hf; omega)]
    | .eof :: .eof :: rest => simp [muxDrain, muxRead, scriptData]
    | .eof :: .err :: rest => simp [muxDrain, muxRead, scriptData]

/-- reading the underlying stream directly (the behaviour before the repair): stop at the first end-of-stream -/
def noRetryDrain : List RawRead → List Nat
  | .data bs :: rest => bs ++ noRetryDrain rest
  | _ => []

/-- without the retry a spurious end-of-stream loses the data behind it -/
theorem C01_witness_mux_no_retry :
    noRetryDrain [.data [9], .eof, .data [1, 2, 3]] = [9] ∧
    scriptData [.data [9], .eof, .data [1, 2, 3]] = [9, 1, 2, 3] := by decide

/-- the copy loop reads a logical stream through `MuxStreamConnection.Read` (the `muxRead` of the model): the wrapper
    offers io.Copy no `WriteTo`/`ReadFrom` that would take the data around it. -/
theorem C01_mux_read_is_the_data_path : Gen.muxStreamFastPaths = [] := by decide

/-! non-vacuity -/
example : muxDrain 5 [.data [9], .eof, .data [1, 2], .eof, .eof] = [9, 1, 2] := by decide
example : (cfWrite 4 { rd := { buf := [], src := [[7, 8]] }, peeked := false, peekOk := false }).1 = true := by decide
example : (cfWrite 4 { rd := { buf := [], src := [] }, peeked := false, peekOk := false }).1 = false := by decide
example : srcReader.Lawful := srcReader_lawful
example : (srcReader.buffered 4096).Lawful := C01_buffered_lawful _ srcReader_lawful 4096 (by decide)
example : (readsBuf 16 { buf := [], src := [stream 10, stream 50 10] } [8, 16, 5]).1.map List.length
    = [8, 2, 5] := by decide

end SA.Framing

#print axioms SA.Framing.C01_copy_loop_preserves
#print axioms SA.Framing.C01_buffered_lawful
#print axioms SA.Framing.C01_bufio_handoff
#print axioms SA.Framing.C01_bufio_progress
#print axioms SA.Framing.C01_ws_split
#print axioms SA.Framing.C01_ws_keeps_tail
#print axioms SA.Framing.C01_ws_stream
#print axioms SA.Framing.C01_ws_stack_handoff
#print axioms SA.Framing.C01_witness_ws_reject
#print axioms SA.Framing.C01_frame_fits
#print axioms SA.Framing.C01_stack_preserves
#print axioms SA.Framing.C01_client_first_gate
#print axioms SA.Framing.C01_mux_retry_delivers
#print axioms SA.Framing.C01_witness_mux_no_retry
#print axioms SA.Framing.C01_mux_read_is_the_data_path
#print axioms SA.Framing.C01_debug_copy_is_copy
#print axioms SA.Framing.C01_log_writer_reports_all
#print axioms SA.Framing.C01_witness_short_log

namespace SA.PkgState
/-- **no_hidden_process_state**: the models of this property are functions of their arguments and of the objects they are
    handed; the packages they model keep no package-level variables besides these (regenerated inventory: error
    sentinels, tables, compiled patterns, the two session time-outs).  A new package-level variable — a counter, a cache, a
    scratch buffer, a shared map, a registry — would make later calls depend on earlier ones, or concurrent calls on each
    other, outside anything a per-call comparison of model and code can see. -/
theorem C01_no_hidden_process_state :
    Gen.pkgVarNames_streams = ["Localhost"] ∧
    Gen.pkgVarNames_server = ["ChannelRegex"] := by decide
end SA.PkgState

#print axioms SA.PkgState.C01_no_hidden_process_state

namespace SA.PkgState
/-- **per_item_handlers**: the module's language version is go 1.14 — a loop has one variable for all its iterations.
    No function literal inside a loop body captures a variable that the loop (re)assigns on every iteration, so the
    handler, callback or goroutine set up for one channel / endpoint / connection is not silently bound to a later
    one (regenerated inventory).  The three entries are addresses of a loop variable that are consumed before the next
    iteration: `EndpointHandler(&endpoint, …)` reads one field synchronously, and the two command look-ups leave their
    loop at once (`cmd = &c; break` / `return`). -/
theorem C01_per_item_handlers :
    Gen.goDirective = "1.14" ∧
    Gen.loopVarCaptures = ["internal/server/http_server.go Startup: address of loop variable endpoint taken", "internal/streams/dns/commands/serializer.go DetectCommandType: address of loop variable v taken", "internal/streams/dns/dns_server_connection.go onMessage: address of loop variable c taken"] := by decide
end SA.PkgState

#print axioms SA.PkgState.C01_per_item_handlers

namespace SA.ReadAhead
/-- **selection_preserves_the_stream**: the server's channel selection reads through a buffered reader that takes whole
    chunks from the logical stream; for every chunking and every token length the bytes the selection consumed followed
    by the bytes the handler then copies to the target are the stream itself — no byte lost, duplicated or reordered at
    the seam between selection and payload. -/
theorem C01_selection_preserves_the_stream (k : Nat) (cs : List (List Nat)) :
    (take k (BR.ofChunks cs)).1 ++ viaWrapper k cs = cs.flatten := by
  simpa [viaWrapper, BR.ofChunks, BR.remaining] using take_remaining k (BR.ofChunks cs)

/-- the code hands the handler that same buffered reader (regenerated) -/
theorem C01_handler_reads_through_wrapper :
    Gen.c17MuxHandleArgs = ["newClientFirstConn(multiplexChannel)"] ∧ Gen.c17MuxNegotiateCalls = 0 ∧
    Gen.c17WrapperReadsFrom = "c.reader.Read(p)" := by decide
end SA.ReadAhead

#print axioms SA.ReadAhead.C01_selection_preserves_the_stream
#print axioms SA.ReadAhead.C01_handler_reads_through_wrapper

namespace SA.DnsLoss
/-- **dns_loss_retransmitted**: on the DNS carrier, for every number of exchanges and EVERY loss schedule of the path in
    which fewer than `tries` consecutive attempts are lost, every exchange of the stream completes — no fragment is
    dropped, the session is not torn down — provided an expired exchange is recognised as a time-out. -/
theorem C01_dns_loss_retransmitted (tries n : Nat) (s : List Fate) (h : maxRun s < tries) :
    transfer true tries n s = n := transfer_all tries n s h

/-- the code recognises it (regenerated): nothing between miekg's exchange and the time-out test re-creates the error
    from its text, the test looks at the cause, and there are five attempts — so the code's transfer survives every
    schedule with at most four losses in a row. -/
theorem C01_dns_loss_code (n : Nat) (s : List Fate) (h : maxRun s < 5) :
    transfer codeKeeps Gen.c07Tries n s = n := by
  have hk : codeKeeps = true := by decide
  have ht : Gen.c07Tries = 5 := by decide
  rw [hk, ht]; exact transfer_all 5 n s h

/-- witness of the regression class: when the time-out is NOT recognised (error flattened into text on the way up), a
    single lost datagram after `k` clean exchanges ends the transfer there — the target gets a prefix only. -/
theorem C01_witness_dns_loss_unrecognised (n k : Nat) (rest : List Fate) (hk : k < n) :
    transfer false 5 n (List.replicate k Fate.ok ++ Fate.lost :: rest) = k ∧ k ≠ n :=
  ⟨transfer_cut 5 n k rest hk (by decide), by omega⟩

example : maxRun [.ok, .lost, .lost, .ok, .lost] = 2 ∧ transfer true 5 4 [.ok, .lost, .lost, .ok, .lost] = 4 := by decide
example : transfer false 5 9 [.ok, .ok, .lost] = 2 := by decide
end SA.DnsLoss

#print axioms SA.DnsLoss.C01_dns_loss_retransmitted
#print axioms SA.DnsLoss.C01_dns_loss_code
#print axioms SA.DnsLoss.C01_witness_dns_loss_unrecognised

/-
  C08 — DNS codecs are lossless, alphabet-confined and bounded.

  Property theorems only; helper lemmas are in SA.Proofs.Codec, the model in SA.Model.Codec.
  For every codec `enc.FromCode` can return (the registry is regenerated from interface.go; an entry
  without a model does not compile):

    C08_roundtrip_<codec>      decode (encode bs) = some bs     for ALL byte lists bs, including []
    C08_alphabet_safe_<codec>  every output byte is DNS-safe (> 32, ≠ 127, ≠ '.', ≠ '\\')   (text codecs)
    C08_length_bound_<codec>   |encode bs| ≤ ⌈ratio·|bs|⌉ + 8   with ratio = the exact rational value of
                               the codec's Ratio() literal

  Alphabets, codes, ratios, the Base85 substitution pairs and the three shape facts
  (`b85EncodeReturnsCount`, `b85DecodeBufFactor`, `b128TailGuarded`) are `SA.Gen` values regenerated
  from the Go source on every run; their side conditions are discharged here by `decide`, so a change
  of an alphabet character, a ratio literal or one of the repaired lines re-opens the obligation.

  Base192 ('Y') violates round trip and alphabet as written: `C08_full` is the statement over the
  whole registry, `C08_partial` is the proved statement over the registry minus Base192, and
  `C08_witness_b192` is the kernel-checked counter-example (also replayed on the real code:
  corpus/C08/base192.ops, finding C08-F1).  Its length bound does hold and is proved.

  Library code (encoding/base32, base64, ascii85, mtraver/base91, luci base128 decode) is modelled at
  the level of its algorithm and tied to the real library by the differential correspondence only.
-/
import SA.Proofs.Codec
import SA.Gen.PkgVars
namespace SA.Codec

/-! ## side conditions on the regenerated facts -/

set_option maxRecDepth 100000 in
theorem gen_cb32 : GoodAlpha Gen.cb32 32 := ⟨by decide, by decide⟩
set_option maxRecDepth 100000 in
theorem gen_cb64 : GoodAlpha Gen.cb64 64 := ⟨by decide, by decide⟩
set_option maxRecDepth 100000 in
theorem gen_cb64u : GoodAlpha Gen.cb64u 64 := ⟨by decide, by decide⟩
set_option maxRecDepth 100000 in
theorem gen_cb91 : GoodAlpha Gen.cb91 91 := ⟨by decide, by decide⟩
set_option maxRecDepth 100000 in
theorem gen_cb128 : GoodAlpha Gen.cb128 128 := ⟨by decide, by decide⟩

set_option maxRecDepth 100000 in
theorem gen_safe32 : ∀ d, d < 32 → dnsSafe (alphaChar Gen.cb32 d) = true := by decide
set_option maxRecDepth 100000 in
theorem gen_safe64 : ∀ d, d < 64 → dnsSafe (alphaChar Gen.cb64 d) = true := by decide
set_option maxRecDepth 100000 in
theorem gen_safe64u : ∀ d, d < 64 → dnsSafe (alphaChar Gen.cb64u d) = true := by decide
set_option maxRecDepth 100000 in
theorem gen_safe91 : ∀ d, d < 91 → dnsSafe (alphaChar Gen.cb91 d) = true := by decide
set_option maxRecDepth 100000 in
theorem gen_safe128 : ∀ d, d < 128 → dnsSafe (alphaChar Gen.cb128 d) = true := by decide

set_option maxRecDepth 100000 in
/-- the Decode substitution undoes the Encode substitution on every character ascii85 can emit -/
theorem gen_subst85 : ∀ c, c < 123 → a85Char c = true →
    substOf Gen.b85DecSubst (substOf Gen.b85EncSubst c) = c := by decide
set_option maxRecDepth 100000 in
/-- … and the substituted characters are DNS-safe (this is what the substitution is for) -/
theorem gen_safe85 : ∀ c, c < 123 → a85Char c = true →
    dnsSafe (substOf Gen.b85EncSubst c) = true := by decide

/-- the repaired shapes -/
theorem gen_b85_count : Gen.b85EncodeReturnsCount = true := by decide
theorem gen_b85_buf : Gen.b85DecodeBufFactor = 4 := by decide
theorem gen_b128_guard : Gen.b128TailGuarded = true := by decide

/-- every registry entry of `enc.FromCode` has a model, the codes are pairwise distinct, and
    `fromCode` finds each codec by its own code -/
theorem C08_registry_modelled :
    registry.length = Gen.registryNames.length ∧ (registry.map Codec.code).Nodup ∧
    ∀ cd ∈ registry, fromCode cd.code = some cd := by decide

/-! ## Base32 -/

theorem C08_roundtrip_b32 (bs : List Nat) (hb : Bytes bs) : decode .b32 (encode .b32 bs) = some bs :=
  b32_roundtrip gen_cb32 bs hb

theorem C08_alphabet_safe_b32 (bs : List Nat) (_hb : Bytes bs) : ∀ c ∈ encode .b32 bs, dnsSafe c = true :=
  mem_map_alpha_safe _ 32 gen_safe32 _ (radixDigits_lt 5 bs)

theorem C08_length_bound_b32 (bs : List Nat) (_hb : Bytes bs) :
    (encode .b32 bs).length ≤ ceilMul (Codec.ratio .b32) bs.length + 8 := by
  simp only [encode, b32Enc, List.length_map, radixDigits_length, ceilMul, Codec.ratio,
    Gen.ratioNum_b32, Gen.ratioDen_b32]
  omega

/-! ## Base64 / Base64u -/

theorem C08_roundtrip_b64 (bs : List Nat) (hb : Bytes bs) : decode .b64 (encode .b64 bs) = some bs :=
  b64_roundtrip _ gen_cb64 bs hb

theorem C08_alphabet_safe_b64 (bs : List Nat) (_hb : Bytes bs) : ∀ c ∈ encode .b64 bs, dnsSafe c = true :=
  mem_map_alpha_safe _ 64 gen_safe64 _ (radixDigits_lt 6 bs)

theorem C08_length_bound_b64 (bs : List Nat) (_hb : Bytes bs) :
    (encode .b64 bs).length ≤ ceilMul (Codec.ratio .b64) bs.length + 8 := by
  simp only [encode, b64EncWith, List.length_map, radixDigits_length, ceilMul, Codec.ratio,
    Gen.ratioNum_b64, Gen.ratioDen_b64]
  omega

theorem C08_roundtrip_b64u (bs : List Nat) (hb : Bytes bs) : decode .b64u (encode .b64u bs) = some bs :=
  b64_roundtrip _ gen_cb64u bs hb

theorem C08_alphabet_safe_b64u (bs : List Nat) (_hb : Bytes bs) : ∀ c ∈ encode .b64u bs, dnsSafe c = true :=
  mem_map_alpha_safe _ 64 gen_safe64u _ (radixDigits_lt 6 bs)

theorem C08_length_bound_b64u (bs : List Nat) (_hb : Bytes bs) :
    (encode .b64u bs).length ≤ ceilMul (Codec.ratio .b64u) bs.length + 8 := by
  simp only [encode, b64EncWith, List.length_map, radixDigits_length, ceilMul, Codec.ratio,
    Gen.ratioNum_b64u, Gen.ratioDen_b64u]
  omega

/-! ## Base128 (the repo's encoder loop, luci's decoder) -/

theorem C08_roundtrip_b128 (bs : List Nat) (hb : Bytes bs) : decode .b128 (encode .b128 bs) = some bs :=
  b128_roundtrip gen_cb128 gen_b128_guard bs hb

theorem C08_alphabet_safe_b128 (bs : List Nat) (hb : Bytes bs) : ∀ c ∈ encode .b128 bs, dnsSafe c = true := by
  simp only [encode, b128Enc, gen_b128_guard, b128_loop_eq_radix bs hb]
  exact mem_map_alpha_safe _ 128 gen_safe128 _ (radixDigits_lt 7 bs)

theorem C08_length_bound_b128 (bs : List Nat) (hb : Bytes bs) :
    (encode .b128 bs).length ≤ ceilMul (Codec.ratio .b128) bs.length + 8 := by
  simp only [encode, b128Enc, gen_b128_guard, b128_loop_eq_radix bs hb, escape128, List.length_map,
    radixDigits_length, ceilMul, Codec.ratio, Gen.ratioNum_b128, Gen.ratioDen_b128]
  omega

/-! ## Base85 (ascii85 with the v/w/x substitution) -/

theorem C08_roundtrip_b85 (bs : List Nat) (hb : Bytes bs) : decode .b85 (encode .b85 bs) = some bs :=
  b85_roundtrip gen_b85_count gen_b85_buf gen_subst85 bs hb

theorem C08_alphabet_safe_b85 (bs : List Nat) (_hb : Bytes bs) : ∀ c ∈ encode .b85 bs, dnsSafe c = true := by
  intro c hc
  simp only [encode, b85Enc, gen_b85_count, if_true, List.mem_map] at hc
  rcases hc with ⟨x, hx, rfl⟩
  have hch := a85Enc_chars bs x hx
  have : x < 123 := by
    simp only [a85Char, Bool.or_eq_true, Bool.and_eq_true, decide_eq_true_eq, beq_iff_eq] at hch
    omega
  exact gen_safe85 x this hch

theorem C08_length_bound_b85 (bs : List Nat) (_hb : Bytes bs) :
    (encode .b85 bs).length ≤ ceilMul (Codec.ratio .b85) bs.length + 8 := by
  have := a85Enc_length bs
  simp only [encode, b85Enc, gen_b85_count, if_true, List.length_map, ceilMul, Codec.ratio,
    Gen.ratioNum_b85, Gen.ratioDen_b85]
  omega

/-! ## Base91 -/

theorem C08_roundtrip_b91 (bs : List Nat) (hb : Bytes bs) : decode .b91 (encode .b91 bs) = some bs :=
  b91_roundtrip gen_cb91 bs hb

theorem C08_alphabet_safe_b91 (bs : List Nat) (hb : Bytes bs) : ∀ c ∈ encode .b91 bs, dnsSafe c = true :=
  mem_map_alpha_safe _ 91 gen_safe91 _ (b91_digits_lt bs hb 0 0 (by decide) (by decide))

theorem C08_length_bound_b91 (bs : List Nat) (_hb : Bytes bs) :
    (encode .b91 bs).length ≤ ceilMul (Codec.ratio .b91) bs.length + 8 := by
  have := b91_length bs 0 0
  simp only [encode, b91Enc, List.length_map, ceilMul, Codec.ratio, Gen.ratioNum_b91, Gen.ratioDen_b91]
  omega

/-! ## Raw (lossless only) -/

theorem C08_roundtrip_raw (bs : List Nat) (_hb : Bytes bs) : decode .raw (encode .raw bs) = some bs := rfl

theorem C08_length_bound_raw (bs : List Nat) (_hb : Bytes bs) :
    (encode .raw bs).length ≤ ceilMul (Codec.ratio .raw) bs.length + 8 := by
  simp only [encode, id, ceilMul, Codec.ratio, Gen.ratioNum_raw, Gen.ratioDen_raw]
  omega

/-! ## Base192 (as written): length holds, round trip and alphabet do not -/

theorem b192EncStep_out_length (wb buf val : Nat) : (b192EncStep wb buf val).1.length = 2 := rfl

theorem b192_tail_length (wb buf : Nat) (last : Bool) : (b192EncLoop wb buf last []).length ≤ 1 := by
  simp only [b192EncLoop]
  split
  · simp
  · split <;> simp

theorem b192EncLoop_length (n : Nat) : ∀ (bs : List Nat), bs.length ≤ n → ∀ wb buf last,
    (b192EncLoop wb buf last bs).length ≤ bs.length + 2 := by
  induction n with
  | zero =>
    intro bs h wb buf last
    have : bs = [] := List.eq_nil_of_length_eq_zero (by omega)
    subst this
    have := b192_tail_length wb buf last
    simp only [List.length_nil]; omega
  | succ n ih =>
    intro bs h wb buf last
    match bs with
    | [] => have := b192_tail_length wb buf last; simp only [List.length_nil]; omega
    | [a] =>
      have := b192_tail_length (b192EncStep wb buf (a * 256)).2.1 (b192EncStep wb buf (a * 256)).2.2 true
      have e : b192EncLoop wb buf last [a] = (b192EncStep wb buf (a * 256)).1 ++
          b192EncLoop (b192EncStep wb buf (a * 256)).2.1 (b192EncStep wb buf (a * 256)).2.2 true [] := by
        conv => lhs; unfold b192EncLoop
      rw [e]
      simp only [List.length_append, b192EncStep_out_length, List.length_cons, List.length_nil]
      omega
    | a :: b :: rest =>
      have := ih rest (by simp only [List.length_cons] at h; omega)
        (b192EncStep wb buf (a * 256 + b)).2.1 (b192EncStep wb buf (a * 256 + b)).2.2 false
      simp only [b192EncLoop, List.length_append, b192EncStep_out_length, List.length_cons]
      omega

theorem C08_length_bound_b192 (bs : List Nat) (_hb : Bytes bs) :
    (encode .b192 bs).length ≤ ceilMul (Codec.ratio .b192) bs.length + 8 := by
  have := b192EncLoop_length bs.length bs (Nat.le_refl _) 1 0 false
  simp only [encode, b192Enc, ceilMul, Codec.ratio, Gen.ratioNum_b192, Gen.ratioDen_b192]
  omega

/-! ## the property over the whole registry -/

def RoundTrip (cd : Codec) : Prop := ∀ bs, Bytes bs → decode cd (encode cd bs) = some bs
def AlphabetSafe (cd : Codec) : Prop := ∀ bs, Bytes bs → ∀ c ∈ encode cd bs, dnsSafe c = true
def LengthBound (cd : Codec) : Prop :=
  ∀ bs, Bytes bs → (encode cd bs).length ≤ ceilMul cd.ratio bs.length + 8
/-- Raw is "lossless only"; every other codec is a text codec -/
def isText (cd : Codec) : Bool := cd != .raw

/-- C08 at full strength: every codec `enc.FromCode` can return is lossless, alphabet-confined
    (text codecs) and bounded.  FALSE on the current tree because of Base192 (`C08_witness_b192`). -/
def C08_full : Prop :=
  ∀ cd ∈ registry, RoundTrip cd ∧ (isText cd = true → AlphabetSafe cd) ∧ LengthBound cd

/-- kernel-checked counter-example: Base192 maps the one-byte input "." to the bytes 0x1e 0x80
    (a control character), which decode to the empty string.  Reproduces on the real code:
    `codec Y enc 2e` (corpus/C08/base192.ops). -/
theorem C08_witness_b192 :
    encode .b192 [46] = [30, 128] ∧ decode .b192 (encode .b192 [46]) = some [] ∧
    ¬ RoundTrip .b192 ∧ ¬ AlphabetSafe .b192 ∧ ¬ C08_full := by
  have h1 : encode .b192 [46] = [30, 128] := by decide
  have h2 : decode .b192 (encode .b192 [46]) = some [] := by decide
  have hb : Bytes [46] := by decide
  have hr : ¬ RoundTrip .b192 := fun h => by
    have := h [46] hb
    rw [h2] at this
    exact absurd this (by decide)
  have ha : ¬ AlphabetSafe .b192 := fun h => by
    have := h [46] hb 30 (by rw [h1]; decide)
    exact absurd this (by decide)
  exact ⟨h1, h2, hr, ha, fun hf => hr (hf .b192 (by decide)).1⟩

/-- the proved region: the whole registry except Base192 -/
theorem C08_partial :
    ∀ cd ∈ registry, cd ≠ .b192 →
      RoundTrip cd ∧ (isText cd = true → AlphabetSafe cd) ∧ LengthBound cd := by
  intro cd _ hne
  cases cd with
  | b32 => exact ⟨C08_roundtrip_b32, fun _ => C08_alphabet_safe_b32, C08_length_bound_b32⟩
  | b64 => exact ⟨C08_roundtrip_b64, fun _ => C08_alphabet_safe_b64, C08_length_bound_b64⟩
  | b64u => exact ⟨C08_roundtrip_b64u, fun _ => C08_alphabet_safe_b64u, C08_length_bound_b64u⟩
  | b85 => exact ⟨C08_roundtrip_b85, fun _ => C08_alphabet_safe_b85, C08_length_bound_b85⟩
  | b91 => exact ⟨C08_roundtrip_b91, fun _ => C08_alphabet_safe_b91, C08_length_bound_b91⟩
  | b128 => exact ⟨C08_roundtrip_b128, fun _ => C08_alphabet_safe_b128, C08_length_bound_b128⟩
  | b192 => exact absurd rfl hne
  | raw => exact ⟨C08_roundtrip_raw, fun h => by simp [isText] at h, C08_length_bound_raw⟩

/-! ## lengths without the +8 slack

`C08_length_bound_<codec>` above is the property as worded (ratio · n plus a small constant).  The
client's size budget (getUpstreamMtu, property C09) keeps a margin of only 10 bytes, which the
constant 8 does not fit into; what the codecs really emit is tighter, and that is what C09's
`C09_payload_within_mtu_fits` uses. -/

theorem C08_length_exact_b32 (bs : List Nat) (_hb : Bytes bs) :
    (encode .b32 bs).length = (8 * bs.length + 4) / 5 := by
  simp only [encode, b32Enc, List.length_map, radixDigits_length]; omega

theorem C08_length_exact_b64 (bs : List Nat) (_hb : Bytes bs) :
    (encode .b64 bs).length = (8 * bs.length + 5) / 6 := by
  simp only [encode, b64EncWith, List.length_map, radixDigits_length]; omega

theorem C08_length_exact_b64u (bs : List Nat) (_hb : Bytes bs) :
    (encode .b64u bs).length = (8 * bs.length + 5) / 6 := by
  simp only [encode, b64EncWith, List.length_map, radixDigits_length]; omega

theorem C08_length_exact_b128 (bs : List Nat) (hb : Bytes bs) :
    (encode .b128 bs).length = (8 * bs.length + 6) / 7 := by
  simp only [encode, b128Enc, gen_b128_guard, b128_loop_eq_radix bs hb, escape128, List.length_map,
    radixDigits_length]; omega

/-- ascii85: five characters per four bytes, k+1 for a final group of k bytes (fewer with `z`) -/
theorem C08_length_tight_b85 (bs : List Nat) (_hb : Bytes bs) :
    (encode .b85 bs).length ≤ (5 * bs.length + 3) / 4 := by
  have := a85Enc_length bs
  simpa only [encode, b85Enc, gen_b85_count, if_true, List.length_map] using this

/-- basE91: two characters per 13 (or 14) bits, at most two for the rest -/
theorem C08_length_tight_b91 (bs : List Nat) (_hb : Bytes bs) :
    13 * (encode .b91 bs).length ≤ 16 * bs.length + 26 := by
  have := b91_length bs 0 0
  simp only [encode, b91Enc, List.length_map]
  omega

/-! ## independence of results (ops `pair` / `seq` / `par`)

The model's `encode`/`decode` are functions of their argument only, so whatever else was encoded or decoded
in between, every retained encoding decodes to its own input.  Trivial in Lean - it names the hypothesis the
correspondence checks on the real encoders, whose `[]byte` results could share memory with a recycled
buffer, the caller's slice or another goroutine's call: `seqLine` (what the harness must print after keeping
all results alive across all calls) consists of exactly these per-input values. -/
theorem C08_results_independent (cd : Codec) (h : RoundTrip cd) (ins : List (List Nat))
    (hb : ∀ a ∈ ins, Bytes a) :
    (ins.map (encode cd)).map (decode cd) = ins.map some := by
  rw [List.map_map]
  exact List.map_congr_left (fun a ha => h a (hb a ha))

/-- the line the model prints for `pair`/`seq`/`par` is determined input by input -/
theorem C08_seq_line_pointwise (cd : Codec) (ins : List (List Nat)) :
    seqLine cd ins = " ".intercalate (["E"] ++ ins.map (fun a => toHex (encode cd a)) ++ ["D"] ++
      ins.map (fun a => decTok cd (encode cd a))) := by
  simp [seqLine, List.map_map, Function.comp_def]

set_option maxRecDepth 100000 in
example : seqLine .b128 [[1], [2]] = "E 61be 6261 D 01 02" := by decide

/-! ## non-vacuity: the hypotheses are satisfiable and the functions compute on real inputs -/

set_option maxRecDepth 100000 in
example : Bytes [0, 46, 92, 255] := by decide
set_option maxRecDepth 100000 in
example : registry = [.b32, .b64, .b64u, .b85, .b91, .b128, .b192, .raw] := by decide
set_option maxRecDepth 100000 in
example : encode .b32 [104, 105] = [110, 98, 117, 113] ∧ decode .b32 [110, 98, 117, 113] = some [104, 105] := by decide
set_option maxRecDepth 100000 in
example : encode .b64 [0, 46, 92, 255] ≠ [] ∧ decode .b64 (encode .b64 [0, 46, 92, 255]) = some [0, 46, 92, 255] := by decide
set_option maxRecDepth 100000 in
example : (encode .b128 [1, 2, 3, 4, 5, 6, 7]).length = 8 ∧ encode .b128 [] = [] := by decide
set_option maxRecDepth 100000 in
example : decode .b128 (encode .b128 [1, 2, 3, 4, 5, 6, 7]) = some [1, 2, 3, 4, 5, 6, 7] := by decide
set_option maxRecDepth 100000 in
example : encode .b85 [0, 0, 0, 0, 65] = [122, 53, 108] ∧ decode .b85 [122, 53, 108] = some [0, 0, 0, 0, 65] := by decide
set_option maxRecDepth 100000 in
example : decode .b91 (encode .b91 [0, 46, 92, 255, 7]) = some [0, 46, 92, 255, 7] := by decide
set_option maxRecDepth 100000 in
example : decode .b85 [122, 53] = none ∧ decode .b64 [97] = none ∧ decode .b128 [97] = none := by decide
set_option maxRecDepth 100000 in
example : dnsSafe 46 = false ∧ dnsSafe 92 = false ∧ dnsSafe 32 = false ∧ dnsSafe 127 = false ∧ dnsSafe 97 = true := by decide
set_option maxRecDepth 100000 in
example : ceilMul (Codec.ratio .b91) 1000 = 1231 ∧ ceilMul (Codec.ratio .b192) 15 = 16 := by decide
set_option maxRecDepth 100000 in
/-- the tight bounds are attained: 5 bytes -> 8 Base32 characters, 4 non-zero bytes -> 5 Base85
    characters, 13 one-bits... 2 bytes of 0xff -> 3 basE91 characters -/
example : (encode .b32 [1, 2, 3, 4, 5]).length = 8 ∧ (encode .b85 [1, 2, 3, 4]).length = 5 ∧
    (encode .b91 [255, 255]).length = 3 ∧ (encode .b128 [1, 2, 3, 4, 5, 6, 7]).length = 8 := by decide

end SA.Codec

#print axioms SA.Codec.C08_registry_modelled
#print axioms SA.Codec.C08_roundtrip_b32
#print axioms SA.Codec.C08_alphabet_safe_b32
#print axioms SA.Codec.C08_length_bound_b32
#print axioms SA.Codec.C08_roundtrip_b64
#print axioms SA.Codec.C08_alphabet_safe_b64
#print axioms SA.Codec.C08_length_bound_b64
#print axioms SA.Codec.C08_roundtrip_b64u
#print axioms SA.Codec.C08_alphabet_safe_b64u
#print axioms SA.Codec.C08_length_bound_b64u
#print axioms SA.Codec.C08_roundtrip_b128
#print axioms SA.Codec.C08_alphabet_safe_b128
#print axioms SA.Codec.C08_length_bound_b128
#print axioms SA.Codec.C08_roundtrip_b85
#print axioms SA.Codec.C08_alphabet_safe_b85
#print axioms SA.Codec.C08_length_bound_b85
#print axioms SA.Codec.C08_roundtrip_b91
#print axioms SA.Codec.C08_alphabet_safe_b91
#print axioms SA.Codec.C08_length_bound_b91
#print axioms SA.Codec.C08_roundtrip_raw
#print axioms SA.Codec.C08_length_bound_raw
#print axioms SA.Codec.C08_length_bound_b192
#print axioms SA.Codec.C08_length_exact_b32
#print axioms SA.Codec.C08_length_exact_b64
#print axioms SA.Codec.C08_length_exact_b64u
#print axioms SA.Codec.C08_length_exact_b128
#print axioms SA.Codec.C08_length_tight_b85
#print axioms SA.Codec.C08_length_tight_b91
#print axioms SA.Codec.C08_witness_b192
#print axioms SA.Codec.C08_partial
#print axioms SA.Codec.C08_results_independent
#print axioms SA.Codec.C08_seq_line_pointwise

namespace SA.PkgState
/-- **no_hidden_process_state**: the models of this property are functions of their arguments and of the objects they are
    handed; the packages they model keep no package-level variables besides these (regenerated inventory: error
    sentinels, tables, compiled patterns, the two session time-outs).  A new package-level variable — a counter, a cache, a
    scratch buffer, a shared map, a registry — would make later calls depend on earlier ones, or concurrent calls on each
    other, outside anything a per-call comparison of model and code can see. -/
theorem C08_no_hidden_process_state :
    Gen.pkgVarNames_enc = ["Base128Encoding", "Base192Encoding", "Base32Encoding", "Base64Encoding", "Base64uEncoding", "Base85Encoding", "Base91Encoding", "RawEncoding", "cb128Invert", "cbInitialized", "iodineBase32Encoding", "iodineBase64Encoding", "iodineBase64uEncoding", "iodineBase91Encoding"] ∧
    Gen.singletonFields_enc = [] := by decide
end SA.PkgState

#print axioms SA.PkgState.C08_no_hidden_process_state

import SA.Model.Codec
namespace SA.Codec
end SA.Codec

import SA.Model.DnsSessions
namespace SA.Props.C13
end SA.Props.C13

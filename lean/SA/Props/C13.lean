/-
  C13 — DNS tunnel sessions are isolated from each other and from spoofers.

  All statements are about SA.Model.DnsServer / SA.Model.DnsSessions (the fixed code: closeConnection compares object
  identity, the second pruning loop clears the retired slot).  The pruning task is *interpreted* from
  `SA.Gen.expiryLoops`, which is regenerated from the source on every run; `C13_expiry_loops_safe` re-checks the
  extracted assignment lists, and `C13_witness_old_expiry` shows that the lists of the unfixed code violate the
  statement.
-/
import SA.Proofs.DnsServer
import SA.Proofs.DnsOpen
import SA.Proofs.DnsStray
import SA.Proofs.DnsBatch
import SA.Gen.C13Locks
import SA.Gen.PkgVars

namespace SA.Props.C13
open SA.Go SA.Go.Res SA.DnsServer

/-! ## reachable states -/

theorem inv_tick {σ : Srv} (hI : Inv σ) (dt : Nat) : Inv { σ with now := σ.now + dt } :=
  ⟨hI.lenL, hI.lenR, hI.liveOk, hI.retOk, hI.fragOk, hI.uidOk⟩

theorem inv_appWrite {σ : Srv} (hI : Inv σ) (sid : Nat) (d : List Nat) : Inv (appWrite σ sid d) := by
  unfold appWrite
  split
  · dsimp only
    split
    · exact hI
    · exact inv_modify hI sid _ (fun _ => rfl) (fun _ h => h)
  · exact hI

theorem inv_appClose {σ : Srv} (hI : Inv σ) (sid : Nat) : ∃ σ', appClose σ sid = ok σ' ∧ Inv σ' := by
  unfold appClose
  split
  · next h =>
    obtain ⟨σ', h1, h2, _⟩ := close_spec hI h
    exact ⟨σ', h1, h2⟩
  · exact ⟨σ, rfl, hI⟩

theorem inv_step (cd : Codec) (hT : cd.Total) (dom : List Nat) {σ : Srv} (hI : Inv σ) (op : Op) : Inv (step cd dom σ op) := by
  unfold step stepAns
  cases op with
  | msg m =>
    obtain ⟨σ', a, h, hI', _⟩ := onMessage_good cd hT dom hI m
    simp only [h, Res.bind_ok]; exact hI'
  | close sid =>
    obtain ⟨σ', h, hI'⟩ := inv_appClose hI sid
    simp only [h, Res.bind_ok]; exact hI'
  | write sid d => exact inv_appWrite hI sid d
  | tick dt => exact inv_tick hI dt
  | expire => exact expireWith_inv _ σ hI

theorem inv_run (cd : Codec) (hT : cd.Total) (dom : List Nat) : ∀ (ops : List Op) (σ : Srv), Inv σ → Inv (run cd dom σ ops)
  | [], _, h => h
  | op :: r, σ, h => inv_run cd hT dom r _ (inv_step cd hT dom h op)

/-- Every state reachable from a fresh listener by any history of messages (any name, type, source address, any codec
    behaviour), application-side Close/Write calls, clock advances and runs of the pruning task satisfies the invariant:
    both tables keep their size and a session stored in slot i has id i. -/
theorem C13_reachable_invariant (cd : Codec) (hT : cd.Total) (dom : List Nat) (ops : List Op) : Inv (run cd dom Srv.init ops) :=
  inv_run cd hT dom ops _ inv_init

/-- **ids distinct**: in every reachable state two live slots never hold the same session, and the session in live
    slot i carries id i. -/
theorem C13_ids_distinct (cd : Codec) (hT : cd.Total) (dom : List Nat) (ops : List Op) (i j sid : Nat)
    (hi : (run cd dom Srv.init ops).live[i]? = some (some sid))
    (hj : (run cd dom Srv.init ops).live[j]? = some (some sid)) :
    i = j ∧ ((run cd dom Srv.init ops).sess sid).uid = i := by
  have hI := C13_reachable_invariant cd hT dom ops
  have a := hI.liveOk i sid hi
  have b := hI.liveOk j sid hj
  exact ⟨a.2.symm.trans b.2, a.2⟩

/-! ## a successful open takes a free identifier — also when the address is already known

  `C13_ids_distinct` speaks about slots.  The statements below speak about what a client is TOLD: the
  identifier in a successful version answer.  They hold for every state and every source address, in
  particular for an address that already owns live sessions (two tunnel clients behind one forwarder,
  retransmitted version requests). -/

/-- regenerated fact: `newUser` has no return path that hands out a session which was in `connections`
    already; the only session it returns is the one it has just created in an empty slot and sent to `accept`
    (the model's `newUser`).  Fails to compile when such a path appears. -/
theorem C13_newUser_only_fresh : SA.Gen.newUserReturnsExisting = false := by decide

/-- **every successful open returns an identifier that was free immediately before, and a new session**:
    if the server answers a message with `v:OK:uid` then, in the state the message met, no live session held
    `uid` (so `uid` differs from the identifier of every live session, whatever their addresses); afterwards
    live slot `uid` holds a session object that did not exist before (heap index = old heap size), owned by
    the sender, with identifier `uid` and empty queues; every other live slot is as it was. -/
theorem C13_open_returns_free_id (cd : Codec) (dom : List Nat) (σ σ' : Srv) (m : Msg) (uid : Nat)
    (h : onMessage cd dom σ m = ok (σ', .version uid)) :
    σ.live[uid]? = some none ∧
    (∀ j sid, σ.live[j]? = some (some sid) → j ≠ uid) ∧
    σ'.live[uid]? = some (some σ.heap.length) ∧
    σ'.heap.length = σ.heap.length + 1 ∧
    (σ'.sess σ.heap.length).uid = uid ∧ (σ'.sess σ.heap.length).owner = m.addr ∧
    (σ'.sess σ.heap.length).inq = {} ∧ (σ'.sess σ.heap.length).outq = {} ∧
    (∀ j, j ≠ uid → σ'.live[j]? = σ.live[j]?) := by
  obtain ⟨σ1, ht, hn⟩ := onMessage_version cd dom σ σ' m uid h
  obtain ⟨hl, hh⟩ := touched_live ht
  obtain ⟨h1, h2, h3, h4, h5, _, _⟩ := newUser_opens hn
  rw [hl] at h1 h5
  rw [hh] at h2 h3 h4
  refine ⟨h1, ?_, h2, h3, by rw [h4], by rw [h4], by rw [h4], by rw [h4], h5⟩
  intro j sid hj e
  subst e
  rw [h1] at hj
  simp at hj

/-- **two opens, two sessions** — also from one address: two successful version requests in a row (from any
    addresses, equal or not) are answered with different identifiers, and afterwards both identifiers are live
    with two different session objects. -/
theorem C13_two_opens_two_sessions (cd : Codec) (dom : List Nat) (σ σ1 σ2 : Srv) (m1 m2 : Msg) (u1 u2 : Nat)
    (h1 : onMessage cd dom σ m1 = ok (σ1, .version u1)) (h2 : onMessage cd dom σ1 m2 = ok (σ2, .version u2)) :
    u1 ≠ u2 ∧ σ2.live[u1]? = some (some σ.heap.length) ∧ σ2.live[u2]? = some (some (σ.heap.length + 1)) := by
  obtain ⟨_, _, a3, a4, _, _, _, _, _⟩ := C13_open_returns_free_id cd dom σ σ1 m1 u1 h1
  obtain ⟨b1, b2, b3, _, _, _, _, _, b9⟩ := C13_open_returns_free_id cd dom σ1 σ2 m2 u2 h2
  have hne : u1 ≠ u2 := b2 u1 _ a3
  refine ⟨hne, ?_, ?_⟩
  · rw [b9 u1 hne]; exact a3
  · rw [b3, a4]

/-- the allocation of the seeded change (written out; not today's code): before looking for a free slot, hand out a
    live session of the same address that has not moved payload yet -/
def newUserReusing (σ : Srv) (addr : Nat) : Srv × Option Nat :=
  match σ.live.filterMap id |>.find? (fun sid => (σ.sess sid).owner = addr ∧ (σ.sess sid).inq.next = 0 ∧ (σ.sess sid).outq.next = 0) with
  | some sid => (σ.modify sid (fun s => { s with last := σ.now }), some (σ.sess sid).uid)
  | none => newUser σ addr

/-- kernel-checked: with that allocation two opens from one address get the same identifier and share one session
    object, while today's `newUser` gives them 0 and 1 and two objects -/
theorem C13_witness_shared_address :
    (newUserReusing (newUserReusing Srv.init 7).1 7).2 = some 0 ∧ (newUserReusing Srv.init 7).2 = some 0 ∧
    (newUserReusing (newUserReusing Srv.init 7).1 7).1.heap.length = 1 ∧
    (newUser (newUser Srv.init 7).1 7).2 = some 1 ∧ (newUser (newUser Srv.init 7).1 7).1.heap.length = 2 := by
  decide +kernel

/-! ## concurrent sessions: operations on the session tables running at the same moment

The real handlers run on one goroutine per datagram, `Close()` on the application's goroutines, the pruning task on
its own.  The sequential model speaks about that through two facts: (1) the operations that WRITE the session tables
are atomic steps — each of them does all its table accesses inside one critical section of `usersLock`
(`C13_table_ops_atomic`, regenerated from the source) —, so a concurrent batch is the sequential run of its steps in
some order; (2) for a batch of opens the order does not matter (`C13_batch_opens_perm`) and the identifiers answered
are pairwise distinct, were free, and are the lowest free slots (`C13_batch_opens_ids`).  The `dnssess` component
delivers such batches to the real listener from one goroutine per op and compares with the listed order. -/

/-- **the table operations are atomic steps** (regenerated lock structure, `go/extract/x_c13_locks.go`): on every
    control-flow path of `newUser`, of `closeConnection` and of the pruning task, every access to `connections` /
    `oldConnections` happens while `usersLock` is held, all accesses of the path lie in ONE critical section (no `Unlock`
    between the first and the last of them — in `newUser`: between the nil test of the scan and the store into
    `s.connections[i]`), and the lock is released at the end (`defer` or explicit).  The paths that matter exist: `newUser`
    has a path that reads the live table and then stores into it, `closeConnection` one that stores into both tables, the
    pruning task paths that store.  Fails to compile when the source changes the lock structure. -/
theorem C13_table_ops_atomic :
    (SA.Gen.lockPaths_newUser.all pathAtomic && SA.Gen.lockPaths_newUser.any findsThenStores &&
     SA.Gen.lockPaths_closeConnection.all pathAtomic &&
     SA.Gen.lockPaths_closeConnection.any (fun p => p.contains 4 && p.contains 6) &&
     SA.Gen.lockPaths_expiry.all pathAtomic && SA.Gen.lockPaths_expiry.any (fun p => p.contains 4) &&
     SA.Gen.lockPaths_expiry.any (fun p => p.contains 6)) = true := by decide

/-- **order-independence of a batch of opens**: for every state and every two lists of clients that are permutations
    of each other, serving the opens in either order answers the same identifiers (position by position: the k-th open
    served gets the k-th lowest free slot, whoever it is) and leaves the same server state up to the owner field of the
    session objects — the orders differ only in WHICH client is told which identifier. -/
theorem C13_batch_opens_perm (σ : Srv) (as bs : List Nat) (hp : as.Perm bs) :
    (opens σ as).2 = (opens σ bs).2 ∧ (opens σ as).1.anon = (opens σ bs).1.anon ∧
    (opens σ as).1.live = (opens σ bs).1.live ∧ (opens σ as).1.retired = (opens σ bs).1.retired := by
  obtain ⟨h1, h2⟩ := opens_perm σ hp
  obtain ⟨h3, h4, _, _⟩ := anon_fields h1
  exact ⟨h2, h1, h3, h4⟩

/-- **the identifiers answered in one batch**: pairwise distinct; each was free before the batch; after the batch no
    slot below an answered identifier is free (the lowest free slots); and the k-th client, told identifier i, owns
    the session object in live slot i — an object with identifier i that did not exist before the batch. -/
theorem C13_batch_opens_ids (σ : Srv) (as : List Nat) :
    ((opens σ as).2.filterMap id).Nodup ∧
    (∀ i, some i ∈ (opens σ as).2 → σ.live[i]? = some none) ∧
    (∀ i, some i ∈ (opens σ as).2 → ∀ j, j < i → ∃ s, (opens σ as).1.live[j]? = some (some s)) ∧
    (∀ (k i a : Nat), (opens σ as).2[k]? = some (some i) → as[k]? = some a →
      ∃ sid, σ.heap.length ≤ sid ∧ (opens σ as).1.live[i]? = some (some sid) ∧
        ((opens σ as).1.sess sid).owner = a ∧ ((opens σ as).1.sess sid).uid = i) :=
  ⟨opens_ids_nodup as σ, opens_ids_free as σ, opens_lowest as σ, opens_owner as σ⟩

/-- sessions that exist before a batch of opens are not touched by it: same object, same slot -/
theorem C13_batch_opens_frame (σ : Srv) (as : List Nat) (j sid : Nat) (h : σ.live[j]? = some (some sid)) (hs : sid < σ.heap.length) :
    (opens σ as).1.live[j]? = some (some sid) ∧ (opens σ as).1.sess sid = σ.sess sid :=
  ⟨opens_keeps_occupied as σ j sid h, opens_sess_old as σ sid hs⟩

/-- kernel-checked: **with a non-atomic find / store two opens are told the same identifier**.  The seeded lock
    structure (`Lock; scan; Unlock; store`) is rejected by `pathAtomic`; and in the model with `newUser` split into its
    two halves (`newUser_eq_find_store`), the schedule "client 7 scans, client 8 scans, 7 stores, 8 stores" tells both
    identifier 0, leaves ONE live session (8's), and 7's session object in no slot at all — while the atomic steps give
    0 and 1. -/
theorem C13_witness_nonatomic_open :
    pathAtomic [0, 3, 2, 4] = false ∧ pathAtomic [0, 1, 3, 4] = true ∧
    findSlot Srv.init = some 0 ∧ findSlot Srv.init = some 0 ∧
    (storeSlot (storeSlot Srv.init 0 7) 0 8).live[0]? = some (some 1) ∧
    ((storeSlot (storeSlot Srv.init 0 7) 0 8).live.filter Option.isSome).length = 1 ∧
    ((storeSlot (storeSlot Srv.init 0 7) 0 8).sess 0).owner = 7 ∧
    (opens Srv.init [7, 8]).2 = [some 0, some 1] := by
  decide +kernel

/-! ## spoofed and stale identifiers -/

/-- the session identifier a message carries: the request (tunnel part of the name) selects a command that needs a
    user id and has a request form, and its header decodes -/
def msgUid (dom : List Nat) (m : Msg) : Option Nat :=
  match stripDomain m.name dom with
  | .ok request =>
    match findCmd SA.Gen.commandTable request with
    | .ok (some (_, true, true, _)) =>
      match decodeHeader true request with
      | .ok (some (_, uid)) => some uid
      | _ => none
    | _ => none
  | .panic => none

theorem errAns_cases (cd : Codec) (m : Msg) (dl cmd pfx code extra : Nat) (e : String) :
    errAns cd m dl cmd pfx code extra e = .drop ∨ errAns cd m dl cmd pfx code extra e = .err cmd e := by
  unfold errAns finish; split <;> simp

theorem vErrName_badIp : vErrName .badIp = SA.Gen.errBadIp := rfl

/-- **spoof rejected**: a message carrying the identifier of a live session, sent from an address that is not the
    session's owner, changes *nothing* in the server state (no read, no acknowledgement, no option change, no refresh of
    the last-contact time, no close) and is answered with BADIP (or BADCODEC when its body does not decode with the
    victim's codec, or dropped when the answer cannot be wrapped) — never with data.  By cases over the command table. -/
theorem C13_spoof_rejected (cd : Codec) (hT : cd.Total) (dom : List Nat) (σ : Srv) (m : Msg) (i sid : Nat)
    (hid : msgUid dom m = some i) (hlive : σ.live[i]? = some (some sid)) (hforeign : (σ.sess sid).owner ≠ m.addr) :
    ∃ a, onMessage cd dom σ m = ok (σ, a) ∧
      (a = .drop ∨ a = .err 101 SA.Gen.errBadCodec ∨ ∃ c, a = .err c SA.Gen.errBadIp) := by
  unfold msgUid at hid
  cases hs : stripDomain m.name dom with
  | panic => simp [hs] at hid
  | ok request =>
    simp only [hs] at hid
    cases hc : findCmd SA.Gen.commandTable request with
    | panic => simp [hc] at hid
    | ok c =>
      simp only [hc] at hid
      cases c with
      | none => simp at hid
      | some c =>
        obtain ⟨code, nu, hq, hr⟩ := c
        cases nu <;> cases hq <;> simp only [] at hid <;> try (simp at hid)
        cases hh : decodeHeader true request with
        | panic => simp [hh] at hid
        | ok h =>
          simp only [hh] at hid
          cases h with
          | none => simp at hid
          | some p =>
            obtain ⟨rest, uid⟩ := p
            simp at hid; subst hid
            have hv : validate σ uid m.addr = ok (σ, some sid, .badIp) := by
              unfold validate idxOpt
              simp [hlive, hforeign]
            obtain ⟨q, hq, hquid⟩ := decodeRequest_spec cd hT code true (upOf σ (some sid)) request rest uid hh
            unfold onMessage
            simp only [hs, hc, Res.bind_ok, hh, hv, Bool.not_true, Bool.false_eq_true, ite_false, Option.isNone_some,
              Bool.false_and, Option.isSome_some, Bool.true_and, decide_eq_true_eq, reduceCtorEq, hq]
            cases q with
            | none =>
              rcases errAns_cases cd m dom.length 101 1 84 0 SA.Gen.errBadCodec with h | h
              · exact ⟨_, rfl, Or.inl h⟩
              · exact ⟨_, rfl, Or.inr (Or.inl h)⟩
            | some q =>
              cases q with
              | version v =>
                exact absurd ((decodeRequest_kind cd hT code true _ request _ hq).1 v rfl) (needsUser_codes _ (findCmd_mem _ _ _ hc) rfl).1
              | downTest c =>
                exact absurd ((decodeRequest_kind cd hT code true _ request _ hq).2 c rfl) (needsUser_codes _ (findCmd_mem _ _ _ hc) rfl).2
              | options u o =>
                have : u = uid := hquid _ u rfl rfl
                subst this
                dsimp only
                unfold hOptions
                simp only [hv, Res.bind_ok]
                rcases errAns_cases cd m dom.length 111 1 84 1 (vErrName .badIp) with h | h
                · exact ⟨_, rfl, Or.inl h⟩
                · exact ⟨_, rfl, Or.inr (Or.inr ⟨111, h⟩)⟩
              | fragTest u n =>
                have : u = uid := hquid _ u rfl rfl
                subst this
                dsimp only
                unfold hFragTest
                simp only [hv, Res.bind_ok]
                rcases errAns_cases cd m dom.length 114 1 (downOf σ (some sid)) 1 (vErrName .badIp) with h | h
                · exact ⟨_, rfl, Or.inl h⟩
                · exact ⟨_, rfl, Or.inr (Or.inr ⟨114, h⟩)⟩
              | upTest u p =>
                have : u = uid := hquid _ u rfl rfl
                subst this
                dsimp only
                unfold hUpTest
                simp only [hv, Res.bind_ok]
                rcases errAns_cases cd m dom.length 122 1 84 1 (vErrName .badIp) with h | h
                · exact ⟨_, rfl, Or.inl h⟩
                · exact ⟨_, rfl, Or.inr (Or.inr ⟨122, h⟩)⟩
              | packet u a p =>
                have : u = uid := hquid _ u rfl rfl
                subst this
                dsimp only
                unfold hPacket
                simp only [hv, Res.bind_ok]
                rcases errAns_cases cd m dom.length 99 1 (downOf σ (some sid)) 1 (vErrName .badIp) with h | h
                · exact ⟨_, rfl, Or.inl h⟩
                · exact ⟨_, rfl, Or.inr (Or.inr ⟨99, h⟩)⟩


/-- **closed id inert**: while an identifier has no live session (after `close`, until newUser hands it out again),
    every message carrying it changes nothing in the server state and is answered BADCONN (to the retired session's
    owner) / BADUSER (to anybody else) or dropped — it can neither inject nor extract data. -/
theorem C13_closed_id_inert (cd : Codec) (dom : List Nat) (σ : Srv) (m : Msg) (i : Nat)
    (hid : msgUid dom m = some i) (hfree : σ.live[i]? = some none) (hlen : i < σ.retired.length) :
    ∃ a, onMessage cd dom σ m = ok (σ, a) ∧
      (a = .drop ∨ a = .err 101 SA.Gen.errBadUser ∨ a = .err 101 SA.Gen.errBadConn) := by
  unfold msgUid at hid
  cases hs : stripDomain m.name dom with
  | panic => simp [hs] at hid
  | ok request =>
    simp only [hs] at hid
    cases hc : findCmd SA.Gen.commandTable request with
    | panic => simp [hc] at hid
    | ok c =>
      simp only [hc] at hid
      cases c with
      | none => simp at hid
      | some c =>
        obtain ⟨code, nu, hq, hr⟩ := c
        cases nu <;> cases hq <;> simp only [] at hid <;> try (simp at hid)
        cases hh : decodeHeader true request with
        | panic => simp [hh] at hid
        | ok h =>
          simp only [hh] at hid
          cases h with
          | none => simp at hid
          | some p =>
            obtain ⟨rest, uid⟩ := p
            simp at hid; subst hid
            obtain ⟨r, hr⟩ := validate_no_panic (σ := σ) (uid := uid) (addr := m.addr)
              (by have := List.getElem?_eq_some_iff.mp hfree; exact this.1) hlen
            have hv := validate_vres hr
            unfold onMessage
            simp only [hs, hc, Res.bind_ok, hh, hr, Bool.not_true, Bool.false_eq_true, ite_false]
            cases hv with
            | badUser _ =>
              simp only [Option.isNone_none, Bool.and_self, ite_true]
              rcases errAns_cases cd m dom.length 101 1 84 0 SA.Gen.errBadUser with h | h
              · exact ⟨_, rfl, Or.inl h⟩
              · exact ⟨_, rfl, Or.inr (Or.inl h)⟩
            | badConn s _ _ _ =>
              simp only [Option.isNone_some, Bool.false_and, Bool.false_eq_true, ite_false, Option.isSome_some,
                Bool.true_and, decide_true, ite_true]
              rcases errAns_cases cd m dom.length 101 1 84 0 SA.Gen.errBadConn with h | h
              · exact ⟨_, rfl, Or.inl h⟩
              · exact ⟨_, rfl, Or.inr (Or.inr h)⟩
            | badIp s hl _ => rw [hfree] at hl; simp at hl
            | ok s hl _ => rw [hfree] at hl; simp at hl


/-! ## a re-issued identifier belongs to its new session

  An identifier is handed out again as soon as its slot in the live table is free, while the retired table may
  still remember the session that held it before (closed by its client, closed by the application, expired).  What
  the retired table remembers must not matter to the new session: the live table decides. -/

/-- regenerated fact: `validateAndGetUser` reads `s.connections[userId]` first and looks at `s.oldConnections` only
    under `if user == nil` (the model's `validate`).  Fails to compile when the retired table is consulted
    outside that branch. -/
theorem C13_validate_live_first : SA.Gen.validateLiveTableFirst = true := by decide

/-- **the owner of a live session is never refused**: a message carrying identifier `i` from the address that owns
    the live session in slot `i` is never answered BADCONN, BADUSER or BADIP — in EVERY state, in particular
    whatever the retired table holds under `i` (an earlier session of the same address that was closed or expired,
    of another address, nothing).  So no close or expiry of an earlier holder of the identifier can make the live
    session unusable.  By cases over the command table, as `C13_spoof_rejected`. -/
theorem C13_live_session_accepts_owner (cd : Codec) (hT : cd.Total) (dom : List Nat) (σ σ' : Srv) (m : Msg) (i sid : Nat) (a : Ans)
    (hid : msgUid dom m = some i) (hlive : σ.live[i]? = some (some sid)) (hown : (σ.sess sid).owner = m.addr)
    (h : onMessage cd dom σ m = ok (σ', a)) : ¬ Refusal a := by
  unfold msgUid at hid
  cases hs : stripDomain m.name dom with
  | panic => simp [hs] at hid
  | ok request =>
    simp only [hs] at hid
    cases hc : findCmd SA.Gen.commandTable request with
    | panic => simp [hc] at hid
    | ok c =>
      simp only [hc] at hid
      cases c with
      | none => simp at hid
      | some c =>
        obtain ⟨code, nu, hq, hr⟩ := c
        cases nu <;> cases hq <;> simp only [] at hid <;> try (simp at hid)
        cases hh : decodeHeader true request with
        | panic => simp [hh] at hid
        | ok hd =>
          simp only [hh] at hid
          cases hd with
          | none => simp at hid
          | some p =>
            obtain ⟨rest, uid⟩ := p
            simp at hid; subst hid
            have hv := validate_owner hlive hown
            have hl' : (touch σ sid).live[uid]? = some (some sid) := by rw [live_touch]; exact hlive
            have ho' : ((touch σ sid).sess sid).owner = m.addr := by rw [owner_touch]; exact hown
            obtain ⟨q, hq, hquid⟩ := decodeRequest_spec cd hT code true (upOf (touch σ sid) (some sid)) request rest uid hh
            unfold onMessage at h
            simp only [hs, hc, Res.bind_ok, hh, hv, Bool.not_true, Bool.false_eq_true, ite_false, Option.isNone_some,
              Bool.false_and, Option.isSome_some, Bool.true_and, decide_eq_true_eq, reduceCtorEq, hq] at h
            cases q with
            | none =>
              simp [Res.pure_eq] at h; rw [← h.2]
              exact not_refusal_errAns (by decide) (by decide) (by decide)
            | some q =>
              cases q with
              | version v =>
                exact absurd ((decodeRequest_kind cd hT code true _ request _ hq).1 v rfl) (needsUser_codes _ (findCmd_mem _ _ _ hc) rfl).1
              | downTest c =>
                exact absurd ((decodeRequest_kind cd hT code true _ request _ hq).2 c rfl) (needsUser_codes _ (findCmd_mem _ _ _ hc) rfl).2
              | options u o =>
                have : u = uid := hquid _ u rfl rfl
                subst this
                exact hOptions_owner cd dom.length m hl' ho' o a h
              | fragTest u n =>
                have : u = uid := hquid _ u rfl rfl
                subst this
                exact hFragTest_owner cd dom.length m hl' ho' n a h
              | upTest u p =>
                have : u = uid := hquid _ u rfl rfl
                subst this
                exact hUpTest_owner cd dom.length m hl' ho' p a h
              | packet u ak p =>
                have : u = uid := hquid _ u rfl rfl
                subst this
                exact hPacket_owner cd dom.length m hl' ho' ak p a h

/-- validateAndGetUser as the seeded change wrote it (not today's code): the retired table is consulted first -/
def validateRetiredFirst (σ : Srv) (uid addr : Nat) : Res (Srv × Option Nat × VErr) := do
  let r ← idxOpt σ.retired uid
  match r with
  | some rs => if (σ.sess rs).owner = addr then pure (σ, some rs, .badConn) else validate σ uid addr
  | none => validate σ uid addr

/-- identifier 1 after close and re-issue to the same address (7): object 1 held it and is retired, object 2 holds
    it now; object 0 (address 3) keeps identifier 0 -/
def reissuedState : Srv :=
  { live := [some 0, some 2], retired := [none, some 1],
    heap := [{ uid := 0, owner := 3, last := 0 }, { uid := 1, owner := 7, last := 1, closed := true }, { uid := 1, owner := 7, last := 2 }],
    now := 3 }

/-- **witness**: with the retired table consulted first, the owner of the re-issued identifier is told BADCONN (and
    handed the OLD object) although its session is live; today's `validate` accepts it and hands out the live
    object.  Kernel-checked. -/
theorem C13_witness_retired_first :
    validateRetiredFirst reissuedState 1 7 = ok (reissuedState, some 1, .badConn) ∧
    validate reissuedState 1 7 = ok (touch reissuedState 2, some 2, .ok) := by decide

/-! ## isolation from other addresses and other sessions -/

/-- **foreign messages preserve**: whatever a message from address A contains (any command, any identifier, any
    sequence / acknowledgement numbers, any body), every session owned by another address is byte-for-byte unchanged —
    queues, codecs, fragment size, closed flag, last-contact time — and keeps its live slot.  The handler also does not
    panic and re-establishes the invariant. -/
theorem C13_foreign_message_preserves (cd : Codec) (hT : cd.Total) (dom : List Nat) (σ : Srv) (hI : Inv σ) (m : Msg) (sid : Nat)
    (hs : sid < σ.heap.length) (hforeign : (σ.sess sid).owner ≠ m.addr) :
    ∃ σ' a, onMessage cd dom σ m = ok (σ', a) ∧ Inv σ' ∧ σ'.sess sid = σ.sess sid ∧
      ∀ i : Nat, σ.live[i]? = some (some sid) → σ'.live[i]? = some (some sid) := by
  obtain ⟨σ', a, h, hI', hF⟩ := onMessage_good cd hT dom hI m
  exact ⟨σ', a, h, hI', hF.sessEq sid hs hforeign, fun i hl => hF.liveKeep i sid hs hforeign hl⟩

/-- **closing another session is harmless**: Close() of the session object `other` (even one retired long ago, even
    one whose id and owner address were re-used by the session `sid`) leaves every other session object unchanged and
    in its live slot. -/
theorem C13_foreign_close_harmless (σ σ' : Srv) (other sid : Nat) (hne : sid ≠ other)
    (h : appClose σ other = ok σ') :
    σ'.sess sid = σ.sess sid ∧ ∀ i : Nat, σ.live[i]? = some (some sid) → σ'.live[i]? = some (some sid) := by
  unfold appClose at h
  split at h
  · rcases close_cases h with rfl | ⟨hl, rfl⟩
    · exact ⟨rfl, fun _ h => h⟩
    · refine ⟨sess_retire σ other sid hne, ?_⟩
      intro i hi
      simp only [retire, touch, live_modify, live_withTables, List.getElem?_set]
      by_cases hiu : (σ.sess other).uid = i
      · subst hiu; rw [hl] at hi; simp at hi; exact absurd hi.symm hne
      · simp [hiu, hi]
  · simp at h; subst h; exact ⟨rfl, fun _ h => h⟩

/-! ## expiry -/

/-- the regenerated assignment lists of the two pruning loops are safe: the loop over the live table uses (at least)
    ConnectionTimeout, the loop over the retired table never assigns to the live table -/
theorem C13_expiry_loops_safe : safeLoops SA.Gen.connectionTimeout SA.Gen.expiryLoops = true := by decide

/-- **unrelated expiry harmless**: after *any* history of opens, closes, re-opens, clock advances and earlier runs of
    the pruning task (so in particular with its identifier re-used from a retired session of any age), a live session
    whose owner has been heard within ConnectionTimeout is still live, in the same slot and unchanged, after a run of
    the pruning task. -/
theorem C13_unrelated_expiry_harmless (cd : Codec) (hT : cd.Total) (dom : List Nat) (ops : List Op) (i sid : Nat)
    (hlive : (run cd dom Srv.init ops).live[i]? = some (some sid))
    (hfresh : (run cd dom Srv.init ops).now ≤ ((run cd dom Srv.init ops).sess sid).last + SA.Gen.connectionTimeout) :
    (expire (run cd dom Srv.init ops)).live[i]? = some (some sid) ∧
    (expire (run cd dom Srv.init ops)).sess sid = (run cd dom Srv.init ops).sess sid := by
  have hI := C13_reachable_invariant cd hT dom ops
  have hK := expireWith_keeps (σ0 := run cd dom Srv.init ops) hfresh SA.Gen.expiryLoops _ C13_expiry_loops_safe
    ⟨hI, hlive, fun _ => rfl, rfl⟩
  exact ⟨hK.live, hK.sess sid⟩

/-- the assignment lists of the unfixed pruning task (second loop: `connections[id] = nil; oldConnections[id] = u`) -/
def oldExpiryLoops : List (Nat × Nat × List (Nat × Bool)) :=
  [(0, 300, [(0, false), (1, true)]), (1, 1800, [(0, false), (1, true)])]

/-- the situation of the defect on a one-slot table: session 0 (owner 1) was retired at time 0 with id 0; session 1
    (owner 2) re-used id 0 and was heard at time 1990; now = 2000 -/
def witnessState : Srv :=
  { live := [some 1], retired := [some 0],
    heap := [{ uid := 0, owner := 1, last := 0, closed := true }, { uid := 0, owner := 2, last := 1990 }], now := 2000 }

/-- **witness**: with the assignment lists of the unfixed code the fresh live session is removed (and the stale retired
    entry stays, so this repeats on every run); the old lists are rejected by `safeLoops`; the current lists keep it. -/
theorem C13_witness_old_expiry :
    (expireWith oldExpiryLoops witnessState).live = [none] ∧
    (expireWith oldExpiryLoops witnessState).retired = [some 0] ∧
    safeLoops SA.Gen.connectionTimeout oldExpiryLoops = false ∧
    (expireWith SA.Gen.expiryLoops witnessState).live = [some 1] := by decide

/-! ## non-vacuity -/

/-- a packet request `cabc00…` for id 0 under the domain "t.co" -/
def sampleName : List Nat := [99, 97, 98, 99, 48, 48, 97, 97, 97, 97, 97, 46, 116, 46, 99, 111, 46]
def sampleDom : List Nat := [116, 46, 99, 111]

example : msgUid sampleDom { addr := 2, qtype := 10, name := sampleName } = some 0 := by decide

/-- a version request `v7wlaaiaaaa.t.co.` (protocol version in the body `aaiaaaa`, Base32 → 00 10 00 00) and the
    codec oracle for it -/
def sampleOpen : List Nat := [118, 55, 119, 108, 97, 97, 105, 97, 97, 97, 97, 46, 116, 46, 99, 111, 46]
def sampleCodec : Codec := oracleCodec [(84, [97, 97, 105, 97, 97, 97, 97], some [0, 16, 0, 0])]

/-- the hypotheses of `C13_open_returns_free_id` / `C13_two_opens_two_sessions` are met by two version requests
    from ONE address against a fresh listener: identifiers 0 and 1 -/
def ansOf : Res (Srv × Ans) → Option Ans
  | .ok (_, a) => some a
  | .panic => none
def stateOf : Res (Srv × Ans) → Srv
  | .ok (σ, _) => σ
  | .panic => Srv.init

example :
    ansOf (onMessage sampleCodec sampleDom Srv.init { addr := 1, qtype := 10, name := sampleOpen }) = some (.version 0) ∧
    ansOf (onMessage sampleCodec sampleDom
      (stateOf (onMessage sampleCodec sampleDom Srv.init { addr := 1, qtype := 10, name := sampleOpen }))
      { addr := 1, qtype := 10, name := sampleOpen }) = some (.version 1) := by
  decide +kernel

/-- the hypotheses of `C13_live_session_accepts_owner` are met in the re-issued state (the retired table remembers an
    earlier session of the SAME address under identifier 1), by a packet request `cabc01…` from address 7 -/
def sampleName1 : List Nat := [99, 97, 98, 99, 48, 49, 97, 97, 97, 97, 97, 46, 116, 46, 99, 111, 46]
example : msgUid sampleDom { addr := 7, qtype := 10, name := sampleName1 } = some 1 ∧
    reissuedState.live[1]? = some (some 2) ∧ (reissuedState.sess 2).owner = 7 ∧
    reissuedState.retired[1]? = some (some 1) ∧ (reissuedState.sess 1).owner = 7 := by decide

/-- a batch on a table with a hole: identifiers 1 and 3 are free below the live 2 and 4; three clients get 1, 3, 5 in
    every order -/
def holedState : Srv := (run sampleCodec sampleDom (opens Srv.init [1, 1, 1, 1, 1]).1 [.close 1, .close 3])
example : (opens holedState [7, 8, 9]).2 = [some 1, some 3, some 5] ∧ (opens holedState [9, 7, 8]).2 = [some 1, some 3, some 5] ∧
    (opens holedState [7, 8, 9]).1.anon = (opens holedState [9, 7, 8]).1.anon ∧
    ((opens holedState [7, 8, 9]).1.sess 6).owner = 8 ∧ ((opens holedState [9, 7, 8]).1.sess 6).owner = 7 := by
  decide +kernel

example : safeLoops 300 [(1, 1800, [(1, false)])] = true ∧ safeLoops 300 [(1, 1800, [(0, false)])] = false := by decide

end SA.Props.C13

#print axioms SA.Props.C13.C13_reachable_invariant
#print axioms SA.Props.C13.C13_ids_distinct
#print axioms SA.Props.C13.C13_newUser_only_fresh
#print axioms SA.Props.C13.C13_open_returns_free_id
#print axioms SA.Props.C13.C13_two_opens_two_sessions
#print axioms SA.Props.C13.C13_witness_shared_address
#print axioms SA.Props.C13.C13_table_ops_atomic
#print axioms SA.Props.C13.C13_batch_opens_perm
#print axioms SA.Props.C13.C13_batch_opens_ids
#print axioms SA.Props.C13.C13_batch_opens_frame
#print axioms SA.Props.C13.C13_witness_nonatomic_open
#print axioms SA.Props.C13.C13_spoof_rejected
#print axioms SA.Props.C13.C13_closed_id_inert
#print axioms SA.Props.C13.C13_validate_live_first
#print axioms SA.Props.C13.C13_live_session_accepts_owner
#print axioms SA.Props.C13.C13_witness_retired_first
#print axioms SA.Props.C13.C13_foreign_message_preserves
#print axioms SA.Props.C13.C13_foreign_close_harmless
#print axioms SA.Props.C13.C13_expiry_loops_safe
#print axioms SA.Props.C13.C13_unrelated_expiry_harmless
#print axioms SA.Props.C13.C13_witness_old_expiry

namespace SA.PkgState
/-- **no_hidden_process_state**: the models of this property are functions of their arguments and of the objects they are
    handed; the packages they model keep no package-level variables besides these (regenerated inventory: error
    sentinels, tables, compiled patterns, the two session time-outs).  A new package-level variable — a counter, a cache, a
    scratch buffer, a shared map, a registry — would make later calls depend on earlier ones, or concurrent calls on each
    other, outside anything a per-call comparison of model and code can see. -/
theorem C13_no_hidden_process_state :
    Gen.pkgVarNames_dns = ["ConnectionTimeout", "ErrConnectionFailed", "ErrHandshakeNotCompleted", "OldConnectionTimeout"] := by decide
end SA.PkgState

#print axioms SA.PkgState.C13_no_hidden_process_state

/-
  C15 — One stalled peer cannot block other peers (scheduler model of the listener accept loops;
  partial: real time enters only as a deadline in the correspondence).
-/
import SA.Props.C02
namespace SA.Accept

/-- **no_hol_if_off_loop**: when the session handshake runs off the accept loop, then for every set of
    stalled peers and every history of arrivals, accepts and completed handshakes, a well-behaved
    peer that is waiting is accepted and completes its handshake using only accept steps and its own
    steps — it never needs a stalled peer to move. -/
theorem C15_no_hol_if_off_loop (stalled : Nat → Bool) (hist : List AAct) (p : Nat) (hp : stalled p = false) :
    let s := arun true stalled ainit hist
    p ∈ s.pending →
    ∃ n, p ∈ (arun true stalled s (List.replicate n .accept ++ [.handler p])).finished :=
  C02_independent_if_spawned stalled hist p hp

/-- the current code runs the handshake off the loop on every endpoint kind that has a loop of its
    own (socket, unix, tcp+tls, DNS share SocketServer's loop; UDP/KCP has PacketServer's); HTTP
    endpoints get a goroutine per request from net/http. -/
theorem C15_handshake_off_loop : Gen.socketAcceptSpawned = true ∧ Gen.packetAcceptSpawned = true := by decide

/-- **witness_stall**: with the handshake on the loop (the code before the repair) one silent peer
    blocks every later peer forever. -/
theorem C15_witness_stall (acts : List AAct) (hna : ∀ a ∈ acts, ∀ id, a ≠ .arrive id) :
    let stalled : Nat → Bool := fun id => decide (id = 0)
    let s0 := arun false stalled ainit [.arrive 0, .arrive 1, .accept]
    1 ∈ (arun false stalled s0 acts).pending :=
  C02_witness_hol acts hna

end SA.Accept

#print axioms SA.Accept.C15_no_hol_if_off_loop
#print axioms SA.Accept.C15_handshake_off_loop
#print axioms SA.Accept.C15_witness_stall

/-
  C15 — One stalled peer cannot block other peers (scheduler model of the listener accept loops;
  partial: real time enters only as a deadline in the correspondence).
-/
import SA.Model.DnsFront
import SA.Gen.C15DnsServer
import SA.Props.C02
import SA.Proofs.AcceptTimed
import SA.Proofs.AcceptFail
import SA.Gen.Locks
import SA.Gen.PkgVars
import SA.Gen.LoopVars
namespace SA.Accept

/-- **no_hol_if_off_loop**: when the session handshake runs off the accept loop, then for every set of
    stalled peers and every history of arrivals, accepts and completed handshakes, a well-behaved
    peer that is waiting is accepted and completes its handshake using only accept steps and its own
    steps — it never needs a stalled peer to move. -/
theorem C15_no_hol_if_off_loop (stalled : Nat → Bool) (hist : List AAct) (p : Nat) (hp : stalled p = false) :
    let s := arun true stalled ainit hist
    p ∈ s.pending →
    ∃ n, p ∈ (arun true stalled s (List.replicate n .accept ++ [.handler p])).finished :=
  C02_independent_if_spawned stalled hist p hp

/-- the current code runs the handshake off the loop on every endpoint kind that has a loop of its
    own (socket, unix, tcp+tls, DNS share SocketServer's loop; UDP/KCP has PacketServer's); HTTP
    endpoints get a goroutine per request from net/http. -/
theorem C15_handshake_off_loop : Gen.socketAcceptSpawned = true ∧ Gen.packetAcceptSpawned = true := by decide

/-- **witness_stall**: with the handshake on the loop (the code before the repair) one silent peer
    blocks every later peer forever. -/
theorem C15_witness_stall (acts : List AAct) (hna : ∀ a ∈ acts, ∀ id, a ≠ .arrive id) :
    let stalled : Nat → Bool := fun id => decide (id = 0)
    let s0 := arun false stalled ainit [.arrive 0, .arrive 1, .accept]
    1 ∈ (arun false stalled s0 acts).pending :=
  C02_witness_hol acts hna

/-- **established_stays**: with no handshake watchdog, or with one that closes the connection it was armed for, a
    session that has completed its handshake is still there after every further history of arrivals, accepts,
    handshakes of other peers and watchdog expiries of stalled peers — a stalled peer costs only its own session. -/
theorem C15_established_stays (wd : Watchdog) (hwd : wd ≠ .shared) (stalled : Nat → Bool) (hist acts : List TAct) (p : Nat) :
    let s := trun wd stalled tinit hist
    p ∈ s.base.finished → p ∈ (trun wd stalled s acts).base.finished :=
  fun hp => trun_finished_mono wd hwd stalled _ acts p hp

/-- the code as it is arms no timer and no deadline between Accept() and the end of the session handshake, so its
    accept loops are the instance `Watchdog.none` … -/
theorem C15_accept_path_untimed : Gen.acceptPathTimers = [] ∧ codeWatchdog = some .none := by decide

/-- … for which the timed model is exactly the untimed scheduler model the other C15 theorems are about. -/
theorem C15_untimed_is_accept_model (stalled : Nat → Bool) (hist : List TAct) :
    (trun .none stalled tinit hist).base = arun true stalled ainit (baseActs hist) :=
  trun_none stalled tinit hist

/-- **witness_shared_watchdog**: a watchdog whose callback closes "the connection accepted last" (the loop's variable
    instead of a per-connection one): the stalled peer 0 and the well-behaved peer 1 are accepted, 1 completes its
    handshake; when 0's watchdog fires it is 1's established session that is closed, and the stalled peer stays. -/
theorem C15_witness_shared_watchdog :
    let stalled : Nat → Bool := fun id => decide (id = 0)
    let s := trun .shared stalled tinit [.act (.arrive 0), .act (.arrive 1), .act .accept, .act .accept, .act (.handler 1)]
    1 ∈ s.base.finished ∧
    1 ∉ (trun .shared stalled s [.timeout 0]).base.finished ∧
    1 ∈ (trun .shared stalled s [.timeout 0]).closed ∧
    0 ∈ (trun .shared stalled s [.timeout 0]).base.running := by decide

/-- non-vacuity of `C15_established_stays`: with a per-connection watchdog the same history drops the stalled peer and
    keeps the established one -/
example :
    let stalled : Nat → Bool := fun id => decide (id = 0)
    let s := trun .own stalled tinit [.act (.arrive 0), .act (.arrive 1), .act .accept, .act .accept, .act (.handler 1)]
    1 ∈ s.base.finished ∧ 1 ∈ (trun .own stalled s [.timeout 0]).base.finished ∧
    0 ∈ (trun .own stalled s [.timeout 0]).closed := by decide

/-- **locks_not_reentrant**: no function of the repository, while holding one of its mutexes, reaches code that locks
    the same mutex again (regenerated).  For this property: the DNS endpoint's once-a-minute retirement of silent
    sessions runs under the session table's lock; if it blocked there, every later client's version request would
    wait for that lock for ever — one silent peer would stop all later peers. -/
theorem C15_locks_not_reentrant : Gen.reentrantLockPaths = [] := by decide

end SA.Accept

#print axioms SA.Accept.C15_established_stays
#print axioms SA.Accept.C15_accept_path_untimed
#print axioms SA.Accept.C15_untimed_is_accept_model
#print axioms SA.Accept.C15_witness_shared_watchdog
#print axioms SA.Accept.C15_no_hol_if_off_loop
#print axioms SA.Accept.C15_handshake_off_loop
#print axioms SA.Accept.C15_witness_stall
#print axioms SA.Accept.C15_locks_not_reentrant

namespace SA.PkgState
/-- **no_hidden_process_state**: the models of this property are functions of their arguments and of the objects they are
    handed; the packages they model keep no package-level variables besides these (regenerated inventory: error
    sentinels, tables, compiled patterns, the two session time-outs).  A new package-level variable — a counter, a cache, a
    scratch buffer, a shared map, a registry — would make later calls depend on earlier ones, or concurrent calls on each
    other, outside anything a per-call comparison of model and code can see. -/
theorem C15_no_hidden_process_state :
    Gen.pkgVarNames_server = ["ChannelRegex"] ∧
    Gen.pkgVarNames_dns = ["ConnectionTimeout", "ErrConnectionFailed", "ErrHandshakeNotCompleted", "OldConnectionTimeout"] := by decide
end SA.PkgState

#print axioms SA.PkgState.C15_no_hidden_process_state

namespace SA.PkgState
/-- **per_item_handlers**: the module's language version is go 1.14 — a loop has one variable for all its iterations.
    No function literal inside a loop body captures a variable that the loop (re)assigns on every iteration, so the
    handler, callback or goroutine set up for one channel / endpoint / connection is not silently bound to a later
    one (regenerated inventory).  The three entries are addresses of a loop variable that are consumed before the next
    iteration: `EndpointHandler(&endpoint, …)` reads one field synchronously, and the two command look-ups leave their
    loop at once (`cmd = &c; break` / `return`). -/
theorem C15_per_item_handlers :
    Gen.goDirective = "1.14" ∧
    Gen.loopVarCaptures = ["internal/server/http_server.go Startup: address of loop variable endpoint taken", "internal/streams/dns/commands/serializer.go DetectCommandType: address of loop variable v taken", "internal/streams/dns/dns_server_connection.go onMessage: address of loop variable c taken"] := by decide
end SA.PkgState

#print axioms SA.PkgState.C15_per_item_handlers

namespace SA.DnsFront
/-- **only_single_question_queries_reach_the_handler**: with the library's default accept function every message that
    reaches the handler is recomposed without a fault, whatever its names are — for all messages. -/
theorem C15_accepted_messages_compose (m : Msg) (h : acceptedByDefault m = true) : (composeRequest m).isSome = true := by
  obtain ⟨q, ns⟩ := m
  simp only [acceptedByDefault, Bool.and_eq_true, beq_iff_eq] at h
  match ns, h.2 with
  | [n], _ => simp [composeRequest]

/-- the code keeps the default: the only fields of the library's Server object it sets are the address, the network, the
    TLS configuration and the handler table (regenerated) — no accept function of its own -/
theorem C15_dns_server_keeps_default_filter :
    Gen.dnsServerFieldsSet = ["Addr", "Handler", "Net", "TLSConfig"] := by decide

/-- witness: an accept function without the one-question rule lets through messages that kill the process (two root
    questions; no question at all) -/
theorem C15_witness_multi_question :
    acceptedAnyCount ⟨true, [[46], [46]]⟩ = true ∧ composeRequest ⟨true, [[46], [46]]⟩ = none ∧
    acceptedAnyCount ⟨true, []⟩ = true ∧ composeRequest ⟨true, []⟩ = none ∧
    acceptedByDefault ⟨true, [[46], [46]]⟩ = false ∧ acceptedByDefault ⟨true, []⟩ = false := by decide
end SA.DnsFront

#print axioms SA.DnsFront.C15_accepted_messages_compose
#print axioms SA.DnsFront.C15_dns_server_keeps_default_filter
#print axioms SA.DnsFront.C15_witness_multi_question

namespace SA.Accept

theorem fbase_accepts_then_handler (n p : Nat) :
    fbase (List.replicate n (FAct.act .accept) ++ [FAct.act (.handler p)]) = List.replicate n AAct.accept ++ [AAct.handler p] := by
  induction n with
  | zero => rfl
  | succ k ih => simp only [List.replicate_succ, List.cons_append, fbase, ih]

/-- **served_despite_accept_failures**: when the loop goes back to Accept after every failed Accept (and runs the
    handshake off the loop), then for every set of stalled peers and every history of arrivals, accepts, completed
    handshakes *and failed Accept calls of any class, any number of them, at any moment*, a well-behaved peer that is
    waiting is accepted and completes its handshake using only accept steps and its own steps. -/
theorem C15_served_despite_accept_failures (retry : ErrClass → Bool) (hr : ∀ c, retry c = true) (stalled : Nat → Bool)
    (hist : List FAct) (p : Nat) (hp : stalled p = false) :
    let s := frun retry stalled finit hist
    p ∈ s.base.pending →
    ∃ n, p ∈ (frun retry stalled s (List.replicate n (.act .accept) ++ [.act (.handler p)])).base.finished := by
  intro s hmem
  have hs : s = { base := arun true stalled ainit (fbase hist), alive := true } := frun_retry retry hr stalled finit rfl hist
  rw [hs] at hmem
  obtain ⟨n, hn⟩ := C15_no_hol_if_off_loop stalled (fbase hist) p hp hmem
  refine ⟨n, ?_⟩
  rw [hs, frun_retry retry hr stalled _ rfl, fbase_accepts_then_handler]
  exact hn

/-- the code as it is goes back to Accept whatever failed: in both accept loops (SocketServer: tcp, unix, tcp+tls, DNS
    endpoints; PacketServer: UDP/KCP endpoints) nothing in the handling of Accept's error leaves the loop or waits, and
    `if err != nil { … }` ends with `continue` (regenerated) — the policy the theorem above is about. -/
theorem C15_accept_errors_retried :
    Gen.socketAcceptErrorExits = [] ∧ Gen.packetAcceptErrorExits = [] ∧
    Gen.socketAcceptErrorEnds = "continue" ∧ Gen.packetAcceptErrorEnds = "continue" ∧
    (codeRetry "tcp").isSome = true ∧ (codeRetry "udp").isSome = true := by decide

/-- **witness_accept_failure_ends_loop**: a loop that goes back to Accept only after an accept deadline and leaves
    after any other failure: the silent peer 0 is accepted, peer 1 arrives at a moment at which Accept fails with a
    temporary error (out of descriptors).  The listener is open, the failure is over — and peer 1, like every peer after
    it, waits for ever, whatever happens next. -/
theorem C15_witness_accept_failure_ends_loop (acts : List FAct) :
    let stalled : Nat → Bool := fun id => decide (id = 0)
    let s0 := frun retryTimeoutOnly stalled finit [.act (.arrive 0), .act .accept, .act (.arrive 1), .fail .temporary]
    1 ∈ (frun retryTimeoutOnly stalled s0 acts).base.pending :=
  (frun_dead retryTimeoutOnly _ _ (by decide) 1 (by decide) acts).1

/-- non-vacuity of `C15_served_despite_accept_failures`, and the other half of the witness: the same history under the
    code's policy serves peer 1; an accept deadline does not end the witness's loop either -/
example :
    let stalled : Nat → Bool := fun id => decide (id = 0)
    let hist : List FAct := [.act (.arrive 0), .act .accept, .act (.arrive 1), .fail .temporary, .fail .other, .fail .timeout]
    1 ∈ (frun retryAll stalled finit hist).base.pending ∧
    1 ∈ (frun retryAll stalled finit (hist ++ [.act .accept, .act (.handler 1)])).base.finished ∧
    1 ∈ (frun retryTimeoutOnly stalled finit [.act (.arrive 0), .act .accept, .act (.arrive 1), .fail .timeout, .act .accept, .act (.handler 1)]).base.finished := by decide

end SA.Accept

#print axioms SA.Accept.C15_served_despite_accept_failures
#print axioms SA.Accept.C15_accept_errors_retried
#print axioms SA.Accept.C15_witness_accept_failure_ends_loop

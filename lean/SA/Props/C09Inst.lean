/-
  C09, continued — the codec hypotheses discharged, and the client's own size budget proved safe.

  SA.Props.C09 proves the round trip for *any* codec pair meeting C08's `roundtrip` and
  `alphabet_safe`.  Here the pair is instantiated with property C08's models (`ofC08`, the very models
  the `dnsreq` correspondence runs against the real serializer) for every codec a client can select
  upstream — Base32, Base64, Base64u, Base85, Base91, Base128 — and the hypotheses are discharged by
  C08's theorems.  Raw is excluded (not name-safe by design, TXT answers only) and so is Base192 (open
  finding C08-F1).

  `C09_payload_within_mtu_fits` is the statement that was monitored only: a packet request whose
  payload is at most `getUpstreamMtu` bytes (exact-rational model `upstreamMtu`, tied exhaustively to
  the float code on every run) is accepted by PrepareHostname, for every domain length and every
  payload.  It follows from the *tight* encoded lengths (`C08_length_exact_…`, `C08_length_tight_…`);
  C08's worded bound `⌈ratio·n⌉ + 8` is too weak for it (the margin of getUpstreamMtu is 10 bytes, six
  of which are the request header) — see `C09_c08_slack_insufficient`.
-/
import SA.Props.C09
import SA.Proofs.WireCodecInst
namespace SA.DnsReq
open SA.DnsWire SA.WireCodec

/-! ### the two registries agree -/

/-- the ratio table used by the `mtu` model (SA.Gen.C09, from `Ratio()`) and C08's registry
    (SA.Gen.C08) list the same codes with the same exact ratios -/
theorem C09_ratio_tables_agree :
    ∀ cd ∈ SA.Codec.registry,
      SA.Gen.C09.codecRatios.find? (·.1 == cd.code) = some (cd.code, cd.ratio.1, cd.ratio.2) := by
  decide

/-- getUpstreamMtu (single-query mode) for a C08 codec -/
def upstreamMtuOf (domainLen : Nat) (cd : SA.Codec.Codec) : Option Nat :=
  upstreamMtu domainLen cd.ratio.1 cd.ratio.2 false

/-! ### C09 with the codec hypotheses discharged -/

/-- **C09, round trip, no codec hypotheses.**  Hard-wired Base32 = C08's Base32 model, upstream codec =
    C08's model of any selectable codec. -/
theorem C09_request_roundtrip_inst (cd : SA.Codec.Codec) (hcd : cd ∈ upstreamCodecs)
    (cache domain : List Nat) (dls : List (List Nat)) (hc : CacheOk cache) (hdom : DomainOk domain dls)
    (r : Req) (hr : ReqOk r) (host : List Nat)
    (hfit : prepareHostname (encodeReq (ofC08 .b32) (ofC08 cd) cache r) domain = some host) :
    ∃ labels, nameOverWire host = .ok labels
      ∧ roundTrip (ofC08 .b32) (ofC08 cd) cache domain r = .ok (unpackName labels) labels r :=
  C09_request_roundtrip (ofC08 .b32) (ofC08 cd) (ofC08_good .b32 (by decide)) (ofC08_good cd hcd)
    (ofC08_safe .b32 (by decide)) (ofC08_safe cd hcd) cache domain dls hc hdom r hr host hfit

/-- the statement of `C09_request_roundtrip_inst` for one upstream codec -/
def RoundTripFor (cd : SA.Codec.Codec) : Prop :=
  ∀ (cache domain : List Nat) (dls : List (List Nat)), CacheOk cache → DomainOk domain dls →
    ∀ (r : Req), ReqOk r → ∀ (host : List Nat),
      prepareHostname (encodeReq (ofC08 .b32) (ofC08 cd) cache r) domain = some host →
      ∃ labels, nameOverWire host = .ok labels
        ∧ roundTrip (ofC08 .b32) (ofC08 cd) cache domain r = .ok (unpackName labels) labels r

theorem C09_request_roundtrip_b32 : RoundTripFor .b32 :=
  fun c d l hc hd r hr h hf => C09_request_roundtrip_inst .b32 (by decide) c d l hc hd r hr h hf
theorem C09_request_roundtrip_b64 : RoundTripFor .b64 :=
  fun c d l hc hd r hr h hf => C09_request_roundtrip_inst .b64 (by decide) c d l hc hd r hr h hf
theorem C09_request_roundtrip_b64u : RoundTripFor .b64u :=
  fun c d l hc hd r hr h hf => C09_request_roundtrip_inst .b64u (by decide) c d l hc hd r hr h hf
theorem C09_request_roundtrip_b85 : RoundTripFor .b85 :=
  fun c d l hc hd r hr h hf => C09_request_roundtrip_inst .b85 (by decide) c d l hc hd r hr h hf
theorem C09_request_roundtrip_b91 : RoundTripFor .b91 :=
  fun c d l hc hd r hr h hf => C09_request_roundtrip_inst .b91 (by decide) c d l hc hd r hr h hf
theorem C09_request_roundtrip_b128 : RoundTripFor .b128 :=
  fun c d l hc hd r hr h hf => C09_request_roundtrip_inst .b128 (by decide) c d l hc hd r hr h hf

/-- **C09, valid question, no codec hypotheses.** -/
theorem C09_labels_ok_inst (cd : SA.Codec.Codec) (hcd : cd ∈ upstreamCodecs)
    (cache domain : List Nat) (dls : List (List Nat)) (hc : CacheOk cache) (hdom : DomainOk domain dls)
    (r : Req) (hr : ReqOk r) (host : List Nat)
    (hfit : prepareHostname (encodeReq (ofC08 .b32) (ofC08 cd) cache r) domain = some host) :
    ∃ labels, nameOverWire host = .ok labels
      ∧ (∀ l ∈ labels, 1 ≤ l.length ∧ l.length ≤ 63)
      ∧ host.length ≤ 253
      ∧ wireOctets labels = host.length + 1 :=
  C09_labels_ok (ofC08 .b32) (ofC08 cd) (ofC08_safe .b32 (by decide)) (ofC08_safe cd hcd)
    cache domain dls hc hdom r hr host hfit

/-! ### the size budget -/

/-- what the codec is handed for a packet request: ack, flag, and (with data) sequence number + payload -/
def packetBody (ack : Nat) (pkt : Option (Nat × List Nat)) : List Nat :=
  le16 ack ++ (match pkt with
    | some (seq, data) => 255 :: le16 seq ++ data
    | none => [0])

def payloadLen : Option (Nat × List Nat) → Nat
  | some (_, data) => data.length
  | none => 0

theorem packetBody_length_le (ack : Nat) (pkt : Option (Nat × List Nat)) :
    (packetBody ack pkt).length ≤ payloadLen pkt + 5 := by
  cases pkt with
  | none => simp [packetBody, payloadLen, le16]
  | some p => obtain ⟨s, d⟩ := p; simp [packetBody, payloadLen, le16]

theorem packetBody_bytes (ack : Nat) (pkt : Option (Nat × List Nat))
    (h : ∀ p, pkt = some p → SA.Bytes p.2) : SA.Bytes (packetBody ack pkt) := by
  refine bytes_append (bytes_le16 ack) ?_
  cases pkt with
  | none => exact bytes_cons (by decide) bytes_nil
  | some p => exact bytes_cons (by decide) (bytes_append (bytes_le16 p.1) (h p rfl))

theorem encodeReq_packet_length (b32 up : Codec) (cache : List Nat) (hc : cache.length = 3)
    (uid ack : Nat) (pkt : Option (Nat × List Nat)) :
    (encodeReq b32 up cache (.packet uid ack pkt)).length = 6 + (up.enc (packetBody ack pkt)).length := by
  have hn : needsUserId 99 = true := by decide
  have e : encodeReq b32 up cache (.packet uid ack pkt)
      = encodeHeader 99 cache uid ++ up.enc (packetBody ack pkt) := by
    cases pkt with
    | none => rfl
    | some p => rfl
  rw [e]
  simp only [encodeHeader, hn, if_true, encodeUserId, List.length_append, List.length_cons,
    List.length_nil, hc]

/-- the arithmetic of getUpstreamMtu against PrepareHostname + Dotify, for an encoded length `E` -/
theorem fits_of_mtu (num den L m : Nat) (hm : upstreamMtu L num den false = some m) :
    (59 : Int) * ((247 - (L : Int)) * den - 10 * num) ≥ 0 ∧
    m = ((59 * ((247 - (L : Int)) * den - 10 * num)) / (60 * (num : Int))).toNat := by
  rw [C09_mtu_formula] at hm
  split at hm
  · exact absurd hm (by simp)
  · exact ⟨by omega, (Option.some.inj hm).symm⟩

theorem fits_b32 (L m n E : Nat) (hm : upstreamMtu L 8 5 false = some m) (hn : n ≤ m)
    (hE : E ≤ (8 * (n + 5) + 4) / 5) :
    6 + E + (if 6 + E > 60 then (6 + E - 1) / 57 else 0) + L + 2 ≤ 251 := by
  obtain ⟨h0, h1⟩ := fits_of_mtu _ _ _ _ hm
  split <;> omega

theorem fits_b64 (L m n E : Nat) (hm : upstreamMtu L 4 3 false = some m) (hn : n ≤ m)
    (hE : E ≤ (8 * (n + 5) + 5) / 6) :
    6 + E + (if 6 + E > 60 then (6 + E - 1) / 57 else 0) + L + 2 ≤ 251 := by
  obtain ⟨h0, h1⟩ := fits_of_mtu _ _ _ _ hm
  split <;> omega

theorem fits_b85 (L m n E : Nat) (hm : upstreamMtu L 5 4 false = some m) (hn : n ≤ m)
    (hE : E ≤ (5 * (n + 5) + 3) / 4) :
    6 + E + (if 6 + E > 60 then (6 + E - 1) / 57 else 0) + L + 2 ≤ 251 := by
  obtain ⟨h0, h1⟩ := fits_of_mtu _ _ _ _ hm
  split <;> omega

theorem fits_b91 (L m n E : Nat) (hm : upstreamMtu L 1231 1000 false = some m) (hn : n ≤ m)
    (hE : 13 * E ≤ 16 * (n + 5) + 26) :
    6 + E + (if 6 + E > 60 then (6 + E - 1) / 57 else 0) + L + 2 ≤ 251 := by
  obtain ⟨h0, h1⟩ := fits_of_mtu _ _ _ _ hm
  split <;> omega

theorem fits_b128 (L m n E : Nat) (hm : upstreamMtu L 8 7 false = some m) (hn : n ≤ m)
    (hE : E ≤ (8 * (n + 5) + 6) / 7) :
    6 + E + (if 6 + E > 60 then (6 + E - 1) / 57 else 0) + L + 2 ≤ 251 := by
  obtain ⟨h0, h1⟩ := fits_of_mtu _ _ _ _ hm
  split <;> omega

/-- **C09, the client's own size budget is safe.**  For every selectable upstream codec, every tunnel
    domain (any length — when getUpstreamMtu is negative there is nothing to prove), every cache
    triple, user id, ack/sequence number: a packet request (with data or a bare poll) whose payload is
    at most getUpstreamMtu bytes is accepted by PrepareHostname. -/
theorem C09_payload_within_mtu_fits (cd : SA.Codec.Codec) (hcd : cd ∈ upstreamCodecs)
    (cache domain : List Nat) (hc : cache.length = 3) (uid ack : Nat) (pkt : Option (Nat × List Nat))
    (hbytes : ∀ p, pkt = some p → SA.Bytes p.2)
    (m : Nat) (hm : upstreamMtuOf domain.length cd = some m) (hlen : payloadLen pkt ≤ m) :
    ∃ host, prepareHostname (encodeReq (ofC08 .b32) (ofC08 cd) cache (.packet uid ack pkt)) domain
      = some host := by
  apply prepareHostname_fits
  rw [encodeReq_packet_length _ _ _ hc]
  have hb := packetBody_bytes ack pkt hbytes
  have hl := packetBody_length_le ack pkt
  generalize packetBody ack pkt = body at hb hl
  simp only [upstreamCodecs, List.mem_cons, List.not_mem_nil, or_false] at hcd
  rcases hcd with rfl | rfl | rfl | rfl | rfl | rfl
  · have := SA.Codec.C08_length_exact_b32 body hb
    exact fits_b32 _ m (payloadLen pkt) _ hm hlen (by simp only [ofC08]; omega)
  · have := SA.Codec.C08_length_exact_b64 body hb
    exact fits_b64 _ m (payloadLen pkt) _ hm hlen (by simp only [ofC08]; omega)
  · have := SA.Codec.C08_length_exact_b64u body hb
    exact fits_b64 _ m (payloadLen pkt) _ hm hlen (by simp only [ofC08]; omega)
  · have := SA.Codec.C08_length_tight_b85 body hb
    exact fits_b85 _ m (payloadLen pkt) _ hm hlen (by simp only [ofC08]; omega)
  · have := SA.Codec.C08_length_tight_b91 body hb
    exact fits_b91 _ m (payloadLen pkt) _ hm hlen (by simp only [ofC08]; omega)
  · have := SA.Codec.C08_length_exact_b128 body hb
    exact fits_b128 _ m (payloadLen pkt) _ hm hlen (by simp only [ofC08]; omega)

/-- **C09 for every size the client uses.**  Payload within the computed fragment size ⇒ the question is
    formed, packs, unpacks, and the server decodes the identical packet request. -/
theorem C09_payload_within_mtu_roundtrip (cd : SA.Codec.Codec) (hcd : cd ∈ upstreamCodecs)
    (cache domain : List Nat) (dls : List (List Nat)) (hc : CacheOk cache) (hdom : DomainOk domain dls)
    (uid ack : Nat) (pkt : Option (Nat × List Nat)) (hr : ReqOk (.packet uid ack pkt))
    (m : Nat) (hm : upstreamMtuOf domain.length cd = some m) (hlen : payloadLen pkt ≤ m) :
    ∃ host labels,
      prepareHostname (encodeReq (ofC08 .b32) (ofC08 cd) cache (.packet uid ack pkt)) domain = some host
      ∧ nameOverWire host = .ok labels
      ∧ roundTrip (ofC08 .b32) (ofC08 cd) cache domain (.packet uid ack pkt)
          = .ok (unpackName labels) labels (.packet uid ack pkt) := by
  obtain ⟨host, hfit⟩ := C09_payload_within_mtu_fits cd hcd cache domain hc.1 uid ack pkt
    (fun p hp => (hr.2.2 p hp).2) m hm hlen
  obtain ⟨labels, h1, h2⟩ := C09_request_roundtrip_inst cd hcd cache domain dls hc hdom _ hr host hfit
  exact ⟨host, labels, hfit, h1, h2⟩

/-! ### why C08's worded bound is not enough -/

/-- With only `C08_length_bound` (⌈ratio·n⌉ + 8) the budget could not be proved: for Base32 and a
    one-character domain getUpstreamMtu is 141, and 6 header characters + (⌈8·146/5⌉ + 8) encoded
    characters + 4 dots + domain + 2 dots = 255 > 251.  (The real Base32 emits exactly ⌈8·146/5⌉ = 234
    characters: 247 in all.)  A codec that actually used the 8 characters of slack would break the
    client's budget. -/
theorem C09_c08_slack_insufficient :
    upstreamMtuOf 1 .b32 = some 141 ∧
    (let E := SA.Codec.ceilMul (SA.Codec.Codec.ratio .b32) (141 + 5) + 8
     ¬ (6 + E + (if 6 + E > 60 then (6 + E - 1) / 57 else 0) + 1 + 2 ≤ 251)) ∧
    (let E := (8 * (141 + 5) + 4) / 5
     6 + E + (if 6 + E > 60 then (6 + E - 1) / 57 else 0) + 1 + 2 = 247) := by decide

/-! ### non-vacuity -/

theorem bytes_replicate (n b : Nat) (h : b < 256) : SA.Bytes (List.replicate n b) := by
  intro x hx
  rw [List.mem_replicate] at hx
  omega

/-- every hypothesis of `C09_payload_within_mtu_roundtrip` holds for a concrete domain ("t.ex"), the
    Base128 model and a payload of exactly getUpstreamMtu = 199 bytes of 0xff -/
example :
    let cache := [120, 121, 122]
    let domain := [116, 46, 101, 120]
    let r := Req.packet 1295 65535 (some (65535, List.replicate 199 255))
    upstreamMtuOf domain.length .b128 = some 199 ∧
    ∃ host labels, prepareHostname (encodeReq (ofC08 .b32) (ofC08 .b128) cache r) domain = some host
      ∧ nameOverWire host = .ok labels
      ∧ roundTrip (ofC08 .b32) (ofC08 .b128) cache domain r = .ok (unpackName labels) labels r := by
  intro cache domain r
  have hm : upstreamMtuOf domain.length .b128 = some 199 := by decide
  have hc : CacheOk cache := by unfold CacheOk; decide
  have hdom : DomainOk domain [[116], [101, 120]] := by
    refine ⟨by decide, ?_, ?_⟩
    · unfold GoodLabel NoSyntax; decide
    · unfold PlainLabel; decide
  have hr : ReqOk r := by
    refine ⟨by decide, by decide, ?_⟩
    intro p hp
    cases hp
    exact ⟨by decide, bytes_replicate 199 255 (by decide)⟩
  exact ⟨hm, C09_payload_within_mtu_roundtrip .b128 (by decide) cache domain _ hc hdom 1295 65535 _ hr
    199 hm (by simp only [payloadLen, List.length_replicate]; exact Nat.le_refl _)⟩

/-- the budget is not vacuous at the other end either: a 230-character domain still leaves Base32 a
    fragment size of 0 (polls only) and Base128 one of 4 bytes -/
example : upstreamMtuOf 230 .b32 = some 0 ∧ upstreamMtuOf 230 .b128 = some 4 ∧
    upstreamMtuOf 240 .b32 = none := by decide

set_option maxRecDepth 100000 in
/-- the executable instance on concrete requests: Base91 and Base85 upstream, the server sees the packet -/
example :
    (match roundTrip (ofC08 .b32) (ofC08 .b91) [97, 98, 99] [97, 46, 98] (.packet 7 300 (some (9, [0, 46, 92, 255]))) with
     | .ok _ _ r => r == .packet 7 300 (some (9, [0, 46, 92, 255]))
     | _ => false) = true ∧
    (match roundTrip (ofC08 .b32) (ofC08 .b85) [97, 98, 99] [97, 46, 98] (.packet 7 300 (some (9, [0, 0, 0, 0, 1]))) with
     | .ok _ _ r => r == .packet 7 300 (some (9, [0, 0, 0, 0, 1]))
     | _ => false) = true := by decide

end SA.DnsReq

#print axioms SA.DnsReq.C09_ratio_tables_agree
#print axioms SA.DnsReq.C09_request_roundtrip_inst
#print axioms SA.DnsReq.C09_request_roundtrip_b32
#print axioms SA.DnsReq.C09_request_roundtrip_b64
#print axioms SA.DnsReq.C09_request_roundtrip_b64u
#print axioms SA.DnsReq.C09_request_roundtrip_b85
#print axioms SA.DnsReq.C09_request_roundtrip_b91
#print axioms SA.DnsReq.C09_request_roundtrip_b128
#print axioms SA.DnsReq.C09_labels_ok_inst
#print axioms SA.DnsReq.C09_payload_within_mtu_fits
#print axioms SA.DnsReq.C09_payload_within_mtu_roundtrip
#print axioms SA.DnsReq.C09_c08_slack_insufficient

/-
  C09, continued — several requests at the same moment.

  miekg/dns runs the server's handler on a goroutine of its own for every query, and every session goes
  through the same process-wide values: the codec singletons `enc.Base32Encoding … enc.Base128Encoding`,
  the command table `commands.Commands`, serializers that are plain structs.  The property is stated per
  request; it is a property of the *server* only if the request path is a function of the one request —
  also while other requests, of the same or of other users, codecs, commands and domains, are in flight.

  In the model this is true by construction (`roundTrip` is a function; a batch is `List.map`), and the
  theorems below say so explicitly, so that the claim is on the books: the outcome for one member of a batch
  does not depend on the other members, on their number, on the order, on the number of goroutines or on the
  number of repetitions, and every member that meets the hypotheses of `C09_request_roundtrip` is decoded as
  the request that was sent.  What ties the statement to the Go code is the `par` op of the `dnsreq`
  component: G goroutines, released together, push the listed requests through the real serializers and the
  real shared singletons again and again, and every result must be the model's — i.e. the result of the same
  request processed alone.  A codec, serializer or helper that keeps per-call data in shared state (a scratch
  buffer in an encoder struct, a package-level slice, a cached last result) makes the implementation differ
  from this model on some interleaving; the monitor then names the request, what it gave alone and what it
  gave next to the others.
-/
import SA.Props.C09Inst
namespace SA.DnsReq
open SA.DnsWire SA.WireCodec

/-- one query in flight: the user's upstream codec, the cache-busting characters, the tunnel domain of the
    session and the request -/
structure Query where
  up : Codec
  cache : List Nat
  domain : List Nat
  r : Req

/-- the server's view of a batch of queries handled concurrently (any interleaving): the model has no state
    a query could leave behind, so it is the list of the single outcomes -/
def roundTripBatch (b32 : Codec) (qs : List Query) : List Outcome :=
  qs.map (fun q => roundTrip b32 q.up q.cache q.domain q.r)

/-- **C09, batches are pointwise.**  The outcome of the query at any position of a batch is the outcome of
    that query alone — whatever stands before and after it. -/
theorem C09_batch_pointwise (b32 : Codec) (pre post : List Query) (q : Query) :
    (roundTripBatch b32 (pre ++ q :: post))[pre.length]? = some (roundTrip b32 q.up q.cache q.domain q.r) := by
  simp [roundTripBatch]

/-- the same by index -/
theorem C09_batch_index (b32 : Codec) (qs : List Query) (i : Nat) (h : i < qs.length) :
    (roundTripBatch b32 qs)[i]? = some (roundTrip b32 qs[i].up qs[i].cache qs[i].domain qs[i].r) := by
  simp [roundTripBatch, h]

/-- **C09 for concurrent queries.**  If every query of a batch meets the hypotheses of
    `C09_request_roundtrip` (codec pair with C08's theorems, name-safe cache characters, plain domain,
    fields in range, question accepted by PrepareHostname) then every query of the batch is decoded by the
    server as exactly the request its user sent. -/
theorem C09_concurrent_requests_roundtrip (b32 : Codec) (hb : b32.Good) (sb : b32.Safe) (qs : List Query)
    (hq : ∀ q ∈ qs, q.up.Good ∧ q.up.Safe ∧ CacheOk q.cache ∧ (∃ dls, DomainOk q.domain dls) ∧ ReqOk q.r
        ∧ (prepareHostname (encodeReq b32 q.up q.cache q.r) q.domain).isSome) :
    ∀ i (h : i < qs.length), ∃ name labels,
      (roundTripBatch b32 qs)[i]? = some (.ok name labels qs[i].r) := by
  intro i h
  obtain ⟨hu, su, hc, ⟨dls, hdom⟩, hr, hfit⟩ := hq qs[i] (List.getElem_mem h)
  obtain ⟨host, hhost⟩ := Option.isSome_iff_exists.mp hfit
  obtain ⟨labels, _, hrt⟩ :=
    C09_request_roundtrip b32 qs[i].up hb hu sb su qs[i].cache qs[i].domain dls hc hdom qs[i].r hr host hhost
  exact ⟨unpackName labels, labels, by rw [C09_batch_index b32 qs i h, hrt]⟩

/-- … with the codec hypotheses discharged: every user's upstream codec is one of the selectable ones -/
theorem C09_concurrent_requests_roundtrip_inst (qs : List (SA.Codec.Codec × List Nat × List Nat × Req))
    (hq : ∀ q ∈ qs, q.1 ∈ upstreamCodecs ∧ CacheOk q.2.1 ∧ (∃ dls, DomainOk q.2.2.1 dls) ∧ ReqOk q.2.2.2
        ∧ (prepareHostname (encodeReq (ofC08 .b32) (ofC08 q.1) q.2.1 q.2.2.2) q.2.2.1).isSome) :
    ∀ i (h : i < qs.length), ∃ name labels,
      (roundTripBatch (ofC08 .b32) (qs.map (fun q => ⟨ofC08 q.1, q.2.1, q.2.2.1, q.2.2.2⟩)))[i]?
        = some (.ok name labels qs[i].2.2.2) := by
  intro i h
  have h' : i < (qs.map (fun q => (⟨ofC08 q.1, q.2.1, q.2.2.1, q.2.2.2⟩ : Query))).length := by simpa using h
  obtain ⟨name, labels, hres⟩ :=
    C09_concurrent_requests_roundtrip (ofC08 .b32) (ofC08_good .b32 (by decide)) (ofC08_safe .b32 (by decide))
      (qs.map (fun q => ⟨ofC08 q.1, q.2.1, q.2.2.1, q.2.2.2⟩))
      (by
        intro q hqm
        obtain ⟨p, hp, rfl⟩ := List.mem_map.mp hqm
        obtain ⟨hcd, hc, hd, hr, hf⟩ := hq p hp
        exact ⟨ofC08_good p.1 hcd, ofC08_safe p.1 hcd, hc, hd, hr, hf⟩)
      i h'
  refine ⟨name, labels, ?_⟩
  rw [hres]
  simp

/-- **the `par` op of the line protocol is the map of the single ops** — independent of the number of
    goroutines and of repetitions (the model the `dnsreq` correspondence compares the concurrent drive of the
    real code with) -/
theorem C09_par_op_pointwise (g iters : String) (rest : List String)
    (hg : g.toNat?.isSome) (hi : iters.toNat?.isSome)
    (hops : (splitOps rest).all (fun o => !o.isEmpty && o.head? != some "par")) :
    handle ("par" :: g :: iters :: rest) = String.intercalate " ; " ((splitOps rest).map handleOne) := by
  have h1 : g.toNat?.isNone = false := by cases h : g.toNat? <;> simp_all
  have h2 : iters.toNat?.isNone = false := by cases h : iters.toNat? <;> simp_all
  have h3 : (splitOps rest).any (fun o => o.isEmpty || o.head? == some "par") = false := by
    rw [List.any_eq_false]
    intro o ho
    have := List.all_eq_true.mp hops o ho
    simp only [Bool.and_eq_true, Bool.not_eq_eq_eq_not, Bool.not_true, bne_iff_ne, ne_eq] at this
    simp [this.1, this.2]
  simp only [handle, handleBatch, h1, h2, h3, Bool.or_self, Bool.false_eq_true, if_false]

-- non-vacuity: a batch of two users with different codecs, both decoded as sent (executable model, the
-- local Base32 and C08's Base128)
set_option maxRecDepth 100000 in
example :
    let q1 : Query := ⟨base32, [97, 98, 99], [97, 46, 98], .packet 7 300 (some (9, [1, 2, 250]))⟩
    let q2 : Query := ⟨ofC08 .b128, [120, 121, 122], [116, 46, 101, 120], .packet 719 16479 (some (5, [255, 0, 46, 92]))⟩
    ((roundTripBatch base32 [q1, q2]).map (fun o => match o with | .ok _ _ r => some r | _ => none))
      = [some q1.r, some q2.r] := by decide

/-- non-vacuity of the op form: two single ops, one separator -/
example : splitOps ["mtu", "3", "T", "0", ";", "mtu", "4", "V", "1"] = [["mtu", "3", "T", "0"], ["mtu", "4", "V", "1"]] := by
  decide

end SA.DnsReq

#print axioms SA.DnsReq.C09_batch_pointwise
#print axioms SA.DnsReq.C09_batch_index
#print axioms SA.DnsReq.C09_concurrent_requests_roundtrip
#print axioms SA.DnsReq.C09_concurrent_requests_roundtrip_inst
#print axioms SA.DnsReq.C09_par_op_pointwise

/-
  C11, continued — what the handshake's probes do and do not exercise (finite-table facts).

  `C11_success_sound_partial` says: success ⇒ every parameter was justified by a probe that passed.
  `C11_full` would need: a probe that passed ⇒ every payload is carried.  The first missing link is
  about *tables*: a pattern probe shows that the bytes **of the patterns** survive the path upstream; a
  download check shows that the characters **of the encoded check string** survive downstream.  Whether
  those are all the characters the selected codec can ever emit is decided here, over the tables
  regenerated from the source (SA.Gen.C11Pat: `TestPatterns()`, `DownloadCodecCheck`; SA.Gen.C08: the
  alphabets) and the C08 codec models:

  * upstream: Base32, Base91 and Base128 patterns contain every character their encoder can emit
    (`C11_patterns_cover_…`: for ALL inputs, every output byte occurs in a pattern — uses C08's alphabet
    confinement lemmas, then a `decide` over the alphabet); Base64 / Base64u patterns lack the digits
    3–8, Base85's lacks `z` (the four-zero-bytes shorthand) — `C11_patterns_miss_…` with an input whose
    encoding contains the unprobed character;
  * request header (command letter, cache characters a–z0–9, base-36 user id): covered by the Base91
    and Base128 patterns only (`C11_header_alphabet_coverage`);
  * downstream: no codec's alphabet is covered by the download check (`C11_downcheck_misses`): 5 of 32
    Base32 characters … 87 of 128 Base128 characters never occur in the encoded check string, and with
    Raw 220 of 256 byte values are not exercised, among them `"` `;` `\` `.` (`C11_downcheck_raw`).

  So the gap between `C11_success_sound_partial` and `C11_full` is exactly: a path whose character map
  is the identity on the probed characters and not on one of the characters listed here passes the
  handshake and corrupts data (`C11_gap_explicit`).  Such paths are outside the simulated family of the
  `dnshs` component (its maps are case folding / 7-bit stripping, which the probes do detect).
-/
import SA.Props.C08
import SA.Model.ProbeTables
import SA.Gen.C11
namespace SA.ProbeTables
open SA.Codec

/-! ### the tables -/

/-- the regenerated pattern table has one entry per codec of the C11 numbering, with the pattern counts
    the handshake model uses -/
theorem C11_pattern_table_shape :
    SA.Gen.C11Pat.testPatterns.map List.length = SA.Gen.C11.patternCount ∧
    downloadCheck.length = 48 := by decide

/-- `encode cd bs` only emits bytes that occur in a pattern of codec number `i` -/
def PatternsCover (cd : Codec) (i : Nat) : Prop :=
  ∀ bs, Bytes bs → ∀ c ∈ encode cd bs, c ∈ patternBytes i

theorem mem_map_alpha (P : Nat → Prop) (alpha : List Nat) (n : Nat)
    (hs : ∀ d, d < n → P (alphaChar alpha d)) (ds : List Nat) (h : ∀ d ∈ ds, d < n) :
    ∀ c ∈ ds.map (alphaChar alpha), P c := by
  intro c hc
  rcases List.mem_map.1 hc with ⟨d, hd, rfl⟩
  exact hs d (h d hd)

/-! ### upstream: which pattern sets cover the encoder's whole output alphabet -/

set_option maxRecDepth 100000 in
theorem gen_cover32 : ∀ d, d < 32 → alphaChar Gen.cb32 d ∈ patternBytes 0 := by decide
set_option maxRecDepth 100000 in
theorem gen_cover91 : ∀ d, d < 91 → alphaChar Gen.cb91 d ∈ patternBytes 4 := by decide
set_option maxRecDepth 100000 in
theorem gen_cover128 : ∀ d, d < 128 → alphaChar Gen.cb128 d ∈ patternBytes 5 := by decide

theorem C11_patterns_cover_b32 : PatternsCover .b32 0 := fun bs _ =>
  mem_map_alpha (· ∈ patternBytes 0) _ 32 gen_cover32 _ (radixDigits_lt 5 bs)

theorem C11_patterns_cover_b91 : PatternsCover .b91 4 := fun bs hb =>
  mem_map_alpha (· ∈ patternBytes 4) _ 91 gen_cover91 _ (b91_digits_lt bs hb 0 0 (by decide) (by decide))

theorem C11_patterns_cover_b128 : PatternsCover .b128 5 := by
  intro bs hb
  simp only [encode, b128Enc, gen_b128_guard, b128_loop_eq_radix bs hb]
  exact mem_map_alpha (· ∈ patternBytes 5) _ 128 gen_cover128 _ (radixDigits_lt 7 bs)

/-- alphabet characters that occur in no pattern -/
def unprobed (alphabet : List Nat) (i : Nat) : List Nat :=
  alphabet.filter (fun c => !(patternBytes i).contains c)

/-- everything ascii85 + the repo's substitution can emit: 33..117 substituted, and `z` -/
def b85Alphabet : List Nat :=
  (List.range 85).map (fun k => substOf Gen.b85EncSubst (k + 33)) ++ [122]

set_option maxRecDepth 100000 in
/-- the complete list of unprobed alphabet characters per codec: none for Base32 / Base91 / Base128,
    the digits `3`..`8` for Base64 and Base64u, `z` for Base85 -/
theorem C11_unprobed_characters :
    unprobed Gen.cb32 0 = [] ∧ unprobed Gen.cb91 4 = [] ∧ unprobed Gen.cb128 5 = [] ∧
    unprobed Gen.cb64 1 = [51, 52, 53, 54, 55, 56] ∧
    unprobed Gen.cb64u 2 = [51, 52, 53, 54, 55, 56] ∧
    unprobed b85Alphabet 3 = [122] := by decide

set_option maxRecDepth 100000 in
/-- Base64: the byte 0xE0 encodes to `3a`; `3` occurs in no Base64 pattern -/
theorem C11_patterns_miss_b64 :
    encode .b64 [224] = [51, 97] ∧ 51 ∉ patternBytes 1 ∧ ¬ PatternsCover .b64 1 := by
  have h1 : encode .b64 [224] = [51, 97] := by decide
  have h2 : 51 ∉ patternBytes 1 := by decide
  exact ⟨h1, h2, fun h => h2 (h [224] (by decide) 51 (by rw [h1]; decide))⟩

set_option maxRecDepth 100000 in
theorem C11_patterns_miss_b64u :
    encode .b64u [224] = [51, 97] ∧ 51 ∉ patternBytes 2 ∧ ¬ PatternsCover .b64u 2 := by
  have h1 : encode .b64u [224] = [51, 97] := by decide
  have h2 : 51 ∉ patternBytes 2 := by decide
  exact ⟨h1, h2, fun h => h2 (h [224] (by decide) 51 (by rw [h1]; decide))⟩

set_option maxRecDepth 100000 in
/-- Base85: four zero bytes encode to the single character `z`, which occurs in no Base85 pattern -/
theorem C11_patterns_miss_b85 :
    encode .b85 [0, 0, 0, 0] = [122] ∧ 122 ∉ patternBytes 3 ∧ ¬ PatternsCover .b85 3 := by
  have h1 : encode .b85 [0, 0, 0, 0] = [122] := by decide
  have h2 : 122 ∉ patternBytes 3 := by decide
  exact ⟨h1, h2, fun h => h2 (h [0, 0, 0, 0] (by decide) 122 (by rw [h1]; decide))⟩

/-- the characters of a request header: command letter / cache characters / base-36 user id -/
def headerAlphabet : List Nat := (List.range 26).map (· + 97) ++ (List.range 10).map (· + 48)

set_option maxRecDepth 100000 in
/-- header characters in no pattern, per codec 0..5: only the Base91 and Base128 pattern sets contain
    all of a–z0–9 (Base32's lacks 6–9, Base64/64u's 3–8, Base85's `y` and `z`) -/
theorem C11_header_alphabet_coverage :
    (List.range 6).map (unprobed headerAlphabet) =
      [[54, 55, 56, 57], [51, 52, 53, 54, 55, 56], [51, 52, 53, 54, 55, 56], [121, 122], [], []] := by
  decide

/-! ### downstream: what the download check exercises -/

/-- the characters the download check puts on the wire with downstream codec `cd` -/
def downExercised (cd : Codec) : List Nat := encode cd downloadCheck

def downMissing (cd : Codec) (alphabet : List Nat) : List Nat :=
  alphabet.filter (fun c => !(downExercised cd).contains c)

set_option maxRecDepth 1000000 in
/-- no codec's alphabet is covered by the encoded check string: the number of alphabet characters that
    never occur in it, and for Base32 the characters themselves (`c o p u x`) -/
theorem C11_downcheck_misses :
    downMissing .b32 Gen.cb32 = [99, 111, 112, 117, 120] ∧
    (downMissing .b64 Gen.cb64).length = 27 ∧
    (downMissing .b64u Gen.cb64u).length = 27 ∧
    (downMissing .b85 b85Alphabet).length = 43 ∧
    (downMissing .b91 Gen.cb91).length = 52 ∧
    (downMissing .b128 Gen.cb128).length = 87 := by decide

set_option maxRecDepth 100000 in
/-- Raw (TXT): the check string has 36 distinct byte values; 220 byte values are never exercised, among
    them the ones DNS presentation format treats specially: `"` (34), `;` (59), `\` (92), `.` (46) -/
theorem C11_downcheck_raw :
    downExercised .raw = downloadCheck ∧
    ((List.range 256).filter (fun c => !downloadCheck.contains c)).length = 220 ∧
    34 ∉ downloadCheck ∧ 59 ∉ downloadCheck ∧ 92 ∉ downloadCheck ∧ 46 ∉ downloadCheck := by decide

/-! ### the gap, explicit -/

/-- a pointwise character map of the path -/
abbrev CharMap := Nat → Nat

/-- the map leaves every probed character alone -/
def PassesProbes (f : CharMap) (probed : List Nat) : Prop := ∀ c ∈ probed, f c = c

/-- the map that turns `3` into `4` and nothing else -/
def swap34 : CharMap := fun c => if c = 51 then 52 else c

set_option maxRecDepth 100000 in
/-- **the missing link, as a counter-example at table level.**  A path that maps `3` to `4` returns every
    Base64 pattern unchanged, yet changes the encoding of the one-byte payload 0xE0, which then decodes
    to a different payload (0xE4): "all patterns came back unchanged" does not imply "every payload is
    carried" for Base64.  For Base32, Base91 and Base128 the same step *is* sound for pointwise maps
    (`C11_patterns_sound_pointwise`). -/
theorem C11_gap_explicit :
    PassesProbes swap34 (patternBytes 1) ∧
    (encode .b64 [224]).map swap34 ≠ encode .b64 [224] ∧
    decode .b64 ((encode .b64 [224]).map swap34) = some [228] := by
  refine ⟨?_, by decide, by decide⟩
  intro c hc
  have h : 51 ∉ patternBytes 1 := by decide
  have : c ≠ 51 := fun e => h (e ▸ hc)
  simp [swap34, this]

/-- for the codecs whose patterns cover the alphabet, a pointwise path map that returns every pattern
    unchanged delivers every encoded payload unchanged -/
theorem C11_patterns_sound_pointwise (cd : Codec) (i : Nat) (hcov : PatternsCover cd i)
    (f : CharMap) (hp : PassesProbes f (patternBytes i)) (bs : List Nat) (hb : Bytes bs) :
    (encode cd bs).map f = encode cd bs := by
  have : ∀ c ∈ encode cd bs, f c = c := fun c hc => hp c (hcov bs hb c hc)
  calc (encode cd bs).map f = (encode cd bs).map id := List.map_congr_left this
    _ = encode cd bs := List.map_id _

/-! ### non-vacuity -/

set_option maxRecDepth 100000 in
example : patternBytes 0 ≠ [] ∧ (patterns 5).length = 5 ∧ patterns 6 = [] := by decide
set_option maxRecDepth 100000 in
example : Bytes [224] ∧ 97 ∈ encode .b32 [0] ∧ 97 ∈ patternBytes 0 := by decide
/-- the pointwise soundness has instances: the identity passes every probe -/
example : PassesProbes id (patternBytes 5) := fun _ _ => rfl
example (bs : List Nat) (hb : Bytes bs) : (encode .b128 bs).map id = encode .b128 bs :=
  C11_patterns_sound_pointwise .b128 5 C11_patterns_cover_b128 id (fun _ _ => rfl) bs hb

end SA.ProbeTables

#print axioms SA.ProbeTables.C11_pattern_table_shape
#print axioms SA.ProbeTables.C11_patterns_cover_b32
#print axioms SA.ProbeTables.C11_patterns_cover_b91
#print axioms SA.ProbeTables.C11_patterns_cover_b128
#print axioms SA.ProbeTables.C11_unprobed_characters
#print axioms SA.ProbeTables.C11_patterns_miss_b64
#print axioms SA.ProbeTables.C11_patterns_miss_b64u
#print axioms SA.ProbeTables.C11_patterns_miss_b85
#print axioms SA.ProbeTables.C11_header_alphabet_coverage
#print axioms SA.ProbeTables.C11_downcheck_misses
#print axioms SA.ProbeTables.C11_downcheck_raw
#print axioms SA.ProbeTables.C11_gap_explicit
#print axioms SA.ProbeTables.C11_patterns_sound_pointwise

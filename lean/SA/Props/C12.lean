/-
  C12 — DNS endpoints withstand arbitrary messages with bounded work.

  Statements about SA.Model.DnsServer (server handler, fixed code) and SA.Model.DnsServerClient (client answer decoder,
  fixed code), in which every index / slice / nil-func call of the Go code is an explicit, possibly panicking
  operation.  The codecs are a parameter (`Codec`): every theorem holds for every behaviour of Decode that is *total*
  (`Codec.Total`: Decode returns a value or an error on every input).  The models call the decoders through
  `Codec.decode`, which panics where the decoder does; `C12_decoder_panic_propagates_*` show that the hypothesis is
  necessary.  The harness ties `Total` to the real decoders (exhaustive octet / octet-pair sweep, PANIC oracle entries).
-/
import SA.Model.DnsFront
import SA.Gen.C15DnsServer
import SA.Proofs.DnsServer
import SA.Proofs.DnsServerClient
import SA.Model.DnsServerSites
import SA.Proofs.DnsStray
import SA.Props.C13
import SA.Gen.PkgVars
import SA.Gen.C12Nul
import SA.Gen.C11Init

namespace SA.Props.C12
open SA.Go SA.Go.Res SA.DnsServer

/-- **server no panic**: in every state satisfying the invariant, for every codec behaviour, every tunnel domain and
    every one-question message (any name bytes, any record type, any source address) the handler returns normally
    (an answer or an error), re-establishes the invariant and touches no session of another address. -/
theorem C12_server_no_panic (cd : Codec) (hT : cd.Total) (dom : List Nat) (σ : Srv) (hI : Inv σ) (m : Msg) :
    ∃ σ' a, onMessage cd dom σ m = ok (σ', a) ∧ Inv σ' := by
  obtain ⟨σ', a, h, hI', _⟩ := onMessage_good cd hT dom hI m
  exact ⟨σ', a, h, hI'⟩

/-- … in particular after every history from a fresh listener -/
theorem C12_server_no_panic_reachable (cd : Codec) (hT : cd.Total) (dom : List Nat) (ops : List Op) (m : Msg) :
    onMessage cd dom (run cd dom Srv.init ops) m ≠ panic := by
  obtain ⟨σ', a, h, _⟩ := C12_server_no_panic cd hT dom _ (SA.Props.C13.C13_reachable_invariant cd hT dom ops) m
  rw [h]; intro h'; cases h'

/-- **client no panic**: for every answer section (no records, records shorter than their order tag, mixed types, names
    shorter than the domain, any data bytes) and every codec behaviour the client decoder returns normally. -/
theorem C12_client_no_panic (cd : Codec) (hT : cd.Total) (domLen down : Nat) (rrs : List SA.DnsClient.RR) :
    SA.DnsClient.decodeAnswer cd domLen down rrs ≠ panic := by
  obtain ⟨r, h⟩ := SA.DnsClient.decodeAnswer_no_panic cd hT domLen down rrs
  rw [h]; intro h'; cases h'

/-- a decoder that panics on every input, for the witnesses below -/
def panickyCodec : Codec := { dec := fun _ _ => none, encLen := fun _ n => n, panics := fun _ _ => true }

/-- **the totality hypothesis is necessary (server)**: with a decoder that panics, one version request
    ("vabc<body>.t.co.") from a fresh listener kills the handler — exactly what happens in the Go process, where
    miekg/dns does not recover. -/
theorem C12_decoder_panic_propagates_server :
    onMessage panickyCodec [116, 46, 99, 111] Srv.init
      { addr := 1, qtype := 5, name := [118, 97, 98, 99, 97, 97, 46, 116, 46, 99, 111, 46], hint := 84 } = panic := by
  decide

/-- **the totality hypothesis is necessary (client)**: one NULL answer whose data starts with the error-response
    letter makes the client decoder panic when the downstream decoder does. -/
theorem C12_decoder_panic_propagates_client :
    SA.DnsClient.decodeAnswer panickyCodec 4 84 [.null [1, 0, 101, 97, 97]] = panic := by
  decide

/-! ## bounded work -/

/-- **bounded work (1)**: in every reachable state every session's downstream fragment size — the chunk size of the
    server-side Write loop — is between 1 and MaxDownstreamFragmentSize, whatever sizes clients asked for. -/
theorem C12_bounded_work_fragment_range (cd : Codec) (hT : cd.Total) (dom : List Nat) (ops : List Op) (sid : Nat)
    (h : sid < (run cd dom Srv.init ops).heap.length) :
    1 ≤ ((run cd dom Srv.init ops).sess sid).frag ∧
    ((run cd dom Srv.init ops).sess sid).frag ≤ SA.Gen.maxDownstreamFragmentSize :=
  (SA.Props.C13.C13_reachable_invariant cd hT dom ops).fragOk sid h

theorem chunks_flatten (mtu : Nat) (hm : 1 ≤ mtu) : ∀ (fuel : Nat) (b : List Nat), b.length ≤ fuel →
    (chunks fuel mtu b).flatten = b ∧ (chunks fuel mtu b).length ≤ b.length
  | 0, b, h => by
    have : b = [] := List.length_eq_zero_iff.mp (Nat.le_zero.mp h)
    subst this; simp [chunks]
  | fuel + 1, b, h => by
    unfold chunks
    by_cases he : b.isEmpty = true
    · have : b = [] := by simpa using he
      subst this; simp
    · simp only [he, Bool.false_eq_true, ite_false]
      by_cases hl : b.length > mtu
      · simp only [hl, ite_true]
        have ih := chunks_flatten mtu hm fuel (b.drop mtu) (by simp; omega)
        refine ⟨by simp [ih.1], ?_⟩
        have := ih.2
        simp at this ⊢
        omega
      · simp only [hl, ite_false]
        refine ⟨by simp, ?_⟩
        have : b ≠ [] := by simpa using he
        have : 0 < b.length := List.length_pos_iff.mpr this
        simp; omega

/-- **bounded work (2)**: with a chunk size of at least 1 the chunking loop of OutQueue.Write consumes the whole
    buffer within |b| iterations and produces at most |b| chunks (with chunk size 0 — which setOptionsRequest accepted
    before the fix — the Go loop never terminates). -/
theorem C12_bounded_work_write_loop (mtu : Nat) (hm : 1 ≤ mtu) (b : List Nat) :
    (chunks b.length mtu b).flatten = b ∧ (chunks b.length mtu b).length ≤ b.length :=
  chunks_flatten mtu hm b.length b (Nat.le_refl _)

/-- **bounded work (3)**: a fragment-size test is answered with at most MaxDownstreamFragmentSize bytes of filler,
    whatever 32-bit size the client sent (before the fix: up to 4 GiB allocated, filled and encoded). -/
theorem C12_bounded_work_fragment_test (cd : Codec) (dl : Nat) (σ σ' : Srv) (m : Msg) (uid size n : Nat)
    (h : hFragTest cd dl σ m uid size = ok (σ', .frag n)) : n ≤ SA.Gen.maxDownstreamFragmentSize := by
  unfold hFragTest at h
  cases hv : validate σ uid m.addr with
  | panic => simp [hv] at h
  | ok r =>
    obtain ⟨σ1, user, e⟩ := r
    simp only [hv, Res.bind_ok] at h
    cases e with
    | ok =>
      simp only at h
      by_cases hs : size > SA.Gen.maxDownstreamFragmentSize
      · simp only [hs, ite_true] at h
        unfold errAns finish at h
        split at h <;> simp at h
      · simp only [hs, ite_false] at h
        unfold finish at h
        split at h
        · simp at h
        · simp at h; omega
    | badIp => simp only at h; unfold errAns finish at h; split at h <;> simp at h
    | badConn => simp only at h; unfold errAns finish at h; split at h <;> simp at h
    | badUser => simp only at h; unfold errAns finish at h; split at h <;> simp at h

/-! ## stray messages -/

/-- **stray messages preserve sessions**: a message whose name selects no command, or a reserved command letter, or
    whose header does not decode, changes nothing at all; a message whose body does not decode changes at most the
    last-contact time of a session *of the sending address*.  (Messages from an address that does not own the named
    session and messages naming an identifier without live session change nothing either: C13_spoof_rejected,
    C13_closed_id_inert; sessions of other addresses are never changed by any message: C13_foreign_message_preserves.) -/
theorem C12_stray_preserves_sessions (cd : Codec) (dom : List Nat) (σ : Srv) (hI : Inv σ) (m : Msg) (request : List Nat)
    (hs : stripDomain m.name dom = ok request) :
    (findCmd SA.Gen.commandTable request = ok none → ∃ a, onMessage cd dom σ m = ok (σ, a)) ∧
    (∀ code nu r, findCmd SA.Gen.commandTable request = ok (some (code, nu, false, r)) →
        ∃ a, onMessage cd dom σ m = ok (σ, a)) ∧
    (∀ code nu r, findCmd SA.Gen.commandTable request = ok (some (code, nu, true, r)) →
        decodeHeader nu request = ok none → onMessage cd dom σ m = ok (σ, .ignored)) ∧
    (∀ code nu r rest uid σ1 user e, findCmd SA.Gen.commandTable request = ok (some (code, nu, true, r)) →
        decodeHeader nu request = ok (some (rest, uid)) → validate σ uid m.addr = ok (σ1, user, e) →
        decodeRequest cd code nu true (upOf σ1 user) request = ok none →
        (∃ a, onMessage cd dom σ m = ok (σ1, a)) ∧
        (σ1 = σ ∨ ∃ s, (σ.sess s).owner = m.addr ∧ σ1 = touch σ s)) := by
  refine ⟨?_, ?_, ?_, ?_⟩
  · intro hc
    exact ⟨_, by unfold onMessage; simp only [hs, hc, Res.bind_ok]; rfl⟩
  · intro code nu r hc
    exact ⟨_, by unfold onMessage; simp only [hs, hc, Res.bind_ok]; rfl⟩
  · intro code nu r hc hh
    unfold onMessage
    simp only [hs, hc, Res.bind_ok, hh, Bool.not_true, Bool.false_eq_true, ite_false]
    rfl
  · intro code nu r rest uid σ1 user e hc hh hv hq
    have hvr := validate_vres hv
    constructor
    · unfold onMessage
      simp only [hs, hc, Res.bind_ok, hh, hv, Bool.not_true, Bool.false_eq_true, ite_false, hq]
      split
      · exact ⟨_, rfl⟩
      · split <;> exact ⟨_, rfl⟩
    · cases hvr with
      | badUser _ => exact Or.inl rfl
      | badConn _ _ _ _ => exact Or.inl rfl
      | badIp _ _ _ => exact Or.inl rfl
      | ok s _ ho => exact Or.inr ⟨s, ho, rfl⟩

/-! ## well-formed commands that do not belong

  `C12_stray_preserves_sessions` is about messages that are not tunnel commands.  The statements below are about
  messages that ARE: every command letter, every identifier, every flag and field combination — sent by an address
  that is not the owner of the session they name. -/

/-- regenerated fact: in each of the four handlers of a session-bound command (packet, set-options, fragment-size
    test, upstream-codec test) the statement after `…, err := s.validateAndGetUser(…)` is
    `if err != nil { resp.Err = err } else …` — nothing the request carries (close flag, options, payload,
    acknowledgement) is acted on before the sender has been validated as the owner (the model's
    `match user, e with | some s, .ok => …`).  Fails to compile when a handler looks at the request first. -/
theorem C12_handlers_refuse_before_acting :
    SA.Gen.handlerRefusesFirst.map (·.1) = ["packet", "setOptionsRequest", "testDownstreamFragmentSize", "testUpstreamEncoder"] ∧
    SA.Gen.handlerRefusesFirst.all (·.2) = true := by decide

/-- **a stranger's commands are inert**: an address that owns no live session — whatever it sends: any command
    letter, any identifier (of a live session, of a retired one, never issued), the close flag, codec and fragment
    size options, payload, acknowledgements, well-formed or not — leaves the WHOLE server state as it was (tables,
    every session object, clock); the only thing it can do is open a session of its own with a version request
    (`newUser`: a free slot, a new object, see `C13_open_returns_free_id`).  Every state, every codec. -/
theorem C12_stranger_commands_inert (cd : Codec) (dom : List Nat) (σ σ' : Srv) (m : Msg) (a : Ans)
    (hstranger : ∀ i sid : Nat, σ.live[i]? = some (some sid) → (σ.sess sid).owner ≠ m.addr)
    (h : onMessage cd dom σ m = ok (σ', a)) :
    σ' = σ ∨ ∃ uid, newUser σ m.addr = (σ', some uid) :=
  onMessage_stranger cd dom m a hstranger h

/-- … hence the rest of the history is what it would have been without the message: a stranger's message that
    creates no session object can be deleted from any history without changing the state any later message (of the
    established sessions' owners, of anybody) meets — the statement the harness checks on the real server by running
    every history a second time without such messages. -/
theorem C12_stranger_message_deletable (cd : Codec) (dom : List Nat) (σ : Srv) (m : Msg) (rest : List Op)
    (hstranger : ∀ i sid : Nat, σ.live[i]? = some (some sid) → (σ.sess sid).owner ≠ m.addr)
    (hnoopen : ∀ σ' a, onMessage cd dom σ m = ok (σ', a) → σ'.heap.length = σ.heap.length) :
    run cd dom σ (.msg m :: rest) = run cd dom σ rest := by
  have hstep : step cd dom σ (.msg m) = σ := by
    cases hm : onMessage cd dom σ m with
    | panic => simp [step, stepAns, hm]
    | ok r =>
      obtain ⟨σ', a⟩ := r
      have hst : step cd dom σ (.msg m) = σ' := by simp [step, stepAns, hm]
      rw [hst]
      rcases onMessage_stranger cd dom m a hstranger hm with e | ⟨uid, e⟩
      · exact e
      · have hlen := hnoopen σ' a hm
        rcases newUser_cases e with hc | ⟨i, _, _, hc⟩
        · exact hc.1
        · rw [hc] at hlen; simp at hlen
  unfold run
  rw [List.foldl_cons, hstep]

/-- **no command from another address disturbs an established session** (every sender, also one that owns other
    sessions): for every message and every session object owned by another address — the object is byte-for-byte
    unchanged (queues, sequence and acknowledgement numbers, codecs, options, closed flag, last-contact time) and
    still live in its slot; and when the message carries the identifier of that session (a spoofed close, option
    change, packet, test), NOTHING in the server changed and the sender was told BADIP (or BADCODEC, or nothing).
    Reuses `C13_foreign_message_preserves` and `C13_spoof_rejected`. -/
theorem C12_foreign_command_preserves_established (cd : Codec) (hT : cd.Total) (dom : List Nat) (σ : Srv) (hI : Inv σ) (m : Msg)
    (i sid : Nat) (hlive : σ.live[i]? = some (some sid)) (hforeign : (σ.sess sid).owner ≠ m.addr) :
    ∃ σ' a, onMessage cd dom σ m = ok (σ', a) ∧ σ'.sess sid = σ.sess sid ∧ σ'.live[i]? = some (some sid) ∧
      (SA.Props.C13.msgUid dom m = some i → σ' = σ ∧
        (a = .drop ∨ a = .err 101 SA.Gen.errBadCodec ∨ ∃ c, a = .err c SA.Gen.errBadIp)) := by
  have hs : sid < σ.heap.length := (hI.liveOk i sid hlive).1
  obtain ⟨σ', a, h, _, hse, hlk⟩ := SA.Props.C13.C13_foreign_message_preserves cd hT dom σ hI m sid hs hforeign
  refine ⟨σ', a, h, hse, hlk i hlive, ?_⟩
  intro hid
  obtain ⟨a', h', ha'⟩ := SA.Props.C13.C13_spoof_rejected cd hT dom σ m i sid hid hlive hforeign
  rw [h] at h'
  injection h' with h'
  injection h' with h1 h2
  subst h1; subst h2
  exact ⟨rfl, ha'⟩

/-- a two-slot server: address 1 holds identifier 0 (object 0), nobody holds identifier 1 -/
def twoSlots : Srv :=
  { live := [some 0, none], retired := [none, none], heap := [{ uid := 0, owner := 1, last := 0 }], now := 5 }

/-- **witness**: if set-options handled the close flag before looking at the validation error (the variant
    `hOptionsCloseFirst`), a close request from address 2 for identifier 0 would retire the session of address 1
    and be answered with success; today's `hOptions` leaves the state alone and answers BADIP.  Kernel-checked. -/
def wCodec : Codec := { dec := fun _ _ => none, encLen := fun _ n => n }
def wClose : Options := { closed := some true }
def wFrom2 : Msg := { addr := 2, qtype := 10, name := [] }

theorem C12_witness_close_before_refusal :
    (hOptionsCloseFirst wCodec 4 twoSlots wFrom2 0 wClose).isPanic = false ∧
    (SA.Props.C13.stateOf (hOptionsCloseFirst wCodec 4 twoSlots wFrom2 0 wClose)).live = [none, none] ∧
    (SA.Props.C13.stateOf (hOptionsCloseFirst wCodec 4 twoSlots wFrom2 0 wClose)).retired = [some 0, none] ∧
    ((SA.Props.C13.stateOf (hOptionsCloseFirst wCodec 4 twoSlots wFrom2 0 wClose)).sess 0).closed = true ∧
    SA.Props.C13.ansOf (hOptionsCloseFirst wCodec 4 twoSlots wFrom2 0 wClose) = some .optionsOk ∧
    hOptions wCodec 4 twoSlots wFrom2 0 wClose = ok (twoSlots, .err 111 SA.Gen.errBadIp) := by
  decide

/-! ## site coverage -/

/-- **site coverage**: every index / slice / unchecked type assertion / func-field call that the extractor finds in the
    server handler, the command decoders and the record (un)wrapping is one the models account for
    (SA.Model.DnsServerSites).  A new or re-shaped site in those functions breaks this obligation. -/
theorem C12_site_coverage : ∀ s ∈ SA.Gen.panicSites, s ∈ coveredSites := by
  have h : (SA.Gen.panicSites.all fun s => coveredSites.contains s) = true := by decide
  intro s hs
  have := List.all_eq_true.mp h s hs
  simpa using this

/-! ## between the socket and onMessage: the communicator's handler -/

/-- regenerated shape of `NetConnectionServerCommunicator.handleRequest`: every read of `resp` is dominated by a test of
    the error onMessage returned next to it (or of `resp` itself) … -/
theorem C12_handler_resp_uses_dominated : ∀ u ∈ SA.Gen.c12HandlerRespUses, u.2 = true := by decide

/-- … the `if err != nil` block after the onMessage call leaves the function, and this is the function registered with
    miekg/dns -/
theorem C12_handler_err_branch_returns :
    SA.Gen.c12HandlerErrReturns = true ∧ SA.Gen.c12HandlerRegistered = true ∧ SA.Gen.c12HandlerRespUses ≠ [] := by decide

/-- a handler that returns on error never dereferences a missing response, whatever onMessage answered: it sends
    nothing exactly when there was an error and writes the response otherwise -/
theorem handleRet_returns (a : Ans) (tsig : Bool) :
    handleRet true (retOf a) tsig = ok (if (retOf a).err then .nothing else .wrote tsig) := by
  cases a <;> simp [handleRet, retOf]

/-- **no message makes the handler dereference a missing response**: for every total codec, every state satisfying the
    invariant, every one-question message and either TSIG status, the path socket → handleRequest → onMessage →
    handleRequest → WriteMsg returns normally: an answer was written, or (error) nothing at all was sent; the state is
    the one onMessage left, with the invariant re-established. -/
theorem C12_handler_no_missing_response_deref (cd : Codec) (hT : cd.Total) (dom : List Nat) (σ : Srv) (hI : Inv σ) (m : Msg)
    (tsig : Bool) :
    ∃ σ' a, onMessage cd dom σ m = ok (σ', a) ∧ Inv σ' ∧
      serve cd dom σ m tsig = ok (σ', a, if (retOf a).err then .nothing else .wrote tsig) := by
  obtain ⟨σ', a, h, hI'⟩ := C12_server_no_panic cd hT dom σ hI m
  refine ⟨σ', a, h, hI', ?_⟩
  have hr : SA.Gen.c12HandlerErrReturns = true := C12_handler_err_branch_returns.1
  simp only [serve, serveWith, hr, h, bind_ok, handleRet_returns, pure_eq]

/-- … in particular after every history from a fresh listener -/
theorem C12_handler_no_panic_reachable (cd : Codec) (hT : cd.Total) (dom : List Nat) (ops : List Op) (m : Msg) (tsig : Bool) :
    serve cd dom (run cd dom Srv.init ops) m tsig ≠ panic := by
  obtain ⟨σ', a, _, _, h⟩ := C12_handler_no_missing_response_deref cd hT dom _
    (SA.Props.C13.C13_reachable_invariant cd hT dom ops) m tsig
  rw [h]; intro h'; cases h'

/-- the handler does not change what onMessage did to the sessions: C12_stray_preserves_sessions,
    C12_stranger_commands_inert, C12_foreign_command_preserves_established carry over to the served path -/
theorem C12_handler_state_from_onMessage (er : Bool) (cd : Codec) (dom : List Nat) (σ σ' : Srv) (m : Msg) (tsig : Bool) (a : Ans) (s : Sent)
    (h : serveWith er cd dom σ m tsig = ok (σ', a, s)) : onMessage cd dom σ m = ok (σ', a) := by
  unfold serveWith at h
  cases ho : onMessage cd dom σ m with
  | panic => rw [ho] at h; cases h
  | ok p =>
    obtain ⟨σ1, a1⟩ := p
    rw [ho] at h
    simp only [bind_ok] at h
    cases hh : handleRet er (retOf a1) tsig with
    | panic => rw [hh] at h; cases h
    | ok s1 => rw [hh] at h; simp only [bind_ok, pure_eq] at h; cases h; rfl

/-- **the early return is necessary** (kernel-checked): a handler that goes on after the error ("answers SERVFAIL on the
    reply header that is there already") is killed by one ordinary lookup, `c.t.co.` from a stranger, on a fresh
    listener: the request header cannot be decoded, onMessage returns `(nil, err)` … -/
theorem C12_witness_handler_falls_through :
    ansOf (onMessage { dec := fun _ _ => none, encLen := fun _ n => n } [116, 46, 99, 111] Srv.init
        { addr := 3, qtype := 1, name := [99, 46, 116, 46, 99, 111, 46], hint := 84 }) = some .ignored ∧
    serveWith false { dec := fun _ _ => none, encLen := fun _ n => n } [116, 46, 99, 111] Srv.init
        { addr := 3, qtype := 1, name := [99, 46, 116, 46, 99, 111, 46], hint := 84 } false = panic ∧
    -- … while the case its author would try (an answer that cannot be wrapped: `(msg, err)`) goes well
    handleRet false (retOf .drop) false = ok (.wrote false) := by
  refine ⟨by decide, by decide, by decide⟩

/-- the command table still contains the reserved commands without constructors that the guards are about -/
theorem C12_reserved_commands_present :
    (SA.Gen.commandTable.filter fun c => !c.2.2.1).map (·.1) = [108, 109, 101] := by decide

/-! ## non-vacuity -/

def mailName : List Nat := [109, 97, 105, 108, 46, 116, 46, 99, 111, 46]   -- "mail.t.co."
def tco : List Nat := [116, 46, 99, 111]

example : stripDomain mailName tco = ok [109, 97, 105, 108] := by decide
example : findCmd SA.Gen.commandTable [109, 97, 105, 108] = ok (some (109, false, false, false)) := by decide
example : stripDomain [97, 92, 46, 116, 46, 99, 111, 46] tco = ok [97] := by decide   -- "a\.t.co." : dangling backslash
example : decodeHeader true [99, 97] = ok none := by decide                           -- "ca"
example : SA.DnsClient.decodeAnswer { dec := fun _ _ => none, encLen := fun _ n => n } 4 84 [] = ok none := by decide
example : SA.DnsClient.decodeAnswer { dec := fun _ _ => none, encLen := fun _ n => n } 4 84 [.txt [], .null [1], .cname [97]] = ok none := by decide
example : chunks 3 1 [7, 8, 9] = [[7], [8], [9]] := by decide
-- the three kinds of return of onMessage all occur: (nil, err), (msg, err), (msg, nil)
example : retOf .ignored = ⟨false, true⟩ ∧ retOf .drop = ⟨true, true⟩ ∧ retOf .optionsOk = ⟨true, false⟩ := by decide
example : handleRequest (retOf .ignored) true = ok .nothing ∧ handleRequest (retOf (.version 0)) true = ok (.wrote true) := by decide
example : ({ dec := fun _ _ => none, encLen := fun _ n => n } : Codec).Total := fun _ _ => rfl   -- the hypothesis is satisfiable
-- the hypothesis of `C12_stranger_commands_inert` is met by address 2 on `twoSlots`, and not by address 1
example : (∀ i sid : Nat, twoSlots.live[i]? = some (some sid) → (twoSlots.sess sid).owner ≠ 2) := by
  intro i sid h
  match i, h with
  | 0, h => simp [twoSlots] at h; subst h; decide
  | 1, h => simp [twoSlots] at h
  | n + 2, h => simp [twoSlots] at h
example : twoSlots.live[0]? = some (some 0) ∧ (twoSlots.sess 0).owner = 1 := by decide
example : ¬ panickyCodec.Total := fun h => by have := h 0 []; simp [panickyCodec] at this

end SA.Props.C12

#print axioms SA.Props.C12.C12_server_no_panic
#print axioms SA.Props.C12.C12_server_no_panic_reachable
#print axioms SA.Props.C12.C12_client_no_panic
#print axioms SA.Props.C12.C12_decoder_panic_propagates_server
#print axioms SA.Props.C12.C12_decoder_panic_propagates_client
#print axioms SA.Props.C12.C12_bounded_work_fragment_range
#print axioms SA.Props.C12.C12_bounded_work_write_loop
#print axioms SA.Props.C12.C12_bounded_work_fragment_test
#print axioms SA.Props.C12.C12_stray_preserves_sessions
#print axioms SA.Props.C12.C12_handlers_refuse_before_acting
#print axioms SA.Props.C12.C12_stranger_commands_inert
#print axioms SA.Props.C12.C12_stranger_message_deletable
#print axioms SA.Props.C12.C12_foreign_command_preserves_established
#print axioms SA.Props.C12.C12_witness_close_before_refusal
#print axioms SA.Props.C12.C12_site_coverage
#print axioms SA.Props.C12.C12_reserved_commands_present
#print axioms SA.Props.C12.C12_handler_resp_uses_dominated
#print axioms SA.Props.C12.C12_handler_err_branch_returns
#print axioms SA.Props.C12.C12_handler_no_missing_response_deref
#print axioms SA.Props.C12.C12_handler_no_panic_reachable
#print axioms SA.Props.C12.C12_handler_state_from_onMessage
#print axioms SA.Props.C12.C12_witness_handler_falls_through

namespace SA.PkgState
/-- **no_hidden_process_state**: the models of this property are functions of their arguments and of the objects they are
    handed; the packages they model keep no package-level variables besides these (regenerated inventory: error
    sentinels, tables, compiled patterns, the two session time-outs).  A new package-level variable — a counter, a cache, a
    scratch buffer, a shared map, a registry — would make later calls depend on earlier ones, or concurrent calls on each
    other, outside anything a per-call comparison of model and code can see. -/
theorem C12_no_hidden_process_state :
    Gen.pkgVarNames_dns = ["ConnectionTimeout", "ErrConnectionFailed", "ErrHandshakeNotCompleted", "OldConnectionTimeout"] ∧
    Gen.pkgVarNames_dnscommands = ["BadCodec", "BadCommand", "BadConn", "BadErrors", "BadFrag", "BadIp", "BadLen", "BadServerFull", "BadUser", "BadVersion", "CmdError", "CmdLogin", "CmdPacket", "CmdSetOptions", "CmdTestDownstreamEncoder", "CmdTestDownstreamFragmentSize", "CmdTestMultiQuery", "CmdTestUpstreamEncoder", "CmdVersion", "Commands", "Digits", "ErrTimeout", "LazyModeOk", "NoData", "VersionNotOk", "VersionOk"] := by decide
end SA.PkgState

#print axioms SA.PkgState.C12_no_hidden_process_state

namespace SA.PkgState
/-- **client_decoders_reject_nul_and_have_a_codec**: two facts about the client that its robustness against answers rests
    on (regenerated).  (1) Every response decoder that reads an error text treats a NUL inside it as a malformed answer
    — without that guard the read's nil error was passed on, the answer counted as decoded with no error recorded, and
    the version exchange then asserted an `e` answer to be a version response.  (2) A new client has a downstream codec
    from the start (the server's default) — without one, an answer of a type that carries encoded data made the client
    call a nil codec.  Both were client crashes on the unrepaired tree (`dnsfuzz clihs … v 1 656161`, `… v 1 63616263`). -/
theorem C12_client_decoders_reject_nul_and_have_a_codec :
    Gen.errTextNulRejected = true ∧ Gen.errTextReads = 6 ∧ Gen.c11ClientInitialDown = "Base32" := by decide
end SA.PkgState

#print axioms SA.PkgState.C12_client_decoders_reject_nul_and_have_a_codec

namespace SA.DnsFront
/-- **only_single_question_queries_reach_the_handler**: with the library's default accept function every message that
    reaches the handler is recomposed without a fault, whatever its names are — for all messages. -/
theorem C12_accepted_messages_compose (m : Msg) (h : acceptedByDefault m = true) : (composeRequest m).isSome = true := by
  obtain ⟨q, ns⟩ := m
  simp only [acceptedByDefault, Bool.and_eq_true, beq_iff_eq] at h
  match ns, h.2 with
  | [n], _ => simp [composeRequest]

/-- the code keeps the default: the only fields of the library's Server object it sets are the address, the network, the
    TLS configuration and the handler table (regenerated) — no accept function of its own -/
theorem C12_dns_server_keeps_default_filter :
    Gen.dnsServerFieldsSet = ["Addr", "Handler", "Net", "TLSConfig"] := by decide

/-- witness: an accept function without the one-question rule lets through messages that kill the process (two root
    questions; no question at all) -/
theorem C12_witness_multi_question :
    acceptedAnyCount ⟨true, [[46], [46]]⟩ = true ∧ composeRequest ⟨true, [[46], [46]]⟩ = none ∧
    acceptedAnyCount ⟨true, []⟩ = true ∧ composeRequest ⟨true, []⟩ = none ∧
    acceptedByDefault ⟨true, [[46], [46]]⟩ = false ∧ acceptedByDefault ⟨true, []⟩ = false := by decide
end SA.DnsFront

#print axioms SA.DnsFront.C12_accepted_messages_compose
#print axioms SA.DnsFront.C12_dns_server_keeps_default_filter
#print axioms SA.DnsFront.C12_witness_multi_question

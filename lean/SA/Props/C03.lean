/-
  C03 — Channel routing and exposure control.

  A request for channel name N is connected to exactly the target configured for (the first channel
  named) N, and to nothing else; a request for a name that is not configured, or not in the allow-list of
  the endpoint it arrived on, is refused and dials nothing.  For every channel table, allow-list, server
  kind and requested string.  `ms` is go-multistream's matcher (third-party): hypothesis `hms`.
-/
import SA.Model.Routing
import SA.Gen.PkgVars
import SA.Gen.LoopVars
import SA.Gen.C12Handler
namespace SA.Props.C03
open SA.Routing SA.Gen

/-- the exact-match contract of go-multistream's `AddHandler` / `findHandler` -/
def ExactMatch (ms : List Str → Str → Bool) : Prop := ∀ hs tok, ms hs tok = true ↔ tok ∈ hs

/-! ## side conditions on the regenerated facts -/

theorem C03_gen_prefixes :
    registerPrefix = "/" ∧ muxPrefix = "/" ∧ clientFormat = "/%s" ∧ muxOpenConnectionSites = 1 ∧
    muxUnknownIsError = true := by decide

theorem C03_gen_filter_shape :
    filterEmptyMeansAll = true ∧ filterUnknownIsError = true ∧ filterEmptyResultIsError = true ∧
    findIsFirstExact = true := by decide

/-- the channel list a connection is served with is, on every server kind, the Filter result of the endpoint the
    connection arrived on: the socket / packet / stdio servers serve their own `upstreams` field, assigned once from
    `Filter(st.Channels)`; the websocket handler serves a parameter of `EndpointHandler` that Startup binds, per
    loop iteration, to `Filter(endpoint.Channels)` of that iteration (a *value* fixed when the handler is created,
    not something read through the loop variable at request time). `endpointKept` in the model rests on this. -/
theorem C03_gen_endpoint_lists :
    httpHandlerListOrigin = "per-endpoint-filter-result" ∧ socketServesOwnFilterResult = true ∧
    packetServesOwnFilterResult = true ∧ stdioServesOwnFilterResult = true := by decide

theorem clientProto_eq (n : Str) : clientProto n = '/' :: n := by
  have : clientFormat = "/%s" := by decide
  simp [clientProto, this]
  rfl

/-! ## Find / Filter -/

theorem find_some_name {chs : List Chan} {n : Str} {c : Chan} (h : find chs n = some c) : c.name = n := by
  unfold find at h
  have := List.find?_some h
  simpa using this

/-- first channel named `n` in the list Filter hands back for a non-empty allow-list -/
theorem find_filterMap (chs : List Chan) (n : Str) :
    ∀ allow : List Str, find (allow.filterMap (find chs)) n = if n ∈ allow then find chs n else none
  | [] => by simp [find]
  | a :: rest => by
    have ih := find_filterMap chs n rest
    by_cases han : a = n
    · subst han
      cases hf : find chs a with
      | none => simp [List.filterMap_cons, hf, ih]
      | some c =>
        have hc := find_some_name hf
        simp only [List.filterMap_cons, hf]
        have step : find (c :: List.filterMap (find chs) rest) a = some c := by
          unfold find; simp [List.find?_cons, hc]
        rw [step]; simp
    · cases hf : find chs a with
      | none =>
        simp only [List.filterMap_cons, hf, ih]
        have : (n ∈ a :: rest) ↔ n ∈ rest := by
          simp; intro e; exact absurd e.symm han
        by_cases hr : n ∈ rest <;> simp [hr, this]
      | some c =>
        have hc := find_some_name hf
        have hne : ¬ c.name = n := by rw [hc]; exact han
        have : (n ∈ a :: rest) ↔ n ∈ rest := by
          simp; intro e; exact absurd e.symm han
        simp only [List.filterMap_cons, hf]
        have step : find (c :: List.filterMap (find chs) rest) n = find (List.filterMap (find chs) rest) n := by
          simp [find, List.find?_cons, hne]
        rw [step, ih]
        by_cases hr : n ∈ rest <;> simp [hr, this]

/-- first channel named `n` among the channels an endpoint keeps -/
theorem find_filter (chs : List Chan) (allow : List Str) (n : Str) :
    find (filter chs allow).1 n = if allow = [] ∨ n ∈ allow then find chs n else none := by
  unfold filter
  cases allow with
  | nil => simp
  | cons a rest =>
    simp only [List.isEmpty_cons, Bool.false_eq_true, if_false]
    rw [find_filterMap]
    simp

/-! ## serving one request -/

theorem muxTarget_slash (kept : List Chan) (n : Str) :
    muxTarget kept ('/' :: n) = (find kept n).map (·.target) := by
  have : muxPrefix = "/" := by decide
  unfold muxTarget find
  congr 1
  congr 1
  funext c
  simp [this]
  exact ⟨fun h => h.symm, fun h => h.symm⟩

theorem mem_handlers (kept : List Chan) (n : Str) :
    ('/' :: n) ∈ handlers kept ↔ (find kept n).isSome = true := by
  have : registerPrefix = "/" := by decide
  unfold handlers find
  simp [this, List.find?_isSome]

theorem handlers_slash (kept : List Chan) (p : Str) (h : p ∈ handlers kept) : ∃ n, p = '/' :: n := by
  have : registerPrefix = "/" := by decide
  unfold handlers at h
  simp [this] at h
  obtain ⟨c, _, e⟩ := h
  exact ⟨c.name, e.symm⟩

/-- serving `"/"+n` from a kept list: connect to the first kept channel named n, else refuse -/
theorem serve_slash (ms : List Str → Str → Bool) (hms : ExactMatch ms) (kept : List Chan) (n : Str) :
    serve ms kept ('/' :: n) =
      match find kept n with
      | some c => (.connect c.target, [c.target])
      | none => (.refused, []) := by
  unfold serve
  rw [muxTarget_slash]
  cases hf : find kept n with
  | none =>
    have : ms (handlers kept) ('/' :: n) = false := by
      cases hm : ms (handlers kept) ('/' :: n) with
      | false => rfl
      | true =>
        have := (mem_handlers kept n).mp ((hms _ _).mp hm)
        simp [hf] at this
    simp [this]
  | some c =>
    have : ms (handlers kept) ('/' :: n) = true :=
      (hms _ _).mpr ((mem_handlers kept n).mpr (by simp [hf]))
    simp [this]

/-! ## Startup -/

/-- **fail closed**: whenever Filter reports an error (an unknown name in the allow-list of this endpoint —
    or of any other websocket endpoint of the same HTTP server — or an empty result), nothing listens and
    no channel is kept, for every server kind; in particular every Startup that returns an error exposes
    nothing, and the stdio Startup, which returns the wrong (nil) variable, exposes the empty set -/
theorem C03_startup_fail_closed (k : Kind) (chs : List Chan) (allow : List Str) :
    ((filter chs allow).2 = true → (startup k chs allow).listening = false ∧ (startup k chs allow).kept = []) ∧
    ((startup k chs allow).err = true → (startup k chs allow).listening = false ∧ (startup k chs allow).kept = []) ∧
    ((startup k chs allow).listening = true → (startup k chs allow).kept = (filter chs allow).1 ∧ (filter chs allow).2 = false) := by
  cases k <;> simp [startup] <;> (try split) <;> simp_all

/-- the four listener kinds report the filter error (not so stdio on the current tree, see notes) -/
theorem C03_startup_reports_error :
    socketFilterErrReturns = "err" ∧ packetFilterErrReturns = "err" ∧ dnsFilterErrReturns = "err" ∧
    httpFilterErrReturns = "errs-collected-before-listen" := by decide

/-! ## C03_route_iff, C03_refused_no_dial, C03_no_prefix_case -/

/-- the result of a request, end to end (Startup with the endpoint's allow-list, then one stream) -/
def route (ms : List Str → Str → Bool) (k : Kind) (chs : List Chan) (allow : List Str) (proto : Str) : Res :=
  (run ms k chs allow proto).2.1

def dials (ms : List Str → Str → Bool) (k : Kind) (chs : List Chan) (allow : List Str) (proto : Str) : List Nat :=
  (run ms k chs allow proto).2.2

theorem route_slash (ms : List Str → Str → Bool) (hms : ExactMatch ms) (k : Kind) (chs : List Chan)
    (allow : List Str) (n : Str) (hl : (startup k chs allow).listening = true) :
    run ms k chs allow ('/' :: n) =
      ((startup k chs allow),
        match (if allow = [] ∨ n ∈ allow then find chs n else none) with
        | some c => (Res.connect c.target, [c.target])
        | none => (Res.refused, [])) := by
  have hk := (C03_startup_fail_closed k chs allow).2.2 hl
  unfold run
  simp only [hl, if_true]
  rw [serve_slash ms hms, hk.1, find_filter]

/-- **routing**: the request is connected to target `t` iff it is "/"+n for a name n that the endpoint
    serves (allow-list empty or containing n, and the server started) and `t` is the target of the *first*
    configured channel named n -/
theorem C03_route_iff (ms : List Str → Str → Bool) (hms : ExactMatch ms) (k : Kind) (chs : List Chan)
    (allow : List Str) (proto : Str) (t : Nat) :
    route ms k chs allow proto = .connect t ↔
      ∃ n, proto = '/' :: n ∧ (startup k chs allow).listening = true ∧ (allow = [] ∨ n ∈ allow) ∧
        ∃ c, find chs n = some c ∧ c.target = t := by
  unfold route
  by_cases hl : (startup k chs allow).listening = true
  · constructor
    · intro h
      -- the protocol must have been a registered handler, hence starts with '/'
      have hp : ∃ n, proto = '/' :: n := by
        unfold run at h
        simp only [hl, if_true] at h
        unfold serve at h
        split at h
        · rename_i hm; exact handlers_slash _ _ ((hms _ _).mp hm)
        · cases h
      obtain ⟨n, rfl⟩ := hp
      rw [route_slash ms hms k chs allow n hl] at h
      refine ⟨n, rfl, hl, ?_⟩
      by_cases ha : allow = [] ∨ n ∈ allow
      · refine ⟨ha, ?_⟩
        simp only [ha, if_true] at h
        cases hf : find chs n with
        | none => simp [hf] at h
        | some c => simp [hf] at h; exact ⟨c, rfl, h⟩
      · simp [ha] at h
    · rintro ⟨n, rfl, _, ha, c, hf, ht⟩
      rw [route_slash ms hms k chs allow n hl]
      simp [ha, hf, ht]
  · constructor
    · intro h
      unfold run at h
      simp [hl] at h
    · rintro ⟨n, _, hl', _⟩
      exact absurd hl' hl

/-- **no dial without a route**: whatever the request, the targets dialled are exactly [t] when the result is
    `connect t`, and none otherwise (refused, or the server never started) -/
theorem C03_refused_no_dial (ms : List Str → Str → Bool) (k : Kind) (chs : List Chan)
    (allow : List Str) (proto : Str) :
    dials ms k chs allow proto =
      match route ms k chs allow proto with
      | .connect t => [t]
      | _ => [] := by
  unfold dials route run
  by_cases hl : (startup k chs allow).listening = true
  · simp only [hl, if_true]
    unfold serve
    split
    · split <;> simp_all
    · simp
  · simp [hl]

/-- **exact names only**: a protocol id without the leading "/" is never routed, and "/"+r is never routed
    unless r is, character for character, the name of a configured channel — prefixes, extensions, case
    variants and the empty name of configured names are different strings and are refused without a dial -/
theorem C03_no_prefix_case (ms : List Str → Str → Bool) (hms : ExactMatch ms) (k : Kind) (chs : List Chan)
    (allow : List Str) :
    (∀ proto, (∀ r, proto ≠ '/' :: r) → ∀ t, route ms k chs allow proto ≠ .connect t) ∧
    (∀ r, (∀ c ∈ chs, c.name ≠ r) → ∀ t, route ms k chs allow ('/' :: r) ≠ .connect t) ∧
    (∀ r, (∀ c ∈ chs, c.name ≠ r) → dials ms k chs allow ('/' :: r) = []) := by
  have none_of : ∀ r, (∀ c ∈ chs, c.name ≠ r) → find chs r = none := by
    intro r h
    unfold find
    simp [List.find?_eq_none]
    exact h
  refine ⟨?_, ?_, ?_⟩
  · intro proto hp t h
    obtain ⟨n, e, _⟩ := (C03_route_iff ms hms k chs allow proto t).mp h
    exact hp n e
  · intro r hr t h
    obtain ⟨n, e, _, _, c, hf, _⟩ := (C03_route_iff ms hms k chs allow _ t).mp h
    cases e
    rw [none_of r hr] at hf
    cases hf
  · intro r hr
    rw [C03_refused_no_dial]
    split
    · rename_i t h
      obtain ⟨n, e, _, _, c, hf, _⟩ := (C03_route_iff ms hms k chs allow _ t).mp h
      cases e
      rw [none_of r hr] at hf
      cases hf
    · rfl

/-! ## per endpoint: several servers sharing the table, several websocket paths

  The allow-list that decides a request is the one configured for the endpoint (server, and for HTTP the
  websocket path) the request arrived on — not that of another path of the same HTTP server, nor that of
  another server started from the same channel table. -/

/-- the allow-list *configured* for the endpoint (server `i`, `path`), when that endpoint is served at all:
    the server started (for HTTP: every endpoint's list passed Filter) and, for HTTP, `path` is the path of
    one of its endpoints (the first of that path) -/
def endpointAllow (chs : List Chan) (srvs : List Srv) (i : Nat) (path : Str) : Option (List Str) :=
  match srvs[i]? with
  | none => none
  | some (.plain k allow) => if (startup k chs allow).listening then some allow else none
  | some (.http eps) =>
    if httpErr chs eps then none else (eps.find? (fun e => decide (e.1 = path))).map (·.2)

def routeAt (ms : List Str → Str → Bool) (chs : List Chan) (srvs : List Srv) (i : Nat) (path proto : Str) : Res :=
  (runAt ms chs srvs i path proto).1

def dialsAt (ms : List Str → Str → Bool) (chs : List Chan) (srvs : List Srv) (i : Nat) (path proto : Str) : List Nat :=
  (runAt ms chs srvs i path proto).2

/-- what is served on an endpoint is Filter's list for the allow-list configured for that very endpoint -/
theorem endpointKept_eq (chs : List Chan) (srvs : List Srv) (i : Nat) (path : Str) :
    (srvs[i]?).bind (fun s => endpointKept chs s path) =
      (endpointAllow chs srvs i path).map (fun allow => (filter chs allow).1) := by
  unfold endpointAllow
  cases hs : srvs[i]? with
  | none => rfl
  | some s =>
    cases s with
    | plain k allow =>
      simp only [Option.bind_some, endpointKept]
      by_cases hl : (startup k chs allow).listening = true
      · simp [hl, (C03_startup_fail_closed k chs allow).2.2 hl]
      · simp [hl]
    | http eps =>
      simp only [Option.bind_some, endpointKept]
      by_cases he : httpErr chs eps = true
      · simp [he]
      · simp only [he, Bool.false_eq_true, if_false]
        cases eps.find? (fun e => decide (e.1 = path)) <;> rfl

theorem runAt_eq (ms : List Str → Str → Bool) (chs : List Chan) (srvs : List Srv) (i : Nat) (path proto : Str) :
    runAt ms chs srvs i path proto =
      match endpointAllow chs srvs i path with
      | none => (.unreachable, [])
      | some allow => serve ms (filter chs allow).1 proto := by
  have h := endpointKept_eq chs srvs i path
  unfold runAt
  cases hs : srvs[i]? with
  | none => simp [endpointAllow, hs]
  | some s =>
    rw [hs] at h
    simp only [Option.bind_some] at h
    simp only [h]
    cases endpointAllow chs srvs i path <;> rfl

/-- **routing per endpoint**: a request arriving on endpoint (server i, path) is connected to target `t` iff
    it is "/"+n, that endpoint is served, n is allowed *by the allow-list configured for that endpoint*
    (empty = all), and `t` is the target of the first configured channel named n -/
theorem C03_routeAt_iff (ms : List Str → Str → Bool) (hms : ExactMatch ms) (chs : List Chan) (srvs : List Srv)
    (i : Nat) (path proto : Str) (t : Nat) :
    routeAt ms chs srvs i path proto = .connect t ↔
      ∃ n allow, proto = '/' :: n ∧ endpointAllow chs srvs i path = some allow ∧ (allow = [] ∨ n ∈ allow) ∧
        ∃ c, find chs n = some c ∧ c.target = t := by
  unfold routeAt
  rw [runAt_eq]
  cases ha : endpointAllow chs srvs i path with
  | none => simp
  | some allow =>
    simp only [Option.some.injEq]
    constructor
    · intro h
      have hp : ∃ n, proto = '/' :: n := by
        unfold serve at h
        split at h
        · rename_i hm; exact handlers_slash _ _ ((hms _ _).mp hm)
        · cases h
      obtain ⟨n, rfl⟩ := hp
      rw [serve_slash ms hms, find_filter] at h
      refine ⟨n, allow, rfl, rfl, ?_⟩
      by_cases hal : allow = [] ∨ n ∈ allow
      · refine ⟨hal, ?_⟩
        simp only [hal, if_true] at h
        cases hf : find chs n with
        | none => simp [hf] at h
        | some c => simp [hf] at h; exact ⟨c, rfl, h⟩
      · simp [hal] at h
    · rintro ⟨n, allow', rfl, rfl, hal, c, hf, ht⟩
      rw [serve_slash ms hms, find_filter]
      simp [hal, hf, ht]

/-- **no dial without a route, per endpoint**: the targets dialled are exactly [t] when the request was
    connected to t, and none when it was refused or the endpoint is not served -/
theorem C03_refusedAt_no_dial (ms : List Str → Str → Bool) (chs : List Chan) (srvs : List Srv)
    (i : Nat) (path proto : Str) :
    dialsAt ms chs srvs i path proto =
      match routeAt ms chs srvs i path proto with
      | .connect t => [t]
      | _ => [] := by
  unfold dialsAt routeAt
  rw [runAt_eq]
  cases endpointAllow chs srvs i path with
  | none => rfl
  | some allow =>
    simp only
    unfold serve
    split
    · split <;> simp_all
    · simp

/-- **isolation**: once the server is up, what a request gets on an endpoint does not depend on the other
    servers of the configuration nor on the allow-lists of the other websocket paths of the same HTTP server:
    it is what a lone socket server with that endpoint's allow-list would answer -/
theorem C03_endpoint_isolated (ms : List Str → Str → Bool) (chs : List Chan) (srvs : List Srv)
    (i : Nat) (path proto : Str) (allow : List Str) (h : endpointAllow chs srvs i path = some allow) :
    runAt ms chs srvs i path proto = serve ms (filter chs allow).1 proto := by
  rw [runAt_eq, h]

/-! ## non-vacuity -/

def cfg : List Chan := [⟨"ssh".toList, 0⟩, ⟨"web".toList, 1⟩, ⟨"ssh".toList, 2⟩, ⟨"SSH".toList, 3⟩]

theorem exact_is_ExactMatch : ExactMatch exact := by
  intro hs tok; simp [exact]

-- routed to the first channel of that name, one dial
example : run exact .socket cfg [] "/ssh".toList = (⟨false, true, cfg⟩, .connect 0, [0]) := by decide
example : route exact .socket cfg ["SSH".toList] "/SSH".toList = .connect 3 := by decide
-- configured but not allowed on this endpoint: refused, no dial
example : (run exact .socket cfg ["web".toList] "/ssh".toList).2 = (.refused, []) := by decide
-- prefix, extension, case variant, empty, missing slash
example : (run exact .socket cfg [] "/ss".toList).2 = (.refused, []) := by decide
example : (run exact .socket cfg [] "/sshd".toList).2 = (.refused, []) := by decide
example : (run exact .socket cfg [] "/Ssh".toList).2 = (.refused, []) := by decide
example : (run exact .socket cfg [] "/".toList).2 = (.refused, []) := by decide
example : (run exact .socket cfg [] "ssh".toList).2 = (.refused, []) := by decide
-- an unknown name in an allow-list: no listener (and one bad websocket endpoint stops the whole HTTP server)
example : (startup .socket cfg ["ssh".toList, "nope".toList]).listening = false := by decide
example : (startup (.http ["nope".toList]) cfg ["ssh".toList]).listening = false := by decide
example : (startup (.http ["web".toList]) cfg ["ssh".toList]).kept = [⟨"ssh".toList, 0⟩] := by decide

-- two websocket paths with different allow-lists: each enforces its own (not the last one's)
def twoPaths : List Srv := [.http [("ws/a".toList, ["ssh".toList]), ("ws/b".toList, ["web".toList])], .plain .socket ["web".toList]]
example : runAt exact cfg twoPaths 0 "ws/a".toList "/web".toList = (.refused, []) := by decide
example : runAt exact cfg twoPaths 0 "ws/a".toList "/ssh".toList = (.connect 0, [0]) := by decide
example : runAt exact cfg twoPaths 0 "ws/b".toList "/web".toList = (.connect 1, [1]) := by decide
example : runAt exact cfg twoPaths 0 "ws/b".toList "/ssh".toList = (.refused, []) := by decide
example : runAt exact cfg twoPaths 0 "ws/c".toList "/ssh".toList = (.unreachable, []) := by decide
example : runAt exact cfg twoPaths 1 [] "/ssh".toList = (.refused, []) := by decide
example : endpointAllow cfg twoPaths 0 "ws/a".toList = some ["ssh".toList] := by decide

end SA.Props.C03

#print axioms SA.Props.C03.C03_gen_prefixes
#print axioms SA.Props.C03.C03_gen_filter_shape
#print axioms SA.Props.C03.C03_gen_endpoint_lists
#print axioms SA.Props.C03.C03_startup_fail_closed
#print axioms SA.Props.C03.C03_startup_reports_error
#print axioms SA.Props.C03.C03_route_iff
#print axioms SA.Props.C03.C03_refused_no_dial
#print axioms SA.Props.C03.C03_no_prefix_case
#print axioms SA.Props.C03.C03_routeAt_iff
#print axioms SA.Props.C03.C03_refusedAt_no_dial
#print axioms SA.Props.C03.C03_endpoint_isolated

namespace SA.PkgState
/-- **no_hidden_process_state**: the models of this property are functions of their arguments and of the objects they are
    handed; the packages they model keep no package-level variables besides these (regenerated inventory: error
    sentinels, tables, compiled patterns, the two session time-outs).  A new package-level variable — a counter, a cache, a
    scratch buffer, a shared map, a registry — would make later calls depend on earlier ones, or concurrent calls on each
    other, outside anything a per-call comparison of model and code can see. -/
theorem C03_no_hidden_process_state :
    Gen.pkgVarNames_server = ["ChannelRegex"] := by decide
end SA.PkgState

#print axioms SA.PkgState.C03_no_hidden_process_state

namespace SA.PkgState
/-- **per_item_handlers**: the module's language version is go 1.14 — a loop has one variable for all its iterations.
    No function literal inside a loop body captures a variable that the loop (re)assigns on every iteration, so the
    handler, callback or goroutine set up for one channel / endpoint / connection is not silently bound to a later
    one (regenerated inventory).  The three entries are addresses of a loop variable that are consumed before the next
    iteration: `EndpointHandler(&endpoint, …)` reads one field synchronously, and the two command look-ups leave their
    loop at once (`cmd = &c; break` / `return`). -/
theorem C03_per_item_handlers :
    Gen.goDirective = "1.14" ∧
    Gen.loopVarCaptures = ["internal/server/http_server.go Startup: address of loop variable endpoint taken", "internal/streams/dns/commands/serializer.go DetectCommandType: address of loop variable v taken", "internal/streams/dns/dns_server_connection.go onMessage: address of loop variable c taken"] := by decide
end SA.PkgState

#print axioms SA.PkgState.C03_per_item_handlers

namespace SA.PkgState
/-- **dns_endpoints_have_their_own_handler**: a DNS tunnel endpoint registers its query handler on a handler table of its
    own, installed before the server starts to serve (regenerated) — not on the DNS library's process-wide default table,
    where the endpoint registered last would answer the queries of every DNS endpoint of the process with *its*
    session table and *its* allow-list.  This is what lets `runAt` (SA.Model.Routing) treat DNS endpoints like the
    other server kinds: the request is judged by the list of the endpoint it arrived on. -/
theorem C03_dns_endpoints_have_their_own_handler :
    Gen.dnsHandlerOnOwnMux = true ∧
    Gen.globalRegistrations = ["internal/streams/dns/util/socketace_private_rr.go: dns.PrivateHandle"] := by decide
end SA.PkgState

#print axioms SA.PkgState.C03_dns_endpoints_have_their_own_handler

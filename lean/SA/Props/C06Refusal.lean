/-
  C06 — a refusal is final.

  Once a message of a stream has been answered with an error status the handshake is over for this connection:
  the result (outcome and every response written) does not depend on the bytes that follow the refused message,
  and no session comes out of them.  Stated

  * at the reader level for every input (`C06_refusal_is_final`, `_upgrade`, `_client`): two streams whose
    messages up to and including the refused one read the same give the same result — whatever follows, whatever
    the configuration / TLS behaviour (announce step), under whatever fuel;
  * at the byte level for every message in wire format `line CRLF (name ":" raw CRLF)* CRLF`
    (`C06_refused_whatever_follows`): every suffix, every segmentation;
  * `C06_witness_continue_after_400`: why it matters — the upgrade step run after a 400 (negotiated version still
    empty) admits the well-formed upgrade request for the empty version;
  * `C06_refusal_returns_error`: the regenerated control-flow shape of server.go / client.go — every answer with
    an error status is followed by the return of an error that is non-nil by construction and not overwritten
    after the write; every step's error is checked by the caller.
-/
import SA.Props.C06
import SA.Gen.C06Refusal
namespace SA.Handshake

/-! ## the server as two steps -/

/-- server.go `upgrade` with negotiated version `v`, after the responses `prev` were written -/
def upgradeStep (cfg : SrvCfg) (tls : B → Bool) (fuel : Nat) (v : B) (prev : List Wrote) (r1 : Rd) : SrvResult :=
  match readRequest fuel r1 with
  | .err => ⟨.closed, prev⟩
  | .panic => ⟨.panic, prev⟩
  | .ok (req2, r2) =>
    if req2.method ≠ Gen.srvUpgradeMethod then ⟨.refused 405, prev ++ [⟨405, []⟩]⟩
    else if goLower (hget req2.headers bConnection) ≠ Gen.srvUpgradeConnection then ⟨.refused 406, prev ++ [⟨406, []⟩]⟩
    else if hget req2.headers bUpgrade ≠ Gen.srvUpgradePrefix ++ v then ⟨.refused 406, prev ++ [⟨406, []⟩]⟩
    else
      let w101 : Wrote := ⟨101, [(bConnection, Gen.srvUpgradeConnection), (bProtocolVersion, v), serverHdr,
                                 (bUpgrade, Gen.srvUpgradePrefix ++ v)]⟩
      if goUpper (hget req2.headers bSecurity) = goUpper Gen.srvSecurityToken then
        if supportTls cfg then
          if cfg.cert == .okerr then ⟨.refused 500, prev ++ [⟨500, []⟩]⟩
          else if tls r2.flat then ⟨.established v .tls true [], prev ++ [w101]⟩
          else ⟨.closed, prev ++ [w101]⟩
        else ⟨.refused 503, prev ++ [⟨503, []⟩]⟩
      else
        ⟨.established v (if cfg.secure then .underlying else .none) cfg.secure r2.flat, prev ++ [w101]⟩

/-- the 200 answer of server.go `handshake` -/
def w200 (cfg : SrvCfg) (v : B) : Wrote := ⟨200, capsHeaders cfg ++ [(bProtocolVersion, v), serverHdr]⟩

/-- `NewServerConnection` = `handshake`, and `upgrade` only when `handshake` reported no error -/
theorem serverOn_steps (cfg : SrvCfg) (tls : B → Bool) (fuel : Nat) (r : Rd) :
    serverOn cfg tls fuel r =
      match readRequest fuel r with
      | .err => ⟨.refused 400, [⟨400, [serverHdr]⟩]⟩
      | .panic => ⟨.panic, []⟩
      | .ok (req, r1) =>
        if req.method ≠ Gen.srvAnnounceMethod then ⟨.refused 405, [⟨405, [serverHdr]⟩]⟩
        else if negotiate (hget req.headers Gen.acceptsProtocolVersion) = [] then ⟨.refused 409, [⟨409, [serverHdr]⟩]⟩
        else upgradeStep cfg tls fuel (negotiate (hget req.headers Gen.acceptsProtocolVersion))
              [w200 cfg (negotiate (hget req.headers Gen.acceptsProtocolVersion))] r1 := by
  unfold serverOn upgradeStep w200
  rcases readRequest fuel r with ⟨req, r1⟩ | _ | _
  · dsimp only
    by_cases hm : req.method ≠ Gen.srvAnnounceMethod
    · rw [if_pos hm, if_pos hm]
    · rw [if_neg hm, if_neg hm]
      by_cases hv : negotiate (hget req.headers Gen.acceptsProtocolVersion) = []
      · rw [if_pos hv, if_pos hv]
      · rw [if_neg hv, if_neg hv]
        rcases readRequest fuel r1 with ⟨req2, r2⟩ | _ | _ <;> rfl
  · rfl
  · rfl

/-- the next message of two streams reads the same (what remains after it is left open) -/
def SameMessage {α : Type} : Parsed (α × Rd) → Parsed (α × Rd) → Prop
  | .ok (q, _), .ok (q', _) => q = q'
  | .err, .err => True
  | .panic, .panic => True
  | _, _ => False

/-- a result that is a refusal with exactly `n` responses written (n = 1: at the announce step, n = 2: at the upgrade step) -/
def RefusedAfter (n : Nat) (res : SrvResult) : Prop :=
  res.written.length = n ∧ ∃ st, res.out = .refused st

theorem upgradeStep_written (cfg : SrvCfg) (tls : B → Bool) (fuel : Nat) (v : B) (w : Wrote) (r1 : Rd) :
    (∃ st, (upgradeStep cfg tls fuel v [w] r1).out = .refused st) →
      (upgradeStep cfg tls fuel v [w] r1).written.length = 2 := by
  unfold upgradeStep
  repeat' split
  all_goals simp_all

/-- **a refusal at the announce step is final.**  If the first message of two streams reads the same and one run
    ends in a refusal after a single response, then the other run — on any remaining bytes, with any
    configuration, any TLS behaviour, any fuel — gives the identical result: nothing that follows the refused
    message is looked at. -/
theorem C06_refusal_is_final (cfg cfg' : SrvCfg) (tls tls' : B → Bool) (f f' : Nat) (r r' : Rd)
    (hsame : SameMessage (readRequest f r) (readRequest f' r'))
    (href : RefusedAfter 1 (serverOn cfg tls f r)) :
    serverOn cfg' tls' f' r' = serverOn cfg tls f r := by
  obtain ⟨hone, st, href⟩ := href
  rw [serverOn_steps] at hone href ⊢
  rw [serverOn_steps cfg tls f r]
  rcases h1 : readRequest f r with ⟨q, r1⟩ | _ | _ <;> rcases h2 : readRequest f' r' with ⟨q', r1'⟩ | _ | _ <;>
    rw [h1, h2] at hsame <;> simp only [SameMessage] at hsame <;> rw [h1] at hone href <;> dsimp only at hone href ⊢
  · subst hsame
    by_cases hm : q.method ≠ Gen.srvAnnounceMethod
    · rw [if_pos hm, if_pos hm]
    · rw [if_neg hm] at hone href ⊢
      rw [if_neg hm]
      by_cases hv : negotiate (hget q.headers Gen.acceptsProtocolVersion) = []
      · rw [if_pos hv, if_pos hv]
      · rw [if_neg hv] at hone href
        have := upgradeStep_written cfg tls f _ _ r1 ⟨st, href⟩
        omega

/-- **a refusal at the upgrade step is final.**  Same announce message (accepted), same upgrade message, one run
    refused after two responses: the other run gives the identical result on any remaining bytes, with any TLS
    behaviour and any fuel (the configuration is the same: 503 / 500 depend on it). -/
theorem C06_refusal_is_final_upgrade (cfg : SrvCfg) (tls tls' : B → Bool) (f f' : Nat) (r r' : Rd)
    (q : Request) (r1 r1' : Rd)
    (h1 : readRequest f r = .ok (q, r1)) (h1' : readRequest f' r' = .ok (q, r1'))
    (hsame : SameMessage (readRequest f r1) (readRequest f' r1'))
    (href : RefusedAfter 2 (serverOn cfg tls f r)) :
    serverOn cfg tls' f' r' = serverOn cfg tls f r := by
  obtain ⟨hone, st, href⟩ := href
  rw [serverOn_steps] at hone href ⊢
  rw [serverOn_steps cfg tls f r]
  rw [h1] at hone href ⊢
  rw [h1']
  dsimp only at hone href ⊢
  by_cases hm : q.method ≠ Gen.srvAnnounceMethod
  · rw [if_pos hm, if_pos hm]
  · rw [if_neg hm] at hone href ⊢
    rw [if_neg hm]
    by_cases hv : negotiate (hget q.headers Gen.acceptsProtocolVersion) = []
    · rw [if_pos hv, if_pos hv]
    · rw [if_neg hv] at hone href ⊢
      rw [if_neg hv]
      unfold upgradeStep at hone href ⊢
      rcases g1 : readRequest f r1 with ⟨q2, r2⟩ | _ | _ <;> rcases g2 : readRequest f' r1' with ⟨q2', r2'⟩ | _ | _ <;>
        rw [g1, g2] at hsame <;> simp only [SameMessage] at hsame <;> rw [g1] at hone href <;> dsimp only at hone href ⊢
      · subst hsame
        revert hone href
        repeat' split
        all_goals simp_all
      all_goals simp at href

/-- **an error answer is final for the client.**  If the first answer reads the same on two streams and one run is
    refused after one request, the other run is identical whatever follows (likewise after the second answer:
    `C06_refusal_is_final_client_upgrade`). -/
theorem C06_refusal_is_final_client (s0 s0' : Bool) (tls tls' : B → Bool) (f f' : Nat) (r r' : Rd)
    (hsame : SameMessage (readResponse f r) (readResponse f' r'))
    (hone : (clientOn s0 tls f r).requests = 1)
    (href : ∃ st, (clientOn s0 tls f r).out = .refused st) :
    clientOn s0' tls' f' r' = clientOn s0 tls f r := by
  obtain ⟨st, href⟩ := href
  unfold clientOn at hone href ⊢
  rcases h1 : readResponse f r with ⟨q, r1⟩ | _ | _ <;> rcases h2 : readResponse f' r' with ⟨q', r1'⟩ | _ | _ <;>
    rw [h1, h2] at hsame <;> simp only [SameMessage] at hsame <;> rw [h1] at hone href <;> dsimp only at hone href ⊢
  · subst hsame
    by_cases hc : q.code ≠ Gen.cliHandshakeStatus
    · rw [if_pos hc, if_pos hc]
    · rw [if_neg hc] at hone href
      revert hone href
      repeat' split
      all_goals simp_all
  all_goals simp at href

theorem C06_refusal_is_final_client_upgrade (s0 : Bool) (tls tls' : B → Bool) (f f' : Nat) (r r' : Rd)
    (q : Response) (r1 r1' : Rd)
    (h1 : readResponse f r = .ok (q, r1)) (h1' : readResponse f' r' = .ok (q, r1'))
    (hsame : SameMessage (readResponse f r1) (readResponse f' r1'))
    (hone : (clientOn s0 tls f r).requests = 2)
    (href : ∃ st, (clientOn s0 tls f r).out = .refused st) :
    clientOn s0 tls' f' r' = clientOn s0 tls f r := by
  obtain ⟨st, href⟩ := href
  unfold clientOn at hone href ⊢
  rw [h1] at hone href ⊢
  rw [h1']
  dsimp only at hone href ⊢
  by_cases hc : q.code ≠ Gen.cliHandshakeStatus
  · rw [if_pos hc] at hone
    simp at hone
  · rw [if_neg hc] at hone href ⊢
    rw [if_neg hc]
    rcases g1 : readResponse f r1 with ⟨q2, r2⟩ | _ | _ <;> rcases g2 : readResponse f' r1' with ⟨q2', r2'⟩ | _ | _ <;>
      rw [g1, g2] at hsame <;> simp only [SameMessage] at hsame <;> rw [g1] at hone href <;> dsimp only at hone href ⊢
    · subst hsame
      revert hone href
      repeat' split
      all_goals simp_all
    all_goals simp at href

/-! ## byte level: a message in wire format that is refused, followed by anything -/

theorem sameMessage_wire (line : B) (hl : 10 ∉ line) (hs : Headers) (hw : wfHeaders hs = true)
    (f f' : Nat) (hf : hs.length < f) (hf' : hs.length < f') (rest rest' : B) :
    SameMessage (readRequest f ⟨wireMessage line hs ++ rest, []⟩) (readRequest f' ⟨wireMessage line hs ++ rest', []⟩) := by
  unfold readRequest
  rw [readHeader_wire line hl hs hw f hf rest, readHeader_wire line hl hs hw f' hf' rest']
  simp only
  cases parseRequestLine line with
  | ok a => obtain ⟨m, u, p⟩ := a; simp [SameMessage]
  | err => simp [SameMessage]
  | panic => simp [SameMessage]

/-- **whatever follows a refused first message is irrelevant (byte level).**  Take any first line without LF —
    parsable or not — and any block of well-formed header lines closed by an empty line; if the server refuses this
    message (one response written) when `rest` follows, then for every other continuation `rest'` — a well-formed
    upgrade request for any version, a second announce + upgrade pair, a copy of the same junk —, every
    configuration, every TLS behaviour and **every segmentation** of either stream the result is the same refusal
    with the same single response. -/
theorem C06_refused_whatever_follows (cfg cfg' : SrvCfg) (tls tls' : B → Bool)
    (line : B) (hs : Headers) (rest rest' : B) (chunks chunks' : List B)
    (hl : 10 ∉ line) (hw : wfHeaders hs = true)
    (hc : chunks.flatten = wireMessage line hs ++ rest) (hc' : chunks'.flatten = wireMessage line hs ++ rest')
    (href : RefusedAfter 1 (serverRun cfg tls chunks)) :
    serverRun cfg' tls' chunks' = serverRun cfg tls chunks := by
  rw [serverRun_flat] at href ⊢
  rw [serverRun_flat cfg tls chunks]
  rw [hc] at href ⊢
  rw [hc']
  have l := length_lt_wireMessage line hs
  exact C06_refusal_is_final cfg cfg' tls tls' _ _ _ _
    (sameMessage_wire line hl hs hw _ _ (by rw [List.length_append]; omega) (by rw [List.length_append]; omega) rest rest') href

/-! ## why it matters: the upgrade step after a 400 -/

/-- an announce that cannot be parsed (`X-SOCKETACE/v2.0.0`: no blank in the request line) + empty line -/
def exJunk : B := [88, 45, 83, 79, 67, 75, 69, 84, 65, 67, 69, 47, 118, 50, 46, 48, 46, 48, 13, 10, 13, 10]
/-- `GET / HTTP/1.1 CRLF Connection: upgrade CRLF Upgrade: socketace/ CRLF CRLF` -/
def exUpgradeEmpty : B :=
  [71, 69, 84, 32, 47, 32, 72, 84, 84, 80, 47, 49, 46, 49, 13, 10,
   67, 111, 110, 110, 101, 99, 116, 105, 111, 110, 58, 32, 117, 112, 103, 114, 97, 100, 101, 13, 10,
   85, 112, 103, 114, 97, 100, 101, 58, 32, 115, 111, 99, 107, 101, 116, 97, 99, 101, 47, 13, 10, 13, 10]

/-- **witness.**  On `junk ++ upgrade-for-the-empty-version` the server answers 400 and stops: one response, no
    session.  A server that went on to the upgrade step after that 400 — the negotiated version still empty —
    would answer 101 and hand out a session (with version "") to a peer that never sent a well-formed announce:
    the finality of the refusal is what `C06_admits_only_wellformed` rests on, and `[400, 101]` contradicts
    `C06_session_only_after_101`. -/
theorem C06_witness_continue_after_400 :
    serverRun ⟨false, .nil⟩ (fun _ => false) [exJunk ++ exUpgradeEmpty] = ⟨.refused 400, [⟨400, [serverHdr]⟩]⟩ ∧
    (upgradeStep ⟨false, .nil⟩ (fun _ => false) 100 [] [⟨400, [serverHdr]⟩] ⟨exUpgradeEmpty, []⟩).out
        = .established [] .none false [] ∧
    (upgradeStep ⟨false, .nil⟩ (fun _ => false) 100 [] [⟨400, [serverHdr]⟩] ⟨exUpgradeEmpty, []⟩).written.map (·.code)
        = [400, 101] := by
  decide +kernel

/-! ## the regenerated control-flow shape -/

/-- the statuses with which the model's decision trees refuse, as the extractor names them -/
def isRefusalStatus (st : String) : Bool :=
  st == "400" || st == "405" || st == "409" || st == "406" || st == "500" || st == "503" || st == "non-101" ||
  st == "403"  -- upgrade step, repair of C05: client certificates required and the client did not ask for StartTLS
               -- (the C06 configurations never set that requirement; the refusal is C05's `reqcert` model)

/-- **shape of the code the model's `refused` leaves stand for.**
    * every `response.Write(conn)` of `handshake` / `upgrade` that writes an error status is directly followed by the
      return of an error that is non-nil by construction and is not assigned between its creation and the `return`
      (`return-error`); the 200 is followed by `return nil`, a 101 by the TLS handshake or the final return;
    * each refusal of the model has its write site: 400, 405, 409 in `handshake`; the non-101 answers (405 / 406),
      500 and 503 in `upgrade`; nothing else is written;
    * `NewServerConnection` / `NewClientConnection` test the error of each step and return it;
    * the client's two status tests (`!= 200`, `!= 101`) return an error. -/
theorem C06_refusal_returns_error :
    (∀ w ∈ Gen.c06ResponseWrites,
        (isRefusalStatus w.2.1 = true → w.2.2 = "return-error") ∧
        (w.2.1 = "200" → w.2.2 = "return-nil") ∧
        (w.2.1 = "101" → (w.2.2 = "continues" ∨ w.2.2 = "return-nil")) ∧
        (isRefusalStatus w.2.1 = true ∨ w.2.1 = "200" ∨ w.2.1 = "101")) ∧
    (∀ st ∈ ["400", "405", "409", "200"], ("handshake", st) ∈ Gen.c06ResponseWrites.map (fun w => (w.1, w.2.1))) ∧
    (∀ st ∈ ["non-101", "500", "503", "101"], ("upgrade", st) ∈ Gen.c06ResponseWrites.map (fun w => (w.1, w.2.1))) ∧
    (∀ g ∈ Gen.c06StepGuards, g.2.2 = "return-error") ∧
    (∀ fn ∈ ["NewServerConnection", "NewClientConnection"], ∀ step ∈ ["handshake", "upgrade"],
        (fn, step) ∈ Gen.c06StepGuards.map (fun g => (g.1, g.2.1))) ∧
    Gen.c06ClientStatusGuards = [("handshake", "!= 200", "return-error"), ("upgrade", "!= 101", "return-error")] := by
  decide

/-! ## non-vacuity -/

/-- the hypothesis of `C06_refused_whatever_follows` is satisfiable and the continuation really differs:
    `X-SOCKETACE/v2.0.0` + empty line, followed by nothing resp. by the upgrade request for the empty version -/
example : RefusedAfter 1 (serverRun ⟨false, .nil⟩ (fun _ => false) [exJunk]) := by
  refine ⟨by decide +kernel, 400, by decide +kernel⟩
example : serverRun ⟨true, .ok⟩ (fun _ => true) ((exJunk ++ exUpgradeEmpty).map fun b => [b])
    = serverRun ⟨false, .nil⟩ (fun _ => false) [exJunk] :=
  C06_refused_whatever_follows _ _ _ _ (exJunk.take 18) [] [] exUpgradeEmpty [exJunk] _
    (by decide) (by decide) (by decide) (by rw [flatten_bytewise]; decide) ⟨by decide +kernel, 400, by decide +kernel⟩
/-- a refusal at the upgrade step exists (two responses) -/
example : RefusedAfter 2 (serverRun ⟨false, .nil⟩ (fun _ => false)
    [ex_announce ++ [80, 79, 83, 84, 32, 47, 32, 72, 13, 10, 13, 10]]) := by
  refine ⟨by decide +kernel, 405, by decide +kernel⟩

end SA.Handshake

#print axioms SA.Handshake.C06_refusal_is_final
#print axioms SA.Handshake.C06_refusal_is_final_upgrade
#print axioms SA.Handshake.C06_refusal_is_final_client
#print axioms SA.Handshake.C06_refusal_is_final_client_upgrade
#print axioms SA.Handshake.C06_refused_whatever_follows
#print axioms SA.Handshake.C06_witness_continue_after_400
#print axioms SA.Handshake.C06_refusal_returns_error

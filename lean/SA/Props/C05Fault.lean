/-
  C05 — peer authentication under FILE FAULTS: a configured certificate / key / CA file that cannot be read at
  the moment a TLS configuration is built ends the attempt; it never turns into "nothing configured".

  Model: SA.Model.TrustSource (the getters of cert.Config parameterised by what becomes of the ReadFile error,
  regenerated as SA.Gen.c05FileReadFates / c05FailurePoints).  crypto/tls / crypto/x509 stay the universally
  quantified contract record `X : X509` of SA.Model.TlsConfig.
-/
import SA.Model.TrustSource
import SA.Proofs.TlsConfig
namespace SA.TrustSource
open SA.TlsConfig

/-- the shape the theorems rest on: in cert.go every ReadFile reachable from the three getters hands its error to
    a `return`, no fallible result is thrown away, and AppendCertsFromPEM's verdict guards a return of an error that
    reaches addCaCertificates' caller (SA.Gen.c05CaPemVerdictChecked: established for the call wherever it sits -
    in addCaCertificates or in a function of cert.go it calls - not by the name of a variable) -/
theorem C05_read_errors_propagate :
    genReadFacts = ⟨true, true, true⟩ ∧ SA.Gen.c05BlankResults = [] ∧
    SA.Gen.c05FailurePoints.all (fun p => p.1 == "findFile" || p.2.2 != "dropped") = true ∧
    SA.Gen.c05CaPemVerdictChecked = true := by
  decide

theorem readSrc_unreadable {s : Src} (e : ErrClass) (h : s.file = some none) : readSrc s e = .err e := by
  simp [readSrc, h]

theorem degrade_all (o : Opts) : degrade ⟨true, true, true⟩ o = o := by
  simp [degrade, degradeSrc]

/-- with every read error propagated, an unreadable file means: no configuration -/
theorem config_unreadable (o : Opts) (h : unreadable o = true) (c : TlsCfg) : configGetTlsConfig o ≠ .ok c := by
  intro hc
  unfold configGetTlsConfig at hc
  simp only [unreadable, Bool.or_eq_true, beq_iff_eq] at h
  cases hk : getX509KeyPair o with
  | err e => simp [hk] at hc
  | panic => simp [hk] at hc
  | ok crt =>
    simp only [hk] at hc
    unfold getX509KeyPair at hk
    rcases h with (h | h) | h
    · simp [readSrc_unreadable .certfile h] at hk
    · cases hcert : readSrc o.cert .certfile with
      | err e => simp [hcert] at hk
      | panic => simp [hcert] at hk
      | ok cb =>
        have hp : getPrivateKey o = .err .keyfile := by simp [getPrivateKey, readSrc_unreadable .keyfile h]
        simp [hcert, hp] at hk
    · simp [addCaCertificates, addCaCertificatesFrom, readSrc_unreadable .cafile h] at hc

/-- C05, file faults, configuration level: on the code as it is, whenever a configured certificate, key or CA
    file cannot be read, NO tls.Config is produced - neither plain, client nor server - for every option set -/
theorem C05_unreadable_file_no_config (o : Opts) (h : unreadable o = true) (g : Bool) (c : TlsCfg) :
    configR genReadFacts o ≠ .ok c ∧ clientGetTlsConfig (degrade genReadFacts o) ≠ .ok c ∧
      serverGetTlsConfig g (degrade genReadFacts o) ≠ .ok c := by
  have hd : degrade genReadFacts o = o := by rw [C05_read_errors_propagate.1]; exact degrade_all o
  have hcfg := config_unreadable o h
  unfold configR
  rw [hd]
  refine ⟨hcfg c, ?_, ?_⟩
  · intro hc
    unfold clientGetTlsConfig at hc
    cases h0 : configGetTlsConfig o with
    | ok c0 => exact hcfg c0 h0
    | err e => simp [h0] at hc
    | panic => simp [h0] at hc
  · intro hc
    unfold serverGetTlsConfig at hc
    cases h0 : configGetTlsConfig o with
    | ok c0 => exact hcfg c0 h0
    | err e => simp only [h0] at hc; split at hc <;> cases hc
    | panic => simp [h0] at hc

/-- C05, file faults, session level: whichever end has an unreadable configured file at the moment of the
    connection, no session is established - for every x509 oracle, every set of site facts, every upstream kind,
    every host, every peer certificate.  In particular a verifying client whose CA file is unreadable completes no
    session with a server certified by the system trust store, and a server requiring client certificates whose
    CA file is unreadable admits nobody. -/
theorem C05_unreadable_file_no_session (X : X509) (F : Facts) (k : Kind) (hostport r : Name) (co so : Opts)
    (h : unreadable co = true ∨ unreadable so = true) :
    establishedR genReadFacts X F k hostport r co so = false := by
  unfold establishedR established
  rcases h with h | h
  · have hc := (C05_unreadable_file_no_config co h true)
    cases h1 : clientCfgFor F.sites k (degrade genReadFacts co) with
    | ok ccfg =>
      exfalso
      unfold clientCfgFor at h1
      cases h2 : clientGetTlsConfig (degrade genReadFacts co) with
      | ok c2 => exact (hc c2).2.1 h2
      | err e => simp [h2] at h1
      | panic => simp [h2] at h1
    | err e => simp
    | panic => simp
  · have hs := (C05_unreadable_file_no_config so h F.guardErrNil)
    cases h1 : serverGetTlsConfig F.guardErrNil (degrade genReadFacts so) with
    | ok scfg => exact absurd h1 (hs scfg).2.2
    | err e => cases clientCfgFor F.sites k (degrade genReadFacts co) <;> simp
    | panic => cases clientCfgFor F.sites k (degrade genReadFacts co) <;> simp

/-- non-vacuity: the same ends with the file readable do establish a session -/
example : handleCafault ["tcp+tls", "client", "ca", "ok", "good"] = "established" := by decide
example : handleCafault ["tcp", "server", "ca", "ok", "good"] = "established" := by decide
example : unreadable { ca := ⟨some none, none⟩ } = true := by decide

/-- witness (the behaviour of a getter that swallows the read error of the CA file): the verifying client, CA file
    unreadable, completes a session with a server certified by the SYSTEM store's CA S, which it never configured;
    and the server requiring client certificates admits a client certified by S -/
theorem C05_witness_swallowed_ca_read_error :
    handleCafaultR ⟨true, true, false⟩ ["tcp+tls", "client", "ca", "missing", "sys"] = "established" ∧
    handleCafaultR ⟨true, true, false⟩ ["tcp", "client", "ca", "dangling", "sys"] = "established" ∧
    handleCafaultR ⟨true, true, false⟩ ["tcp", "server", "ca", "dir", "sys"] = "established" ∧
    handleCafaultR ⟨true, true, true⟩ ["tcp+tls", "client", "ca", "missing", "sys"] = "refused" ∧
    handleCafaultR ⟨true, true, true⟩ ["tcp", "server", "ca", "dir", "sys"] = "refused" := by
  decide

end SA.TrustSource

#print axioms SA.TrustSource.C05_read_errors_propagate
#print axioms SA.TrustSource.C05_unreadable_file_no_config
#print axioms SA.TrustSource.C05_unreadable_file_no_session
#print axioms SA.TrustSource.C05_witness_swallowed_ca_read_error

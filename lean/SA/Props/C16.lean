/-
  C16 — Client connection policy: direct first, ordered failover, reuse, reconnect.

  Theorems over SA.Model.Policy (the state machine of HandleConnection / Upstreams.Connect with the
  environment events cut, restart, Shutdown).  The general statements are parameterised by `Facts`
  (what the code does where the repairs went in); the `C16_…` statements instantiate them at
  `Facts.current`, whose fields are regenerated from the Go source — reverting a repair flips a
  field and breaks `C16_current_facts`, and with it every theorem that depends on it.

  Partial: real time is not modelled beyond the per-attempt bounds (`attemptBound`), the dial
  timeout is the operating system's; the multiplexer's behaviour on a cut carrier (OpenStream fails
  once the loss has been noticed) and on a silent loss (keep-alive) is its contract; concurrent
  Connects are covered for the invariants (all interleavings) while their outcomes are compared with
  the real code on a sequential schedule.
-/
import SA.Proofs.Policy
import SA.Gen.Locks
import SA.Gen.C17
import SA.Model.KeepAlive
import SA.Gen.PkgVars
namespace SA.Policy

/-! ### the regenerated facts the theorems rest on -/

/-- the repairs are in place: lost sessions are discarded and replaced, the handshake has a deadline,
    failed and rejected connections are closed -/
theorem C16_current_facts :
    Facts.current.discardOnLoss = true ∧ Facts.current.retry = true ∧ Facts.current.deadline.isSome = true ∧
    Facts.current.closesFailed = true ∧ Facts.current.closesRejected = true := by decide

/-- the shapes the model takes for granted are those of the source -/
theorem C16_shape :
    Gen.c16DirectGuard = true ∧ Gen.c16DirectFirst = true ∧ Gen.c16OpenInListOrder = true ∧ Gen.c16OpenUnderMutex = true ∧
    Gen.c16LivenessChecksFlag = true ∧ Gen.c16SelectFailureKeepsSession = true ∧ Gen.c16DiscardIdentity = true ∧
    Gen.c16DiscardCloses = true ∧ Gen.c16KindsGuardSecure = true ∧ Gen.c16DeadlineCleared = true ∧
    Gen.c16TlsDialBounded = true := by decide

/-! ### direct first -/

/-- **direct_first**: a usable forward address serves the local connection whatever the state of the
    upstreams (even with the mutex held for ever), and nothing about the upstreams changes: no dial,
    no physical connection, no stored session touched. -/
theorem C16_direct_first (F : Facts) (c : Cfg) (sh : Sh) (known : Bool) (h : directUsable c.fwd = true) :
    connect F c sh known = (sh, .direct, none) := by
  simp [connect, h]

theorem soloRun_done (F : Facts) (c : Cfg) (sh : Sh) (o : Out) (car : Option Nat) (ks : List TK) :
    soloRun F c sh (.done o car) ks = (sh, .done o car) := by
  induction ks with
  | nil => rfl
  | cons k ks ih => cases k <;> simpa [soloRun, tStep, tEnter, tStream, tDiscard] using ih

theorem soloRun_never_direct (F : Facts) (c : Cfg) (ks : List TK) :
    ∀ (sh : Sh) (pc : Pc), (∀ car, pc ≠ .done .direct car) → ∀ car, (soloRun F c sh pc ks).2 ≠ .done .direct car := by
  induction ks with
  | nil => intro sh pc h car; simpa [soloRun] using h car
  | cons k ks ih =>
    intro sh pc h
    simp only [soloRun]
    cases hs : tStep F c sh pc k with
    | none => exact ih sh pc h
    | some r =>
      obtain ⟨sh', pc'⟩ := r
      refine ih sh' pc' ?_
      intro car hpc
      subst hpc
      cases k <;> cases pc <;> simp [tStep, tEnter, tStream, tDiscard] at hs
      all_goals (repeat' split at hs) <;> simp_all

/-- … and only a usable forward address does: otherwise the outcome is never `direct` -/
theorem C16_direct_only_if_usable (F : Facts) (c : Cfg) (sh : Sh) (known : Bool) (h : directUsable c.fwd = false) :
    (connect F c sh known).2.1 ≠ .direct := by
  simp only [connect, h, Bool.false_eq_true, if_false]
  have := soloRun_never_direct F c solo sh (.start known 0) (by intro car; simp)
  generalize soloRun F c sh (.start known 0) solo = r at this
  obtain ⟨sh', pc⟩ := r
  cases pc with
  | done o car =>
    intro ho
    simp at ho
    subst ho
    exact this car rfl
  | _ => simp

/-! ### ordered failover -/

/-- one round of Connect from a state in which a new physical connection is needed -/
theorem round_fresh (F : Facts) (c : Cfg) (sh : Sh) (known : Bool) (a : Nat) (ks : List TK)
    (hd : F.deadline.isSome = true) (hb : sh.blocked = false) (hn : needOpen sh = true) :
    match firstUsable c.mustSecure sh.phase c.ups with
    | some j => ∃ sh' id, soloRun F c sh (.start known a) (.enter :: .stream :: ks)
          = (sh', if known then .done (.up j) (some id) else .done .fail none)
        ∧ sh'.dials = sh.dials ++ List.range (j + 1) ∧ sh'.blocked = false ∧ sh'.stored = some id
        ∧ sh'.conns[id]? = some { up := j, cut := false, closed := false }
    | none => ∃ sh', soloRun F c sh (.start known a) (.enter :: .stream :: ks) = (sh', .done .fail none)
        ∧ sh'.dials = sh.dials ++ List.range c.ups.length ∧ sh'.blocked = false ∧ sh'.stored = none := by
  have h := openLoop_first F c.mustSecure sh.phase hd c.ups 0 sh.conns sh.dials
  cases hfu : firstUsable c.mustSecure sh.phase c.ups with
  | none =>
    rw [hfu] at h
    obtain ⟨conns', heq⟩ := h
    refine ⟨{ sh with conns := conns', dials := sh.dials ++ List.range c.ups.length, stored := none }, ?_, rfl, hb, rfl⟩
    simp [soloRun, tStep, tEnter, tStream, hb, hn, heq, soloRun_done, List.range_eq_range']
  | some j =>
    rw [hfu] at h
    obtain ⟨conns', id, heq, hid⟩ := h
    simp only [Nat.zero_add] at hid
    refine ⟨{ sh with conns := conns', dials := sh.dials ++ List.range (j + 1), stored := some id }, id, ?_, rfl, hb, rfl, hid⟩
    cases known <;>
      simp [soloRun, tStep, tEnter, hb, hn, heq, tStream, physAlive, hid, soloRun_done, List.range_eq_range']

/-- **ordered_failover**: when a new physical connection is needed (none stored, or the stored one was
    closed) the upstreams are dialled in list order up to the first one that completes a handshake
    meeting the security requirement; that one serves the connection and is stored; nothing after it
    is dialled.  With no usable upstream the whole list is dialled once and the connection fails —
    it never blocks. -/
theorem C16_ordered_failover_general (F : Facts) (c : Cfg) (sh : Sh)
    (hd : F.deadline.isSome = true) (hfw : directUsable c.fwd = false) (hb : sh.blocked = false) (hn : needOpen sh = true) :
    match firstUsable c.mustSecure sh.phase c.ups with
    | some j => ∃ sh' id, connect F c sh true = (sh', .up j, some id) ∧ sh'.dials = sh.dials ++ List.range (j + 1)
        ∧ sh'.stored = some id ∧ sh'.conns[id]? = some { up := j, cut := false, closed := false }
    | none => ∃ sh', connect F c sh true = (sh', .fail, none) ∧ sh'.dials = sh.dials ++ List.range c.ups.length
        ∧ sh'.stored = none ∧ sh'.blocked = false := by
  have h := round_fresh F c sh true 0 [.discard, .enter, .stream, .discard] hd hb hn
  cases hfu : firstUsable c.mustSecure sh.phase c.ups with
  | none =>
    rw [hfu] at h
    obtain ⟨sh', heq, h1, h2, h3⟩ := h
    exact ⟨sh', by simp [connect, hfw, solo, heq], h1, h3, h2⟩
  | some j =>
    rw [hfu] at h
    obtain ⟨sh', id, heq, h1, _, h3, h4⟩ := h
    exact ⟨sh', id, by simp [connect, hfw, solo, heq], h1, h3, h4⟩

theorem C16_ordered_failover (c : Cfg) (sh : Sh)
    (hfw : directUsable c.fwd = false) (hb : sh.blocked = false) (hn : needOpen sh = true) :
    match firstUsable c.mustSecure sh.phase c.ups with
    | some j => ∃ sh' id, connect Facts.current c sh true = (sh', .up j, some id) ∧ sh'.dials = sh.dials ++ List.range (j + 1)
        ∧ sh'.stored = some id ∧ sh'.conns[id]? = some { up := j, cut := false, closed := false }
    | none => ∃ sh', connect Facts.current c sh true = (sh', .fail, none) ∧ sh'.dials = sh.dials ++ List.range c.ups.length
        ∧ sh'.stored = none ∧ sh'.blocked = false :=
  C16_ordered_failover_general Facts.current c sh C16_current_facts.2.2.1 hfw hb hn

/-- the chosen upstream is usable and every upstream before it is not (what "first" means) -/
theorem C16_first_usable_is_first (ms : Bool) (phase : Nat) (ups : List (Kind × Kind)) (j : Nat)
    (h : firstUsable ms phase ups = some j) :
    (∃ u, ups[j]? = some u ∧ usable ms (kindAt phase u) = true) ∧
    ∀ k u, k < j → ups[k]? = some u → usable ms (kindAt phase u) = false :=
  firstUsable_spec ms phase ups j h

/-- **reuse**: while the stored session is intact a new local connection is carried by it — no dial,
    nothing changes — and an unknown channel fails without disturbing it. -/
theorem C16_reuse (F : Facts) (c : Cfg) (sh : Sh) (id : Nat) (p : Phys) (known : Bool)
    (hfw : directUsable c.fwd = false) (hb : sh.blocked = false) (hs : sh.stored = some id)
    (hp : sh.conns[id]? = some p) (hcut : p.cut = false) (hcl : p.closed = false) :
    connect F c sh known = (sh, if known then .up p.up else .fail, if known then some id else none) := by
  cases known <;>
    simp [connect, hfw, solo, soloRun, tStep, tEnter, hb, needOpen, hs, closedFlag, hp, hcl, tStream, physAlive, hcut,
      tDiscard]

/-! ### single session -/

theorem needOpen_all_closed {sh : Sh} (hI : Inv sh) (hn : needOpen sh = true) : ∀ p ∈ sh.conns, p.closed = true := by
  intro p hp
  obtain ⟨k, hk⟩ := List.getElem?_of_mem hp
  by_cases hc : p.closed = true
  · exact hc
  · have hc' : p.closed = false := by simpa using hc
    have hs := hI k p hk hc'
    simp [needOpen, hs, closedFlag, hk, hc'] at hn

theorem closeAt_all_closed {sh : Sh} (hI : Inv sh) (id : Nat) (hs : sh.stored = some id) :
    ∀ p ∈ closeAt sh.conns id, p.closed = true := by
  intro p hp
  obtain ⟨k, hk⟩ := List.getElem?_of_mem hp
  rw [closeAt_getElem?] at hk
  cases h0 : sh.conns[k]? with
  | none => simp [h0] at hk
  | some p0 =>
    simp only [h0, Option.map_some, Option.some.injEq] at hk
    by_cases hik : id = k
    · simp [hik] at hk; rw [← hk]
    · simp only [hik, if_false] at hk
      subst hk
      by_cases hc : p0.closed = true
      · exact hc
      · have := hI k p0 h0 (by simpa using hc)
        rw [hs] at this
        simp at this
        exact absurd this hik

theorem inv_of_all_closed {sh : Sh} (h : ∀ p ∈ sh.conns, p.closed = true) : Inv sh := by
  intro k p hk hp
  have := h p (List.mem_of_getElem? hk)
  simp [this] at hp

theorem tStep_inv (F : Facts) (c : Cfg) (hf : F.closesFailed = true) (hr : F.closesRejected = true)
    (hd : F.deadline.isSome = true) (sh : Sh) (pc : Pc) (k : TK) (sh' : Sh) (pc' : Pc)
    (h : tStep F c sh pc k = some (sh', pc')) (hI : Inv sh) : Inv sh' ∧ (sh.blocked = false → sh'.blocked = false) := by
  cases k with
  | enter =>
    cases pc with
    | start known a =>
      simp only [tStep, tEnter] at h
      split at h
      · simp at h
      · split at h
        · rename_i hn
          have hall := needOpen_all_closed hI hn
          have := openLoop_inv F c.mustSecure sh.phase hf hr hd c.ups 0 sh.conns sh.dials hall
          generalize openLoop F c.mustSecure sh.phase c.ups 0 sh.conns sh.dials = r at this h
          obtain ⟨conns', dials', res⟩ := r
          cases res with
          | opened id =>
            simp only [Option.some.injEq, Prod.mk.injEq] at h
            obtain ⟨rfl, _⟩ := h
            refine ⟨?_, fun hb => hb⟩
            intro k p hk hp
            simp only at hk ⊢
            rw [this k p hk hp]
          | exhausted =>
            simp only [Option.some.injEq, Prod.mk.injEq] at h
            obtain ⟨rfl, _⟩ := h
            exact ⟨inv_of_all_closed this, fun hb => hb⟩
          | stuck => exact absurd this id
        · split at h
          · simp only [Option.some.injEq, Prod.mk.injEq] at h
            obtain ⟨rfl, _⟩ := h
            exact ⟨hI, fun hb => hb⟩
          · simp at h
    | _ => simp [tStep, tEnter] at h
  | stream =>
    cases pc with
    | «have» known a id =>
      simp only [tStep, tStream] at h
      have : sh' = sh := by
        repeat' split at h
        all_goals simp_all
      subst this
      exact ⟨hI, fun hb => hb⟩
    | _ => simp [tStep, tStream] at h
  | discard =>
    cases pc with
    | lost known a id =>
      simp only [tStep, tDiscard] at h
      split at h
      · simp at h
      · have key : Inv (if sh.stored = some id then { sh with conns := closeAt sh.conns id, stored := none } else sh)
            ∧ (sh.blocked = false → (if sh.stored = some id then { sh with conns := closeAt sh.conns id, stored := none } else sh).blocked = false) := by
          by_cases hs : sh.stored = some id
          · simp only [hs, if_true]
            exact ⟨inv_of_all_closed (closeAt_all_closed hI id hs), fun hb => hb⟩
          · simp only [hs, if_false]
            exact ⟨hI, fun hb => hb⟩
        split at h <;>
        · simp only [Option.some.injEq, Prod.mk.injEq] at h
          obtain ⟨rfl, _⟩ := h
          exact key
    | _ => simp [tStep, tDiscard] at h

theorem map_cut_closed (conns : List Phys) (k : Nat) (p : Phys)
    (h : (conns.map (fun p => { p with cut := true }))[k]? = some p) : ∃ p0, conns[k]? = some p0 ∧ p0.closed = p.closed := by
  rw [List.getElem?_map] at h
  cases h0 : conns[k]? with
  | none => simp [h0] at h
  | some p0 => simp [h0] at h; exact ⟨p0, rfl, by rw [← h]⟩

theorem envCut_inv {sh : Sh} (hI : Inv sh) : Inv (envCut sh) := by
  intro k p hk hp
  obtain ⟨p0, h0, hc⟩ := map_cut_closed sh.conns k p hk
  exact hI k p0 h0 (by rw [hc]; exact hp)

theorem envClose_inv {sh : Sh} (hI : Inv sh) : Inv (envClose sh) := by
  unfold envClose
  split
  · exact hI
  · split
    · rename_i id hs
      exact inv_of_all_closed (closeAt_all_closed hI id hs)
    · exact hI

theorem step_inv (F : Facts) (c : Cfg) (hf : F.closesFailed = true) (hr : F.closesRejected = true)
    (hd : F.deadline.isSome = true) (s s' : St) (a : Act) (h : step F c s a = some s')
    (hI : Inv s.sh ∧ s.sh.blocked = false) : Inv s'.sh ∧ s'.sh.blocked = false := by
  cases a with
  | spawn known =>
    simp only [step] at h
    split at h <;> (simp at h; subst h; exact hI)
  | thread t k =>
    simp only [step] at h
    cases hpc : s.pcs[t]? with
    | none => simp [hpc] at h
    | some pc =>
      simp only [hpc, Option.map_eq_some_iff] at h
      obtain ⟨⟨sh', pc'⟩, hstep, rfl⟩ := h
      have := tStep_inv F c hf hr hd s.sh pc k sh' pc' hstep hI.1
      exact ⟨this.1, this.2 hI.2⟩
  | cut => simp [step] at h; subst h; exact ⟨envCut_inv hI.1, hI.2⟩
  | restart => simp [step] at h; subst h; exact ⟨envCut_inv hI.1, hI.2⟩
  | close =>
    simp [step] at h; subst h
    refine ⟨envClose_inv hI.1, ?_⟩
    simp only [envClose, hI.2, Bool.false_eq_true, if_false]
    split <;> simp [hI.2]

theorem run_inv (F : Facts) (c : Cfg) (hf : F.closesFailed = true) (hr : F.closesRejected = true)
    (hd : F.deadline.isSome = true) (acts : List Act) :
    ∀ s, (Inv s.sh ∧ s.sh.blocked = false) → Inv (run F c s acts).sh ∧ (run F c s acts).sh.blocked = false := by
  induction acts with
  | nil => intro s h; exact h
  | cons a as ih =>
    intro s h
    simp only [run]
    cases hs : step F c s a with
    | none => exact ih s h
    | some s' => exact ih s' (step_inv F c hf hr hd s s' a hs h)

theorem init_inv : Inv init.sh ∧ init.sh.blocked = false := by
  refine ⟨?_, rfl⟩
  intro k p hk
  simp [init, Sh.init] at hk

/-- **single_session** (all histories, all interleavings of any number of concurrent Connects with
    cuts, restarts and Shutdowns): a physical connection the client has not closed is the stored one;
    so the client never holds more than one, and every logical connection that is still alive is
    carried by that one. -/
theorem C16_single_session (c : Cfg) (acts : List Act) :
    let s := run Facts.current c init acts
    held s.sh ≤ 1 ∧
    (∀ (k : Nat) (p : Phys), s.sh.conns[k]? = some p → p.closed = false → s.sh.stored = some k) ∧
    (∀ (t : Nat) (o : Out) (id : Nat), s.pcs[t]? = some (Pc.done o (some id)) → physAlive s.sh.conns id = true → s.sh.stored = some id) := by
  intro s
  obtain ⟨_, _, hd, hf, hr⟩ := C16_current_facts
  have hI : Inv s.sh := (run_inv Facts.current c hf hr hd acts init init_inv).1
  refine ⟨?_, hI, ?_⟩
  · unfold held
    cases hs : s.sh.stored with
    | none =>
      refine filter_length_le_one _ s.sh.conns 0 ?_
      intro k p hk hp
      have := hI k p hk (by simpa using hp)
      rw [hs] at this
      simp at this
    | some id =>
      refine filter_length_le_one _ s.sh.conns id ?_
      intro k p hk hp
      have := hI k p hk (by simpa using hp)
      rw [hs] at this
      simp at this
      exact this.symm
  · intro t o id _ halive
    unfold physAlive at halive
    cases hp : s.sh.conns[id]? with
    | none => simp [hp] at halive
    | some p =>
      simp [hp] at halive
      exact hI id p hp halive.2

/-- **never_blocked**: no Connect ever stays in its critical section for ever -/
theorem C16_never_blocked (c : Cfg) (acts : List Act) : (run Facts.current c init acts).sh.blocked = false := by
  obtain ⟨_, _, hd, hf, hr⟩ := C16_current_facts
  exact (run_inv Facts.current c hf hr hd acts init init_inv).2

/-! ### reconnect after loss -/

/-- when every physical connection has lost its carrier, whatever is stored: the next local
    connection is served by the first usable upstream over a fresh physical connection, and fails
    only if no upstream is usable -/
theorem reconnect_general (F : Facts) (c : Cfg) (sh1 : Sh)
    (hl : F.discardOnLoss = true) (hrt : F.retry = true) (hd : F.deadline.isSome = true)
    (hfw : directUsable c.fwd = false) (hb1 : sh1.blocked = false)
    (hcut : ∀ (k : Nat) (p : Phys), sh1.conns[k]? = some p → p.cut = true) :
    match firstUsable c.mustSecure sh1.phase c.ups with
    | some j => ∃ sh' id, connect F c sh1 true = (sh', .up j, some id) ∧ sh'.stored = some id
        ∧ sh'.conns[id]? = some { up := j, cut := false, closed := false }
        ∧ sh'.dials = sh1.dials ++ List.range (j + 1)
    | none => ∃ sh', connect F c sh1 true = (sh', .fail, none) ∧ sh'.dials = sh1.dials ++ List.range c.ups.length := by
  by_cases hn : needOpen sh1 = true
  · -- nothing usable is stored: one fresh round
    have h := round_fresh F c sh1 true 0 [.discard, .enter, .stream, .discard] hd hb1 hn
    cases hfu : firstUsable c.mustSecure sh1.phase c.ups with
    | none =>
      rw [hfu] at h
      obtain ⟨sh', heq, h1, _, _⟩ := h
      exact ⟨sh', by simp [connect, hfw, solo, heq], h1⟩
    | some j =>
      rw [hfu] at h
      obtain ⟨sh', id, heq, h1, _, h3, h4⟩ := h
      exact ⟨sh', id, by simp [connect, hfw, solo, heq], h3, h4, h1⟩
  · -- the stored session looks alive to the liveness test, but its carrier is cut
    have hn' : needOpen sh1 = false := by simpa using hn
    cases hs : sh1.stored with
    | none => simp [needOpen, hs] at hn'
    | some id =>
      cases hp : sh1.conns[id]? with
      | none => simp [needOpen, hs, closedFlag, hp] at hn'
      | some p =>
        have hpc : p.cut = true := hcut id p hp
        have hpcl : p.closed = false := by simpa [needOpen, hs, closedFlag, hp] using hn'
        -- first round: enter (reuse), stream (fails), discard; then a fresh round
        have hfirst : soloRun F c sh1 (.start true 0) solo
            = soloRun F c { sh1 with conns := closeAt sh1.conns id, stored := none } (.start true 1) [.enter, .stream, .discard] := by
          simp [solo, soloRun, tStep, tEnter, hb1, hn', hs, tStream, physAlive, hp, hpc, hl, tDiscard, hrt]
        have h := round_fresh F c { sh1 with conns := closeAt sh1.conns id, stored := none } true 1 [.discard] hd hb1
          (by simp [needOpen])
        simp only at h
        cases hfu : firstUsable c.mustSecure sh1.phase c.ups with
        | none =>
          rw [hfu] at h
          obtain ⟨sh', heq, h1, _, _⟩ := h
          exact ⟨sh', by simp [connect, hfw, hfirst, heq], h1⟩
        | some j =>
          rw [hfu] at h
          obtain ⟨sh', id', heq, h1, _, h3, h4⟩ := h
          exact ⟨sh', id', by simp [connect, hfw, hfirst, heq], h3, h4, h1⟩

theorem all_cut_after_loss (sh : Sh) (restart : Bool) :
    ∀ (k : Nat) (p : Phys), (if restart then envRestart sh else envCut sh).conns[k]? = some p → p.cut = true := by
  intro k p hk
  have hk' : (sh.conns.map (fun p => { p with cut := true }))[k]? = some p := by
    cases restart <;> simpa [envRestart, envCut] using hk
  rw [List.getElem?_map] at hk'
  cases h0 : sh.conns[k]? with
  | none => simp [h0] at hk'
  | some p0 => simp [h0] at hk'; rw [← hk']

/-- **reconnect_after_loss**: after a carrier cut or a server restart — in any state, with any
    session stored — the next local connection succeeds iff some upstream is usable, and is then
    served by the first usable one over a fresh physical connection. -/
theorem C16_reconnect_after_loss (c : Cfg) (sh : Sh) (restart : Bool)
    (hfw : directUsable c.fwd = false) (hb : sh.blocked = false) :
    let sh1 := if restart then envRestart sh else envCut sh
    ((connect Facts.current c sh1 true).2.1 ≠ .fail ↔ ∃ u ∈ c.ups, usable c.mustSecure (kindAt sh1.phase u) = true) ∧
    (∀ j, firstUsable c.mustSecure sh1.phase c.ups = some j → (connect Facts.current c sh1 true).2.1 = .up j) := by
  intro sh1
  obtain ⟨hl, hrt, hd, _, _⟩ := C16_current_facts
  have hb1 : sh1.blocked = false := by
    simp only [sh1]; cases restart <;> simpa [envRestart, envCut] using hb
  have h := reconnect_general Facts.current c sh1 hl hrt hd hfw hb1 (all_cut_after_loss sh restart)
  rw [← firstUsable_isSome_iff]
  cases hfu : firstUsable c.mustSecure sh1.phase c.ups with
  | none =>
    rw [hfu] at h
    obtain ⟨sh', heq, _⟩ := h
    rw [heq]
    simp
  | some j =>
    rw [hfu] at h
    obtain ⟨sh', id, heq, _⟩ := h
    rw [heq]
    simp

/-- **witness_stale_session** (the tree before the repair): connect; cut; connect — the second local
    connection fails although the only upstream is fine, and so does every later one: the dead
    session stays stored and is never replaced (in the code: until the multiplexer's keep-alive
    closes it). -/
def afterConnects (F : Facts) (c : Cfg) : Nat → Sh → Sh
  | 0, sh => sh
  | n + 1, sh => afterConnects F c n (connect F c sh true).1

theorem C16_witness_stale_session :
    let c : Cfg := Cfg.simple false .absent [.okPlain]
    let s1 := envCut (connect Facts.before c Sh.init true).1
    (connect Facts.before c Sh.init true).2.1 = .up 0 ∧
    ∀ n, (connect Facts.before c (afterConnects Facts.before c n s1) true).2.1 = .fail := by
  intro c s1
  refine ⟨by decide, ?_⟩
  have hstep : connect Facts.before c s1 true = (s1, .fail, none) := by decide
  have hfix : ∀ n, afterConnects Facts.before c n s1 = s1 := by
    intro n
    induction n with
    | zero => rfl
    | succ n ih => simp only [afterConnects, hstep]; exact ih
  intro n
  rw [hfix n, hstep]

/-! ### bounded abandon -/

/-- **bounded_abandon**: with the handshake deadline every dial attempt — refused, silent, answering
    garbage, or completing a handshake — is over within dialTimeout + handshakeDeadline, so a failing
    upstream is abandoned within that time and the critical section of Connect within
    |upstreams| · (dialTimeout + handshakeDeadline). -/
theorem C16_bounded_abandon (dialT : Nat) (k : Kind) :
    ∃ d b, Facts.current.deadline = some d ∧ attemptBound Facts.current dialT k = some b ∧ b ≤ dialT + d := by
  obtain ⟨d, hd⟩ := Option.isSome_iff_exists.mp C16_current_facts.2.2.1
  cases k <;> simp [attemptBound, hd]

/-- the deadline calls of client.go and the call chain of the handshake phases are the ones the model was
    written against: one deadline armed before the first request, cleared only in the deferred closure of
    `NewClientConnection` on success — after `upgrade`, hence after `startTls` / `tls.Conn.Handshake`, returned.
    A deadline call that appears, disappears or moves names itself in this obligation. -/
theorem C16_deadline_sites :
    Gen.c16DeadlineSites = expectedDeadlineSites ∧ Gen.c16HandshakeChain = expectedHandshakeChain ∧
    deadlineSpansHandshake Gen.c16DeadlineSites Gen.c16HandshakeChain = true ∧ Gen.c16WsDialBounded = true := by
  decide

/-- **bounded_abandon at every stall point**: an upstream that answers correctly up to a later point of the
    handshake — the first response, the 101, the beginning of a TLS record — and then goes silent is abandoned
    within dialTimeout + handshakeDeadline just like one that never answers; in the policy model each of them
    is the outcome `silent` of that upstream (`kindOfChar`), so fail-over continues (`C16_ordered_failover`)
    and no Connect blocks (`C16_never_blocked`). -/
theorem C16_bounded_abandon_stall (dialT : Nat) (p : StallPt) :
    ∃ d b, Facts.current.deadline = some d ∧
      stallBound Facts.current (deadlineSpansHandshake Gen.c16DeadlineSites Gen.c16HandshakeChain) dialT p = some b ∧
      b ≤ dialT + d := by
  obtain ⟨d, hd⟩ := Option.isSome_iff_exists.mp C16_current_facts.2.2.1
  have hs := C16_deadline_sites.2.2.1
  cases p <;> simp [stallBound, hd, hs]

theorem C16_stall_kinds_are_silent :
    kindOfChar 'A' = some .silent ∧ kindOfChar 'L' = some .silent ∧ kindOfChar 'K' = some .silent ∧
    kindOfChar 'S' = some .silent := by decide

/-- **witness_starttls_stall_unbounded**: were the deadline taken off once the 101 has been read (a further
    clearing call inside `upgrade`), an upstream that goes silent inside the StartTLS handshake would never be
    abandoned — while one that is silent from the start still would. -/
theorem C16_witness_starttls_stall_unbounded :
    let sites := expectedDeadlineSites ++ [("ClientConnection.upgrade", "SetDeadline", "time.Time{}", "after request.Write,response.Read")]
    deadlineSpansHandshake sites expectedHandshakeChain = false ∧
    stallBound Facts.current false 0 .startTls = none ∧ stallBound Facts.current false 0 .tlsRecord = none ∧
    (stallBound Facts.current false 0 .start).isSome = true := by
  decide

/-- **witness_silent_blocks** (the tree before the repair): [silent, ok] — the first local connection
    never returns, the second upstream is never dialled, the mutex is never released: every later
    local connection blocks as well, and Shutdown does nothing. -/
theorem C16_witness_silent_blocks :
    let c : Cfg := Cfg.simple false .absent [.silent, .okPlain]
    let r := connect Facts.before c Sh.init true
    r.2.1 = .blocked ∧ r.1.dials = [0] ∧ r.1.blocked = true ∧ attemptBound Facts.before 0 .silent = none ∧
    (connect Facts.before c r.1 true).2.1 = .blocked ∧ (connect Facts.before c (envClose r.1) true).2.1 = .blocked := by
  decide

/-- once the mutex is held for ever, every local connection that needs an upstream blocks (any facts) -/
theorem blocked_forever (F : Facts) (c : Cfg) (sh : Sh) (known : Bool) (hfw : directUsable c.fwd = false)
    (hb : sh.blocked = true) : connect F c sh known = (sh, .blocked, none) := by
  simp [connect, hfw, solo, soloRun, tStep, tEnter, hb, tStream, tDiscard]

/-- **witness_leak** (the tree before the repair): security required, [plain, secure] — every round of
    `open` leaves the rejected plain connection open next to the one that is used. -/
theorem C16_witness_rejected_leak :
    let c : Cfg := Cfg.simple true .absent [.okPlain, .okSecure]
    held (connect Facts.before c Sh.init true).1 = 2 := by decide

/-! ### verifying client: upstream lists with different names, kinds and certificates (`poltls`) -/

/-- **usable is a function of the upstream alone**: under required security and verification an upstream completes a
    handshake that meets the requirement iff it is live and its certificate carries the name it is addressed by —
    whatever was dialled before it. -/
theorem C16_usable_intrinsic (d : UpDesc) (live : Bool) : usable true (d.kind live) = d.usable live := by
  unfold UpDesc.kind UpDesc.usable
  cases live <;> cases h : certCovers d.cert d.byName <;> simp [usable]
  by_cases hc : d.carrier = "starttls" <;> simp [hc]

theorem firstUsable_descScripts (lost : Option Nat) (after : Bool) (ds : List UpDesc) (i : Nat) :
    firstUsable true (if after then 1 else 0) (descScripts lost ds i) = firstDesc lost after ds i := by
  induction ds generalizing i with
  | nil => simp [descScripts, firstUsable, firstDesc]
  | cons d ds ih =>
    simp only [descScripts, firstUsable, firstDesc, ih]
    cases after <;> simp [kindAt, C16_usable_intrinsic]

theorem firstDesc_spec (ds : List UpDesc) (i j : Nat) (h : firstDesc none false ds i = some j) :
    (∃ d, ds[j]? = some d ∧ d.usable d.live = true) ∧ ∀ k d, k < j → ds[k]? = some d → d.usable d.live = false := by
  induction ds generalizing i j with
  | nil => simp [firstDesc] at h
  | cons d ds ih =>
    simp only [firstDesc, Bool.false_and, Bool.not_false, Bool.and_true] at h
    by_cases hu : d.usable d.live = true
    · simp only [hu, if_true, Option.some.injEq] at h
      subst h
      exact ⟨⟨d, by simp, hu⟩, by intro k d' hk; omega⟩
    · simp only [hu, Bool.false_eq_true, if_false, Option.map_eq_some_iff] at h
      obtain ⟨j', hj', rfl⟩ := h
      obtain ⟨⟨d0, h0, h1⟩, h2⟩ := ih (i + 1) j' hj'
      refine ⟨⟨d0, by simpa using h0, h1⟩, ?_⟩
      intro k d' hk hd
      cases k with
      | zero => simp at hd; subst hd; simpa using hu
      | succ k => exact h2 k d' (by omega) (by simpa using hd)

/-- **ordered fail-over on these lists**: the first upstream in list order that is live and verifiable under its own
    name serves the local connection; with none, the connection fails. -/
theorem C16_verified_failover (ds : List UpDesc) :
    match firstDesc none false ds 0 with
    | some j => (connect Facts.current (descCfg ds none) Sh.init true).2.1 = .up j
    | none => (connect Facts.current (descCfg ds none) Sh.init true).2.1 = .fail := by
  have h := C16_ordered_failover (descCfg ds none) Sh.init rfl rfl rfl
  have e : firstUsable (descCfg ds none).mustSecure Sh.init.phase (descCfg ds none).ups = firstDesc none false ds 0 :=
    firstUsable_descScripts none false ds 0
  rw [e] at h
  cases hf : firstDesc none false ds 0 with
  | none => rw [hf] at h; obtain ⟨sh', heq, _⟩ := h; simp [heq]
  | some j => rw [hf] at h; obtain ⟨sh', id, heq, _⟩ := h; simp [heq]

/-- **the reversed list gives the mirrored answer**: it is served by the LAST upstream of the original list that is live
    and verifiable under its own name (position `length - 1 - k`), every later one being unusable. -/
theorem C16_verified_mirror (ds : List UpDesc) (k : Nat) (h : firstDesc none false ds.reverse 0 = some k) :
    (connect Facts.current (descCfg ds.reverse none) Sh.init true).2.1 = .up k ∧
    ∃ d, ds[ds.length - 1 - k]? = some d ∧ d.usable d.live = true ∧
      ∀ m d', ds.length - 1 - k < m → ds[m]? = some d' → d'.usable d'.live = false := by
  refine ⟨by have := C16_verified_failover ds.reverse; rw [h] at this; exact this, ?_⟩
  obtain ⟨⟨d, hd, hu⟩, hbefore⟩ := firstDesc_spec ds.reverse 0 k h
  have hk : k < ds.length := by
    have := (List.getElem?_eq_some_iff.mp hd).1
    simpa using this
  refine ⟨d, ?_, hu, ?_⟩
  · rw [List.getElem?_reverse hk] at hd; exact hd
  · intro m d' hm hd'
    have hml : m < ds.length := (List.getElem?_eq_some_iff.mp hd').1
    have hr : ds.reverse[ds.length - 1 - m]? = some d' := by
      rw [List.getElem?_reverse (by omega)]
      have : ds.length - 1 - (ds.length - 1 - m) = m := by omega
      rw [this]; exact hd'
    exact hbefore (ds.length - 1 - m) d' (by omega) hr

/-- **reconnect on these lists**: after the session is lost — the serving upstream gone for good (`lost`, restart) or
    only its carrier cut — the next local connection is served by the first upstream in list order that is then live
    and verifiable under its own name, in any state the first connections left behind. -/
theorem C16_verified_reconnect (ds : List UpDesc) (lost : Option Nat) (sh : Sh) (hb : sh.blocked = false) (j : Nat) :
    (firstDesc lost true ds 0 = some j →
      (connect Facts.current (descCfg ds lost) (envRestart sh) true).2.1 = .up j) ∧
    (sh.phase = 0 → firstDesc lost false ds 0 = some j →
      (connect Facts.current (descCfg ds lost) (envCut sh) true).2.1 = .up j) := by
  constructor
  · intro h
    have := (C16_reconnect_after_loss (descCfg ds lost) sh true rfl hb).2 j
    simp only [if_true] at this
    apply this
    have e := firstUsable_descScripts lost true ds 0
    simp only [if_true] at e
    simpa [descCfg, envRestart, envCut] using e.trans h
  · intro hp h
    have := (C16_reconnect_after_loss (descCfg ds lost) sh false rfl hb).2 j
    simp only [Bool.false_eq_true, if_false] at this
    apply this
    have e := firstUsable_descScripts lost false ds 0
    simp only [Bool.false_eq_true, if_false] at e
    simpa [descCfg, envCut, hp] using e.trans h

/-! ### non-vacuity -/

-- stall points: [stalls inside StartTLS, StartTLS server] is served by the second upstream; bound is concrete
example : ((kindOfChar 'L').bind fun l => (kindOfChar 'Q').map fun q =>
    (connect Facts.current (Cfg.simple false .absent [l, q]) Sh.init true).2.1) = some (.up 1) := by decide
example : (stallBound Facts.current true 1000 .startTls).isSome = true := by decide
-- failover past a refused, a silent and a garbage-answering upstream to the fourth one
example : (connect Facts.current (Cfg.simple false .absent [.refused, .silent, .hsError, .okPlain]) Sh.init true).2.1 = .up 3 := by decide
-- an insecure upstream is passed over when security is required
example : (connect Facts.current (Cfg.simple true .absent [.okPlain, .okSecure]) Sh.init true).2.1 = .up 1 := by decide
-- connect; cut; connect: served again, two dials in all, one connection held
example : let c : Cfg := Cfg.simple false .absent [.okPlain]
    let s := (connect Facts.current c (envCut (connect Facts.current c Sh.init true).1) true)
    s.2.1 = .up 0 ∧ s.1.dials = [0, 0] ∧ held s.1 = 1 := by decide
-- a forward address that is usable wins over a working upstream
example : (connect Facts.current (Cfg.simple false .ok [.okPlain]) Sh.init true).2.1 = .direct := by decide
-- an interleaving of two concurrent Connects after a cut: both are served, one physical connection
example : let c : Cfg := Cfg.simple false .absent [.okPlain]
    let s := run Facts.current c init [.spawn true, .thread 0 .enter, .thread 0 .stream, .cut, .spawn true, .spawn true,
      .thread 1 .enter, .thread 2 .enter, .thread 1 .stream, .thread 2 .stream, .thread 2 .discard, .thread 1 .discard,
      .thread 2 .enter, .thread 1 .enter, .thread 1 .stream, .thread 2 .stream]
    s.pcs = [Pc.done (.up 0) (some 0), Pc.done (.up 0) (some 1), Pc.done (.up 0) (some 1)] ∧ held s.sh = 1 ∧ s.sh.dials = [0, 0] := by decide

-- verifying client: dead 127.0.0.1 first, healthy `localhost` second — served by the second; reversed: by the first
example : let ds : List UpDesc := [⟨"tcptls", false, .both, false⟩, ⟨"tcptls", true, .nameonly, true⟩]
    (connect Facts.current (descCfg ds none) Sh.init true).2.1 = .up 1 ∧
    (connect Facts.current (descCfg ds.reverse none) Sh.init true).2.1 = .up 0 := by decide
-- a live upstream whose certificate does not carry the name it is addressed by is passed over
example : let ds : List UpDesc := [⟨"wss", true, .iponly, true⟩, ⟨"starttls", false, .iponly, true⟩]
    (connect Facts.current (descCfg ds none) Sh.init true).2.1 = .up 1 := by decide
-- StartTLS upstream serves, goes away; the TLS socket with the other name takes over
example : let ds : List UpDesc := [⟨"starttls", false, .both, true⟩, ⟨"tcptls", true, .nameonly, true⟩]
    let c := descCfg ds (some 0)
    (connect Facts.current c (envRestart (connect Facts.current c Sh.init true).1) true).2.1 = .up 1 := by decide

/-- both ends run the multiplexer with the library's default keep-alive (the only configuration field the code assigns
    is the frame size; regenerated): the two ends therefore agree on how often a keep-alive frame is due and how long
    silence is tolerated, and an idle session on a healthy carrier is not taken for a lost one. -/
theorem C16_mux_timing_is_default_on_both_ends :
    Gen.smuxConfigAssignedServer = ["MaxFrameSize"] ∧ Gen.smuxConfigAssignedClient = ["MaxFrameSize"] := by decide

/-- **locks_not_reentrant**: the policy model's steps (Connect's critical section, discard, Shutdown) are atomic; in
    the code no function holding Upstreams.mutex reaches code that locks it again (regenerated). -/
theorem C16_locks_not_reentrant : Gen.reentrantLockPaths = [] := by decide

end SA.Policy

#print axioms SA.Policy.C16_usable_intrinsic
#print axioms SA.Policy.C16_verified_failover
#print axioms SA.Policy.C16_verified_mirror
#print axioms SA.Policy.C16_verified_reconnect
#print axioms SA.Policy.C16_current_facts
#print axioms SA.Policy.C16_shape
#print axioms SA.Policy.C16_direct_first
#print axioms SA.Policy.C16_direct_only_if_usable
#print axioms SA.Policy.C16_ordered_failover_general
#print axioms SA.Policy.C16_ordered_failover
#print axioms SA.Policy.C16_first_usable_is_first
#print axioms SA.Policy.C16_reuse
#print axioms SA.Policy.C16_single_session
#print axioms SA.Policy.C16_never_blocked
#print axioms SA.Policy.C16_reconnect_after_loss
#print axioms SA.Policy.C16_witness_stale_session
#print axioms SA.Policy.C16_bounded_abandon
#print axioms SA.Policy.C16_witness_silent_blocks
#print axioms SA.Policy.C16_witness_rejected_leak
#print axioms SA.Policy.C16_deadline_sites
#print axioms SA.Policy.C16_bounded_abandon_stall
#print axioms SA.Policy.C16_stall_kinds_are_silent
#print axioms SA.Policy.C16_witness_starttls_stall_unbounded
#print axioms SA.Policy.C16_locks_not_reentrant

namespace SA.PkgState
/-- **no_hidden_process_state**: the models of this property are functions of their arguments and of the objects they are
    handed; the packages they model keep no package-level variables besides these (regenerated inventory: error
    sentinels, tables, compiled patterns, the two session time-outs).  A new package-level variable — a counter, a cache, a
    scratch buffer, a shared map, a registry — would make later calls depend on earlier ones, or concurrent calls on each
    other, outside anything a per-call comparison of model and code can see. -/
theorem C16_no_hidden_process_state :
    Gen.pkgVarNames_upstream = [] := by decide
end SA.PkgState

#print axioms SA.PkgState.C16_no_hidden_process_state
#print axioms SA.Policy.C16_mux_timing_is_default_on_both_ends

namespace SA.KeepAlive
/-- **idle_session_survives**: whenever the peer's keep-alive interval is positive and not longer than this end's
    time-out, EVERY time-out period of an idle session contains a frame from the peer, so the end never closes it — for all
    intervals, time-outs and periods.  Both ends run the library's default timing (theorem
    `C16_mux_timing_is_default_on_both_ends`: the code assigns only the frame size), and the library refuses a
    configuration whose interval exceeds its time-out, so the hypothesis holds in both directions. -/
theorem C16_idle_session_survives (I T : Nat) (hI : 0 < I) (hIT : I ≤ T) (n : Nat) : periodHasFrame I T n = true := by
  unfold periodHasFrame
  have h1 := Nat.div_add_mod ((n + 1) * T) I
  have h2 := Nat.mod_lt ((n + 1) * T) hI
  have h3 : (n + 1) * T = n * T + T := Nat.succ_mul n T
  have h4 : (n + 1) * T / I * I = I * ((n + 1) * T / I) := Nat.mul_comm _ _
  simp only [decide_eq_true_eq]
  omega

theorem C16_idle_session_survives_any_time (I T : Nat) (hI : 0 < I) (hIT : I ≤ T) (periods : Nat) :
    survives I T periods = true := by
  unfold survives
  simp only [List.all_eq_true]
  intro n _
  exact C16_idle_session_survives I T hI hIT n

/-- witness: an end that tolerates 4 s of silence against a peer that sends every 10 s closes an idle, healthy session in
    its very first period; with the library's 10 s / 30 s on both ends it does not -/
theorem C16_witness_short_timeout : periodHasFrame 10 4 0 = false ∧ survives 10 30 1000 = true := by
  refine ⟨by decide, C16_idle_session_survives_any_time 10 30 (by omega) (by omega) 1000⟩
end SA.KeepAlive

#print axioms SA.KeepAlive.C16_idle_session_survives
#print axioms SA.KeepAlive.C16_idle_session_survives_any_time
#print axioms SA.KeepAlive.C16_witness_short_timeout

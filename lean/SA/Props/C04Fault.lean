/-
  C04, start-up faults: "an endpoint configured for TLS never completes a plaintext session" when its certificate
  configuration cannot be loaded.  Model SA.Model.CertFault, facts SA.Gen.C04Startup.
-/
import SA.Model.CertFault
namespace SA.Props.C04Fault
open SA.CertFault

/-- For EVERY shape of Startup that lets the load error end Startup (fact class returns / deferred), every listener-call
    list, every client, every outcome of the load and both require-security settings: the cell satisfies the property. -/
theorem C04_fault_safe_of_error_returned (sh : Shape) (clientTls : Bool) (l : Load) (must : Bool)
    (h : sh.handled = true) : safe must (cellWith sh clientTls l must) = true := by
  cases l
  · cases clientTls <;> cases must <;> simp [cellWith, served, safe]
  · simp only [cellWith]; split <;> simp [safe]
  · simp [cellWith, h, safe]

/-- regenerated: in the Startup of all three server kinds that can be configured for TLS, every GetTlsConfig error ends
    Startup -/
theorem C04_startup_load_errors_end_startup :
    (shapeOf "socket").handled = true ∧ (shapeOf "stdio").handled = true ∧ (shapeOf "http").handled = true := by
  decide

/-- the code as it is: every driven cell (client spelling x fault x require-security) satisfies the property -/
theorem C04_tls_endpoint_never_plaintext_on_load_fault (client fault : String) (must : Bool) (c : Cell)
    (h : cell client fault must = some c) : safe must c = true := by
  unfold cell at h
  split at h
  · rename_i kind ctls l hc _
    cases h
    have hk : kind = "socket" ∨ kind = "stdio" ∨ kind = "http" := by
      unfold clientOf at hc
      split at hc <;> simp at hc <;> simp [← hc.1]
    rcases hk with rfl | rfl | rfl
    · exact C04_fault_safe_of_error_returned _ _ _ _ C04_startup_load_errors_end_startup.1
    · exact C04_fault_safe_of_error_returned _ _ _ _ C04_startup_load_errors_end_startup.2.1
    · exact C04_fault_safe_of_error_returned _ _ _ _ C04_startup_load_errors_end_startup.2.2
  · cases h

/-- kernel-checked counter-example: a Startup that binds first and loses the load error in a variable of the if statement
    (`if cfg, err := GetTlsConfig(); err != nil { err = ... }`) serves a plain client in clear -/
theorem C04_fault_witness_error_lost :
    cellWith ⟨["shadowed"], ["net.Listen", "tls.NewListener"]⟩ false .err false = .est false false true true false ∧
    safe false (cellWith ⟨["shadowed"], ["net.Listen", "tls.NewListener"]⟩ false .err false) = false := by
  decide

/-- non-vacuity: the handled shape exists in the code, cells exist, a served cell exists -/
example : (shapeOf "socket").handled = true := C04_startup_load_errors_end_startup.1
example : cell "tcp" "nofile" false = some .noserver := by decide
example : cell "tcp+tls" "ok" true = some (.est false true true false true) := by decide

end SA.Props.C04Fault

#print axioms SA.Props.C04Fault.C04_fault_safe_of_error_returned
#print axioms SA.Props.C04Fault.C04_startup_load_errors_end_startup
#print axioms SA.Props.C04Fault.C04_tls_endpoint_never_plaintext_on_load_fault
#print axioms SA.Props.C04Fault.C04_fault_witness_error_lost

/-
  C17 — Orderly close delivers all data, then end-of-stream (on the PipeData process model; partial:
  the transports' own "close after write delivers the data, then EOF" is their contract, sampled e2e).

  Setting: one side (modelled as `down`; the model is symmetric in the two ends) writes the bytes
  `B` in any chunking and then closes; the other side stays silent and open.  Claim: in every
  interleaving of the two copiers, main, the caller and the moment the close becomes visible, once
  the pipe has ended the other side has been handed exactly `B` and has then been closed — the close
  issued by PipeData is ordered after the last write of the data, also when it races with it.
-/
import SA.Props.C14
import SA.Proofs.Socks
import SA.Proofs.ReadAhead
import SA.Gen.C17ReadAhead
import SA.Gen.PkgVars
namespace SA.Pipe

structure DInv (B : List Nat) (s : St) : Prop where
  uFin : s.uFin = false
  uGone : s.uGone = false
  uIn : s.uIn = []
  pre : s.mainDone = false →
    s.dClosed = false ∧ s.uClosed = false ∧ s.cu = .copying ∧ s.chU = 0 ∧
    (s.cd = .copying → s.uOut ++ s.dIn.flatten = B) ∧
    (∀ ch, s.cd = .writing ch → s.uOut ++ ch ++ s.dIn.flatten = B) ∧
    ((∀ ch, s.cd ≠ .writing ch) → s.cd ≠ .copying → s.uOut = B)
  post : s.mainDone = true → s.uOut = B ∧ s.uClosed = true ∧ s.cd = .done

theorem dinv_init (dIn : List (List Nat)) : DInv dIn.flatten (init dIn []) := by
  constructor <;> simp [init]

/-- the other side neither finishes nor disappears on its own -/
def UpSilent (a : Act) : Prop := a ≠ .finUp ∧ a ≠ .goneUp

theorem step_dinv (c : Cfg) (hc : c.ArmsOk) (B : List Nat) {s s' : St} (hi : Inv s) (h : DInv B s) (a : Act)
    (ha : UpSilent a) (hs : step c s a = some s') : DInv B s' := by
  have flagsOnly : ∀ t : St, t.uFin = s.uFin → t.uGone = s.uGone → t.uIn = s.uIn → t.mainDone = s.mainDone →
      t.dClosed = s.dClosed → t.uClosed = s.uClosed → t.cu = s.cu → t.chU = s.chU → t.cd = s.cd →
      t.uOut = s.uOut → t.dIn = s.dIn → DInv B t := by
    intro t e1 e2 e3 e4 e5 e6 e7 e8 e9 e10 e11
    refine ⟨by rw [e1]; exact h.uFin, by rw [e2]; exact h.uGone, by rw [e3]; exact h.uIn, ?_, ?_⟩
    · rw [e4, e5, e6, e7, e8, e9, e10, e11]; exact h.pre
    · rw [e4, e6, e9, e10]; exact h.post
  cases a with
  | finUp => exact absurd rfl ha.1
  | goneUp => exact absurd rfl ha.2
  | finDown =>
    simp only [step] at hs; split at hs
    · simp at hs
    · simp at hs; subst hs; exact flagsOnly _ rfl rfl rfl rfl rfl rfl rfl rfl rfl rfl rfl
  | goneDown =>
    simp only [step] at hs; split at hs
    · simp at hs
    · simp at hs; subst hs; exact flagsOnly _ rfl rfl rfl rfl rfl rfl rfl rfl rfl rfl rfl
  | stallDown =>
    simp only [step] at hs; split at hs
    · simp at hs
    · simp at hs; subst hs; exact flagsOnly _ rfl rfl rfl rfl rfl rfl rfl rfl rfl rfl rfl
  | stallUp =>
    simp only [step] at hs; split at hs
    · simp at hs
    · simp at hs; subst hs; exact flagsOnly _ rfl rfl rfl rfl rfl rfl rfl rfl rfl rfl rfl
  | stepD =>
    simp only [step] at hs
    split at hs
    · rename_i hcd
      have hnm : s.mainDone = false := by
        cases hm : s.mainDone with
        | false => rfl
        | true => have := (h.post hm).2.2; simp [hcd] at this
      obtain ⟨p1, p2, p3, p4, p5, p6, p7⟩ := h.pre hnm
      have hB := p5 hcd
      simp [p1] at hs
      split at hs
      · rename_i chunk rest hin
        simp at hs; subst hs
        refine ⟨by simp [h.uFin], by simp [h.uGone], by simp [h.uIn], ?_, by intro hm; simp [hnm] at hm⟩
        intro _
        refine ⟨by simp [p1], by simp [p2], by simp [p3], by simp [p4], by simp, ?_, ?_⟩
        · intro ch hch; simp at hch; subst hch; simp only; rw [hin] at hB; simpa using hB
        · intro hnw; exact absurd rfl (hnw chunk)
      · rename_i hin
        split at hs
        · simp at hs; subst hs
          refine ⟨by simp [h.uFin], by simp [h.uGone], by simp [h.uIn], ?_, by intro hm; simp [hnm] at hm⟩
          intro _
          refine ⟨by simp [p1], by simp [p2], by simp [p3], by simp [p4], by simp, by simp, ?_⟩
          intro _ _; simp only; rw [hin] at hB; simpa using hB
        · simp at hs
    · rename_i chunk hcd
      have hnm : s.mainDone = false := by
        cases hm : s.mainDone with
        | false => rfl
        | true => have := (h.post hm).2.2; simp [hcd] at this
      obtain ⟨p1, p2, p3, p4, p5, p6, p7⟩ := h.pre hnm
      have hB := p6 chunk hcd
      simp [p2, h.uGone] at hs
      obtain ⟨_, hs⟩ := hs
      subst hs
      refine ⟨by simp [h.uFin], by simp, by simp [h.uIn], ?_, by intro hm; simp [hnm] at hm⟩
      intro _
      refine ⟨by simp [p1], by simp, by simp [p3], by simp [p4], ?_, by simp, by simp⟩
      intro _; simpa using hB
    · simp at hs
  | stepU =>
    simp only [step] at hs
    cases hm : s.mainDone with
    | false =>
      obtain ⟨p1, p2, p3, p4, _, _, _⟩ := h.pre hm
      simp [p3, p2, h.uIn, h.uFin] at hs
    | true =>
      obtain ⟨q1, q2, q3⟩ := h.post hm
      have keep : ∀ t : St, t.uFin = s.uFin → t.uGone = s.uGone → t.uIn = [] → t.mainDone = s.mainDone →
          t.uOut = s.uOut → t.uClosed = s.uClosed → t.cd = s.cd → DInv B t := by
        intro t e1 e2 e3 e4 e5 e6 e7
        exact ⟨by rw [e1]; exact h.uFin, by rw [e2]; exact h.uGone, e3, by rw [e4, hm]; intro hf; simp at hf,
          fun _ => ⟨by rw [e5]; exact q1, by rw [e6]; exact q2, by rw [e7]; exact q3⟩⟩
      split at hs
      · simp [q2] at hs; subst hs
        exact keep _ (by simp) (by simp) (by simp [h.uIn]) (by simp) (by simp) (by simp [q2]) (by simp)
      · split at hs
        · simp at hs; subst hs
          exact keep _ (by simp) (by simp) (by simp [h.uIn]) (by simp) (by simp) (by simp) (by simp)
        · split at hs
          · simp at hs
          · simp at hs; subst hs
            exact keep _ (by simp) (by simp) (by simp [h.uIn]) (by simp) (by simp) (by simp) (by simp)
      · simp at hs
  | sendD =>
    simp only [step] at hs
    split at hs
    · rename_i r hcd
      have hnm : s.mainDone = false := by
        cases hm : s.mainDone with
        | false => rfl
        | true => have := (h.post hm).2.2; simp [hcd] at this
      obtain ⟨p1, p2, p3, p4, p5, p6, p7⟩ := h.pre hnm
      have hB := p7 (by simp [hcd]) (by simp [hcd])
      split at hs
      · simp at hs; subst hs
        exact ⟨h.uFin, h.uGone, h.uIn, fun _ => ⟨p1, p2, p3, p4, by simp, by simp, fun _ _ => hB⟩, by intro hm; simp [hnm] at hm⟩
      · split at hs
        · simp at hs; subst hs
          have m := mainArm_ctl c s true r
          have mc := mainArm_closes c hc s r
          refine ⟨by simp [m.2.2.2.2.2.2.2.2.2.2.2.2.1]; exact h.uFin, by simp [m.2.2.2.2.2.2.2.2.2.2.2.2.2.2.1]; exact h.uGone,
            by simp [m.2.2.2.2.2.2.2.2.1]; exact h.uIn, by simp [m.2.2.2.2.1], ?_⟩
          intro _
          exact ⟨by simp [m.2.2.2.2.2.2.2.2.2.2.1]; exact hB, by simpa using mc.1, rfl⟩
        · simp at hs
    · simp at hs
  | sendU =>
    simp only [step] at hs
    split at hs
    · rename_i r hcu
      cases hm : s.mainDone with
      | false => have := (h.pre hm).2.2.1; simp [hcu] at this
      | true =>
        obtain ⟨q1, q2, q3⟩ := h.post hm
        split at hs
        · simp at hs; subst hs
          exact ⟨h.uFin, h.uGone, h.uIn, by intro hf; simp [hm] at hf, fun _ => ⟨q1, q2, q3⟩⟩
        · simp [hm] at hs
    · simp at hs
  | recvD =>
    simp only [step] at hs
    split at hs
    · rename_i hg
      simp at hs; subst hs
      have hnm : s.mainDone = false := by simpa using hg.1
      obtain ⟨p1, p2, p3, p4, p5, p6, p7⟩ := h.pre hnm
      have hch : s.chD = 1 := by have := hi.chD_le; omega
      have hcd := hi.chD_done hch
      have hB := p7 (by simp [hcd]) (by simp [hcd])
      have m := mainArm_ctl c { s with chD := s.chD - 1 } true s.chDr
      have mc := mainArm_closes c hc { s with chD := s.chD - 1 } s.chDr
      refine ⟨by rw [m.2.2.2.2.2.2.2.2.2.2.2.2.1]; exact h.uFin, by rw [m.2.2.2.2.2.2.2.2.2.2.2.2.2.2.1]; exact h.uGone,
        by rw [m.2.2.2.2.2.2.2.2.1]; exact h.uIn, by simp [m.2.2.2.2.1], ?_⟩
      intro _
      exact ⟨by rw [m.2.2.2.2.2.2.2.2.2.2.1]; exact hB, mc.1, by rw [m.1]; exact hcd⟩
    · simp at hs
  | recvU =>
    simp only [step] at hs
    split at hs
    · rename_i hg
      have hnm : s.mainDone = false := by simpa using hg.1
      have := (h.pre hnm).2.2.2.1
      omega
    · simp at hs
  | callerClose =>
    simp only [step] at hs
    split at hs
    · rename_i hg
      simp at hs; subst hs
      have hm : s.mainDone = true := hg.1
      obtain ⟨q1, q2, q3⟩ := h.post hm
      have key : ∀ t : St, SameCtl s t → DInv B { t with callerDone := true } := by
        intro t ht
        exact ⟨by simp [ht.uFin]; exact h.uFin, by simp [ht.uGone]; exact h.uGone, by simp [ht.uIn]; exact h.uIn,
          by simp [ht.mainDone, hm],
          fun _ => ⟨by simp [ht.uOut]; exact q1, ht.uMono q2, by simp [ht.cd]; exact q3⟩⟩
      cases c.caller with
      | none => exact key s (SameCtl.refl s)
      | both => exact key _ (closeAll_same s _)
      | downOnly => exact key _ (closeAll_same s _)
    · simp at hs

theorem run_dinv (c : Cfg) (hc : c.ArmsOk) (B : List Nat) {s : St} (hi : Inv s) (h : DInv B s) (acts : List Act)
    (hn : ∀ a ∈ acts, UpSilent a) : DInv B (run c s acts) := by
  induction acts generalizing s with
  | nil => exact h
  | cons a as ih =>
    have ha : UpSilent a := hn a (by simp)
    have hn' : ∀ a ∈ as, UpSilent a := fun a h => hn a (by simp [h])
    simp only [run]
    split
    · rename_i s' hs; exact ih (step_inv c hc hi a hs) (step_dinv c hc B hi h a ha hs) hn'
    · exact ih hi h hn'

/-- **data_then_eof / close_after_copy**: one side writes `B` (any chunking) and closes, the other
    stays silent and open.  For every schedule, whenever PipeData has returned, the other side has
    been handed exactly `B` and has been closed afterwards; the copier of that direction has exited. -/
theorem C17_close_delivers_all (c : Cfg) (hc : c.ArmsOk) (dIn : List (List Nat)) (acts : List Act)
    (hn : ∀ a ∈ acts, UpSilent a) :
    let s := run c (init dIn []) acts
    s.mainDone = true → s.uOut = dIn.flatten ∧ s.uClosed = true ∧ s.cd = .done := by
  intro s hm
  exact (run_dinv c hc dIn.flatten (init_inv dIn []) (dinv_init dIn) acts hn).post hm

/-- before the pipe ends nothing is invented or reordered: what the other side has been handed plus
    what is still to be copied is always `B` -/
theorem C17_prefix_until_close (c : Cfg) (hc : c.ArmsOk) (dIn : List (List Nat)) (acts : List Act)
    (hn : ∀ a ∈ acts, UpSilent a) :
    let s := run c (init dIn []) acts
    s.mainDone = false →
      (s.cd = .copying → s.uOut ++ s.dIn.flatten = dIn.flatten) ∧
      (∀ ch, s.cd = .writing ch → s.uOut ++ ch ++ s.dIn.flatten = dIn.flatten) := by
  intro s hm
  have h := (run_dinv c hc dIn.flatten (init_inv dIn []) (dinv_init dIn) acts hn).pre hm
  exact ⟨h.2.2.2.2.1, h.2.2.2.2.2.1⟩

/-- **progress to the end**: with the current configuration the close does happen — in a quiescent state
    after the peer's close has become visible and all data has been read, PipeData has returned. -/
theorem C17_close_happens (c : Cfg) (hc : c.ArmsOk) (hcap : 1 ≤ c.cap) (dIn : List (List Nat)) (acts : List Act)
    (hn : ∀ a ∈ acts, UpSilent a) :
    let s := run c (init dIn []) acts
    quiescent c s = true → s.dFin = true → s.uStall = false → s.mainDone = true := by
  intro s hq hf hus
  have hinv : Inv s := run_inv c hc (init_inv dIn []) acts
  have hd : DInv dIn.flatten s := run_dinv c hc dIn.flatten (init_inv dIn []) (dinv_init dIn) acts hn
  clear_value s
  rw [quiescent_iff] at hq
  obtain ⟨hD, _, hsD, _, hrD, _, _⟩ := hq
  cases hm : s.mainDone with
  | true => rfl
  | false =>
    exfalso
    obtain ⟨p1, p2, p3, p4, _, _, _⟩ := hd.pre hm
    cases hcd : s.cd with
    | copying =>
      simp only [step, hcd, p1] at hD
      cases hin : s.dIn with
      | nil => simp [hin, hf] at hD
      | cons ch rest => simp [hin] at hD
    | writing ch =>
      simp [step, hcd, p2, hd.uGone, hus] at hD
    | sending r =>
      have h0 : s.chD = 0 := by
        rcases Nat.lt_or_ge s.chD 1 with h0 | h1
        · omega
        · have : s.chD = 1 := by have := hinv.chD_le; omega
          have := hinv.chD_done this; simp [hcd] at this
      have hlt : s.chD < c.cap := by omega
      simp [step, hcd, hlt] at hsD
    | done =>
      have := hinv.notMainD hm hcd
      simp [step, hm, this] at hrD

example : let c := genCfg .both
    let s := run c (init [[1, 2], [3]] []) [.stepD, .stepD, .finDown, .stepD, .stepD, .stepD, .sendD, .recvD, .stepU, .sendU, .callerClose]
    s.mainDone = true ∧ s.uOut = [1, 2, 3] ∧ s.uClosed = true := by decide

end SA.Pipe

#print axioms SA.Pipe.C17_close_delivers_all
#print axioms SA.Pipe.C17_prefix_until_close
#print axioms SA.Pipe.C17_close_happens

/-! ### the built-in SOCKS channel (SA.Model.Socks) -/
namespace SA.Socks

theorem quiescent_unfold (cw : Bool) (s : SSt) (hq : quiescent cw s = true) :
    sstep cw s .write = none ∧ sstep cw s .tgtClose = none ∧ sstep cw s .downEnd = none ∧
    sstep cw s .pipeClose = none ∧ sstep cw s .upEnd = none ∧ sstep cw s .ret = none := by
  simp only [quiescent, List.all_cons, List.all_nil, Bool.and_true, Bool.and_eq_true, Option.isNone_iff_eq_none] at hq
  exact hq

/-- **socks_target_close_reaches_app**: the connection handed to the SOCKS server can be half-closed (regenerated fact
    below).  Then, whatever number of bytes the target writes before it closes and in whatever order the target, the
    two proxy goroutines, PipeData and ServeConn take their steps, once nothing more can happen the channel's side has
    received every byte, has seen end-of-stream, and the SOCKS server has returned (its goroutine and the target
    connection are released). -/
theorem C17_socks_target_close_reaches_app (n : Nat) (acts : List SAct) (ha : ∀ a ∈ acts, a ≠ .appClose) :
    let s := srun true (sinit n) acts
    quiescent true s = true → s.served = true ∧ s.eofDown = true ∧ s.delivered = n ∧ s.dropped = 0 := by
  intro s hq
  have inv : TInv n s := srun_tinv n _ (tinv_init n) acts ha
  obtain ⟨hw, htc, hde, hpc, hue, hr⟩ := quiescent_unfold true s hq
  have htf : s.tgtFin = true := by
    cases hf : s.tgtFin with
    | true => rfl
    | false =>
      have hdd : s.downDone = false := by
        cases hd : s.downDone with
        | false => rfl
        | true => have := (inv.down hd).1; rw [hf] at this; cases this
      simp only [sstep, hf, hdd, and_true] at hw htc
      by_cases hz : s.toDeliver = 0
      · simp [hz] at htc
      · have : 0 < s.toDeliver := Nat.pos_of_ne_zero hz
        simp [this] at hw
        split at hw <;> simp at hw
  have hz : s.toDeliver = 0 := inv.fin htf
  have hdd : s.downDone = true := by
    cases hd : s.downDone with
    | true => rfl
    | false => simp [sstep, hd, htf, hz] at hde
  have heof : s.eofDown = true := (inv.down hdd).2
  have hcc : s.chanClosed = true := by
    cases hc : s.chanClosed with
    | true => rfl
    | false => simp [sstep, heof, hc] at hpc
  have hud : s.upDone = true := by
    cases hu : s.upDone with
    | true => rfl
    | false => simp [sstep, hcc, hu] at hue
  have hsv : s.served = true := by
    cases hv : s.served with
    | true => rfl
    | false => simp [sstep, hdd, hud, hv] at hr
  refine ⟨hsv, heof, ?_, inv.nodrop⟩
  have := inv.sum; omega

/-- the SOCKS channel of the code as it is hands the library a connection with a CloseWrite method -/
theorem C17_socks_conn_half_closes : Gen.socksConnHasCloseWrite = true := by decide

/-- **socks_app_close_releases**: when the application leaves first, then in every state in which nothing more can
    happen the SOCKS server has returned — with or without half-close. -/
theorem C17_socks_app_close_releases (cw : Bool) (s : SSt) (hq : quiescent cw s = true) (hc : s.chanClosed = true) :
    s.served = true := by
  obtain ⟨_, _, hde, _, hue, hr⟩ := quiescent_unfold cw s hq
  have hdd : s.downDone = true := by
    cases hd : s.downDone with
    | true => rfl
    | false => simp [sstep, hd, hc] at hde
  have hud : s.upDone = true := by
    cases hu : s.upDone with
    | true => rfl
    | false => simp [sstep, hc, hu] at hue
  cases hv : s.served with
  | true => rfl
  | false => simp [sstep, hdd, hud, hv] at hr

theorem writes_run (cw : Bool) (k : Nat) (s : SSt) (h1 : s.tgtFin = false) (h2 : s.downDone = false) (h3 : s.chanClosed = false)
    (hk : s.toDeliver = k) :
    srun cw s (List.replicate k .write) = { s with toDeliver := 0, delivered := s.delivered + k } := by
  induction k generalizing s with
  | zero => cases s; simp_all [srun]
  | succ k ih =>
    have hpos : 0 < s.toDeliver := by omega
    simp only [List.replicate_succ, srun, sstep, hpos, h1, h2, h3, and_self, ↓reduceIte, Bool.false_eq_true]
    rw [ih _ rfl rfl rfl (by show s.toDeliver - 1 = k; omega)]
    simp only [SSt.mk.injEq, true_and, and_true]
    omega

/-- **witness_socks_no_half_close**: without a CloseWrite method on that connection (the code before the repair), after
    the target has written its n bytes and closed nothing more can happen, and the channel's side has not seen
    end-of-stream and the SOCKS server has not returned: the application waits for ever.  For every n. -/
theorem C17_witness_socks_no_half_close (n : Nat) :
    let s := srun false (sinit n) (List.replicate n .write ++ [.tgtClose, .downEnd])
    quiescent false s = true ∧ s.delivered = n ∧ s.eofDown = false ∧ s.served = false := by
  intro s
  have h := writes_run false n (sinit n) rfl rfl rfl rfl
  have hs : s = { sinit n with toDeliver := 0, delivered := n, tgtFin := true, downDone := true } := by
    show srun false (sinit n) (List.replicate n .write ++ [.tgtClose, .downEnd]) = _
    rw [srun_append, h]
    simp [sinit, srun, sstep]
  rw [hs]
  simp [sinit, sstep, quiescent]

/-! non-vacuity -/
example : quiescent true (settle true 32 (sinit 5)) = true ∧ (settle true 32 (sinit 5)).served = true := by decide

end SA.Socks

#print axioms SA.Socks.C17_socks_target_close_reaches_app
#print axioms SA.Socks.C17_socks_conn_half_closes
#print axioms SA.Socks.C17_socks_app_close_releases
#print axioms SA.Socks.C17_witness_socks_no_half_close

namespace SA.Socks
/-- both ends run the multiplexer with the library's default timing: the only field the code assigns is the frame size
    (regenerated).  The keep-alive that ends a session is therefore smux's 30 s without any frame header read — a full
    32 KiB frame crosses the slowest carrier in less (the `+slow` runs: 4 KiB/s). -/
theorem C17_mux_timing_is_default :
    Gen.smuxConfigAssignedServer = ["MaxFrameSize"] ∧ Gen.smuxConfigAssignedClient = ["MaxFrameSize"] := by decide
end SA.Socks

namespace SA.PkgState
/-- **no_hidden_process_state**: the models of this property are functions of their arguments and of the objects they are
    handed; the packages they model keep no package-level variables besides these (regenerated inventory: error
    sentinels, tables, compiled patterns, the two session time-outs).  A new package-level variable — a counter, a cache, a
    scratch buffer, a shared map, a registry — would make later calls depend on earlier ones, or concurrent calls on each
    other, outside anything a per-call comparison of model and code can see. -/
theorem C17_no_hidden_process_state :
    Gen.pkgVarNames_streams = ["Localhost"] ∧
    Gen.pkgVarNames_server = ["ChannelRegex"] := by decide
end SA.PkgState

#print axioms SA.PkgState.C17_no_hidden_process_state
#print axioms SA.Socks.C17_mux_timing_is_default

namespace SA.ReadAhead
/-- **selection_loses_nothing**: the server selects the channel through a buffered reader that takes whole chunks from
    the logical stream.  For EVERY way the stream is cut into chunks (in particular: selection tokens and payload in one
    chunk — a peer that does not wait for the server's confirmation) and every token length k the stream holds, the k
    bytes the selection consumed followed by what the handler then reads through the wrapper are exactly the stream:
    the target is handed every payload byte, in order, whatever the wrapper read ahead. -/
theorem C17_selection_loses_nothing (k : Nat) (cs : List (List Nat)) (h : k ≤ cs.flatten.length) :
    ∃ tokens, tokens.length = k ∧ tokens ++ viaWrapper k cs = cs.flatten := by
  refine ⟨(take k (BR.ofChunks cs)).1, ?_, ?_⟩
  · exact take_length k _ (by simpa [BR.ofChunks, BR.remaining] using h)
  · simpa [viaWrapper, BR.ofChunks, BR.remaining] using take_remaining k (BR.ofChunks cs)

/-- the number of bytes the target is handed does not depend on the chunking -/
theorem C17_target_count_chunking_independent (k : Nat) (cs : List (List Nat)) (h : k ≤ cs.flatten.length) :
    (viaWrapper k cs).length = cs.flatten.length - k := by
  obtain ⟨t, ht, he⟩ := C17_selection_loses_nothing k cs h
  have := congrArg List.length he
  simp only [List.length_append] at this
  omega

/-- witness: handing the channel handler the stream BELOW the wrapper loses what the wrapper read ahead (three token
    bytes and two payload bytes in one chunk: the target gets nothing), while through the wrapper it gets both -/
theorem C17_witness_bare_stream_loses_read_ahead :
    viaStream 3 [[1, 2, 3, 4, 5]] = [] ∧ viaWrapper 3 [[1, 2, 3, 4, 5]] = [4, 5] := by
  simp [viaStream, viaWrapper, take, BR.ofChunks, BR.remaining]

/-- the code hands the handler the wrapper: the muxer's only `Handle` call in multiplexToUpstream gets
    `newClientFirstConn(stream)`, selection is never separated from the handler call (`Negotiate`), and the wrapper's
    `Read` reads from its buffered reader, which is built over the stream (regenerated) -/
theorem C17_handler_reads_through_wrapper :
    Gen.c17MuxHandleArgs = ["newClientFirstConn(multiplexChannel)"] ∧ Gen.c17MuxNegotiateCalls = 0 ∧
    Gen.c17WrapperReadsFrom = "c.reader.Read(p)" ∧
    Gen.c17WrapperReader = "bufio.NewReaderSize(conn,buffers.BufferSize)" := by decide
end SA.ReadAhead

#print axioms SA.ReadAhead.C17_selection_loses_nothing
#print axioms SA.ReadAhead.C17_target_count_chunking_independent
#print axioms SA.ReadAhead.C17_witness_bare_stream_loses_read_ahead
#print axioms SA.ReadAhead.C17_handler_reads_through_wrapper

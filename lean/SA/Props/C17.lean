/-
  C17 — Orderly close delivers all data, then end-of-stream (on the PipeData process model; partial:
  the transports' own "close after write delivers the data, then EOF" is their contract, sampled e2e).

  Setting: one side (modelled as `down`; the model is symmetric in the two ends) writes the bytes
  `B` in any chunking and then closes; the other side stays silent and open.  Claim: in every
  interleaving of the two copiers, main, the caller and the moment the close becomes visible, once
  the pipe has ended the other side has been handed exactly `B` and has then been closed — the close
  issued by PipeData is ordered after the last write of the data, also when it races with it.
-/
import SA.Props.C14
namespace SA.Pipe

structure DInv (B : List Nat) (s : St) : Prop where
  uFin : s.uFin = false
  uIn : s.uIn = []
  pre : s.mainDone = false →
    s.dClosed = false ∧ s.uClosed = false ∧ s.cu = .copying ∧ s.chU = 0 ∧
    (s.cd = .copying → s.uOut ++ s.dIn.flatten = B) ∧ (s.cd ≠ .copying → s.uOut = B)
  post : s.mainDone = true → s.uOut = B ∧ s.uClosed = true ∧ s.cd = .done

theorem dinv_init (dIn : List (List Nat)) : DInv dIn.flatten (init dIn []) := by
  constructor <;> simp [init]

theorem step_dinv (c : Cfg) (hc : c.ArmsOk) (B : List Nat) {s s' : St} (hi : Inv s) (h : DInv B s) (a : Act)
    (ha : a ≠ .finUp) (hs : step c s a = some s') : DInv B s' := by
  cases a with
  | finUp => exact absurd rfl ha
  | finDown =>
    simp only [step] at hs; split at hs
    · simp at hs
    · simp at hs; subst hs; exact ⟨h.uFin, h.uIn, h.pre, h.post⟩
  | stepD =>
    simp only [step] at hs
    split at hs
    · simp at hs
    · rename_i hcd
      have hcd : s.cd = .copying := by simpa using hcd
      have hnm : s.mainDone = false := by
        cases hm : s.mainDone with
        | false => rfl
        | true => have := (h.post hm).2.2; simp [hcd] at this
      obtain ⟨p1, p2, p3, p4, p5, _⟩ := h.pre hnm
      have hB := p5 hcd
      simp [p1] at hs
      split at hs
      · rename_i chunk rest hin
        simp [p2, h.uFin] at hs; subst hs
        refine ⟨by simp [h.uFin], by simp [h.uIn], ?_, ?_⟩
        · intro _
          refine ⟨by simp [p1], by simp [p2], by simp [p3], by simp [p4], ?_, ?_⟩
          · intro _; simp only; rw [hin] at hB; simpa using hB
          · intro hne; simp [hcd] at hne
        · intro hm; simp [hnm] at hm
      · rename_i hin
        split at hs
        · simp at hs; subst hs
          refine ⟨by simp [h.uFin], by simp [h.uIn], ?_, ?_⟩
          · intro _
            refine ⟨by simp [p1], by simp [p2], by simp [p3], by simp [p4], by simp, ?_⟩
            intro _; simp only; rw [hin] at hB; simpa using hB
          · intro hm; simp [hnm] at hm
        · simp at hs
  | stepU =>
    simp only [step] at hs
    split at hs
    · simp at hs
    · rename_i hcu
      cases hm : s.mainDone with
      | false =>
        obtain ⟨p1, p2, p3, p4, p5, p6⟩ := h.pre hm
        simp [p2, h.uIn, h.uFin] at hs
      | true =>
        obtain ⟨q1, q2, q3⟩ := h.post hm
        simp [q2] at hs; subst hs
        exact ⟨by simp [h.uFin], by simp [h.uIn], by intro hf; simp [hm] at hf, fun _ => ⟨by simp [q1], by simp [q2], by simp [q3]⟩⟩
  | sendD =>
    simp only [step] at hs
    split at hs
    · rename_i r hcd
      have hnm : s.mainDone = false := by
        cases hm : s.mainDone with
        | false => rfl
        | true => have := (h.post hm).2.2; simp [hcd] at this
      obtain ⟨p1, p2, p3, p4, p5, p6⟩ := h.pre hnm
      have hB := p6 (by simp [hcd])
      split at hs
      · simp at hs; subst hs
        exact ⟨h.uFin, h.uIn, fun _ => ⟨p1, p2, p3, p4, by simp, fun _ => hB⟩, by intro hm; simp [hnm] at hm⟩
      · split at hs
        · simp at hs; subst hs
          have m := mainArm_ctl c s true r
          have mc := mainArm_closes c hc s r
          refine ⟨by simp [m.2.2.2.2.2.2.2.2.2.2.2.2]; exact h.uFin, by simp [m.2.2.2.2.2.2.2.2.1]; exact h.uIn,
            by simp [m.2.2.2.2.1], ?_⟩
          intro _
          exact ⟨by simp [m.2.2.2.2.2.2.2.2.2.2.1]; exact hB, by simpa using mc.1, rfl⟩
        · simp at hs
    · simp at hs
  | sendU =>
    simp only [step] at hs
    split at hs
    · rename_i r hcu
      cases hm : s.mainDone with
      | false => have := (h.pre hm).2.2.1; simp [hcu] at this
      | true =>
        obtain ⟨q1, q2, q3⟩ := h.post hm
        split at hs
        · simp at hs; subst hs
          exact ⟨h.uFin, h.uIn, by intro hf; simp [hm] at hf, fun _ => ⟨q1, q2, q3⟩⟩
        · simp [hm] at hs
    · simp at hs
  | recvD =>
    simp only [step] at hs
    split at hs
    · rename_i hg
      simp at hs; subst hs
      have hnm : s.mainDone = false := by simpa using hg.1
      obtain ⟨p1, p2, p3, p4, p5, p6⟩ := h.pre hnm
      have hch : s.chD = 1 := by have := hi.chD_le; omega
      have hcd := hi.chD_done hch
      have hB := p6 (by simp [hcd])
      have m := mainArm_ctl c { s with chD := s.chD - 1 } true s.chDr
      have mc := mainArm_closes c hc { s with chD := s.chD - 1 } s.chDr
      refine ⟨by rw [m.2.2.2.2.2.2.2.2.2.2.2.2]; exact h.uFin, by rw [m.2.2.2.2.2.2.2.2.1]; exact h.uIn,
        by simp [m.2.2.2.2.1], ?_⟩
      intro _
      exact ⟨by rw [m.2.2.2.2.2.2.2.2.2.2.1]; exact hB, mc.1, by rw [m.1]; exact hcd⟩
    · simp at hs
  | recvU =>
    simp only [step] at hs
    split at hs
    · rename_i hg
      have hnm : s.mainDone = false := by simpa using hg.1
      have := (h.pre hnm).2.2.2.1
      omega
    · simp at hs
  | callerClose =>
    simp only [step] at hs
    split at hs
    · rename_i hg
      simp at hs; subst hs
      have hm : s.mainDone = true := hg.1
      obtain ⟨q1, q2, q3⟩ := h.post hm
      have key : ∀ t : St, SameCtl s t → DInv B { t with callerDone := true } := by
        intro t ht
        exact ⟨by simp [ht.uFin]; exact h.uFin, by simp [ht.uIn]; exact h.uIn,
          by simp [ht.mainDone, hm],
          fun _ => ⟨by simp [ht.uOut]; exact q1, ht.uMono q2, by simp [ht.cd]; exact q3⟩⟩
      cases c.caller with
      | none => exact key s (SameCtl.refl s)
      | both => exact key _ (closeAll_same s _)
      | downOnly => exact key _ (closeAll_same s _)
    · simp at hs

theorem run_dinv (c : Cfg) (hc : c.ArmsOk) (B : List Nat) {s : St} (hi : Inv s) (h : DInv B s) (acts : List Act)
    (hn : Act.finUp ∉ acts) : DInv B (run c s acts) := by
  induction acts generalizing s with
  | nil => exact h
  | cons a as ih =>
    have ha : a ≠ .finUp := fun e => hn (by simp [e])
    have hn' : Act.finUp ∉ as := fun e => hn (by simp [e])
    simp only [run]
    split
    · rename_i s' hs; exact ih (step_inv c hc hi a hs) (step_dinv c hc B hi h a ha hs) hn'
    · exact ih hi h hn'

/-- **data_then_eof / close_after_copy**: one side writes `B` (any chunking) and closes, the other
    stays silent and open.  For every schedule, whenever PipeData has returned, the other side has
    been handed exactly `B` and has been closed afterwards; the copier of that direction has exited. -/
theorem C17_close_delivers_all (c : Cfg) (hc : c.ArmsOk) (dIn : List (List Nat)) (acts : List Act)
    (hn : Act.finUp ∉ acts) :
    let s := run c (init dIn []) acts
    s.mainDone = true → s.uOut = dIn.flatten ∧ s.uClosed = true ∧ s.cd = .done := by
  intro s hm
  exact (run_dinv c hc dIn.flatten (init_inv dIn []) (dinv_init dIn) acts hn).post hm

/-- before the pipe ends nothing is invented or reordered: what the other side has been handed plus
    what is still to be copied is always `B` -/
theorem C17_prefix_until_close (c : Cfg) (hc : c.ArmsOk) (dIn : List (List Nat)) (acts : List Act)
    (hn : Act.finUp ∉ acts) :
    let s := run c (init dIn []) acts
    s.mainDone = false → s.cd = .copying → s.uOut ++ s.dIn.flatten = dIn.flatten := by
  intro s hm hcd
  exact ((run_dinv c hc dIn.flatten (init_inv dIn []) (dinv_init dIn) acts hn).pre hm).2.2.2.2.1 hcd

/-- **progress to the end**: with the current configuration the close does happen — in a quiescent state
    after the peer's close has become visible and all data has been read, PipeData has returned. -/
theorem C17_close_happens (c : Cfg) (hc : c.ArmsOk) (hcap : 1 ≤ c.cap) (dIn : List (List Nat)) (acts : List Act)
    (hn : Act.finUp ∉ acts) :
    let s := run c (init dIn []) acts
    quiescent c s = true → s.dFin = true → s.mainDone = true := by
  intro s hq hf
  have hinv : Inv s := run_inv c hc (init_inv dIn []) acts
  have hd : DInv dIn.flatten s := run_dinv c hc dIn.flatten (init_inv dIn []) (dinv_init dIn) acts hn
  clear_value s
  rw [quiescent_iff] at hq
  obtain ⟨hD, _, hsD, _, hrD, _, _⟩ := hq
  cases hm : s.mainDone with
  | true => rfl
  | false =>
    exfalso
    obtain ⟨p1, p2, p3, p4, _, _⟩ := hd.pre hm
    cases hcd : s.cd with
    | copying =>
      simp only [step, hcd, p1] at hD
      cases hin : s.dIn with
      | nil => simp [hin, hf] at hD
      | cons ch rest => simp [hin, p2, hd.uFin] at hD
    | sending r =>
      have h0 : s.chD = 0 := by
        rcases Nat.lt_or_ge s.chD 1 with h0 | h1
        · omega
        · have : s.chD = 1 := by have := hinv.chD_le; omega
          have := hinv.chD_done this; simp [hcd] at this
      have hlt : s.chD < c.cap := by omega
      simp [step, hcd, hlt] at hsD
    | done =>
      have := hinv.notMainD hm hcd
      simp [step, hm, this] at hrD

example : let c := genCfg .both
    let s := run c (init [[1, 2], [3]] []) [.stepD, .finDown, .stepD, .stepD, .sendD, .recvD, .stepU, .sendU, .callerClose]
    s.mainDone = true ∧ s.uOut = [1, 2, 3] ∧ s.uClosed = true := by decide

end SA.Pipe

#print axioms SA.Pipe.C17_close_delivers_all
#print axioms SA.Pipe.C17_prefix_until_close
#print axioms SA.Pipe.C17_close_happens

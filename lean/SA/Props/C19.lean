/-
  C19 — Stream wrappers close their resource exactly once.

  Property theorems only; helper lemmas are in SA.Proofs.Wrappers.
  Quantifiers: every composition `d` built by the real constructor functions
  (any nesting depth), resources that succeed or fail on close and that do or do
  not implement `Closed()`, every sequence of Read/Write/Close/Closed/String
  calls on the outermost wrapper.  Side conditions (stated in DESIGN.md):
  sequential calls; the resources under a composition are distinct objects.
-/
import SA.Proofs.Wrappers
namespace SA.Wrappers

/-- state invariant for every reachable state: still untouched, or completely closed -/
def Inv (w : W) : Prop := Guarded w ∧ (Fresh w ∨ Done w)

theorem step_inv {w : W} (h : Inv w) (op : Op) : Inv (step w op).1 := by
  cases op with
  | close =>
    rcases h with ⟨hg, hf | hd⟩
    · exact ⟨close_guarded hg, Or.inr (fresh_close_done hg hf)⟩
    · simp only [step, done_close hg hd]; exact ⟨hg, Or.inr hd⟩
  | closed => exact h
  | read => exact h
  | write => exact h
  | str => exact h

theorem run_inv {w : W} (h : Inv w) (ops : List Op) : Inv (run w ops).1 := by
  induction ops generalizing w with
  | nil => exact h
  | cons op ops ih => exact ih (step_inv h op)

theorem step_noclose_fresh {w : W} (hf : Fresh w) {op : Op} (h : op ≠ .close) :
    Fresh (step w op).1 := by
  cases op <;> first | exact absurd rfl h | exact hf

/-- **close_once (a)**: with no `Close` call, no resource has been closed. -/
theorem C19_no_close_no_effect (d : Desc) (ops : List Op) (hn : Op.close ∉ ops) :
    ∀ c ∈ counts (run (build d) ops).1, c = 0 := by
  have : ∀ (w : W), Fresh w → Fresh (run w ops).1 := by
    induction ops with
    | nil => intro w h; exact h
    | cons op ops ih =>
      intro w h
      have h1 : op ≠ .close := fun e => hn (by simp [e])
      have h2 : Op.close ∉ ops := fun e => hn (by simp [e])
      exact ih h2 _ (step_noclose_fresh h h1)
  exact fresh_counts (this _ (build_fresh d))

theorem run_done {w : W} (hg : Guarded w) (hd : Done w) (ops : List Op) :
    Done (run w ops).1 ∧ Guarded (run w ops).1 := by
  induction ops generalizing w with
  | nil => exact ⟨hd, hg⟩
  | cons op ops ih =>
    have : (step w op).1 = w := by
      cases op <;> simp [step, done_close hg hd]
    simp only [run, this]
    exact ih hg hd

theorem run_append (w : W) (a b : List Op) :
    (run w (a ++ b)).1 = (run (run w a).1 b).1 := by
  induction a generalizing w with
  | nil => rfl
  | cons op a ih => simp [run, ih]

theorem run_append_out (w : W) (a b : List Op) :
    (run w (a ++ b)).2 = (run w a).2 ++ (run (run w a).1 b).2 := by
  induction a generalizing w with
  | nil => rfl
  | cons op a ih => simp [run, ih]

theorem run_noclose_fresh {w : W} (hf : Fresh w) (ops : List Op) (hn : Op.close ∉ ops) :
    Fresh (run w ops).1 := by
  induction ops generalizing w with
  | nil => exact hf
  | cons op ops ih =>
    have h1 : op ≠ .close := fun e => hn (by simp [e])
    have h2 : Op.close ∉ ops := fun e => hn (by simp [e])
    exact ih (step_noclose_fresh hf h1) h2

theorem run_noclose_guarded {w : W} (hg : Guarded w) (ops : List Op) (hn : Op.close ∉ ops) :
    Guarded (run w ops).1 := by
  induction ops generalizing w with
  | nil => exact hg
  | cons op ops ih =>
    have h1 : op ≠ .close := fun e => hn (by simp [e])
    have h2 : Op.close ∉ ops := fun e => hn (by simp [e])
    have : (step w op).1 = w := by cases op <;> first | exact absurd rfl h1 | rfl
    simp only [run, this]; exact ih hg h2

/-- **close_once (b)**: as soon as the op sequence contains one `Close` on the outermost
    wrapper, every underlying resource has received exactly one `Close` — whatever follows
    (further closes, reads, writes), whatever the nesting depth, whether or not the
    resource's own `Close` failed. -/
theorem C19_close_once (d : Desc) (hw : d.isWrapper = true) (pre post : List Op)
    (hpre : Op.close ∉ pre) :
    ∀ c ∈ counts (run (build d) (pre ++ .close :: post)).1, c = 1 := by
  have hg0 := build_guarded d hw
  have hf1 := run_noclose_fresh (build_fresh d) pre hpre
  have hg1 := run_noclose_guarded hg0 pre hpre
  rw [run_append]
  simp only [run]
  have hd := fresh_close_done hg1 hf1
  have hg2 := close_guarded hg1
  have h := run_done (w := (step (run (build d) pre).1 .close).1) hg2 hd post
  exact done_counts h.1

/-- pointwise relation between the ops and their outputs -/
def AllOuts (P : Op → Out → Prop) : List Op → List Out → Prop
  | [], [] => True
  | op :: ops, o :: os => P op o ∧ AllOuts P ops os
  | _, _ => False

/-- outputs of the ops after the first close -/
def AfterOk : Op → Out → Prop
  | .close, o => o = .ok
  | .closed, o => o = .bool true
  | _, _ => True

def BeforeOk : Op → Out → Prop
  | .closed, o => o = .bool false
  | _, _ => True

theorem outs_done {w : W} (hg : Guarded w) (hd : Done w) (ops : List Op) :
    AllOuts AfterOk ops (run w ops).2 := by
  induction ops with
  | nil => exact trivial
  | cons op ops ih =>
    have hs : (step w op).1 = w := by cases op <;> simp [step, done_close hg hd]
    simp only [run, hs]
    refine ⟨?_, ih⟩
    cases op <;> simp [AfterOk, step, done_close hg hd, done_closedQ hg hd]

theorem outs_fresh {w : W} (hg : Guarded w) (hf : Fresh w) (ops : List Op) (hn : Op.close ∉ ops) :
    AllOuts BeforeOk ops (run w ops).2 := by
  induction ops with
  | nil => exact trivial
  | cons op ops ih =>
    have h1 : op ≠ .close := fun e => hn (by simp [e])
    have h2 : Op.close ∉ ops := fun e => hn (by simp [e])
    have hs : (step w op).1 = w := by cases op <;> first | exact absurd rfl h1 | rfl
    simp only [run, hs]
    refine ⟨?_, ih h2⟩
    cases op <;> simp [BeforeOk, step, fresh_closedQ hg hf]

/-- **repeat_ok + closed_query**: before the first `Close`, `Closed()` answers false; every
    `Close` after the first returns success and every `Closed()` after it answers true —
    also when the resource's own close returned an error. -/
theorem C19_repeat_ok_and_closed_query (d : Desc) (hw : d.isWrapper = true) (pre post : List Op)
    (hpre : Op.close ∉ pre) :
    AllOuts BeforeOk pre (run (build d) pre).2 ∧
    AllOuts AfterOk post
      (run (step (run (build d) pre).1 .close).1 post).2 := by
  have hg0 := build_guarded d hw
  have hf1 := run_noclose_fresh (build_fresh d) pre hpre
  have hg1 := run_noclose_guarded hg0 pre hpre
  refine ⟨outs_fresh hg0 (build_fresh d) pre hpre, ?_⟩
  exact outs_done (close_guarded hg1) (fresh_close_done hg1 hf1) post

/-- the trace of the whole sequence is the three parts glued together (so the two statements
    above speak about the outputs of one run) -/
theorem C19_trace_split (d : Desc) (pre post : List Op) :
    (run (build d) (pre ++ .close :: post)).2 =
      (run (build d) pre).2 ++
        (step (run (build d) pre).1 .close).2 ::
          (run (step (run (build d) pre).1 .close).1 post).2 := by
  rw [run_append_out]; rfl

/-- the first close reports the resource's error iff some resource fails -/
def anyFails : Desc → Bool
  | .res _ _ f => f
  | .safe _ d => anyFails d
  | .named _ d => anyFails d
  | .pair r w => anyFails r || anyFails w
  | .sim d => anyFails d
  | .strm d => anyFails d

/-! non-vacuity: a depth-4 composition with a failing resource meets the hypotheses, and the
    conclusions are what the real code shows. -/
def exD : Desc :=
  .named .conn (.sim (.pair (.named .reader (.res 0 true true)) (.safe .writer (.safe .writer (.res 1 false false)))))

example : exD.isWrapper = true := rfl
example : (run (build exD) [.closed, .read, .close, .close, .closed, .write, .close]).2
    = [.bool false, .unit, .err, .ok, .bool true, .unit, .ok] := by decide
example : counts (run (build exD) [.closed, .read, .close, .close, .closed, .write, .close]).1 = [1, 1] := by
  decide

/-- Observation outside the property (the same *object* on both sides of a pair is closed twice):
    kept as a witness so the side condition "distinct resources" is visible. -/
example : counts (run (build (.pair (.res 0 false false) (.res 0 false false))) [.close]).1 = [1, 1] := by
  decide

end SA.Wrappers

#print axioms SA.Wrappers.C19_no_close_no_effect
#print axioms SA.Wrappers.C19_close_once
#print axioms SA.Wrappers.C19_repeat_ok_and_closed_query
#print axioms SA.Wrappers.C19_trace_split

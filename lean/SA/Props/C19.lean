/-
  C19 — Stream wrappers close their resource exactly once.

  Property theorems only; helper lemmas are in SA.Proofs.Wrappers.
  Quantifiers: every composition `d` built by the real constructor functions (any nesting depth,
  wrapper at the root), resources that succeed or fail on close and that do or do not implement
  `Closed()`, every sequence of Read/Write/Close/Closed/String calls addressed to *any* wrapper
  handle of the composition — every object returned by one of the constructor calls, the outermost
  one (handle 0) and the inner ones the caller still holds (`validOps`: the handle exists and is
  not a bare resource).  `hpath d h` is the place of handle `h`'s object in the runtime tree; with
  the constructors' reuse rule several handles can denote one object.
  Side conditions: sequential calls; the resources under a composition are distinct objects and are
  not closed behind the wrappers' back.

  The model functions `run`, `closeAt`, `closedAt` are the `…G` functions at the regenerated fact
  `SA.Gen.c19PairClosedAnd` (connective of `ReadWriteCloser.Closed()`); the proofs below are for
  `true` and are accepted for the fact by unfolding it, so they stop checking if the fact changes.
-/
import SA.Proofs.Wrappers
import SA.Gen.PkgVars
namespace SA.Wrappers

/-! ### from handle-addressed to path-addressed runs -/

theorem hpath_of_get {d : Desc} {h : Nat} {p : Path} (e : (handles d)[h]? = some p) :
    hpath d h = p := by
  simp [hpath, List.getD_eq_getElem?_getD, e]

theorem valid_resolve {d : Desc} {ops : List NOp} (hv : validOps d ops = true) :
    ValidP (build d) (resolve d ops) := by
  intro x hx
  simp only [resolve, List.mem_map] at hx
  obtain ⟨o, ho, rfl⟩ := hx
  have := List.all_eq_true.mp hv o ho
  cases e : (handles d)[o.1]? with
  | none => simp [e] at this
  | some p => simp only [e] at this; simpa [hpath_of_get e] using this

theorem valid_append {d : Desc} {a b : List NOp} (hv : validOps d (a ++ b) = true) :
    validOps d a = true ∧ validOps d b = true := by
  simpa [validOps, List.all_append] using hv

theorem valid_cons {d : Desc} {o : NOp} {b : List NOp} (hv : validOps d (o :: b) = true) :
    wrapperAt (build d) (hpath d o.1) = true ∧ validOps d b = true := by
  have h1 : validOps d [o] = true := (valid_append (a := [o]) (b := b) hv).1
  have := valid_resolve h1 (hpath d o.1, o.2) (by simp [resolve])
  exact ⟨this, (valid_append (a := [o]) (b := b) hv).2⟩

theorem hpath_zero (d : Desc) : hpath d 0 = [] := by
  cases d <;> rfl

/-- invariant, guardedness and monotonicity of every reachable state -/
theorem reach (d : Desc) (hw : d.isWrapper = true) (ops : List NOp) (hv : validOps d ops = true) :
    Inv (runG true d ops).1 ∧ Guarded (runG true d ops).1 ∧ Le (build d) (runG true d ops).1 :=
  runP_inv (fresh_inv (build_fresh d)) (build_guarded d hw) _ (valid_resolve hv)

theorem deps_ne_nil {t : W} (hg : Guarded t) : deps t ≠ [] := by
  induction t with
  | res => exact hg.elim
  | safe => simp [deps]
  | deleg i ih => simpa [deps] using ih hg
  | pair r w ihr ihw => simp [deps, ihr hg.1]

/-! ### the theorems, for the connective `&&` -/

theorem never_twice_and (d : Desc) (hw : d.isWrapper = true) (ops : List NOp)
    (hv : validOps d ops = true) : ∀ c ∈ counts (runG true d ops).1, c ≤ 1 :=
  inv_counts (reach d hw ops hv).1

theorem close_closes_subtree_once_and (d : Desc) (hw : d.isWrapper = true) (pre post : List NOp)
    (h : Nat) (hv : validOps d (pre ++ (h, Op.close) :: post) = true) :
    ∃ t, sub (runG true d (pre ++ (h, Op.close) :: post)).1 (hpath d h) = some t ∧
      (∀ c ∈ counts t, c = 1) ∧
      closeAtG true (runG true d (pre ++ (h, Op.close) :: post)).1 (hpath d h)
        = ((runG true d (pre ++ (h, Op.close) :: post)).1, true) ∧
      closedAtG true (runG true d (pre ++ (h, Op.close) :: post)).1 (hpath d h) = some true := by
  have hv1 := (valid_append hv).1
  have hv2 := valid_cons (valid_append hv).2
  obtain ⟨hi1, hg1, hl1⟩ := reach d hw pre hv1
  -- state after `pre`, then after the Close on `h`
  have hvh : wrapperAt (runG true d pre).1 (hpath d h) = true := le_wrapperAt hl1 hv2.1
  obtain ⟨hi2, t2, hs2, hd2⟩ := closeAt_inv hi1 (Or.inr hg1) hvh
  have hl2 := closeAt_le true (runG true d pre).1 (hpath d h)
  have hg2 := le_guarded hl2 hg1
  -- the rest of the run
  have hvp : ValidP (closeAtG true (runG true d pre).1 (hpath d h)).1 (resolve d post) :=
    le_validP (le_trans hl1 hl2) (valid_resolve hv2.2)
  obtain ⟨hi3, hg3, hl3⟩ := runP_inv hi2 hg2 _ hvp
  have hfin : (runG true d (pre ++ (h, Op.close) :: post)).1
      = (runPG true (closeAtG true (runG true d pre).1 (hpath d h)).1 (resolve d post)).1 := by
    simp only [runG, resolve, List.map_append, List.map_cons, runP_append]
    rfl
  rw [hfin]
  obtain ⟨t3, hs3, hl23⟩ := le_sub hl3 hs2
  have hd3 : Done t3 := done_le hd2 hl23 (sub_inv hi3 hs3)
  have hn3 : isRes t3 = false := by
    obtain ⟨t, hs, hn⟩ := wrapperAt_iff.mp (le_wrapperAt (le_trans hl2 hl3) hvh)
    rw [hs3] at hs; cases hs; exact hn
  have hgt3 := sub_guarded (Or.inr hg3) hs3 hn3
  refine ⟨t3, hs3, done_counts hd3, closeAt_fix true hs3 (done_close hgt3 hd3), ?_⟩
  simp only [closedAtG, hs3]
  exact done_closedQ hgt3 hd3

/-- the statement of `C19_closed_implies_closed`, for either connective -/
def ClosedImpliesClosed (cj : Bool) : Prop :=
  ∀ (d : Desc), d.isWrapper = true → ∀ (ops : List NOp) (h : Nat),
    validOps d ((h, Op.closed) :: ops) = true →
    closedAtG cj (runG cj d ops).1 (hpath d h) = some true →
    ∃ t, sub (runG cj d ops).1 (hpath d h) = some t ∧ ∀ c ∈ counts t, c = 1

theorem closed_implies_closed_and : ClosedImpliesClosed true := by
  intro d hw ops h hv hq
  have hv' := valid_cons hv
  obtain ⟨hi, hg, hl⟩ := reach d hw ops hv'.2
  obtain ⟨t, hs, hn⟩ := wrapperAt_iff.mp (le_wrapperAt hl hv'.1)
  simp only [closedAtG, hs] at hq
  have hgt := sub_guarded (Or.inr hg) hs hn
  exact ⟨t, hs, done_counts (closedQ_true_done (sub_inv hi hs) (Or.inr hgt) (cnt0_of_guarded hgt) hq)⟩

theorem closed_false_before_and (d : Desc) (ops : List NOp) (h : Nat) (t : W)
    (hs : sub (runG true d ops).1 (hpath d h) = some t) (f : Path) (hf : f ∈ deps t)
    (hno : ∀ o ∈ ops, o.2 = Op.close → pre (hpath d o.1) (hpath d h ++ f) = false) :
    closedAtG true (runG true d ops).1 (hpath d h) = some false := by
  have hno' : ∀ o ∈ resolve d ops, o.2 = Op.close → pre o.1 (hpath d h ++ f) = false := by
    intro x hx hc
    simp only [resolve, List.mem_map] at hx
    obtain ⟨o, ho, rfl⟩ := hx
    exact hno o ho hc
  have hfl := runP_flag true (build d) (resolve d ops) (hpath d h ++ f) hno'
  have e1 : flagAt (runG true d ops).1 (hpath d h ++ f) = flagAt t f := flagAt_append hs f
  obtain ⟨fl, hfl2⟩ := deps_flag hf
  have e2 : flagAt (build d) (hpath d h ++ f) = some fl := by
    rw [← hfl]; exact e1.trans hfl2
  have : fl = false := fresh_flagAt (build_fresh d) e2
  subst this
  simp only [closedAtG, hs]
  exact closedQ_false_of_flag hf hfl2

/-! ### the property theorems (model of the code as it is) -/

/-- **never twice**: in every reachable state (after any sequence of ops on any wrapper handles)
    no resource has received more than one `Close`. -/
theorem C19_never_twice (d : Desc) (hw : d.isWrapper = true) (ops : List NOp)
    (hv : validOps d ops = true) : ∀ c ∈ counts (run d ops).1, c ≤ 1 :=
  never_twice_and d hw ops hv

/-- **close closes the subtree once**: after a `Close` on handle `h` — immediately and after
    any further ops on any handles — every resource under `h` has received exactly one `Close`,
    a further `Close` on `h` returns success (and changes nothing), and `Closed()` on `h` answers
    true; whatever the nesting depth, whether or not a resource's own close failed. -/
theorem C19_close_closes_subtree_once (d : Desc) (hw : d.isWrapper = true) (pre post : List NOp)
    (h : Nat) (hv : validOps d (pre ++ (h, Op.close) :: post) = true) :
    ∃ t, sub (run d (pre ++ (h, Op.close) :: post)).1 (hpath d h) = some t ∧
      (∀ c ∈ counts t, c = 1) ∧
      closeAt (run d (pre ++ (h, Op.close) :: post)).1 (hpath d h)
        = ((run d (pre ++ (h, Op.close) :: post)).1, true) ∧
      closedAt (run d (pre ++ (h, Op.close) :: post)).1 (hpath d h) = some true :=
  close_closes_subtree_once_and d hw pre post h hv

/-- **reports closed ⇒ is closed**: whenever `Closed()` on a wrapper handle answers true, every
    resource under that handle has received exactly one `Close`. -/
theorem C19_closed_implies_closed : ClosedImpliesClosed Gen.c19PairClosedAnd :=
  closed_implies_closed_and

/-- with `||` in `ReadWriteCloser.Closed()` the statement is false: a pair over an already-safe
    reader that the caller closes through its own handle reports closed while its writer's
    resource has not been closed. -/
theorem C19_witness_pair_or : ¬ ClosedImpliesClosed false := by
  intro hc
  have := hc (.pair (.safe .reader (.res 0 false false)) (.res 1 false false)) rfl
    [(1, Op.close)] 0 (by decide) (by decide)
  obtain ⟨t, hs, hall⟩ := this
  have e : t = (runG false (.pair (.safe .reader (.res 0 false false)) (.res 1 false false))
      [(1, Op.close)]).1 := by
    have h2 : sub (runG false (.pair (.safe .reader (.res 0 false false)) (.res 1 false false))
      [(1, Op.close)]).1 [] = some t := hs
    rw [sub_nil] at h2; exact (Option.some.inj h2).symm
  subst e
  exact absurd (hall 0 (by decide)) (by decide)

/-- **false before**: `Closed()` on handle `h` answers false as long as, for at least one of the
    Safe* objects `f` whose flags make up `h`'s status (`deps`: the object itself, the embedded
    Safe* object of a Named*/Simulated/StreamWrapped wrapper, each of the two halves of a pair), no
    `Close` has been issued on that object or on a handle enclosing it (`pre q p`: `q` is `p` or
    encloses it).  In particular: no `Close` on `h`, on a handle enclosing `h`, and — for a pair —
    on at most one of its halves. -/
theorem C19_closed_false_before (d : Desc) (ops : List NOp) (h : Nat) (t : W)
    (hs : sub (run d ops).1 (hpath d h) = some t) (f : Path) (hf : f ∈ deps t)
    (hno : ∀ o ∈ ops, o.2 = Op.close → pre (hpath d o.1) (hpath d h ++ f) = false) :
    closedAt (run d ops).1 (hpath d h) = some false :=
  closed_false_before_and d ops h t hs f hf hno

/-- every wrapper object has at least one such Safe* object (so the previous theorem applies) -/
theorem C19_status_objects_exist (d : Desc) (hw : d.isWrapper = true) (ops : List NOp) (h : Nat)
    (hv : validOps d ((h, Op.closed) :: ops) = true) :
    ∃ t, sub (run d ops).1 (hpath d h) = some t ∧ deps t ≠ [] := by
  have hv' := valid_cons hv
  obtain ⟨_, hg, hl⟩ := reach d hw ops hv'.2
  obtain ⟨t, hs, hn⟩ := wrapperAt_iff.mp (le_wrapperAt hl hv'.1)
  exact ⟨t, hs, deps_ne_nil (sub_guarded (Or.inr hg) hs hn)⟩

/-- with no `Close` at all, no resource has been closed -/
theorem C19_no_close_no_effect (d : Desc) (ops : List NOp) (hn : ∀ o ∈ ops, o.2 ≠ Op.close) :
    ∀ c ∈ counts (run d ops).1, c = 0 := by
  have hn' : ∀ o ∈ resolve d ops, o.2 ≠ Op.close := by
    intro x hx
    simp only [resolve, List.mem_map] at hx
    obtain ⟨o, ho, rfl⟩ := hx
    exact hn o ho
  exact fresh_counts (runP_noclose_fresh true (build_fresh d) _ hn')

/-! ### corollaries for the outermost wrapper (handle 0): the former statements -/

/-- as soon as the sequence contains a `Close` on the outermost wrapper, every resource of the
    composition has received exactly one `Close`, whatever else was or is done on any handle;
    repeats return success and `Closed()` answers true -/
theorem C19_outermost_close_once (d : Desc) (hw : d.isWrapper = true) (pre post : List NOp)
    (hv : validOps d (pre ++ (0, Op.close) :: post) = true) :
    (∀ c ∈ counts (run d (pre ++ (0, Op.close) :: post)).1, c = 1) ∧
    close (run d (pre ++ (0, Op.close) :: post)).1 = ((run d (pre ++ (0, Op.close) :: post)).1, true) ∧
    closedQ (run d (pre ++ (0, Op.close) :: post)).1 = some true := by
  obtain ⟨t, hs, h1, h2, h3⟩ := close_closes_subtree_once_and d hw pre post 0 hv
  rw [hpath_zero] at hs h2 h3
  rw [sub_nil] at hs
  cases hs
  refine ⟨h1, ?_, ?_⟩
  · have : closeAtG true (runG true d (pre ++ (0, Op.close) :: post)).1 []
        = closeG true (runG true d (pre ++ (0, Op.close) :: post)).1 := by
      cases (runG true d (pre ++ (0, Op.close) :: post)).1 <;> rfl
    rw [this] at h2; exact h2
  · have h3' : closedQG true (runG true d (pre ++ (0, Op.close) :: post)).1 = some true := by
      simpa [closedAtG, sub_nil] using h3
    exact h3'

/-- before any `Close` (on any handle) the outermost wrapper's `Closed()` answers false -/
theorem C19_outermost_closed_false_before (d : Desc) (hw : d.isWrapper = true) (ops : List NOp)
    (hv : validOps d ops = true) (hn : ∀ o ∈ ops, o.2 ≠ Op.close) :
    closedQ (run d ops).1 = some false := by
  obtain ⟨_, hg, _⟩ := reach d hw ops hv
  obtain ⟨f, hf⟩ := List.exists_mem_of_ne_nil _ (deps_ne_nil hg)
  have := closed_false_before_and d ops 0 (runG true d ops).1
    (by rw [hpath_zero]; exact sub_nil _) f hf (fun o ho hc => absurd hc (hn o ho))
  rw [hpath_zero] at this
  have this' : closedQG true (runG true d ops).1 = some false := by
    simpa [closedAtG, sub_nil] using this
  exact this'

/-- the outputs of a run are the per-op results of `stepAt` on the states passed through (so the
    statements above, about `closeAt`/`closedAt` of reachable states, speak about what a caller sees) -/
theorem C19_trace_split (d : Desc) (pre post : List NOp) (o : NOp) :
    (run d (pre ++ o :: post)).2 =
      (run d pre).2 ++
        (stepAtG Gen.c19PairClosedAnd (run d pre).1 (hpath d o.1) o.2).2 ::
          (runPG Gen.c19PairClosedAnd
            (stepAtG Gen.c19PairClosedAnd (run d pre).1 (hpath d o.1) o.2).1 (resolve d post)).2 := by
  simp only [run, runG, resolve, List.map_append, List.map_cons, runP_append_out]
  rfl

/-! ### non-vacuity -/

/-- a depth-4 composition with a failing resource -/
def exD : Desc :=
  .named .conn (.sim (.pair (.named .reader (.res 0 true true)) (.safe .writer (.safe .writer (.res 1 false false)))))

example : exD.isWrapper = true := rfl
-- handles: 0 Nc, 1 I, 2 P, 3 Nr, 4 R0, 5 Sw, 6 Sw (same object as 5), 7 R1
example : handles exD = [[], [false, false], [false, false, false, false],
    [false, false, false, false, false, false], [false, false, false, false, false, false, false, false],
    [false, false, false, false, true], [false, false, false, false, true],
    [false, false, false, false, true, false]] := by decide
example : validOps exD [(0, .closed), (5, .close), (6, .closed), (2, .closed), (3, .close), (2, .closed),
    (1, .closed), (0, .close), (0, .closed), (3, .close)] = true := by decide
example : validOps exD [(4, .close)] = false := by decide     -- bare resource: not a wrapper handle
example : (run exD [(0, .closed), (5, .close), (6, .closed), (2, .closed), (3, .close), (2, .closed),
    (1, .closed), (0, .close), (0, .closed), (3, .close)]).2
    = [.bool false, .ok, .bool true, .bool false, .err, .bool false, .bool false, .ok, .bool true, .ok] := by
  decide
example : counts (run exD [(5, .close), (3, .close), (0, .close), (3, .close)]).1 = [1, 1] := by decide
example : counts (run exD [(0, .closed), (0, .read), (0, .close), (0, .close), (0, .closed)]).1 = [1, 1] := by
  decide

/-- the seeded scenario: NamedStream over a pair whose reader is an already-safe SafeReader
    (handle 2, shared with the pair) that the caller closes through its own handle; then the pair
    and the outer wrapper are queried and closed.  Handles: 0 Ns, 1 P, 2 Sr, 3 R0, 4 R1. -/
def exSeed : Desc := .named .stream (.pair (.safe .reader (.res 0 false false)) (.res 1 false false))

example : handles exSeed = [[], [false, false], [false, false, false], [false, false, false, false],
    [false, false, true, false]] := by decide
example : validOps exSeed [(2, .close), (1, .closed), (0, .closed), (0, .close), (0, .closed), (1, .closed)] = true := by
  decide
-- the code as it is (`&&`): pair and outer wrapper answer false, the outer Close closes the writer
example : (run exSeed [(2, .close), (1, .closed), (0, .closed), (0, .close), (0, .closed), (1, .closed)]).2
    = [.ok, .bool false, .bool false, .ok, .bool true, .bool true] := by decide
example : counts (run exSeed [(2, .close), (1, .closed), (0, .closed), (0, .close)]).1 = [1, 1] := by decide
-- the `||` variant: pair reports closed at once, the outer Close skips it, the writer stays open
example : (runG false exSeed [(2, .close), (1, .closed), (0, .closed), (0, .close), (0, .closed), (1, .closed)]).2
    = [.ok, .bool true, .bool false, .ok, .bool true, .bool true] := by decide
example : counts (runG false exSeed [(2, .close), (1, .closed), (0, .closed), (0, .close), (0, .close)]).1 = [1, 0] := by
  decide
-- hypotheses of `C19_closed_false_before` are met in the seeded scenario: the pair's writer half
-- (`[true]` below the pair) is touched by no Close
example : [true] ∈ deps ((sub (run exSeed [(2, .close)]).1 (hpath exSeed 1)).getD (.deleg (.res 0 false false 0))) := by
  decide
example : ∀ o ∈ [((2 : Nat), Op.close)], o.2 = Op.close →
    pre (hpath exSeed o.1) (hpath exSeed 1 ++ [true]) = false := by decide

/-- Observation outside the property (the same *object* on both sides of a pair is closed twice):
    kept as a witness so the side condition "distinct resources" is visible. -/
example : counts (run (.pair (.res 0 false false) (.res 0 false false)) [(0, .close)]).1 = [1, 1] := by
  decide

end SA.Wrappers

#print axioms SA.Wrappers.C19_never_twice
#print axioms SA.Wrappers.C19_close_closes_subtree_once
#print axioms SA.Wrappers.C19_closed_implies_closed
#print axioms SA.Wrappers.C19_witness_pair_or
#print axioms SA.Wrappers.C19_closed_false_before
#print axioms SA.Wrappers.C19_status_objects_exist
#print axioms SA.Wrappers.C19_no_close_no_effect
#print axioms SA.Wrappers.C19_outermost_close_once
#print axioms SA.Wrappers.C19_outermost_closed_false_before
#print axioms SA.Wrappers.C19_trace_split

namespace SA.PkgState
/-- **no_hidden_process_state**: the models of this property are functions of their arguments and of the objects they are
    handed; the packages they model keep no package-level variables besides these (regenerated inventory: error
    sentinels, tables, compiled patterns, the two session time-outs).  A new package-level variable — a counter, a cache, a
    scratch buffer, a shared map, a registry — would make later calls depend on earlier ones, or concurrent calls on each
    other, outside anything a per-call comparison of model and code can see. -/
theorem C19_no_hidden_process_state :
    Gen.pkgVarNames_streams = ["Localhost"] := by decide
end SA.PkgState

#print axioms SA.PkgState.C19_no_hidden_process_state

namespace SA.Wrappers
/-- the delegating wrappers (`deleg` in the model: Named*, SimulatedConnection, StreamWrappedConnection, and the
    multiplexer-stream wrapper) declare no `Close` / `Closed` of their own (regenerated): both are the embedded Safe*
    value's, as `closeG` / `closedQG` on `deleg` say — in particular a stream-wrapped connection's status does not
    depend on its underlying net.Conn, which serves addresses and deadlines only. -/
theorem C19_delegating_wrappers_have_no_own_close : Gen.c19DelegOwnMethods = [] := by decide
end SA.Wrappers

#print axioms SA.Wrappers.C19_delegating_wrappers_have_no_own_close

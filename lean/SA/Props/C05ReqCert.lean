import SA.Model.ReqCert
import SA.Gen.C05ReqCert
/-
  C05 — "a server configured to require client certificates admits only clients presenting a certificate signed by its
  CA", on carriers the server does not encrypt itself.
-/
namespace SA.ReqCert

/-- **required_certificate_is_presented**: with the enforcement rule, whatever the options and whatever the client does,
    a client is admitted by a server that requires client certificates only if it asked for StartTLS, the TLS
    configuration was available and its certificate verified. -/
theorem C05_required_certificate_is_presented (tlsOk : Bool) (c : Client) (h : admitted true true tlsOk c = true) :
    c = .startTls true ∧ tlsOk = true := by
  cases c with
  | plain => simp [admitted] at h
  | startTls ok => cases ok <;> cases tlsOk <;> simp_all [admitted]

/-- nothing changes for servers that do not require client certificates, and for clients that do authenticate -/
theorem C05_enforcement_changes_nothing_else (e tlsOk : Bool) (c : Client) :
    admitted e false tlsOk c = admitted false false tlsOk c ∧
    admitted e true tlsOk (.startTls true) = tlsOk := by
  cases c <;> cases e <;> simp [admitted]

/-- the code has the rule (regenerated from internal/socketace/server.go): the plain answer of the upgrade step is
    preceded by a refusal under "carrier not encrypted by the server and client certificates required"; the announce step
    refuses when the requirement is set and the TLS configuration cannot be loaded; the requirement is the manager's -/
theorem C05_code_enforces_requirement :
    Gen.c05PlainUpgradeGuards = ["!sc.secure&&sc.clientCertRequired()"] ∧
    Gen.c05AnnounceRefusesUnloadable = true ∧ Gen.c05RequirementFromManager = true := by decide

/-- witness (the behaviour before the repair): without the rule a client that never asks for StartTLS is admitted by a
    server that requires client certificates, with or without a loadable TLS configuration -/
theorem C05_witness_plain_client_admitted :
    admitted false true true .plain = true ∧ admitted false true false .plain = true ∧
    admitted true true true .plain = false := by decide

end SA.ReqCert

#print axioms SA.ReqCert.C05_required_certificate_is_presented
#print axioms SA.ReqCert.C05_enforcement_changes_nothing_else
#print axioms SA.ReqCert.C05_code_enforces_requirement
#print axioms SA.ReqCert.C05_witness_plain_client_admitted

/-
  C09 — DNS tunnel requests survive the wire for every command and size.

  Property theorems only; helper lemmas are in SA.Proofs.DnsWire / SA.Proofs.DnsReq.

  Quantifiers: every request (`Req`: version, options, packet, downstream-codec probe, upstream pattern
  probe, fragment-size probe) with fields in range (`ReqOk`: user id < 1296 = Gen.C09.maxUserId, sequence
  and ack numbers < 65536, fragment sizes < 2^32 (2^32-1 is the wire's "absent" sentinel), codec
  letters from the registry, payload any byte string of any length, probe patterns without '.' and
  '\'), any three name-safe cache characters, every tunnel domain made of labels that need no escaping,
  every pair of codecs (`b32` for the hard-wired Base32, `up` for the selected upstream codec) that
  satisfies C08's theorems `roundtrip` (on byte strings) and `alphabet_safe` — taken as hypotheses here,
  never as axioms.  The size quantifier is "every payload for which the client's PrepareHostname does
  not report ErrTooLong"; `C09_mtu_...` below relates that to the fragment size the client computes.

  Modelled, not verified: miekg/dns packDomainName / UnpackDomainName (SA.Model.DnsWire.packName,
  unpackName), validated on every generated case by the `dnsreq` harness component.
-/
import SA.Proofs.DnsReq
import SA.Gen.PkgVars
namespace SA.DnsReq
open SA.DnsWire SA.WireCodec

/-- **C09, round trip.**  Whenever the client can form the question (PrepareHostname accepts it), real
    wire coding succeeds and the server decodes the very same request object. -/
theorem C09_request_roundtrip (b32 up : Codec) (hb : b32.Good) (hu : up.Good) (sb : b32.Safe) (su : up.Safe)
    (cache domain : List Nat) (dls : List (List Nat)) (hc : CacheOk cache) (hdom : DomainOk domain dls)
    (r : Req) (hr : ReqOk r) (host : List Nat)
    (hfit : prepareHostname (encodeReq b32 up cache r) domain = some host) :
    ∃ labels, nameOverWire host = .ok labels
      ∧ roundTrip b32 up cache domain r = .ok (unpackName labels) labels r := by
  have hdata : DataOk (encodeReq b32 up cache r) :=
    ⟨encodeReq_ne_nil b32 up cache r, encodeReq_safe b32 up sb su cache hc.2 r hr⟩
  obtain ⟨chunks, _, _, _, _, _, hwire, hstrip⟩ :=
    prepareHostname_wire _ domain host dls hdata hdom hfit
  refine ⟨chunks ++ dls, hwire, ?_⟩
  unfold roundTrip
  simp only [hfit, hwire, hstrip, decodeReq_encodeReq b32 up hb hu cache hc.1 r hr]

/-- **C09, valid question.**  In the same situation every label of the emitted name has 1..63 octets,
    the name has at most 253 octets (in fact ≤ HostnameMaxLen − 2), and the name the server sees is the
    unpacked form of exactly these labels. -/
theorem C09_labels_ok (b32 up : Codec) (sb : b32.Safe) (su : up.Safe)
    (cache domain : List Nat) (dls : List (List Nat)) (hc : CacheOk cache) (hdom : DomainOk domain dls)
    (r : Req) (hr : ReqOk r) (host : List Nat)
    (hfit : prepareHostname (encodeReq b32 up cache r) domain = some host) :
    ∃ labels, nameOverWire host = .ok labels
      ∧ (∀ l ∈ labels, 1 ≤ l.length ∧ l.length ≤ 63)
      ∧ host.length ≤ 253
      ∧ wireOctets labels = host.length + 1 := by
  have hdata : DataOk (encodeReq b32 up cache r) :=
    ⟨encodeReq_ne_nil b32 up cache r, encodeReq_safe b32 up sb su cache hc.2 r hr⟩
  obtain ⟨chunks, _, _, hbounds, hhost, hlen, hwire, _⟩ :=
    prepareHostname_wire _ domain host dls hdata hdom hfit
  refine ⟨chunks ++ dls, hwire, ?_, ?_, ?_⟩
  · intro l hl
    rcases List.mem_append.mp hl with h | h
    · have := hbounds l h
      refine ⟨?_, this.2⟩
      cases l with
      | nil => exact absurd rfl this.1
      | cons _ _ => simp
    · have := hdom.good l h
      refine ⟨?_, this.2.1⟩
      cases l with
      | nil => exact absurd rfl this.1
      | cons _ _ => simp
  · have : SA.Gen.hostnameMaxLen - SA.Gen.C09.prepareSlack ≤ 253 := by decide
    omega
  · unfold wireOctets
    rw [← dotted_length, ← hhost]

/-- **C09, too-long requests are reported, never sent.**  When PrepareHostname refuses, the client gets
    an error and nothing goes on the wire. -/
theorem C09_too_long_reported (b32 up : Codec) (cache domain : List Nat) (r : Req)
    (h : prepareHostname (encodeReq b32 up cache r) domain = none) :
    roundTrip b32 up cache domain r = .encError := by
  unfold roundTrip; simp [h]

/-! ### the computed upstream fragment size

`upstreamMtu` is getUpstreamMtu with the codec ratio as an exact rational.  That the Go float
computation returns exactly this number is checked exhaustively (every domain length 0..260 × every
registry codec × multi-query flag) by the `dnsreq` component on every run. -/

/-- the exact formula: mtu = ⌊59·((247 − L)·den − 10·num) / (60·num)⌋ (single-query mode) -/
theorem C09_mtu_formula (L num den : Nat) :
    upstreamMtu L num den false =
      (if (59 : Int) * ((247 - (L : Int)) * den - 10 * num) < 0 then none
       else some ((59 * ((247 - (L : Int)) * den - 10 * num)) / (60 * (num : Int))).toNat) := by
  have h1 : (SA.Gen.hostnameMaxLen : Int) = 253 := by decide
  have h2 : (SA.Gen.labelMaxLen : Int) = 60 := by decide
  unfold upstreamMtu
  simp only [h1, h2, Bool.false_eq_true, if_false]
  have : (253 : Int) - L - 2 - 4 = 247 - L := by omega
  rw [this]
  simp only [show (60 : Int) - 1 = 59 from rfl]

/-! ### non-vacuity: the hypotheses are satisfiable together, and the conclusion is the intended one -/

/-- a tiny codec that provably meets both C08 hypotheses (two letters a..p per byte) -/
def nibble : Codec :=
  ⟨fun bs => bs.flatMap (fun b => [97 + b / 16 % 16, 97 + b % 16]),
   let rec dec : List Nat → Option (List Nat)
     | [] => some []
     | [_] => none
     | x :: y :: rest => (dec rest).map (((x - 97) * 16 + (y - 97)) :: ·)
   dec⟩

theorem nibble_good : nibble.Good := by
  constructor
  intro bs hbs
  induction bs with
  | nil => rfl
  | cons b bs ih =>
    have hb : b < 256 := hbs b (by simp)
    have hbs' : SA.Bytes bs := fun x hx => hbs x (by simp [hx])
    have := ih hbs'
    simp only [nibble, List.flatMap_cons, List.cons_append, List.nil_append] at this ⊢
    simp only [nibble.dec, this, Option.map_some]
    congr 2
    omega

theorem nibble_safe : nibble.Safe := by
  constructor
  intro bs _ x hx
  simp only [nibble, List.mem_flatMap] at hx
  obtain ⟨b, _, hx⟩ := hx
  simp at hx
  omega

example :
    let cache := [120, 121, 122]            -- "xyz"
    let domain := [116, 46, 101, 120]       -- "t.ex"
    let r := Req.packet 1295 65535 (some (65535, [0, 46, 92, 255]))
    ∃ host labels, prepareHostname (encodeReq nibble nibble cache r) domain = some host
      ∧ nameOverWire host = .ok labels
      ∧ roundTrip nibble nibble cache domain r = .ok (unpackName labels) labels r := by
  intro cache domain r
  have hs : (prepareHostname (encodeReq nibble nibble cache r) domain).isSome = true := by decide
  obtain ⟨host, hfit⟩ := Option.isSome_iff_exists.mp hs
  have hc : CacheOk cache := by unfold CacheOk; decide
  have hdom : DomainOk domain [[116], [101, 120]] := by
    refine ⟨by decide, ?_, ?_⟩
    · unfold GoodLabel NoSyntax; decide
    · unfold PlainLabel; decide
  have hr : ReqOk r := by
    refine ⟨by decide, by decide, ?_⟩
    intro p hp
    cases hp
    exact ⟨by decide, by decide⟩
  obtain ⟨labels, h1, h2⟩ :=
    C09_request_roundtrip nibble nibble nibble_good nibble_good nibble_safe nibble_safe
      cache domain _ hc hdom r hr host hfit
  exact ⟨host, labels, hfit, h1, h2⟩

/-- the executable model on a concrete request with the local Base32: the server sees the same packet -/
example :
    (match roundTrip base32 base32 [97, 98, 99] [97, 46, 98] (.packet 7 300 (some (9, [1, 2, 250]))) with
     | .ok _ _ r => r == .packet 7 300 (some (9, [1, 2, 250]))
     | _ => false) = true := by decide

end SA.DnsReq

#print axioms SA.DnsReq.C09_request_roundtrip
#print axioms SA.DnsReq.C09_labels_ok
#print axioms SA.DnsReq.C09_too_long_reported
#print axioms SA.DnsReq.C09_mtu_formula

namespace SA.PkgState
/-- **no_hidden_process_state**: the models of this property are functions of their arguments and of the objects they are
    handed; the packages they model keep no package-level variables besides these (regenerated inventory: error
    sentinels, tables, compiled patterns, the two session time-outs).  A new package-level variable — a counter, a cache, a
    scratch buffer, a shared map, a registry — would make later calls depend on earlier ones, or concurrent calls on each
    other, outside anything a per-call comparison of model and code can see. -/
theorem C09_no_hidden_process_state :
    Gen.pkgVarNames_dnscommands = ["BadCodec", "BadCommand", "BadConn", "BadErrors", "BadFrag", "BadIp", "BadLen", "BadServerFull", "BadUser", "BadVersion", "CmdError", "CmdLogin", "CmdPacket", "CmdSetOptions", "CmdTestDownstreamEncoder", "CmdTestDownstreamFragmentSize", "CmdTestMultiQuery", "CmdTestUpstreamEncoder", "CmdVersion", "Commands", "Digits", "ErrTimeout", "LazyModeOk", "NoData", "VersionNotOk", "VersionOk"] ∧
    Gen.pkgVarNames_dnsutil = ["DotRegex", "DownloadCodecCheck", "ErrCaseSwap", "ErrDeadlineExceeded", "ErrInvalidSequenceNumber", "ErrStreamBroken", "ErrTooLong", "QueryTypeA", "QueryTypeAAAA", "QueryTypeCname", "QueryTypeMx", "QueryTypeNull", "QueryTypePrivate", "QueryTypeSrv", "QueryTypeTxt", "QueryTypesByPriority"] ∧
    Gen.pkgVarNames_enc = ["Base128Encoding", "Base192Encoding", "Base32Encoding", "Base64Encoding", "Base64uEncoding", "Base85Encoding", "Base91Encoding", "RawEncoding", "cb128Invert", "cbInitialized", "iodineBase32Encoding", "iodineBase64Encoding", "iodineBase64uEncoding", "iodineBase91Encoding"] ∧
    Gen.singletonFields_enc = [] ∧
    Gen.singletonFields_dnscommands = ["Command.Code", "Command.NeedsUserId", "Command.NewRequest", "Command.NewResponse"] := by decide
end SA.PkgState

#print axioms SA.PkgState.C09_no_hidden_process_state

/-
  C07 — DNS tunnel delivers every byte exactly once, in order.

  Property theorems only; the model is SA.Model.Queue (InQueue/OutQueue of
  internal/streams/dns/util/queue.go and the packet exchange of SendAndReceive / packet),
  the invariant and its preservation lemmas are in SA.Proofs.Queue.

  Quantifiers: every pair of starting sequence numbers (one per direction), every fragment size
  mtu > 0, every history (of ANY length — in particular beyond 65536 packets per direction) of
  writes and reads at both ends and of exchanges with fate ∈ {delivered, query lost, answer lost,
  query duplicated (client gets the first / the second answer), an older query replayed}.

  Hypothesis `WellBounded` (decidable on the history): every Write is cut into at most `Bd` chunks,
  a replayed query is at most `K+1` exchanges old, and `Bd + K + MaxCachedChunks + 3 ≤ 65536`.
  With MaxCachedChunks = 128 this allows e.g. replays up to 60000 exchanges late and writes of up to
  5000 fragments.  The excluded point (a query replayed ≈ 65409 or more exchanges late aliases into
  the receiver's acceptance window) is inherent to 16-bit numbering; see notes/C07.md.
-/
import SA.Proofs.Queue
import SA.Proofs.QueueLive
import SA.Proofs.QueueWrap
import SA.Proofs.DnsWrites
import SA.Proofs.DnsPoll
import SA.Model.DnsExchange
import SA.Proofs.DnsAnswers
import SA.Gen.PkgVars
namespace SA.Queue

/-- the source facts the proofs rely on (all regenerated: SA.Gen.c07*) -/
def Cfg.Good (c : Cfg) : Prop :=
  c.outTrim = 1 ∧ c.wlo = 1 ∧ c.whi = c.max ∧ c.ackOff = 1 ∧ 1 ≤ c.max

instance (c : Cfg) : Decidable c.Good := by unfold Cfg.Good; infer_instance

/-- the current tree: cleanAckedChunks keeps the NEWEST MaxCachedChunks acks, window loop
    next+1 … next+Max-1, ack = NextSeqNo-1.  Fails to compile when a regenerated fact changes. -/
theorem Cfg.gen_good : Cfg.gen.Good := by decide

/-- explicit, decidable well-boundedness of a history -/
def WellBounded (c : Cfg) (mtu K Bd : Nat) (evs : List Ev) : Prop :=
  0 < mtu ∧ Bd + K + c.max + 3 ≤ MOD ∧ evs.all (evOk mtu K Bd) = true

instance (c : Cfg) (mtu K Bd : Nat) (evs : List Ev) : Decidable (WellBounded c mtu K Bd evs) := by
  unfold WellBounded; infer_instance

theorem consts_of {c : Cfg} (hg : c.Good) {mtu K Bd : Nat} {evs : List Ev}
    (h : WellBounded c mtu K Bd evs) : Consts c (K + 1) Bd :=
  ⟨hg.1, hg.2.1, hg.2.2.1, hg.2.2.2.1, hg.2.2.2.2, by have := h.2.1; omega⟩

/-- every reachable state of a well-bounded history satisfies the invariant -/
theorem reach_inv {c : Cfg} (hg : c.Good) {sab sba mtu K Bd : Nat} {evs : List Ev}
    (hsab : sab < MOD) (hsba : sba < MOD) (h : WellBounded c mtu K Bd evs) :
    SysInv c sab sba K Bd (runS c mtu (init sab sba) evs) :=
  run_inv h.1 (consts_of hg h) evs _ (init_inv hsab hsba) h.2.2

/-- the statement of safety + "a drained out-queue means delivered", for a given set of source facts -/
def WrapStmt (c : Cfg) : Prop :=
  ∀ (sab sba mtu K Bd : Nat) (evs : List Ev), sab < MOD → sba < MOD → WellBounded c mtu K Bd evs →
    let st := runS c mtu (init sab sba) evs
    st.b.inq.rel <+: st.a.acc ∧ st.a.inq.rel <+: st.b.acc ∧
    (st.a.outq.out = [] → st.b.inq.rel = st.a.acc) ∧ (st.b.outq.out = [] → st.a.inq.rel = st.b.acc)

/-- **safety**: whatever the history, the bytes released to the reader at either end are a prefix of
    the bytes accepted by the peer's writes — no gap, repeat or reordering. -/
theorem C07_safety (sab sba mtu K Bd : Nat) (evs : List Ev) (hsab : sab < MOD) (hsba : sba < MOD)
    (h : WellBounded Cfg.gen mtu K Bd evs) :
    (runS Cfg.gen mtu (init sab sba) evs).b.inq.rel <+: (runS Cfg.gen mtu (init sab sba) evs).a.acc ∧
    (runS Cfg.gen mtu (init sab sba) evs).a.inq.rel <+: (runS Cfg.gen mtu (init sab sba) evs).b.acc := by
  have inv := reach_inv Cfg.gen_good hsab hsba h
  exact ⟨by rw [inv.acca]; exact inv.lab.prefix, by rw [inv.accb]; exact inv.lba.prefix⟩

/-- **write_ok_delivered**: `OutQueue.Write` returns success only once `out` is empty; in every
    reachable state with an empty `out`, every byte accepted so far has been released at the peer. -/
theorem C07_write_ok_delivered (sab sba mtu K Bd : Nat) (evs : List Ev) (hsab : sab < MOD)
    (hsba : sba < MOD) (h : WellBounded Cfg.gen mtu K Bd evs) :
    ((runS Cfg.gen mtu (init sab sba) evs).a.outq.out = [] →
      (runS Cfg.gen mtu (init sab sba) evs).b.inq.rel = (runS Cfg.gen mtu (init sab sba) evs).a.acc) ∧
    ((runS Cfg.gen mtu (init sab sba) evs).b.outq.out = [] →
      (runS Cfg.gen mtu (init sab sba) evs).a.inq.rel = (runS Cfg.gen mtu (init sab sba) evs).b.acc) := by
  have inv := reach_inv Cfg.gen_good hsab hsba h
  exact ⟨fun h0 => by rw [inv.acca]; exact inv.lab.drained h0,
         fun h0 => by rw [inv.accb]; exact inv.lba.drained h0⟩

/-- **wrap**: the same two facts with the history length unbounded — there is no hypothesis on the
    number of packets, so histories that cross the 16-bit wrap any number of times are covered.
    Holds for the regenerated source facts (keep-newest trimming). -/
theorem C07_wrap : WrapStmt Cfg.gen := by
  intro sab sba mtu K Bd evs hsab hsba h
  have inv := reach_inv Cfg.gen_good hsab hsba h
  exact ⟨by rw [inv.acca]; exact inv.lab.prefix, by rw [inv.accb]; exact inv.lba.prefix,
         fun h0 => by rw [inv.acca]; exact inv.lab.drained h0,
         fun h0 => by rw [inv.accb]; exact inv.lba.drained h0⟩

/-! non-vacuity -/

/-- a concrete well-bounded history with every fate (K = 60000, Bd = 5000) -/
example : WellBounded Cfg.gen 2 60000 5000
    [.write false [1, 2, 3], .xchg .ql, .xchg .d, .xchg (.rp 1), .write true [9], .xchg .al,
     .xchg .dup1, .xchg .dup2, .read true 2, .xchg (.rp 60000), .xchg .d] := by decide

/-- histories of any length are well-bounded: 70000 rounds of (write one byte, delivered exchange) -/
example : WellBounded Cfg.gen 1 0 1 ((List.replicate 70000 [Ev.write false [7], Ev.xchg .d]).flatten) := by
  refine ⟨by decide, by decide, ?_⟩
  rw [List.all_eq_true]
  intro e he
  obtain ⟨l, hl, hel⟩ := List.mem_flatten.mp he
  obtain ⟨_, rfl⟩ := List.mem_replicate.mp hl
  simp only [List.mem_cons, List.not_mem_nil, or_false] at hel
  rcases hel with rfl | rfl <;> decide

/-- forged packets are outside the hypothesis -/
example : ¬ WellBounded Cfg.gen 1 10 10 [.inject true 5 [1]] := by decide

/-! ## Eventual delivery: once the path stops losing, everything accepted arrives -/

/-- regenerated fact the liveness proof needs in addition to `Cfg.gen_good`: the receiver's duplicate
    cache is trimmed with `acked = acked[1:]` (it keeps the newest numbers, in particular the last one
    released).  Fails to compile when the regenerated fact changes. -/
theorem Cfg.gen_live : Cfg.gen.inTrim = 2 := by decide

/-- every reachable state of a well-bounded history also satisfies the cache characterisation -/
theorem reach_live {c : Cfg} (hg : c.Good) (ht : c.inTrim = 2) {sab sba mtu K Bd : Nat} {evs : List Ev}
    (hsab : sab < MOD) (hsba : sba < MOD) (h : WellBounded c mtu K Bd evs) :
    LiveInv c sab sba K Bd (runS c mtu (init sab sba) evs) :=
  run_live h.1 (consts_of hg h) ht evs _ (init_live hsab hsba) h.2.2

/-- **eventual delivery**: take the state `st` after ANY well-bounded history (losses, duplicates,
    replays, queued and half-acknowledged chunks in both directions) and let `n` consecutive exchanges be
    delivered (`tail n`; an exchange in which A has nothing to send is a poll).  If
    `n ≥ |A.out|` and `n ≥ |B.out| + 1` — in particular if `n ≥ |A.out| + |B.out| + 1` — then afterwards
    both out-queues are empty, nothing further was accepted, and each end has released exactly the bytes
    the other end's writes accepted.
    (`|B.out| + 1`: B's chunk travels in an answer and its acknowledgement only in the *next* query.) -/
theorem C07_eventual_delivery (sab sba mtu K Bd : Nat) (evs : List Ev) (hsab : sab < MOD) (hsba : sba < MOD)
    (h : WellBounded Cfg.gen mtu K Bd evs) (n : Nat)
    (hna : (runS Cfg.gen mtu (init sab sba) evs).a.outq.out.length ≤ n)
    (hnb : (runS Cfg.gen mtu (init sab sba) evs).b.outq.out.length + 1 ≤ n) :
    (runS Cfg.gen mtu (runS Cfg.gen mtu (init sab sba) evs) (tail n)).a.outq.out = [] ∧
    (runS Cfg.gen mtu (runS Cfg.gen mtu (init sab sba) evs) (tail n)).b.outq.out = [] ∧
    (runS Cfg.gen mtu (runS Cfg.gen mtu (init sab sba) evs) (tail n)).a.acc
      = (runS Cfg.gen mtu (init sab sba) evs).a.acc ∧
    (runS Cfg.gen mtu (runS Cfg.gen mtu (init sab sba) evs) (tail n)).b.acc
      = (runS Cfg.gen mtu (init sab sba) evs).b.acc ∧
    (runS Cfg.gen mtu (runS Cfg.gen mtu (init sab sba) evs) (tail n)).b.inq.rel
      = (runS Cfg.gen mtu (init sab sba) evs).a.acc ∧
    (runS Cfg.gen mtu (runS Cfg.gen mtu (init sab sba) evs) (tail n)).a.inq.rel
      = (runS Cfg.gen mtu (init sab sba) evs).b.acc :=
  tail_drains (consts_of Cfg.gen_good h) Cfg.gen_live (reach_live Cfg.gen_good Cfg.gen_live hsab hsba h)
    ⟨hna, hnb⟩

/-- the bound of the brief: `|A.out| + |B.out| + 1` delivered exchanges are enough -/
example (sab sba mtu K Bd : Nat) (evs : List Ev) (hsab : sab < MOD) (hsba : sba < MOD)
    (h : WellBounded Cfg.gen mtu K Bd evs) (n : Nat)
    (hn : (runS Cfg.gen mtu (init sab sba) evs).a.outq.out.length
        + (runS Cfg.gen mtu (init sab sba) evs).b.outq.out.length + 1 ≤ n) :
    (runS Cfg.gen mtu (runS Cfg.gen mtu (init sab sba) evs) (tail n)).b.inq.rel
      = (runS Cfg.gen mtu (init sab sba) evs).a.acc :=
  (C07_eventual_delivery sab sba mtu K Bd evs hsab hsba h n (by omega) (by omega)).2.2.2.2.1

/-- **eventual delivery over a lossy continuation**: the delivered exchanges need not be consecutive.
    After ANY well-bounded history, let `tl` be any write-free continuation — exchanges of every fate
    (query lost, answer lost, duplicated, replays at most `K` old) and reads, in any order.  As soon as
    `tl` contains `n ≥ |A.out|`, `n ≥ |B.out| + 1` delivered exchanges (`countP isD`), both out-queues are
    empty afterwards and released = accepted in both directions: losses in between never undo progress
    (`xchg_mono`, `mono_measure`). -/
theorem C07_eventual_delivery_lossy (sab sba mtu K Bd : Nat) (evs tl : List Ev) (hsab : sab < MOD)
    (hsba : sba < MOD) (h : WellBounded Cfg.gen mtu K Bd evs) (htl : tl.all (tailOk K) = true)
    (hna : (runS Cfg.gen mtu (init sab sba) evs).a.outq.out.length ≤ tl.countP isD)
    (hnb : (runS Cfg.gen mtu (init sab sba) evs).b.outq.out.length + 1 ≤ tl.countP isD) :
    (runS Cfg.gen mtu (runS Cfg.gen mtu (init sab sba) evs) tl).a.outq.out = [] ∧
    (runS Cfg.gen mtu (runS Cfg.gen mtu (init sab sba) evs) tl).b.outq.out = [] ∧
    (runS Cfg.gen mtu (runS Cfg.gen mtu (init sab sba) evs) tl).a.acc
      = (runS Cfg.gen mtu (init sab sba) evs).a.acc ∧
    (runS Cfg.gen mtu (runS Cfg.gen mtu (init sab sba) evs) tl).b.acc
      = (runS Cfg.gen mtu (init sab sba) evs).b.acc ∧
    (runS Cfg.gen mtu (runS Cfg.gen mtu (init sab sba) evs) tl).b.inq.rel
      = (runS Cfg.gen mtu (init sab sba) evs).a.acc ∧
    (runS Cfg.gen mtu (runS Cfg.gen mtu (init sab sba) evs) tl).a.inq.rel
      = (runS Cfg.gen mtu (init sab sba) evs).b.acc :=
  lossy_tail_drains h.1 (consts_of Cfg.gen_good h) Cfg.gen_live
    (reach_live Cfg.gen_good Cfg.gen_live hsab hsba h) htl ⟨hna, hnb⟩

/-- non-vacuity: a continuation with every fate and reads between its three delivered exchanges -/
example : let tl : List Ev := [.xchg .ql, .xchg .d, .xchg .al, .read true 1, .xchg .dup2, .xchg .d, .xchg (.rp 3),
                               .read false 5, .xchg .dup1, .xchg .d]
    tl.all (tailOk 5) = true ∧ tl.countP isD = 3 := by decide

/-- all hypotheses hold together on a concrete history (two chunks queued at each end, start numbers
    65535 / 7, so the tail crosses the wrap) -/
example := C07_eventual_delivery_lossy 65535 7 1 5 2
  [.write false [1, 2], .write true [8, 9], .xchg .ql, .xchg .al]
  [.xchg .ql, .xchg .d, .xchg .al, .read true 1, .xchg .dup2, .xchg .d, .xchg (.rp 3), .read false 5,
   .xchg .dup1, .xchg .d]
  (by decide) (by decide) (by decide) (by decide) (by decide +kernel) (by decide +kernel)

example := C07_eventual_delivery 65535 7 1 5 2
  [.write false [1, 2], .write true [8, 9], .xchg .ql, .xchg .al] (by decide) (by decide) (by decide) 3
  (by decide +kernel) (by decide +kernel)

/-- one delivered exchange makes progress from every reachable state: the head of a non-empty `A.out`
    is delivered, acknowledged and removed; the variant of `B.out` (`nuB` = its length, plus one while A
    has not released its head) decreases -/
theorem C07_delivered_exchange_progress (sab sba mtu K Bd : Nat) (evs : List Ev) (hsab : sab < MOD)
    (hsba : sba < MOD) (h : WellBounded Cfg.gen mtu K Bd evs) :
    (xchgS Cfg.gen (runS Cfg.gen mtu (init sab sba) evs) .d).a.outq.out.length
      = (runS Cfg.gen mtu (init sab sba) evs).a.outq.out.length - 1 ∧
    nuB (xchgS Cfg.gen (runS Cfg.gen mtu (init sab sba) evs) .d)
      ≤ nuB (runS Cfg.gen mtu (init sab sba) evs) - 1 :=
  let p := d_progress (consts_of Cfg.gen_good h) (reach_live Cfg.gen_good Cfg.gen_live hsab hsba h)
  ⟨p.1, p.2.1⟩

/-! non-vacuity and tightness: two chunks queued at each end after a lost query and a lost answer;
    `max 2 (2+1) = 3` delivered exchanges drain everything, two do not. -/
example : WellBounded Cfg.gen 1 0 2 [.write false [1, 2], .write true [8, 9], .xchg .ql, .xchg .al] := by decide

example :
    let st := runS Cfg.gen 1 (init 65535 7) [.write false [1, 2], .write true [8, 9], .xchg .ql, .xchg .al]
    st.a.outq.out.length = 2 ∧ st.b.outq.out.length = 2 ∧
    (runS Cfg.gen 1 st (tail 2)).b.outq.out ≠ [] ∧
    (runS Cfg.gen 1 st (tail 3)).b.outq.out = [] ∧ (runS Cfg.gen 1 st (tail 3)).a.inq.rel = [8, 9] ∧
    (runS Cfg.gen 1 st (tail 3)).b.inq.rel = [1, 2] := by
  decide +kernel

/-! ## The trimming the tree had before the repair loses data at the 16-bit wrap -/

/-- **witness (keep-oldest trimming)**: with `q.acked = q.acked[0:MaxCachedChunks]` in
    `cleanAckedChunks` (fact value 0; all other facts as regenerated today), for EVERY pair of starting
    sequence numbers, the stop-and-wait run "write one byte, one delivered exchange" — a well-bounded
    history without a single loss — reaches after `65536 + j` rounds (`1 ≤ j ≤ 128`) a state in which A's
    out-queue is empty (every `Write` returned success), `65536 + j` bytes were accepted and B has released
    only `65536`: the chunks of rounds 65536 … 65536+j-1 were dropped from `out` unsent.
    Proved through the inductive characterisation `Ph1`/`Ph2` of the run (SA.Proofs.QueueWrap: A's cache is
    the first min(k,128) numbers ever acknowledged), not by evaluating 65537 rounds. -/
theorem C07_witness_wrap (s sba j : Nat) (hs : s < MOD) (hj : j ≤ 128) :
    WellBounded Cfg.keepOldest 1 0 1 (rounds (65536 + j)) ∧
    (runS Cfg.keepOldest 1 (init s sba) (rounds (65536 + j))).a.outq.out = [] ∧
    (runS Cfg.keepOldest 1 (init s sba) (rounds (65536 + j))).b.inq.rel.length = 65536 ∧
    (runS Cfg.keepOldest 1 (init s sba) (rounds (65536 + j))).a.acc.length = 65536 + j :=
  ⟨⟨by decide, by decide, rounds_ok _⟩, wrap_counts hs rfl j hj⟩

/-- hence the statement proved for the current tree (`C07_wrap : WrapStmt Cfg.gen`) is false for the
    facts of the tree before the repair -/
theorem C07_witness_wrap_stmt : ¬ WrapStmt Cfg.keepOldest := by
  intro hw
  obtain ⟨hwb, h0, h1, h2⟩ := C07_witness_wrap 0 0 1 (by decide) (by decide)
  have := (hw 0 0 1 0 1 _ (by decide) (by decide) hwb).2.2.1 h0
  rw [this] at h1
  omega

/-- the invariant behind it: from round 128 on (up to the end of the dropping phase) A's ack cache
    `out.acked` is frozen at the first 128 sequence numbers ever acknowledged, `s, s+1, …, s+127 (mod 2^16)` —
    every later acknowledgement is appended and cut off again by `acked[0:128]` -/
theorem C07_witness_wrap_cache (s sba n : Nat) (hs : s < MOD) (h1 : 128 ≤ n) (h2 : n ≤ 65536 + 128) :
    (runS Cfg.keepOldest 1 (init s sba) (rounds n)).a.outq.acked = (List.range' 0 128).map (seqOf s) := by
  rcases Nat.le_total n 65536 with hle | hge
  · have h := ph1_run (s := s) (sba := sba) n 0 (init s sba) (ph1_init hs) (by omega)
    rw [Nat.zero_add] at h
    rw [h.aack, Nat.min_eq_right h1]
  · obtain ⟨j, rfl⟩ : ∃ j, n = 65536 + j := ⟨n - 65536, by omega⟩
    exact (wrap_state (sba := sba) hs rfl j (by omega)).aack

example := C07_witness_wrap 65535 0 128 (by decide) (by decide)
example := C07_witness_wrap_cache 65000 3 65537 (by decide) (by decide) (by decide)

/-- contrast (non-vacuity of the run): the same rounds with the current facts never lose anything,
    for any number of rounds -/
example (s sba n : Nat) (hs : s < MOD) (hsba : sba < MOD) :
    (runS Cfg.gen 1 (init s sba) (rounds n)).a.outq.out = [] →
    (runS Cfg.gen 1 (init s sba) (rounds n)).b.inq.rel = (runS Cfg.gen 1 (init s sba) (rounds n)).a.acc :=
  (C07_write_ok_delivered s sba 1 0 1 (rounds n) hs hsba ⟨by decide, by decide, rounds_ok n⟩).1

/-! ## The acceptance-window loop as the code runs it -/

/-- `InQ.append` runs the loop of `InQueue.Append` (`for i := next+Lo; i != next+Hi; i++`, a uint16
    counter); for every loop bounds and all uint16 arguments it computes the closed form `inWindow` -/
theorem C07_window_loop (c : Cfg) (next seq : Nat) (hseq : seq < MOD) :
    inWindowL c next seq = inWindow c next seq := inWindowL_eq c hseq

example : inWindowL Cfg.gen 65500 91 = true ∧ inWindowL Cfg.gen 65500 92 = false ∧
    inWindowL Cfg.gen 65500 65500 = false ∧ inWindowL Cfg.gen 65500 65501 = true := by decide +kernel

/-- **the window test refuses every number outside the window** (the loop as written, regenerated bounds): a packet is
    let through exactly when its distance ahead of the expected one, modulo 2^16, is at least `Lo` and less than `Hi`
    (1 … 127) -/
theorem C07_window_accepts_iff (next seq : Nat) (hn : next < MOD) (hs : seq < MOD) :
    inWindowL Cfg.gen next seq = true ↔
      (Cfg.gen.wlo ≤ (seq + MOD - next) % MOD ∧ (seq + MOD - next) % MOD < Cfg.gen.whi) := by
  rw [C07_window_loop Cfg.gen next seq hs]
  have h1 : Cfg.gen.wlo = 1 := by decide
  have h2 : Cfg.gen.whi = 128 := by decide
  simp only [inWindow, h1, h2, decide_eq_true_eq] at *
  omega

/-- … the closed form says the same -/
theorem C07_window_closed_form_iff (next seq : Nat) (hn : next < MOD) (hs : seq < MOD) :
    inWindow Cfg.gen next seq = true ↔
      (Cfg.gen.wlo ≤ (seq + MOD - next) % MOD ∧ (seq + MOD - next) % MOD < Cfg.gen.whi) := by
  rw [← C07_window_loop Cfg.gen next seq hs]; exact C07_window_accepts_iff next seq hn hs

/-- **packets from the past are refused by the window test**: `behind` = how many packets before the expected one;
    everything from 1 behind up to 2^16 − Hi behind (where 16-bit aliasing starts: the open finding C07-late-replay) fails
    the loop -/
theorem C07_window_refuses_behind (next seq : Nat) (hn : next < MOD) (hs : seq < MOD)
    (hb : 1 ≤ (next + MOD - seq) % MOD) (hb' : (next + MOD - seq) % MOD ≤ MOD - Cfg.gen.whi) :
    inWindowL Cfg.gen next seq = false := by
  have h := C07_window_accepts_iff next seq hn hs
  have h2 : Cfg.gen.whi = 128 := by decide
  cases hw : inWindowL Cfg.gen next seq with
  | false => rfl
  | true =>
    exfalso
    have := h.mp hw
    simp only [h2] at *
    omega

/-- … and `InQueue.Append` then returns ErrInvalidSequenceNumber and leaves the queue as it was (nothing parked in
    `future`, nothing recorded in `acked`), unless the duplicate cache still knows the packet (then it is ignored) -/
theorem C07_stale_packet_refused (q : InQ) (p : Pkt) (hn : q.next < MOD) (hs : p.seq < MOD) (hna : p.seq ∉ q.acked)
    (hb : 1 ≤ (q.next + MOD - p.seq) % MOD) (hb' : (q.next + MOD - p.seq) % MOD ≤ MOD - Cfg.gen.whi) :
    InQ.append Cfg.gen q (some p) = (q, false) := by
  have hne : p.seq ≠ q.next := by
    intro h; rw [h] at hb; omega
  simp [InQ.append, hna, hne, C07_window_refuses_behind q.next p.seq hn hs hb hb']

/-- out of order and not a known duplicate: `Append` parks the packet in the reorder buffer (and records it) exactly when
    it is 1 … 127 ahead of the expected one, and refuses it, changing nothing, otherwise — so the reorder buffer only ever
    receives packets of the window ahead -/
theorem C07_parked_iff_window (q : InQ) (p : Pkt) (hn : q.next < MOD) (hs : p.seq < MOD) (hna : p.seq ∉ q.acked)
    (hne : p.seq ≠ q.next) :
    InQ.append Cfg.gen q (some p) =
      if 1 ≤ (p.seq + MOD - q.next) % MOD ∧ (p.seq + MOD - q.next) % MOD < 128
      then ({ q with future := q.future ++ [p], acked := q.acked ++ [p.seq] }, true) else (q, false) := by
  have h1 : Cfg.gen.wlo = 1 := by decide
  have h2 : Cfg.gen.whi = 128 := by decide
  have hiff := C07_window_accepts_iff q.next p.seq hn hs
  rw [h1, h2] at hiff
  cases hw : inWindowL Cfg.gen q.next p.seq with
  | true => simp [InQ.append, hna, hne, hw, hiff.mp hw]
  | false =>
    have : ¬ (1 ≤ (p.seq + MOD - q.next) % MOD ∧ (p.seq + MOD - q.next) % MOD < 128) := by
      intro h; rw [hiff.mpr h] at hw; cases hw
    simp [InQ.append, hna, hne, hw, this]

/-- the comparison `int16(seq − next) ≥ MaxCachedChunks ⇒ refuse` (distance taken as a signed 16-bit number) -/
def int16AheadAccepts (max next seq : Nat) : Bool :=
  let d := (seq + MOD - next) % MOD
  let signed : Int := if d < 32768 then (d : Int) else (d : Int) - 65536
  decide (signed < (max : Int))

/-- **witness for the signed comparison** (kernel-checked): it bounds only how far AHEAD a packet may be.  The packet
    200 behind (#800 while #1000 is expected), 129 behind, and 30000 behind pass it, while the loop refuses all three;
    ahead of the expected packet the two agree on both sides of the window's end. -/
theorem C07_witness_int16_window :
    int16AheadAccepts Cfg.gen.max 1000 800 = true ∧ inWindowL Cfg.gen 1000 800 = false ∧
    int16AheadAccepts Cfg.gen.max 1000 871 = true ∧ inWindowL Cfg.gen 1000 871 = false ∧
    int16AheadAccepts Cfg.gen.max 100 35636 = true ∧ inWindowL Cfg.gen 100 35636 = false ∧
    int16AheadAccepts Cfg.gen.max 1000 1127 = true ∧ inWindowL Cfg.gen 1000 1127 = true ∧
    int16AheadAccepts Cfg.gen.max 1000 1128 = false ∧ inWindowL Cfg.gen 1000 1128 = false := by decide +kernel

example : inWindowL Cfg.gen 5 65413 = false ∧ inWindowL Cfg.gen 5 4 = false ∧ inWindowL Cfg.gen 5 132 = true := by
  decide +kernel   -- 128 behind, 1 behind: refused; 65409 behind = 127 ahead: aliases into the window (C07-late-replay)

end SA.Queue

namespace SA.DnsExchange

theorem loop_absorbs :
    ∀ (k : Nat) (fs : List Fate) (left calls : Nat) (dlv : Bool), k < left → k ≤ fs.length →
      (∀ f ∈ fs.take k, f.isLoss = true) → (fs[k]? = none ∨ fs[k]? = some .ok) →
      loop 1 left fs calls dlv = ⟨calls + k + 1, true, true⟩ := by
  intro k
  induction k with
  | zero =>
    intro fs left calls dlv hl _ _ hk
    obtain ⟨l, rfl⟩ : ∃ l, left = l + 1 := ⟨left - 1, by omega⟩
    cases fs with
    | nil => simp [loop]
    | cons f fs => simp at hk; subst hk; simp [loop]
  | succ k ih =>
    intro fs left calls dlv hl hlen hloss hk
    obtain ⟨l, rfl⟩ : ∃ l, left = l + 1 := ⟨left - 1, by omega⟩
    cases fs with
    | nil => simp at hlen
    | cons f fs =>
      have hf : f.isLoss = true := hloss f (by simp)
      have hrest : ∀ g ∈ fs.take k, g.isLoss = true := fun g hg => hloss g (by simp [hg])
      have hk' : fs[k]? = none ∨ fs[k]? = some .ok := by simpa using hk
      have hl0 : l ≠ 0 := by omega
      have := ih fs l (calls + 1) (dlv || f == .al) (by omega) (by simpa using hlen) hrest hk'
      cases f <;> simp_all [loop, recognised, Fate.isLoss] <;> omega

/-- **loss_absorbed**: with the regenerated facts (5 tries, timeouts recognised through the wrapping),
    up to 4 consecutive lost exchanges of any kind followed by a delivered one are absorbed by
    retransmission: SendAndReceive (hence Write) succeeds after k+1 queries and the fragment is delivered. -/
theorem C07_loss_absorbed (fs : List Fate) (k : Nat) (hk : k ≤ 4) (hlen : k ≤ fs.length)
    (hloss : ∀ f ∈ fs.take k, f.isLoss = true) (hok : fs[k]? = none ∨ fs[k]? = some .ok) :
    sendAndReceive Gen.c07TimeoutTest Gen.c07Tries fs = ⟨k + 1, true, true⟩ := by
  have h1 : Gen.c07TimeoutTest = 1 := by decide
  have h2 : Gen.c07Tries = 5 := by decide
  unfold sendAndReceive
  rw [h1, h2]
  have := loop_absorbs k fs 5 0 false (by omega) hlen hloss hok
  simpa using this

/-- kernel-checked counter-example for the comparison the tree had before the repair
    (`err == smux.ErrTimeout`, fact value 0): one lost query fails the Write at the first try. -/
theorem C07_witness_loss_not_absorbed :
    sendAndReceive 0 5 [.ql, .ok] = ⟨1, false, false⟩ ∧ sendAndReceive 0 5 [.al, .ok] = ⟨1, false, true⟩ := by
  decide

example : sendAndReceive Gen.c07TimeoutTest Gen.c07Tries [.ql, .al, .st, .ql, .ok] = ⟨5, true, true⟩ := by decide
example : (sendAndReceive Gen.c07TimeoutTest Gen.c07Tries [.ql, .al, .st, .ql, .al, .ok]).ok = false := by decide

end SA.DnsExchange

namespace SA.DnsAnswers

/-! ## Which answer the client takes (late answers, answers to an earlier retransmission, copies, foreign ids)

  Model: SA.Model.DnsAnswers — answers have an identity (the send they answer); the path may deliver the answer to
  send i in reply to send j > i (`late<j-i>` at i), deliver a second copy (`dup`), rewrite the id (`fid`).
  `sees filter fs j` is what the communicator hands to `QueryWithData` at send j (`filter` = miekg's UDP client, which
  skips datagrams with another id), `loopA` the retry loop of `SendAndReceive`, `writeA` a whole `Write`. -/

/-- regenerated fact (`SA.Gen.c07AnswerIdChecks`): nothing in QueryWithData / Query / SendAndReceive looks at which answer
    the communicator handed up — the returned message goes whole to `DecodeDnsResponseWithParams` and no comparison involves
    a message id, the ring `dc.chunkId`, a question or a name.  Fails to compile when such a test appears. -/
theorem C07_answer_ids_unchecked : Gen.c07AnswerIdChecks = [] ∧ ringGen = none := by decide

theorem P.gen_facts (filter : Bool) :
    (P.gen filter).ring = none ∧ (P.gen filter).test = 1 ∧ (P.gen filter).tries = 5 ∧ (P.gen filter).filter = filter ∧
    (P.gen filter).countPos = 0 := by
  cases filter <;> decide

/-- **late_absorbed** (extends `C07_loss_absorbed` to answers with an identity): for the retry loop of `SendAndReceive` with the
    regenerated facts, from ANY send index `j` of ANY fate script, over either kind of communicator: if the client sees
    `k ≤ 4` timeouts and then an answer — on time, or `1, 2, 3, …` exchanges late, the answer to ANY earlier send (`o` is
    arbitrary), a second copy, an answer whose id was rewritten — the loop returns nil after `k+1` sends with that answer
    accepted.  No answer is turned into an error because of what it answers. -/
theorem C07_late_absorbed (filter : Bool) (fs : List AFate) (j k : Nat) (o : Option Nat) (hk : k ≤ 4)
    (hloss : ∀ i, i < k → sees filter fs (j + i) = .tmo) (hans : sees filter fs (j + k) = .ans o) :
    loopA (P.gen filter) fs Gen.c07Tries j = (j + k + 1, .got o) := by
  have hf := P.gen_facts filter
  have h5 : Gen.c07Tries = 5 := by decide
  rw [h5]
  exact loopA_absorbs (P.gen filter) hf.1 hf.2.1 fs k 5 j o (by omega) (by simpa [hf.2.2.2.1] using hloss)
    (by simpa [hf.2.2.2.1] using hans)

/-- a delivered answer always answers a query the server has handled (this send's, or an earlier one's) -/
theorem C07_answer_means_handled (filter : Bool) (fs : List AFate) (j : Nat) (o : Option Nat)
    (h : sees filter fs j = .ans o) :
    ∃ i, i ≤ j ∧ (fateAt fs i).handled = true ∧ (o = some i ∨ (o = none ∧ i = j)) := by
  cases filter with
  | true =>
    have := ans_filtered fs j o h
    exact ⟨j, Nat.le_refl _, this.2, Or.inl this.1⟩
  | false =>
    cases o with
    | none => exact ⟨j, Nat.le_refl _, ans_foreign_handled fs j h, Or.inr ⟨rfl, rfl⟩⟩
    | some i =>
      have := ans_origin_handled fs j i h
      exact ⟨i, this.1, this.2, Or.inl rfl⟩

theorem chunks_single {mtu : Nat} {d : List Nat} (h0 : d ≠ []) (h : d.length ≤ mtu) : SA.Queue.chunks mtu d = [d] := by
  unfold SA.Queue.chunks
  cases hd : d.length with
  | zero => exact absurd (List.length_eq_zero_iff.mp hd) h0
  | succ n =>
    have : ¬ d.length > mtu := by omega
    simp [SA.Queue.chunksAux, h0, this]

/-- **late_write_absorbed** (extends `C07_write_reports_enqueued`' s accounting to the late fates, for a Write of one fragment):
    for every fate script in which the fragment's first send is followed, within the five tries, by SOME delivered answer —
    to that send or to any of its retransmissions, however late, copied or re-labelled — after nothing but timeouts,
    `Write` returns `(len(b), nil)` after `k+1` sends and the server end holds the fragment: the isolated faults are absorbed
    and what Write reports is what the peer delivers.  Both for the communicator that hands up whatever arrives and for
    miekg's UDP client. -/
theorem C07_late_write_absorbed (filter : Bool) (mtu : Nat) (data : List Nat) (fs : List AFate) (k : Nat) (o : Option Nat)
    (hd : data ≠ []) (hm : data.length ≤ mtu) (hk : k ≤ 4)
    (hloss : ∀ i, i < k → sees filter fs i = .tmo) (hans : sees filter fs k = .ans o) :
    writeA (P.gen filter) mtu data fs = ({ j := k + 1, srv := 1, hist := List.replicate (k + 1) 0 }, data.length, true) := by
  have hl := C07_late_absorbed filter fs 0 k o hk (by simpa using hloss) (by simpa using hans)
  have hf := P.gen_facts filter
  have h5 : Gen.c07Tries = 5 := by decide
  obtain ⟨i, hi, hh, ho⟩ := C07_answer_means_handled filter fs k o hans
  have hany : anyHandled fs 0 (k + 1) = true := anyHandled_of fs 0 (k + 1) i (Nat.zero_le _) (by omega) hh
  have hacks : acks (List.replicate (k + 1) 0) 0 o = true := by
    rcases ho with ho | ⟨ho, _⟩
    · subst ho
      simp [acks, List.getElem?_replicate]
      omega
    · subst ho; rfl
  simp only [Nat.zero_add] at hl
  rw [h5] at hl
  simp [writeA, chunks_single hd hm, writeLoopA, chunkAddedA, hf.2.2.1, hl, hany, hacks]

/-- the regenerated loop with iodine's rule above the communicator: the answer's id must be one of the last three query ids -/
def P.ring3 : P := { P.gen false with ring := some 3 }

/-- kernel-checked counter-example for iodine's id ring of size 3 placed above the communicator (`ring = some 3`; the
    model's retry loop otherwise as regenerated): the answer to the first send arrives in reply to the fourth (`late3`,
    the two retransmissions in between unanswered) — the Write fails although the server end holds the fragment
    (`srv = 1`) and that very answer acknowledges it.  Two exchanges late is still inside the ring; a rewritten id
    fails at once.  Reproduces on the real code with that check in QueryWithData (`dnsretry a1b2c3 ids mtu=8 late3 ql ql ql`). -/
theorem C07_witness_id_ring :
    writeA P.ring3 8 [161, 178, 195] [.late 3, .ql, .ql, .ql] = ({ j := 4, srv := 1, hist := [0, 0, 0, 0] }, 3, false) ∧
    (writeA P.ring3 8 [161, 178, 195] [.late 2, .ql, .ql]).2.2 = true ∧
    (writeA P.ring3 8 [161, 178, 195] [.fid]).2.2 = false ∧
    (writeA (P.gen false) 8 [161, 178, 195] [.late 3, .ql, .ql, .ql]).2.2 = true := by
  decide

example : sees false [.late 3, .ql, .ql, .ql] 3 = .ans (some 0) := by decide
example : sees true [.late 3, .ql, .ql, .ql] 3 = .tmo := by decide
example : writeA (P.gen false) 8 [1, 2, 3] [.late 3, .ql, .ql, .ql] = ({ j := 4, srv := 1, hist := [0, 0, 0, 0] }, 3, true) :=
  C07_late_write_absorbed false 8 [1, 2, 3] _ 3 (some 0) (by decide) (by decide) (by decide) (by decide) (by decide)
example : (writeA (P.gen true) 8 [1, 2, 3] [.late 3, .ql, .ql, .ql]).1.j = 5 := by decide
/-- an answer to a send of an earlier fragment does not acknowledge the current one: it is sent again -/
example : writeA (P.gen false) 1 [1, 2] [.dup] = ({ j := 3, srv := 2, hist := [0, 1, 1] }, 2, true) := by decide

end SA.DnsAnswers

namespace SA.DnsWrites
open SA.Queue

/-! ## What `Write` reports (several application writes, failures part-way, the caller continues with b[n:])

  Model: SA.Model.DnsWrites — the fragment loop of `OutQueue.Write` with its callback
  (`outChunkAdded` → `SendAndReceive`, 5 tries), the poll loop's body, parked Writes, application
  reads, for any script of communicator fates; every step is an SA.Queue event, so the theorems above
  apply.  `posU` = Σ n over the client's Writes; the application stream is `streamU`, and because a
  write of k bytes hands over `streamU posU k` and then advances by n, the concatenation of the
  accepted prefixes Σ b[:n] is `streamU 0 posU`. -/

/-- regenerated fact (`SA.Gen.c07WriteCount`): in the fragment loop `n += len(data)` runs before the
    `if err != nil { return }` that follows `addChunk`.  Fails to compile when the order changes. -/
theorem Facts.gen_counts_enqueued : Facts.gen.countPos = 0 := by decide

/-- regenerated facts (`SA.Gen.c07PollArg`, `c07PollStops`) about the loop of the goroutine `Handshake` starts: a turn
    hands `dc.out.NextChunk()` — the oldest unacknowledged fragment — to `SendAndReceive`, and nothing in the
    loop body leaves the loop (it runs while `!dc.Closed()`).  Fails to compile when the loop sends a bare
    poll or gains a break / return. -/
theorem Facts.gen_poll_resends : Facts.gen.pollArg = 0 ∧ Facts.gen.pollStops = 0 := by decide

/-- histories of the multi-write model: fragment size > 0, server writes of at most `Bd` bytes -/
def WritesBounded (mtu Bd : Nat) (es : List WEv) : Prop :=
  0 < mtu ∧ 1 ≤ Bd ∧ Bd + Cfg.gen.max + 3 ≤ MOD ∧ es.all (WEv.ok Bd) = true

instance (mtu Bd : Nat) (es : List WEv) : Decidable (WritesBounded mtu Bd es) := by
  unfold WritesBounded; infer_instance

/-- **what Write reports is what was enqueued**: after any history of writes (whole, failed part-way
    on any fragment, parked and resumed), polls and reads, under any script of communicator fates, the
    bytes accepted at the client in the sense of `C07_safety` (`End.acc`: every fragment ever put into
    the out-queue, delivered or still to be retransmitted) are exactly the first Σ n bytes of the
    application's stream; and the history is a well-bounded history of SA.Queue events. -/
theorem C07_write_reports_enqueued (sab sba mtu Bd : Nat) (fates : List XF) (es : List WEv)
    (h : WritesBounded mtu Bd es) :
    (runW Facts.gen mtu (start sab sba fates) es).core.sys.a.acc
        = streamU 0 (runW Facts.gen mtu (start sab sba fates) es).posU ∧
    (runW Facts.gen mtu (start sab sba fates) es).core.sys
        = runS Cfg.gen mtu (init sab sba) (runW Facts.gen mtu (start sab sba fates) es).core.evs.reverse ∧
    WellBounded Cfg.gen mtu 0 Bd (runW Facts.gen mtu (start sab sba fates) es).core.evs.reverse := by
  obtain ⟨hm, hBd, hb, hes⟩ := h
  have inv := runW_inv (f := Facts.gen) (sab := sab) (sba := sba) hm hBd Facts.gen_counts_enqueued
    Facts.gen_poll_resends.1 es _
    (start_inv fates) hes
  refine ⟨inv.acc, inv.reach.run, hm, by omega, ?_⟩
  rw [List.all_reverse]; exact inv.reach.wb

/-- **reads ⊑ Σ b[:n]**: at every point of every such history the bytes released to the reader at the
    server end are a prefix of the concatenation of the prefixes the client's Writes accepted, and they
    are equal whenever the client's out-queue is empty (in particular after a loss-free tail). -/
theorem C07_reads_prefix_of_reported (sab sba mtu Bd : Nat) (fates : List XF) (es : List WEv)
    (hsab : sab < MOD) (hsba : sba < MOD) (h : WritesBounded mtu Bd es) :
    (runW Facts.gen mtu (start sab sba fates) es).core.sys.b.inq.rel
        <+: streamU 0 (runW Facts.gen mtu (start sab sba fates) es).posU ∧
    ((runW Facts.gen mtu (start sab sba fates) es).core.sys.a.outq.out = [] →
      (runW Facts.gen mtu (start sab sba fates) es).core.sys.b.inq.rel
        = streamU 0 (runW Facts.gen mtu (start sab sba fates) es).posU) := by
  obtain ⟨hacc, hrun, hwb⟩ := C07_write_reports_enqueued sab sba mtu Bd fates es h
  have h1 := (C07_safety sab sba mtu 0 Bd _ hsab hsba hwb).1
  have h2 := (C07_write_ok_delivered sab sba mtu 0 Bd _ hsab hsba hwb).1
  rw [← hrun, hacc] at h1 h2
  exact ⟨h1, h2⟩

/-- the ordering of the seeded change: `if err != nil { return }` first, `n += len(data)` after it -/
def Facts.countAfterReturn : Facts := { Facts.gen with countPos := 1, pollArg := 0, pollStops := 0 }

/-- kernel-checked counter-example for that ordering: a 3-fragment Write whose second exchange loses its
    query five times reports n = 1, the poll loop then delivers the second fragment, and the server end
    has released 2 bytes: not a prefix of the 1 byte accepted.
    (`dnswrites mtu=1 sab=0 sba=0 w3 p / ok ql ql ql ql ql`) -/
theorem C07_witness_count_after_return :
    (runW Facts.countAfterReturn 1 (start 0 0 [.ok, .ql, .ql, .ql, .ql, .ql]) [.w 3, .p]).posU = 1 ∧
    ¬ ((runW Facts.countAfterReturn 1 (start 0 0 [.ok, .ql, .ql, .ql, .ql, .ql]) [.w 3, .p]).core.sys.b.inq.rel
        <+: streamU 0 (runW Facts.countAfterReturn 1 (start 0 0 [.ok, .ql, .ql, .ql, .ql, .ql]) [.w 3, .p]).posU) := by
  decide +kernel

/-! non-vacuity: the same history with the current accounting reports n = 2, and 2 bytes are released -/
example : (runW Facts.gen 1 (start 0 0 [.ok, .ql, .ql, .ql, .ql, .ql]) [.w 3, .p]).posU = 2 ∧
    (runW Facts.gen 1 (start 0 0 [.ok, .ql, .ql, .ql, .ql, .ql]) [.w 3, .p]).core.sys.b.inq.rel = streamU 0 2 := by
  decide +kernel

example : WritesBounded 3 5000 [.w 7, .W 5000, .p, .D, .w 1, .N, .r 2, .R 9, .w 0] := by decide

/-! ## The poll loop delivers what the Writes left behind

  A client Write whose exchange is lost five times returns with its fragment still in the out-queue (and
  counted in n, `C07_write_reports_enqueued`).  Nothing but the loop of the goroutine `Handshake` starts
  ever sends that fragment again.  `pollLoop f mtu n` is `n` turns of that loop (SA.Model.DnsWrites), its
  body parameterised by the regenerated facts `pollArg` (what a turn hands to `SendAndReceive`) and
  `pollStops` (statements that leave the loop). -/

/-- the state of the multi-write model when the path has healed: the fate script is over, every further
    communicator call is delivered -/
def healed (c : Core) : Core := { c with fates := [], dflt := .ok }

/-- **eventual delivery by the client's own poll loop**: after ANY history of writes (whole, given up
    part-way on any fragment, parked), polls and reads under ANY script of communicator fates, once the
    path has healed `n` turns of the poll loop — and nothing else — with `n ≥ |A.out|`, `n ≥ |B.out| + 1`
    leave both out-queues empty, the server end has released exactly the first Σ n bytes of the client
    application's stream (everything the client's Writes reported as accepted), and the client end has
    released everything the server's Writes accepted.  Depends on the regenerated loop facts
    (`Facts.gen_poll_resends`): with a bare poll it is false (`C07_witness_bare_poll`). -/
theorem C07_eventual_delivery_by_poll (sab sba mtu Bd : Nat) (fates : List XF) (es : List WEv)
    (hsab : sab < MOD) (hsba : sba < MOD) (h : WritesBounded mtu Bd es) (n : Nat)
    (hna : (runW Facts.gen mtu (start sab sba fates) es).core.sys.a.outq.out.length ≤ n)
    (hnb : (runW Facts.gen mtu (start sab sba fates) es).core.sys.b.outq.out.length + 1 ≤ n) :
    (pollLoop Facts.gen mtu n (healed (runW Facts.gen mtu (start sab sba fates) es).core)).sys.a.outq.out = [] ∧
    (pollLoop Facts.gen mtu n (healed (runW Facts.gen mtu (start sab sba fates) es).core)).sys.b.outq.out = [] ∧
    (pollLoop Facts.gen mtu n (healed (runW Facts.gen mtu (start sab sba fates) es).core)).sys.b.inq.rel
      = streamU 0 (runW Facts.gen mtu (start sab sba fates) es).posU ∧
    (pollLoop Facts.gen mtu n (healed (runW Facts.gen mtu (start sab sba fates) es).core)).sys.a.inq.rel
      = (runW Facts.gen mtu (start sab sba fates) es).core.sys.b.acc := by
  obtain ⟨hacc, hrun, hwb⟩ := C07_write_reports_enqueued sab sba mtu Bd fates es h
  have htries : Facts.gen.tries = 4 + 1 := by decide
  have hl : _ = runS Cfg.gen mtu _ (pollEvs n) := (pollLoop_healthy (f := Facts.gen) (mtu := mtu) Facts.gen_poll_resends.1 Facts.gen_poll_resends.2 htries n
    (healed (runW Facts.gen mtu (start sab sba fates) es).core) ⟨rfl, rfl⟩).1
  have hd := C07_eventual_delivery_lossy sab sba mtu 0 Bd _ (pollEvs n) hsab hsba hwb (pollEvs_ok 0 n)
    (by rw [pollEvs_count, ← hrun]; exact hna) (by rw [pollEvs_count, ← hrun]; exact hnb)
  rw [← hrun] at hd
  have hs : (healed (runW Facts.gen mtu (start sab sba fates) es).core).sys
      = (runW Facts.gen mtu (start sab sba fates) es).core.sys := rfl
  rw [hl, hs]
  exact ⟨hd.1, hd.2.1, by rw [hd.2.2.2.2.1, hacc], hd.2.2.2.2.2⟩

/-- the loop of the seeded change: every turn is `dc.SendAndReceive(nil)` -/
def Facts.barePoll : Facts := { Facts.gen with pollArg := 1 }

/-- the state in which the bare-poll loop is stuck: one client Write of one byte whose exchange lost its
    query five times (`dnswrites mtu=1 sab=0 sba=0 w1 / ql ql ql ql ql`), the path healed, one turn -/
def stuckCore : Core :=
  pollLoop Facts.barePoll 1 1 (healed (runW Facts.barePoll 1 (start 0 0 [.ql, .ql, .ql, .ql, .ql]) [.w 1]).core)

/-- kernel-checked counter-example for the bare poll, for EVERY number of turns: the Write reported its
    byte as accepted (n = 1), the fragment is in the out-queue, the path heals — and however long the loop
    runs, the fragment stays queued (so every later Write parks in waitEmptyQueue for ever) and the server
    end has released nothing.  One bare exchange maps the state of the queue pair to itself
    (`pollLoop_bare_fix`).  On the real code: `dnspoll mtu=1 Lq w1 H`. -/
theorem C07_witness_bare_poll (n : Nat) :
    (runW Facts.barePoll 1 (start 0 0 [.ql, .ql, .ql, .ql, .ql]) [.w 1]).posU = 1 ∧
    (pollLoop Facts.barePoll 1 n stuckCore).sys.a.outq.out.length = 1 ∧
    (pollLoop Facts.barePoll 1 n stuckCore).sys.b.inq.rel = [] ∧
    ¬ ((pollLoop Facts.barePoll 1 n stuckCore).sys.b.inq.rel
        = streamU 0 (runW Facts.barePoll 1 (start 0 0 [.ql, .ql, .ql, .ql, .ql]) [.w 1]).posU) := by
  have hfix : (bareXchg Facts.barePoll.cfg stuckCore.sys true true).1 = stuckCore.sys := by rfl
  have hS := pollLoop_bare_fix (f := Facts.barePoll) (mtu := 1) (k := 4) (by decide) (by decide) hfix n stuckCore
    ⟨by rfl, by rfl⟩ rfl
  rw [hS]
  decide +kernel

/-! non-vacuity: the same history with the regenerated loop — one turn delivers the byte -/
example : (pollLoop Facts.gen 1 1 (healed (runW Facts.gen 1 (start 0 0 [.ql, .ql, .ql, .ql, .ql]) [.w 1]).core)).sys.b.inq.rel
    = streamU 0 1 := by decide +kernel

example := C07_eventual_delivery_by_poll 0 0 1 5 [.ql, .ql, .ql, .ql, .ql] [.w 1] (by decide) (by decide) (by decide) 1
  (by decide +kernel) (by decide +kernel)

/-- the loop's sleep in microseconds for a given `selectTimeout`, jitter draw `j < N` and error count, as the source
    computes it: `time.Duration(dc.selectTimeout+jitter+(errCount*B)) * unit` with `jitter = j - M` (a negative
    duration is replaced by 250 ns: counted as 0 here) -/
def pollSleepUs (sel j errCount : Nat) : Nat :=
  (sel + j + errCount * Gen.c07PollBackoff - Gen.c07PollJitterOff) * Gen.c07PollUnitUs

/-- **the loop keeps turning**: with the regenerated constants a turn sleeps at most `selectTimeout` + 1.35 s
    (the error count never exceeds 6: beyond 5 the loop closes the connection), i.e. < 1.5 s in lazy mode
    (`selectTimeout = 0`) and < 2.5 s in legacy mode (`selectTimeout = 1000`). -/
theorem C07_poll_period_bounded (sel j errCount : Nat) (hj : j < Gen.c07PollJitterN) (he : errCount ≤ 6) :
    pollSleepUs sel j errCount ≤ (sel + 1350) * 1000 := by
  unfold pollSleepUs
  have h1 : Gen.c07PollBackoff = 200 := by decide
  have h2 : Gen.c07PollJitterOff = 150 := by decide
  have h3 : Gen.c07PollUnitUs = 1000 := by decide
  have h4 : Gen.c07PollJitterN = 300 := by decide
  rw [h1, h2, h3]
  rw [h4] at hj
  omega

end SA.DnsWrites

#print axioms SA.Queue.C07_safety
#print axioms SA.Queue.C07_write_ok_delivered
#print axioms SA.Queue.C07_wrap
#print axioms SA.Queue.C07_eventual_delivery
#print axioms SA.Queue.C07_eventual_delivery_lossy
#print axioms SA.Queue.C07_delivered_exchange_progress
#print axioms SA.Queue.C07_witness_wrap
#print axioms SA.Queue.C07_witness_wrap_stmt
#print axioms SA.Queue.C07_witness_wrap_cache
#print axioms SA.Queue.C07_window_loop
#print axioms SA.Queue.C07_window_accepts_iff
#print axioms SA.Queue.C07_window_closed_form_iff
#print axioms SA.Queue.C07_window_refuses_behind
#print axioms SA.Queue.C07_stale_packet_refused
#print axioms SA.Queue.C07_parked_iff_window
#print axioms SA.Queue.C07_witness_int16_window
#print axioms SA.DnsExchange.C07_loss_absorbed
#print axioms SA.DnsExchange.C07_witness_loss_not_absorbed
#print axioms SA.DnsAnswers.C07_answer_ids_unchecked
#print axioms SA.DnsAnswers.C07_late_absorbed
#print axioms SA.DnsAnswers.C07_answer_means_handled
#print axioms SA.DnsAnswers.C07_late_write_absorbed
#print axioms SA.DnsAnswers.C07_witness_id_ring
#print axioms SA.DnsWrites.C07_write_reports_enqueued
#print axioms SA.DnsWrites.C07_reads_prefix_of_reported
#print axioms SA.DnsWrites.C07_witness_count_after_return
#print axioms SA.DnsWrites.C07_eventual_delivery_by_poll
#print axioms SA.DnsWrites.C07_witness_bare_poll
#print axioms SA.DnsWrites.C07_poll_period_bounded

namespace SA.PkgState
/-- **no_hidden_process_state**: the models of this property are functions of their arguments and of the objects they are
    handed; the packages they model keep no package-level variables besides these (regenerated inventory: error
    sentinels, tables, compiled patterns, the two session time-outs).  A new package-level variable — a counter, a cache, a
    scratch buffer, a shared map, a registry — would make later calls depend on earlier ones, or concurrent calls on each
    other, outside anything a per-call comparison of model and code can see. -/
theorem C07_no_hidden_process_state :
    Gen.pkgVarNames_dnsutil = ["DotRegex", "DownloadCodecCheck", "ErrCaseSwap", "ErrDeadlineExceeded", "ErrInvalidSequenceNumber", "ErrStreamBroken", "ErrTooLong", "QueryTypeA", "QueryTypeAAAA", "QueryTypeCname", "QueryTypeMx", "QueryTypeNull", "QueryTypePrivate", "QueryTypeSrv", "QueryTypeTxt", "QueryTypesByPriority"] ∧
    Gen.pkgVarNames_dns = ["ConnectionTimeout", "ErrConnectionFailed", "ErrHandshakeNotCompleted", "OldConnectionTimeout"] := by decide
end SA.PkgState

#print axioms SA.PkgState.C07_no_hidden_process_state

import SA.Model.Queue
namespace SA.Queue
end SA.Queue

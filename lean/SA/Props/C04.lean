/-
  C04 — Required or negotiated security never degrades to plaintext (decision logic; TLS is a parameter).

  Model: SA.Model.Security on top of SA.Model.Handshake.  `tls left : Bool` is what crypto/tls reports for the
  StartTLS handshake that starts when `left` is still unread on the carrier — a hypothesis about a third-party
  library, never an axiom: every theorem quantifies over all such functions.  The peer of the client is a script:
  any list of read chunks (any status, any headers, any bytes after the upgrade).
-/
import SA.Props.C06
import SA.Model.Security
import SA.Gen.PkgVars
namespace SA.Security
open SA.Handshake

/-! ### helpers (not obligations) -/

/-- every way `clientOn` can report an established session -/
theorem clientOn_established {s0 : Bool} {tls : B → Bool} {fuel : Nat} {r : Rd} {v : B} {t : Tech} {s : Bool} {l : B}
    (h : (clientOn s0 tls fuel r).out = .established v t s l) :
    (t = .tls ∧ s = true ∧ s0 = false ∧ ∃ left, tls left = true) ∨ (t ≠ .tls ∧ s = s0) := by
  revert h
  simp only [clientOn]
  repeat' split
  all_goals (intro h; simp_all [shouldStartTls])
  all_goals first
    | exact ⟨_, by assumption⟩
    | exact Or.inr ⟨_, by assumption⟩
    | (intro ht; subst ht; simp_all; done)
    | (split at h <;> simp_all; done)
    | skip

def isEstablished : Outcome → Bool
  | .established _ _ _ _ => true
  | _ => false

def certs : List CertMode := [.nil, .ok, .err, .empty, .nilcfg, .okerr]

/-! ### property theorems -/

/-- **the guard is sound for whatever the handshake is told about the carrier**: for every peer script, every carrier and every TLS behaviour, if a `Connect` with
    `mustSecure` hands back a connection then that connection reports secure; and a connection only ever reports
    secure because the carrier was already encrypted or because the StartTLS handshake was reported established. -/
theorem C04_connect_sound (secure0 mustSecure : Bool) (tls : B → Bool) (peer : List B)
    (v : B) (t : Tech) (s : Bool) (l : B)
    (h : connect secure0 mustSecure tls peer = .ok v t s l) :
    (mustSecure = true → s = true) ∧ (s = true → secure0 = true ∨ (t = .tls ∧ ∃ left, tls left = true)) := by
  unfold connect guard at h
  cases ho : (clientRun secure0 tls peer).out with
  | established v' t' s' l' =>
    rw [ho] at h
    simp only at h
    by_cases hg : (mustSecure && !s') = true
    · simp [hg] at h
    · simp only [hg, Bool.false_eq_true, if_false, Connect.ok.injEq] at h
      obtain ⟨h1, h2, h3, h4⟩ := h
      subst h1; subst h2; subst h3; subst h4
      constructor
      · intro hm; cases s' <;> simp_all
      · intro hs
        unfold clientRun at ho
        rcases clientOn_established ho with ⟨a, _, _, c⟩ | ⟨_, b⟩
        · exact Or.inr ⟨a, c⟩
        · exact Or.inl (by rw [← b]; exact hs)
  | refused st => rw [ho] at h; simp at h
  | closed => rw [ho] at h; simp at h
  | tlsfail => rw [ho] at h; simp at h
  | panic => rw [ho] at h; simp at h

/-- **no upstream kind claims an encrypted carrier it does not have** (regenerated per kind: the expression passed as
    the `secure` argument of `NewClientConnection`, evaluated in every situation): the argument is true only when the
    carrier of that `Connect` really is a TLS connection; all five kinds are in the table. -/
theorem C04_secure_args_honest :
    Gen.c04SecureArgs.map (fun r => r.1) = upstreamKinds ∧
    ∀ kind ∈ upstreamKinds, ∀ ctls aes must : Bool,
      secureArgValue (secureArgClass kind) ⟨ctls, aes, must⟩ = true → ctls = true := by decide

/-- **mustSecure is sound, per upstream kind, over the argument the kind really passes**: for every upstream kind, every
    situation (carrier TLS or not, udp shared secret or not, security required or not), every peer script and every TLS
    behaviour: if that kind's `Connect` hands back a connection, then with `mustSecure` it reports secure, and it reports
    secure only because the carrier really is TLS or because the StartTLS handshake was reported established. -/
theorem C04_mustSecure_sound (kind : String) (hk : kind ∈ upstreamKinds) (e : KindEnv) (tls : B → Bool) (peer : List B)
    (v : B) (t : Tech) (s : Bool) (l : B)
    (h : connectKind kind e tls peer = .ok v t s l) :
    (e.mustSecure = true → s = true) ∧
    (s = true → e.carrierTls = true ∨ (t = .tls ∧ ∃ left, tls left = true)) := by
  obtain ⟨h1, h2⟩ := C04_connect_sound _ _ tls peer v t s l h
  refine ⟨h1, fun hs => ?_⟩
  rcases h2 hs with h0 | h0
  · obtain ⟨ctls, aes, must⟩ := e
    exact Or.inl (C04_secure_args_honest.2 kind hk ctls aes must h0)
  · exact Or.inr h0

/-- **only a successful Connect is stored**: whatever `Upstreams.open` keeps as its connection came from a `Connect`
    that returned nil, and with `MustSecure` it reports secure — application data (the multiplexer session) is only
    ever started on a stored connection. -/
theorem C04_open_stores_only_secure (mustSecure : Bool) (tls : B → Bool) (eps : List (Bool × List B)) (c : Connect)
    (h : openFirst mustSecure tls eps = some c) :
    ∃ v t s l, c = .ok v t s l ∧ (mustSecure = true → s = true) := by
  induction eps with
  | nil => simp [openFirst] at h
  | cons e rest ih =>
    obtain ⟨s0, peer⟩ := e
    simp only [openFirst] at h
    cases hc : connect s0 mustSecure tls peer with
    | ok v t s l =>
      rw [hc] at h
      simp only [Option.some.injEq] at h
      exact ⟨v, t, s, l, h.symm, (C04_connect_sound s0 mustSecure tls peer v t s l hc).1⟩
    | insecureRejected => rw [hc] at h; exact ih h
    | failed o => rw [hc] at h; exact ih h

/-- the regenerated shape facts the two theorems above stand on: the guard `mustSecure && !cc.Secure()` returning an
    error is present in all five `Connect` functions, after `NewClientConnection` and before the connection is
    assigned; `Upstreams.open` passes `MustSecure` and assigns `ul.connection` only after `Connect` returned nil;
    `shouldStartTls` has the modelled form. -/
theorem C04_guard_shape :
    (∀ g ∈ Gen.mustSecureGuards, g.2.1 = true ∧ g.2.2 = true) ∧ Gen.mustSecureGuards.length = 5 ∧
    Gen.openStoresAfterConnect = true ∧ Gen.openPassesMustSecure = true ∧
    Gen.shouldStartTlsShape = "notSecureAndCapability" := by decide

/-- **the client asks for StartTLS exactly when it should**: `shouldStartTls` (which alone decides whether the
    upgrade request carries `Security: StartTLS` and whether the TLS handshake is started) holds iff the carrier is
    not yet secure and the upper-cased, comma-split capability list contains the token. -/
theorem C04_client_asks_iff (secure0 : Bool) (caps : B) :
    shouldStartTls secure0 caps = true ↔
      (secure0 = false ∧ goUpper Gen.capabilityStartTls ∈ (splitField (goUpper caps)).map goUpper) := by
  unfold shouldStartTls hasStartTls
  cases secure0
  · simp only [Bool.not_false, Bool.true_and, true_and, List.any_eq_true, beq_iff_eq, List.mem_map]
  · simp

/-- the upgrade request differs exactly by the `Security` header line -/
theorem C04_security_header_iff (ver : B) (b : Bool) :
    upgradeRequest ver b = upgradeRequest ver true ↔ b = true := by
  cases b
  · simp only [Bool.false_eq_true, iff_false]
    intro h
    have := congrArg List.length h
    simp [upgradeRequest, Gen.capabilityStartTls] at this
    have e1 : (bSecurity).length = 8 := by decide
    have e2 : colonSp.length = 2 := by decide
    have e3 : crlf.length = 2 := by decide
    omega
  · simp

/-- **the server never reports more security than there is**, and once a client asked for StartTLS on a server
    that supports it there is no plaintext session: the outcome is TLS or no session. -/
theorem C04_server_secure_sound (cfg : SrvCfg) (tls : B → Bool) (chunks : List B)
    (v : B) (t : Tech) (s : Bool) (l : B)
    (h : (serverRun cfg tls chunks).out = .established v t s l) :
    (s = true → cfg.secure = true ∨ (t = .tls ∧ supportTls cfg = true ∧ ∃ left, tls left = true)) ∧
    (t ≠ .tls → s = cfg.secure) := by
  revert h
  simp only [serverRun, serverOn]
  repeat' split
  all_goals (intro h; simp_all)
  all_goals first
    | exact ⟨_, by assumption⟩
    | exact Or.inr ⟨_, by assumption⟩
    | (intro ht; subst ht; simp_all; done)
    | (split at h <;> simp_all; done)
    | skip

/-- the server advertises StartTLS iff the carrier is not already secure and a certificate is configured -/
theorem C04_server_offers_iff (cfg : SrvCfg) :
    capsHeaders cfg = [(Gen.capabilitiesHdr, Gen.capabilityStartTls)] ↔
      (cfg.secure = false ∧ (cfg.cert = .ok ∨ cfg.cert = .okerr)) := by
  obtain ⟨sec, cert⟩ := cfg
  cases sec <;> cases cert <;> simp [capsHeaders, supportTls]

/-- **StartTLS is all or nothing (honest pair)**: the real client against the real server on a carrier that is not
    encrypted, with a server that offers StartTLS (every certificate-manager behaviour that makes it offer), for
    both outcomes of the TLS handshake: either both ends have a session over TLS that they both report secure, or
    neither end has a session.  (Complete finite table, evaluated by the kernel on the rendered messages.) -/
theorem C04_starttls_all_or_nothing :
    ∀ cert ∈ certs, ∀ tlsOk ∈ [true, false],
      supportTls ⟨false, cert⟩ = true →
      let p := honestPair ⟨false, cert⟩ false tlsOk
      (p.server = .established Gen.c06ProtocolVersion .tls true [] ∧
         p.client = .established Gen.c06ProtocolVersion .tls true []) ∨
      (isEstablished p.server = false ∧ isEstablished p.client = false) := by
  decide +kernel

/-- **both ends agree on the security status (honest pair)**, over the whole grid carrier secure? x certificate
    manager x TLS outcome: whenever both ends have a session they report the same negotiated version, the same
    `secure` flag and the same security technology; and a session exists on one end only if it exists on the other. -/
theorem C04_secure_flag_agrees :
    ∀ sec ∈ [true, false], ∀ cert ∈ certs, ∀ tlsOk ∈ [true, false],
      let p := honestPair ⟨sec, cert⟩ sec tlsOk
      isEstablished p.server = isEstablished p.client ∧
      (isEstablished p.server = true → p.server = p.client) := by
  decide +kernel

/-- the three clauses of the property on one cell of the grid (Bool-valued so that the table is decidable) -/
def cellSafe (scheme : String) (scert must : Bool) : Cell → Bool
  | .est t s echo clear =>
    let ctls := tlsSchemes.contains scheme
    (!must || (s && (t == .tls || ctls) && echo && !clear)) &&
    (!(scert && !ctls) || (t == .tls && s && echo)) &&
    (!s || !clear)
  | _ => true

/-- **the end-to-end grid** (model of `seckinds`: the real client kind against the real server of that kind; complete
    finite table scheme x server certificate x require-security x insecure flag x client CA, evaluated by the kernel on
    the rendered handshake messages, each kind with the `secure` argument it really passes): whenever a session exists
    (1) with require-security it is reported secure, is TLS-protected (StartTLS or a TLS carrier), works end to end and
    the payload is not in clear on the carrier; (2) on an unencrypted carrier with a server certificate (StartTLS
    offered) it is TLS, secure and works end to end; (3) reported secure => payload not in clear. -/
theorem C04_grid_never_plaintext :
    ∀ scheme ∈ ["tcp", "tcp+tls", "ws", "wss", "udp", "stdio", "stdio+tls", "dns"],
    ∀ scert must insecure ca : Bool,
      cellSafe scheme scert must (cell scheme scert must insecure ca) = true := by
  have core : ∀ scheme ∈ ["tcp", "tcp+tls", "ws", "wss", "udp", "stdio", "stdio+tls", "dns"],
      ∀ scert must acc : Bool, cellSafe scheme scert must (cellCore scheme scert must acc) = true := by
    decide +kernel
  intro scheme hs scert must insecure ca
  exact core scheme hs scert must (accepts scheme insecure ca)

/-! ### non-vacuity -/

/-- a server that advertises StartTLS, TLS succeeding: the client secures the session -/
example : connect false true (fun l => l.isEmpty)
    [render ⟨200, [(Gen.capabilitiesHdr, Gen.capabilityStartTls), (bProtocolVersion, Gen.c06ProtocolVersion)]⟩ ++
     render ⟨101, []⟩] = .ok Gen.c06ProtocolVersion .tls true [] := by decide +kernel
/-- a peer that strips the capability: with mustSecure the guard fires, without it the session is plaintext -/
example : connect false true (fun l => l.isEmpty)
    [render ⟨200, [(bProtocolVersion, Gen.c06ProtocolVersion)]⟩ ++ render ⟨101, []⟩] = .insecureRejected := by
  decide +kernel
example : connect false false (fun l => l.isEmpty)
    [render ⟨200, [(bProtocolVersion, Gen.c06ProtocolVersion)]⟩ ++ render ⟨101, []⟩ ++ [7]]
      = .ok Gen.c06ProtocolVersion .none false [7] := by decide +kernel
/-- honest pair, certificate configured, TLS ok: both secure -/
example : honestPair ⟨false, .ok⟩ false true =
    ⟨.established Gen.c06ProtocolVersion .tls true [], .established Gen.c06ProtocolVersion .tls true []⟩ := by decide +kernel
/-- honest pair without certificate: plaintext on both ends (the opportunistic mode) -/
example : honestPair ⟨false, .nil⟩ false true =
    ⟨.established Gen.c06ProtocolVersion .none false [], .established Gen.c06ProtocolVersion .none false []⟩ := by decide +kernel

/-- per kind: udp with require-security against a peer that strips the capability is rejected, a TLS socket is kept -/
example : connectKind "packet" ⟨false, false, true⟩ (fun l => l.isEmpty)
    [render ⟨200, [(bProtocolVersion, Gen.c06ProtocolVersion)]⟩ ++ render ⟨101, []⟩] = .insecureRejected := by
  decide +kernel
example : connectKind "socket" ⟨true, false, true⟩ (fun l => l.isEmpty)
    [render ⟨200, [(bProtocolVersion, Gen.c06ProtocolVersion)]⟩ ++ render ⟨101, []⟩]
      = .ok Gen.c06ProtocolVersion .underlying true [] := by decide +kernel
/-- grid: udp + server certificate + require-security + CA => StartTLS; without the CA => no session -/
example : cell "udp" true true false true = .est .tls true true false := by decide +kernel
example : cell "udp" true true false false = .refused := by decide +kernel
example : cell "tcp" false false false false = .est .none false true true := by decide +kernel

end SA.Security

#print axioms SA.Security.C04_connect_sound
#print axioms SA.Security.C04_secure_args_honest
#print axioms SA.Security.C04_grid_never_plaintext
#print axioms SA.Security.C04_mustSecure_sound
#print axioms SA.Security.C04_open_stores_only_secure
#print axioms SA.Security.C04_guard_shape
#print axioms SA.Security.C04_client_asks_iff
#print axioms SA.Security.C04_security_header_iff
#print axioms SA.Security.C04_server_secure_sound
#print axioms SA.Security.C04_server_offers_iff
#print axioms SA.Security.C04_starttls_all_or_nothing
#print axioms SA.Security.C04_secure_flag_agrees

namespace SA.PkgState
/-- **no_hidden_process_state**: the models of this property are functions of their arguments and of the objects they are
    handed; the packages they model keep no package-level variables besides these (regenerated inventory: error
    sentinels, tables, compiled patterns, the two session time-outs).  A new package-level variable — a counter, a cache, a
    scratch buffer, a shared map, a registry — would make later calls depend on earlier ones, or concurrent calls on each
    other, outside anything a per-call comparison of model and code can see. -/
theorem C04_no_hidden_process_state :
    Gen.pkgVarNames_socketace = ["SupportedProtocolVersions"] ∧
    Gen.pkgVarNames_upstream = [] := by decide
end SA.PkgState

#print axioms SA.PkgState.C04_no_hidden_process_state

/-
  C06 — Session handshake admits exactly well-formed, compatible peers.

  Property theorems only; helper lemmas are in SA.Proofs.Handshake.
  Quantifiers: every server configuration (carrier secure?, every behaviour of the certificate manager), every
  outcome function `tls` of the TLS library, every list of transport read chunks (= every byte string and every
  way of segmenting it), both roles.  Literals come from SA.Gen.C06 (regenerated from the Go source).
-/
import SA.Proofs.Handshake
import SA.Model.Security
namespace SA.Handshake

/-! ### helpers (not obligations) -/

theorem relParsed_cases {α : Type} {x y : Parsed (α × Rd)} (h : RelParsed x y) :
    (∃ a r1 r2, x = .ok (a, r1) ∧ y = .ok (a, r2) ∧ r1.flat = r2.flat) ∨ (x = .err ∧ y = .err) ∨
      (x = .panic ∧ y = .panic) := by
  cases x with
  | ok p =>
    cases y with
    | ok q =>
      obtain ⟨a, r1⟩ := p; obtain ⟨b, r2⟩ := q
      have h' : a = b ∧ r1.flat = r2.flat := h
      exact Or.inl ⟨a, r1, r2, rfl, by rw [h'.1], h'.2⟩
    | err => exact h.elim
    | panic => exact h.elim
  | err =>
    cases y with
    | ok q => exact h.elim
    | err => exact Or.inr (Or.inl ⟨rfl, rfl⟩)
    | panic => exact h.elim
  | panic =>
    cases y with
    | ok q => exact h.elim
    | err => exact h.elim
    | panic => exact Or.inr (Or.inr ⟨rfl, rfl⟩)

theorem serverOn_sim (cfg : SrvCfg) (tls : B → Bool) (fuel : Nat) (r r' : Rd) (h : r.flat = r'.flat) :
    serverOn cfg tls fuel r = serverOn cfg tls fuel r' := by
  unfold serverOn
  rcases relParsed_cases (readRequest_sim fuel r r' h) with ⟨req, r1, r1', e, e', h1⟩ | ⟨e, e'⟩ | ⟨e, e'⟩
  · rw [e, e']
    simp only
    rcases relParsed_cases (readRequest_sim fuel r1 r1' h1) with ⟨req2, r2, r2', f, f', h2⟩ | ⟨f, f'⟩ | ⟨f, f'⟩
    · rw [f, f']; simp only [h2]
    · rw [f, f']
    · rw [f, f']
  · rw [e, e']
  · rw [e, e']

theorem clientOn_sim (s0 : Bool) (tls : B → Bool) (fuel : Nat) (r r' : Rd) (h : r.flat = r'.flat) :
    clientOn s0 tls fuel r = clientOn s0 tls fuel r' := by
  unfold clientOn
  rcases relParsed_cases (readResponse_sim fuel r r' h) with ⟨resp, r1, r1', e, e', h1⟩ | ⟨e, e'⟩ | ⟨e, e'⟩
  · rw [e, e']
    simp only
    rcases relParsed_cases (readResponse_sim fuel r1 r1' h1) with ⟨resp2, r2, r2', f, f', h2⟩ | ⟨f, f'⟩ | ⟨f, f'⟩
    · rw [f, f']; simp only [h2]
    · rw [f, f']
    · rw [f, f']
  · rw [e, e']
  · rw [e, e']

/-- `s` starts with a request in the sense of the handshake code: a first line `m SP u SP p` with no space in
    `m` and `u`, then a MIME header block `h` closed by an empty line (as net/textproto reads it); `rest` is
    everything after that empty line.  (`fuel` only bounds the parser's loops; it is never exhausted.) -/
def ReadsRequest (fuel : Nat) (s m u p : B) (h : Headers) (rest : B) : Prop :=
  ∃ r', readHeader fuel ⟨s, []⟩ = some (m ++ [32] ++ u ++ [32] ++ p, h, r') ∧ r'.flat = rest ∧ 32 ∉ m ∧ 32 ∉ u

theorem readRequest_ok {fuel : Nat} {r r1 : Rd} {req : Request} (h : readRequest fuel r = .ok (req, r1)) :
    ∃ l, readHeader fuel r = some (l, req.headers, r1) ∧ parseRequestLine l = .ok (req.method, req.url, req.proto) := by
  unfold readRequest at h
  cases hh : readHeader fuel r with
  | none => rw [hh] at h; cases h
  | some x =>
    obtain ⟨l, hd, r'⟩ := x
    rw [hh] at h
    simp only at h
    cases hp : parseRequestLine l with
    | ok t =>
      obtain ⟨m, u, p⟩ := t
      rw [hp] at h
      simp only [Parsed.ok.injEq, Prod.mk.injEq] at h
      obtain ⟨h1, h2⟩ := h
      subst h1; subst h2
      exact ⟨l, rfl, hp⟩
    | err => rw [hp] at h; cases h
    | panic => rw [hp] at h; cases h

theorem readsRequest_of_ok {fuel : Nat} {s : B} {r1 : Rd} {req : Request}
    (h : readRequest fuel ⟨s, []⟩ = .ok (req, r1)) :
    ReadsRequest fuel s req.method req.url req.proto req.headers r1.flat := by
  obtain ⟨l, h1, h2⟩ := readRequest_ok h
  obtain ⟨e, n1, n2⟩ := parseRequestLine_ok h2
  exact ⟨r1, by rw [h1, e], rfl, n1, n2⟩

theorem negotiate_sound {acc v : B} (h : negotiate acc = v) (hne : v ≠ []) :
    v ∈ Gen.supportedVersions ∧ v ∈ splitField acc := by
  simp only [negotiate] at h
  cases hf : Gen.supportedVersions.find? (fun v => (splitField acc).contains v) with
  | none => rw [hf] at h; exact absurd h.symm hne
  | some w =>
    rw [hf] at h
    simp only at h
    subst h
    have := List.find?_some hf
    exact ⟨List.mem_of_find?_eq_some hf, by simpa using this⟩

/-- statuses with which the server refuses, read off the regenerated status tables -/
def refusalCodes : List Int :=
  (((Gen.handshakeStatuses ++ Gen.upgradeStatuses).map (·.1)).filter (fun c => decide (400 ≤ c))).map Int.ofNat

/-! ### property theorems -/

/-- **segmentation independence (server)**: however the byte stream is cut into transport reads (including
    coalescing both requests and the first payload bytes into one read, or delivering byte by byte), the outcome,
    the responses written and the bytes handed on to the next layer are those of the unsegmented stream. -/
theorem C06_segmentation_independent (cfg : SrvCfg) (tls : B → Bool) (chunks : List B) :
    serverRun cfg tls chunks = serverRun cfg tls [chunks.flatten] := by
  unfold serverRun
  have hl : [chunks.flatten].flatten = chunks.flatten := by simp
  rw [hl]
  exact serverOn_sim cfg tls _ _ _ (by simp [Rd.flat])

/-- **segmentation independence (client)** -/
theorem C06_segmentation_independent_client (s0 : Bool) (tls : B → Bool) (chunks : List B) :
    clientRun s0 tls chunks = clientRun s0 tls [chunks.flatten] := by
  unfold clientRun
  have hl : [chunks.flatten].flatten = chunks.flatten := by simp
  rw [hl]
  exact clientOn_sim s0 tls _ _ _ (by simp [Rd.flat])

/-- **no client-sent byte sequence crashes the server**: the Go slice expressions of `parseRequestLine`
    (`line[s1+1:]`, `line[:s1]`, `line[s1+1:s2]`, `line[s2+1:]`) are in range for every line. -/
theorem C06_no_panic_server (cfg : SrvCfg) (tls : B → Bool) (chunks : List B) :
    (serverRun cfg tls chunks).out ≠ .panic := by
  simp only [serverRun, serverOn]
  repeat' split
  all_goals simp_all [readRequest_ne_panic]

/-- **no server-sent byte sequence crashes the client** -/
theorem C06_no_panic_client (s0 : Bool) (tls : B → Bool) (chunks : List B) :
    (clientRun s0 tls chunks).out ≠ .panic := by
  simp only [clientRun, clientOn]
  repeat' split
  all_goals simp_all [readResponse_ne_panic]

/-- **a session only for well-formed, compatible input**: if the server establishes a session with version `v`,
    the byte stream starts with an announce request (method `X-SOCKETACE`) whose `Accepts-Protocol-Version` list
    contains `v`, a version the server supports; followed by a `GET` request with `Connection: upgrade`
    (case-insensitive) and `Upgrade: socketace/v`; 200 and 101 are exactly the responses written; without TLS
    the bytes after the second request are handed on unchanged. -/
theorem C06_admits_only_wellformed (cfg : SrvCfg) (tls : B → Bool) (chunks : List B)
    (v : B) (t : Tech) (s : Bool) (left : B)
    (h : (serverRun cfg tls chunks).out = .established v t s left) :
    let fuel := chunks.flatten.length + 2
    ∃ u p hd rest u2 p2 hd2 rest2,
      ReadsRequest fuel chunks.flatten Gen.requestMethod u p hd rest ∧
      v ∈ Gen.supportedVersions ∧ v ∈ splitField (hget hd Gen.acceptsProtocolVersion) ∧
      ReadsRequest fuel rest Gen.srvUpgradeMethod u2 p2 hd2 rest2 ∧
      goLower (hget hd2 bConnection) = Gen.srvUpgradeConnection ∧
      hget hd2 bUpgrade = Gen.srvUpgradePrefix ++ v ∧
      (t ≠ .tls → left = rest2) := by
  intro fuel
  rw [C06_segmentation_independent] at h
  unfold serverRun at h
  have hl : [chunks.flatten].flatten = chunks.flatten := by simp
  rw [hl] at h
  have hs : serverOn cfg tls (chunks.flatten.length + 2) ⟨[], [chunks.flatten]⟩ =
      serverOn cfg tls fuel ⟨chunks.flatten, []⟩ := serverOn_sim _ _ _ _ _ (by simp [Rd.flat])
  rw [hs] at h
  simp only [serverOn] at h
  cases e1 : readRequest fuel ⟨chunks.flatten, []⟩ with
  | err => rw [e1] at h; simp at h
  | panic => rw [e1] at h; simp at h
  | ok x =>
    obtain ⟨req, r1⟩ := x
    rw [e1] at h
    simp only at h
    by_cases hm : req.method = Gen.srvAnnounceMethod
    · simp only [hm, ne_eq, not_true_eq_false, if_false] at h
      by_cases hv : negotiate (hget req.headers Gen.acceptsProtocolVersion) = []
      · simp [hv] at h
      · simp only [hv, if_false] at h
        cases e2 : readRequest fuel r1 with
        | err => rw [e2] at h; simp at h
        | panic => rw [e2] at h; simp at h
        | ok y =>
          obtain ⟨req2, r2⟩ := y
          rw [e2] at h
          simp only at h
          by_cases hm2 : req2.method = Gen.srvUpgradeMethod
          · simp only [hm2, ne_eq, not_true_eq_false, if_false] at h
            by_cases hc : goLower (hget req2.headers bConnection) = Gen.srvUpgradeConnection
            · simp only [hc, not_true_eq_false, if_false] at h
              by_cases hu : hget req2.headers bUpgrade = Gen.srvUpgradePrefix ++ negotiate (hget req.headers Gen.acceptsProtocolVersion)
              · simp only [hu, not_true_eq_false, if_false] at h
                -- the second request, read from the flat remainder
                have sim2 := readRequest_sim fuel r1 ⟨r1.flat, []⟩ (by simp [Rd.flat])
                rcases relParsed_cases sim2 with ⟨rq, ra, rb, f, f', hab⟩ | ⟨f, _⟩ | ⟨f, _⟩
                · rw [e2] at f
                  simp only [Parsed.ok.injEq, Prod.mk.injEq] at f
                  obtain ⟨f1, f2⟩ := f
                  subst f1; subst f2
                  have R1 := readsRequest_of_ok e1
                  have R2 := readsRequest_of_ok f'
                  rw [hm] at R1
                  rw [hm2] at R2
                  have k := negotiate_sound (acc := hget req.headers Gen.acceptsProtocolVersion) rfl hv
                  have hreq : Gen.requestMethod = Gen.srvAnnounceMethod := by decide
                  rw [hreq]
                  have fin : ∀ (tt : Tech) (ss : Bool) (ll : B),
                      Outcome.established (negotiate (hget req.headers Gen.acceptsProtocolVersion)) tt ss ll =
                        Outcome.established v t s left → (tt ≠ .tls → ll = r2.flat) →
                      ∃ u p hd rest u2 p2 hd2 rest2,
                        ReadsRequest fuel chunks.flatten Gen.srvAnnounceMethod u p hd rest ∧
                        v ∈ Gen.supportedVersions ∧ v ∈ splitField (hget hd Gen.acceptsProtocolVersion) ∧
                        ReadsRequest fuel rest Gen.srvUpgradeMethod u2 p2 hd2 rest2 ∧
                        goLower (hget hd2 bConnection) = Gen.srvUpgradeConnection ∧
                        hget hd2 bUpgrade = Gen.srvUpgradePrefix ++ v ∧
                        (t ≠ .tls → left = rest2) := by
                    intro tt ss ll heq hleft
                    simp only [Outcome.established.injEq] at heq
                    obtain ⟨h1, h2, h3, h4⟩ := heq
                    subst h1; subst h2; subst h4
                    exact ⟨_, _, _, _, _, _, _, _, R1, k.1, k.2, R2, hc, hu,
                      fun hne => by rw [hleft hne, hab]⟩
                  split at h
                  · split at h
                    · split at h
                      · simp at h
                      · split at h
                        · exact fin _ _ _ h (fun hne => absurd rfl hne)
                        · simp at h
                    · simp at h
                  · exact fin _ _ _ h (fun _ => rfl)
                · rw [e2] at f; cases f
                · rw [e2] at f; cases f
              · simp [hu] at h
            · simp [hc] at h
          · simp [hm2] at h
    · simp [hm] at h

/-- a session is established only after `200` and `101` were written, in this order, and nothing else -/
theorem C06_session_only_after_101 (cfg : SrvCfg) (tls : B → Bool) (chunks : List B)
    (v : B) (t : Tech) (s : Bool) (left : B)
    (h : (serverRun cfg tls chunks).out = .established v t s left) :
    (serverRun cfg tls chunks).written.map (·.code) = [200, 101] := by
  revert h
  simp only [serverRun, serverOn]
  repeat' split
  all_goals simp_all

/-- the three acceptable kinds of result -/
def SessionOrRefusedOrClosed (res : SrvResult) : Prop :=
  (∃ v t s l, res.out = .established v t s l) ∨
  (∃ st : Int, res.out = .refused st ∧ st ∈ refusalCodes ∧
      (res.written.getLast?.map (fun w => Int.ofNat w.code)) = some st) ∨
  res.out = .closed

/-- **everything else is refused or closed**: the outcome is a session (then `C06_admits_only_wellformed` applies),
    or a refusal whose status is one of the server's error statuses and is the status of the last response
    written, or a close; never a crash. -/
theorem C06_else_refused (cfg : SrvCfg) (tls : B → Bool) (chunks : List B) :
    SessionOrRefusedOrClosed (serverRun cfg tls chunks) := by
  simp only [serverRun, serverOn]
  repeat' split
  all_goals first
    | exact Or.inl ⟨_, _, _, _, rfl⟩
    | exact Or.inr (Or.inr rfl)
    | exact Or.inr (Or.inl ⟨_, rfl, by decide, rfl⟩)
    | (exfalso; simp_all [readRequest_ne_panic])

/-- **the client proceeds only on 200 then 101**: a client session implies two well-formed replies whose status
    codes are exactly the two constants of client.go, and the version it reports is the first `Protocol-Version` value
    of the first reply. -/
theorem C06_client_admits_only (s0 : Bool) (tls : B → Bool) (chunks : List B)
    (v : B) (t : Tech) (s : Bool) (l : B)
    (h : (clientRun s0 tls chunks).out = .established v t s l) :
    ∃ resp r1 resp2 r2,
      readResponse (chunks.flatten.length + 2) ⟨[], chunks⟩ = .ok (resp, r1) ∧ resp.code = Gen.cliHandshakeStatus ∧
      readResponse (chunks.flatten.length + 2) r1 = .ok (resp2, r2) ∧ resp2.code = Gen.cliUpgradeStatus ∧
      v = hget resp.headers bProtocolVersion := by
  revert h
  simp only [clientRun, clientOn]
  repeat' split
  all_goals (intro h; simp_all)
  all_goals first
    | exact ⟨_, _, ⟨rfl, rfl⟩, by assumption, _, ⟨_, by assumption⟩, by assumption, h.1.symm⟩
    | skip

/-- the places of the handshake files that can panic and that the model was written against: the slice
    expressions of the two line parsers (proved in range above) and the `panic(err)` calls of the two `String()`
    renderers, which only fire when writing to a `bytes.Buffer` fails (it never does). -/
def modelledPanicSites : List String := [
  "request.go:parseRequestLine:slice", "request.go:String:panic-call",
  "response.go:parseResponseLine:slice", "response.go:String:panic-call"]

/-- the regenerated inventory (every index / slice / unchecked assertion / explicit panic call, by file, function
    and kind) contains no site without a model counterpart -/
theorem C06_panic_site_inventory : ∀ s ∈ Gen.c06PanicSites, s ∈ modelledPanicSites := by decide

/-! ### non-vacuity -/

def ex_announce : B := Security.announceRequest
def ex_upgrade : B := upgradeRequest Gen.c06ProtocolVersion false

/-- a well-formed pair of requests, delivered byte by byte, is admitted with the supported version and the
    trailing payload is handed on -/
example : (serverRun ⟨false, .nil⟩ (fun _ => false) ((ex_announce ++ ex_upgrade ++ [1, 2, 3]).map fun b => [b])).out
    = .established Gen.c06ProtocolVersion .none false [1, 2, 3] := by decide +kernel
/-- a refusal exists (wrong method → 405), so `C06_else_refused`'s middle branch is inhabited -/
example : (serverRun ⟨false, .nil⟩ (fun _ => false) [[71, 69, 84, 32, 47, 32, 72, 13, 10, 13, 10]]).out = .refused 405 := by
  decide
/-- the segmentation theorem is not about a constant function -/
example : serverRun ⟨false, .nil⟩ (fun _ => false) [[71, 69, 84, 32], [47, 32, 72, 13], [10, 13, 10]]
    ≠ serverRun ⟨false, .nil⟩ (fun _ => false) [[71, 69, 84, 32, 47, 13, 10, 13, 10]] := by decide +kernel

end SA.Handshake

#print axioms SA.Handshake.C06_segmentation_independent
#print axioms SA.Handshake.C06_segmentation_independent_client
#print axioms SA.Handshake.C06_no_panic_server
#print axioms SA.Handshake.C06_no_panic_client
#print axioms SA.Handshake.C06_admits_only_wellformed
#print axioms SA.Handshake.C06_session_only_after_101
#print axioms SA.Handshake.C06_client_admits_only
#print axioms SA.Handshake.C06_else_refused
#print axioms SA.Handshake.C06_panic_site_inventory

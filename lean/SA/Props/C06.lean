/-
  C06 — Session handshake admits exactly well-formed, compatible peers.

  Property theorems only; helper lemmas are in SA.Proofs.Handshake.
  Quantifiers: every server configuration (carrier secure?, every behaviour of the certificate manager), every
  outcome function `tls` of the TLS library, every list of transport read chunks (= every byte string and every
  way of segmenting it), both roles.  Literals come from SA.Gen.C06 (regenerated from the Go source).
-/
import SA.Proofs.HandshakeComplete
import SA.Model.Security
import SA.Gen.PkgVars
namespace SA.Handshake

/-! ### helpers (not obligations) -/

theorem relParsed_cases {α : Type} {x y : Parsed (α × Rd)} (h : RelParsed x y) :
    (∃ a r1 r2, x = .ok (a, r1) ∧ y = .ok (a, r2) ∧ r1.flat = r2.flat) ∨ (x = .err ∧ y = .err) ∨
      (x = .panic ∧ y = .panic) := by
  cases x with
  | ok p =>
    cases y with
    | ok q =>
      obtain ⟨a, r1⟩ := p; obtain ⟨b, r2⟩ := q
      have h' : a = b ∧ r1.flat = r2.flat := h
      exact Or.inl ⟨a, r1, r2, rfl, by rw [h'.1], h'.2⟩
    | err => exact h.elim
    | panic => exact h.elim
  | err =>
    cases y with
    | ok q => exact h.elim
    | err => exact Or.inr (Or.inl ⟨rfl, rfl⟩)
    | panic => exact h.elim
  | panic =>
    cases y with
    | ok q => exact h.elim
    | err => exact h.elim
    | panic => exact Or.inr (Or.inr ⟨rfl, rfl⟩)

theorem serverOn_sim (cfg : SrvCfg) (tls : B → Bool) (fuel : Nat) (r r' : Rd) (h : r.flat = r'.flat) :
    serverOn cfg tls fuel r = serverOn cfg tls fuel r' := by
  unfold serverOn
  rcases relParsed_cases (readRequest_sim fuel r r' h) with ⟨req, r1, r1', e, e', h1⟩ | ⟨e, e'⟩ | ⟨e, e'⟩
  · rw [e, e']
    simp only
    rcases relParsed_cases (readRequest_sim fuel r1 r1' h1) with ⟨req2, r2, r2', f, f', h2⟩ | ⟨f, f'⟩ | ⟨f, f'⟩
    · rw [f, f']; simp only [h2]
    · rw [f, f']
    · rw [f, f']
  · rw [e, e']
  · rw [e, e']

theorem clientOn_sim (s0 : Bool) (tls : B → Bool) (fuel : Nat) (r r' : Rd) (h : r.flat = r'.flat) :
    clientOn s0 tls fuel r = clientOn s0 tls fuel r' := by
  unfold clientOn
  rcases relParsed_cases (readResponse_sim fuel r r' h) with ⟨resp, r1, r1', e, e', h1⟩ | ⟨e, e'⟩ | ⟨e, e'⟩
  · rw [e, e']
    simp only
    rcases relParsed_cases (readResponse_sim fuel r1 r1' h1) with ⟨resp2, r2, r2', f, f', h2⟩ | ⟨f, f'⟩ | ⟨f, f'⟩
    · rw [f, f']; simp only [h2]
    · rw [f, f']
    · rw [f, f']
  · rw [e, e']
  · rw [e, e']

/-- `s` starts with a request in the sense of the handshake code: a first line `m SP u SP p` with no space in
    `m` and `u`, then a MIME header block `h` closed by an empty line (as net/textproto reads it); `rest` is
    everything after that empty line.  (`fuel` only bounds the parser's loops; it is never exhausted.) -/
def ReadsRequest (fuel : Nat) (s m u p : B) (h : Headers) (rest : B) : Prop :=
  ∃ r', readHeader fuel ⟨s, []⟩ = some (m ++ [32] ++ u ++ [32] ++ p, h, r') ∧ r'.flat = rest ∧ 32 ∉ m ∧ 32 ∉ u

theorem readRequest_ok {fuel : Nat} {r r1 : Rd} {req : Request} (h : readRequest fuel r = .ok (req, r1)) :
    ∃ l, readHeader fuel r = some (l, req.headers, r1) ∧ parseRequestLine l = .ok (req.method, req.url, req.proto) := by
  unfold readRequest at h
  cases hh : readHeader fuel r with
  | none => rw [hh] at h; cases h
  | some x =>
    obtain ⟨l, hd, r'⟩ := x
    rw [hh] at h
    simp only at h
    cases hp : parseRequestLine l with
    | ok t =>
      obtain ⟨m, u, p⟩ := t
      rw [hp] at h
      simp only [Parsed.ok.injEq, Prod.mk.injEq] at h
      obtain ⟨h1, h2⟩ := h
      subst h1; subst h2
      exact ⟨l, rfl, hp⟩
    | err => rw [hp] at h; cases h
    | panic => rw [hp] at h; cases h

theorem readsRequest_of_ok {fuel : Nat} {s : B} {r1 : Rd} {req : Request}
    (h : readRequest fuel ⟨s, []⟩ = .ok (req, r1)) :
    ReadsRequest fuel s req.method req.url req.proto req.headers r1.flat := by
  obtain ⟨l, h1, h2⟩ := readRequest_ok h
  obtain ⟨e, n1, n2⟩ := parseRequestLine_ok h2
  exact ⟨r1, by rw [h1, e], rfl, n1, n2⟩

theorem negotiate_sound {acc v : B} (h : negotiate acc = v) (hne : v ≠ []) :
    v ∈ Gen.supportedVersions ∧ v ∈ splitField acc := by
  simp only [negotiate] at h
  cases hf : Gen.supportedVersions.find? (fun v => (splitField acc).contains v) with
  | none => rw [hf] at h; exact absurd h.symm hne
  | some w =>
    rw [hf] at h
    simp only at h
    subst h
    have := List.find?_some hf
    exact ⟨List.mem_of_find?_eq_some hf, by simpa using this⟩

/-- statuses with which the server refuses, read off the regenerated status tables -/
def refusalCodes : List Int :=
  (((Gen.handshakeStatuses ++ Gen.upgradeStatuses).map (·.1)).filter (fun c => decide (400 ≤ c))).map Int.ofNat

/-! ### property theorems -/

/-- **segmentation independence (server)**: however the byte stream is cut into transport reads (including
    coalescing both requests and the first payload bytes into one read, or delivering byte by byte), the outcome,
    the responses written and the bytes handed on to the next layer are those of the unsegmented stream. -/
theorem C06_segmentation_independent (cfg : SrvCfg) (tls : B → Bool) (chunks : List B) :
    serverRun cfg tls chunks = serverRun cfg tls [chunks.flatten] := by
  unfold serverRun
  have hl : [chunks.flatten].flatten = chunks.flatten := by simp
  rw [hl]
  exact serverOn_sim cfg tls _ _ _ (by simp [Rd.flat])

/-- **segmentation independence (client)** -/
theorem C06_segmentation_independent_client (s0 : Bool) (tls : B → Bool) (chunks : List B) :
    clientRun s0 tls chunks = clientRun s0 tls [chunks.flatten] := by
  unfold clientRun
  have hl : [chunks.flatten].flatten = chunks.flatten := by simp
  rw [hl]
  exact clientOn_sim s0 tls _ _ _ (by simp [Rd.flat])

/-- **no client-sent byte sequence crashes the server**: the Go slice expressions of `parseRequestLine`
    (`line[s1+1:]`, `line[:s1]`, `line[s1+1:s2]`, `line[s2+1:]`) are in range for every line. -/
theorem C06_no_panic_server (cfg : SrvCfg) (tls : B → Bool) (chunks : List B) :
    (serverRun cfg tls chunks).out ≠ .panic := by
  simp only [serverRun, serverOn]
  repeat' split
  all_goals simp_all [readRequest_ne_panic]

/-- **no server-sent byte sequence crashes the client** -/
theorem C06_no_panic_client (s0 : Bool) (tls : B → Bool) (chunks : List B) :
    (clientRun s0 tls chunks).out ≠ .panic := by
  simp only [clientRun, clientOn]
  repeat' split
  all_goals simp_all [readResponse_ne_panic]

/-- **a session only for well-formed, compatible input**: if the server establishes a session with version `v`,
    the byte stream starts with an announce request (method `X-SOCKETACE`) whose `Accepts-Protocol-Version` list
    contains `v`, a version the server supports; followed by a `GET` request with `Connection: upgrade`
    (case-insensitive) and `Upgrade: socketace/v`; 200 and 101 are exactly the responses written; without TLS
    the bytes after the second request are handed on unchanged. -/
theorem C06_admits_only_wellformed (cfg : SrvCfg) (tls : B → Bool) (chunks : List B)
    (v : B) (t : Tech) (s : Bool) (left : B)
    (h : (serverRun cfg tls chunks).out = .established v t s left) :
    let fuel := chunks.flatten.length + 2
    ∃ u p hd rest u2 p2 hd2 rest2,
      ReadsRequest fuel chunks.flatten Gen.requestMethod u p hd rest ∧
      v ∈ Gen.supportedVersions ∧ v ∈ splitField (hget hd Gen.acceptsProtocolVersion) ∧
      ReadsRequest fuel rest Gen.srvUpgradeMethod u2 p2 hd2 rest2 ∧
      goLower (hget hd2 bConnection) = Gen.srvUpgradeConnection ∧
      hget hd2 bUpgrade = Gen.srvUpgradePrefix ++ v ∧
      (t ≠ .tls → left = rest2) := by
  intro fuel
  rw [C06_segmentation_independent] at h
  unfold serverRun at h
  have hl : [chunks.flatten].flatten = chunks.flatten := by simp
  rw [hl] at h
  have hs : serverOn cfg tls (chunks.flatten.length + 2) ⟨[], [chunks.flatten]⟩ =
      serverOn cfg tls fuel ⟨chunks.flatten, []⟩ := serverOn_sim _ _ _ _ _ (by simp [Rd.flat])
  rw [hs] at h
  simp only [serverOn] at h
  cases e1 : readRequest fuel ⟨chunks.flatten, []⟩ with
  | err => rw [e1] at h; simp at h
  | panic => rw [e1] at h; simp at h
  | ok x =>
    obtain ⟨req, r1⟩ := x
    rw [e1] at h
    simp only at h
    by_cases hm : req.method = Gen.srvAnnounceMethod
    · simp only [hm, ne_eq, not_true_eq_false, if_false] at h
      by_cases hv : negotiate (hget req.headers Gen.acceptsProtocolVersion) = []
      · simp [hv] at h
      · simp only [hv, if_false] at h
        cases e2 : readRequest fuel r1 with
        | err => rw [e2] at h; simp at h
        | panic => rw [e2] at h; simp at h
        | ok y =>
          obtain ⟨req2, r2⟩ := y
          rw [e2] at h
          simp only at h
          by_cases hm2 : req2.method = Gen.srvUpgradeMethod
          · simp only [hm2, not_true_eq_false, if_false] at h
            by_cases hc : goLower (hget req2.headers bConnection) = Gen.srvUpgradeConnection
            · simp only [hc, not_true_eq_false, if_false] at h
              by_cases hu : hget req2.headers bUpgrade = Gen.srvUpgradePrefix ++ negotiate (hget req.headers Gen.acceptsProtocolVersion)
              · simp only [hu, not_true_eq_false, if_false] at h
                -- the second request, read from the flat remainder
                have sim2 := readRequest_sim fuel r1 ⟨r1.flat, []⟩ (by simp [Rd.flat])
                rcases relParsed_cases sim2 with ⟨rq, ra, rb, f, f', hab⟩ | ⟨f, _⟩ | ⟨f, _⟩
                · rw [e2] at f
                  simp only [Parsed.ok.injEq, Prod.mk.injEq] at f
                  obtain ⟨f1, f2⟩ := f
                  subst f1; subst f2
                  have R1 := readsRequest_of_ok e1
                  have R2 := readsRequest_of_ok f'
                  rw [hm] at R1
                  rw [hm2] at R2
                  have k := negotiate_sound (acc := hget req.headers Gen.acceptsProtocolVersion) rfl hv
                  have hreq : Gen.requestMethod = Gen.srvAnnounceMethod := by decide
                  rw [hreq]
                  have fin : ∀ (tt : Tech) (ss : Bool) (ll : B),
                      Outcome.established (negotiate (hget req.headers Gen.acceptsProtocolVersion)) tt ss ll =
                        Outcome.established v t s left → (tt ≠ .tls → ll = r2.flat) →
                      ∃ u p hd rest u2 p2 hd2 rest2,
                        ReadsRequest fuel chunks.flatten Gen.srvAnnounceMethod u p hd rest ∧
                        v ∈ Gen.supportedVersions ∧ v ∈ splitField (hget hd Gen.acceptsProtocolVersion) ∧
                        ReadsRequest fuel rest Gen.srvUpgradeMethod u2 p2 hd2 rest2 ∧
                        goLower (hget hd2 bConnection) = Gen.srvUpgradeConnection ∧
                        hget hd2 bUpgrade = Gen.srvUpgradePrefix ++ v ∧
                        (t ≠ .tls → left = rest2) := by
                    intro tt ss ll heq hleft
                    simp only [Outcome.established.injEq] at heq
                    obtain ⟨h1, h2, h3, h4⟩ := heq
                    subst h1; subst h2; subst h4
                    exact ⟨_, _, _, _, _, _, _, _, R1, k.1, k.2, R2, hc, hu,
                      fun hne => by rw [hleft hne, hab]⟩
                  split at h
                  · split at h
                    · split at h
                      · simp at h
                      · split at h
                        · exact fin _ _ _ h (fun hne => absurd rfl hne)
                        · simp at h
                    · simp at h
                  · exact fin _ _ _ h (fun _ => rfl)
                · rw [e2] at f; cases f
                · rw [e2] at f; cases f
              · simp [hu] at h
            · simp [hc] at h
          · simp [hm2] at h
    · simp [hm] at h

/-- a session is established only after `200` and `101` were written, in this order, and nothing else -/
theorem C06_session_only_after_101 (cfg : SrvCfg) (tls : B → Bool) (chunks : List B)
    (v : B) (t : Tech) (s : Bool) (left : B)
    (h : (serverRun cfg tls chunks).out = .established v t s left) :
    (serverRun cfg tls chunks).written.map (·.code) = [200, 101] := by
  revert h
  simp only [serverRun, serverOn]
  repeat' split
  all_goals simp_all

/-- the three acceptable kinds of result -/
def SessionOrRefusedOrClosed (res : SrvResult) : Prop :=
  (∃ v t s l, res.out = .established v t s l) ∨
  (∃ st : Int, res.out = .refused st ∧ st ∈ refusalCodes ∧
      (res.written.getLast?.map (fun w => Int.ofNat w.code)) = some st) ∨
  res.out = .closed

/-- **everything else is refused or closed**: the outcome is a session (then `C06_admits_only_wellformed` applies),
    or a refusal whose status is one of the server's error statuses and is the status of the last response
    written, or a close; never a crash. -/
theorem C06_else_refused (cfg : SrvCfg) (tls : B → Bool) (chunks : List B) :
    SessionOrRefusedOrClosed (serverRun cfg tls chunks) := by
  simp only [serverRun, serverOn]
  repeat' split
  all_goals first
    | exact Or.inl ⟨_, _, _, _, rfl⟩
    | exact Or.inr (Or.inr rfl)
    | exact Or.inr (Or.inl ⟨_, rfl, by decide, rfl⟩)
    | (exfalso; simp_all [readRequest_ne_panic])

/-- **the client proceeds only on 200 then 101**: a client session implies two well-formed replies whose status
    codes are exactly the two constants of client.go, and the version it reports is the first `Protocol-Version` value
    of the first reply. -/
theorem C06_client_admits_only (s0 : Bool) (tls : B → Bool) (chunks : List B)
    (v : B) (t : Tech) (s : Bool) (l : B)
    (h : (clientRun s0 tls chunks).out = .established v t s l) :
    ∃ resp r1 resp2 r2,
      readResponse (chunks.flatten.length + 2) ⟨[], chunks⟩ = .ok (resp, r1) ∧ resp.code = Gen.cliHandshakeStatus ∧
      readResponse (chunks.flatten.length + 2) r1 = .ok (resp2, r2) ∧ resp2.code = Gen.cliUpgradeStatus ∧
      v = hget resp.headers bProtocolVersion := by
  revert h
  simp only [clientRun, clientOn]
  repeat' split
  all_goals (intro h; simp_all)
  all_goals first
    | exact ⟨_, _, ⟨rfl, rfl⟩, by assumption, _, ⟨_, by assumption⟩, by assumption, h.1.symm⟩
    | skip

/-- the places of the handshake files that can panic and that the model was written against: the slice
    expressions of the two line parsers (proved in range above) and the `panic(err)` calls of the two `String()`
    renderers, which only fire when writing to a `bytes.Buffer` fails (it never does). -/
def modelledPanicSites : List String := [
  "request.go:parseRequestLine:slice", "request.go:String:panic-call",
  "response.go:parseResponseLine:slice", "response.go:String:panic-call"]

/-- the regenerated inventory (every index / slice / unchecked assertion / explicit panic call, by file, function
    and kind) contains no site without a model counterpart -/
theorem C06_panic_site_inventory : ∀ s ∈ Gen.c06PanicSites, s ∈ modelledPanicSites := by decide

/-! ### completeness: every well-formed pair of requests / replies is admitted -/

theorem flatten_bytewise (l : B) : (l.map fun b => [b]).flatten = l := by
  induction l with
  | nil => rfl
  | cons x xs ih => simpa using ih

theorem serverRun_flat (cfg : SrvCfg) (tls : B → Bool) (chunks : List B) :
    serverRun cfg tls chunks = serverOn cfg tls (chunks.flatten.length + 2) ⟨chunks.flatten, []⟩ := by
  rw [C06_segmentation_independent]
  unfold serverRun
  have hl : [chunks.flatten].flatten = chunks.flatten := by simp
  rw [hl]
  exact serverOn_sim _ _ _ _ _ (by simp [Rd.flat])

theorem clientRun_flat (s0 : Bool) (tls : B → Bool) (chunks : List B) :
    clientRun s0 tls chunks = clientOn s0 tls (chunks.flatten.length + 2) ⟨chunks.flatten, []⟩ := by
  rw [C06_segmentation_independent_client]
  unfold clientRun
  have hl : [chunks.flatten].flatten = chunks.flatten := by simp
  rw [hl]
  exact clientOn_sim _ _ _ _ _ (by simp [Rd.flat])

theorem readRequest_of_reads {fuel : Nat} {s m u p : B} {h : Headers} {rest : B}
    (R : ReadsRequest fuel s m u p h rest) :
    ∃ r1, readRequest fuel ⟨s, []⟩ = .ok (⟨m, u, p, h⟩, r1) ∧ r1.flat = rest := by
  obtain ⟨r', e, hr, n1, n2⟩ := R
  refine ⟨r', ?_, hr⟩
  unfold readRequest
  rw [e]
  simp only [parseRequestLine_render m u p n1 n2]

/-- the decidable well-formedness of a pair of requests apart from the significant header values: URLs without
    space / LF, protocol fields without LF, every header line `wfHeader` (name: non-empty, token bytes or spaces,
    not starting with a space; raw value after the colon: `validHeaderValueByte`s only) -/
def wfRequestPair (u p : B) (ws1 : Headers) (u2 p2 : B) (ws2 : Headers) : Bool :=
  wfWord u && wfTail p && wfHeaders ws1 && wfWord u2 && wfTail p2 && wfHeaders ws2

/-- **every well-formed, compatible pair of requests is admitted (wire level)**: take any announce request
    `X-SOCKETACE SP url SP proto CRLF (name ":" raw CRLF)* CRLF` and any upgrade request `GET SP url SP proto CRLF …`
    whose header lines are well-formed (`wfRequestPair`), followed by arbitrary bytes `rest`, such that
    * `v` is the first version of the server's `SupportedProtocolVersions` (server order) contained in the
      comma-separated list of the first header whose name canonicalises to `Accepts-Protocol-Version`,
    * the first `Connection` header lower-cases to `upgrade`, the first `Upgrade` header is `socketace/v`,
    * if the first `Security` header upper-cases to `STARTTLS`: the carrier is not already secure, the certificate
      manager yields a certificate, and the TLS library (parameter) completes its handshake on `rest`;
    then under **every** segmentation of that byte stream into transport reads the server establishes the session
    with version `v` — StartTLS-secured when asked for, otherwise plain / underlying with `rest` handed on
    unchanged — having written exactly `200` and `101`. -/
theorem C06_admits_every_wellformed (cfg : SrvCfg) (tls : B → Bool)
    (u p : B) (ws1 : Headers) (u2 p2 : B) (ws2 : Headers) (rest v : B) (chunks : List B)
    (hchunks : chunks.flatten =
      wireRequest Gen.requestMethod u p ws1 ++ wireRequest Gen.srvUpgradeMethod u2 p2 ws2 ++ rest)
    (hwf : wfRequestPair u p ws1 u2 p2 ws2 = true)
    (hv : firstSupported (hget (parsedHeaders ws1) Gen.acceptsProtocolVersion) = some v)
    (hc : goLower (hget (parsedHeaders ws2) bConnection) = Gen.srvUpgradeConnection)
    (hup : hget (parsedHeaders ws2) bUpgrade = Gen.srvUpgradePrefix ++ v)
    (htls : asksStartTls ws2 = true → cfg.secure = false ∧ cfg.cert = .ok ∧ tls rest = true) :
    (serverRun cfg tls chunks).out = expectedSession cfg v (asksStartTls ws2) rest ∧
      (serverRun cfg tls chunks).written.map (·.code) = [200, 101] := by
  have main : (serverRun cfg tls chunks).out = expectedSession cfg v (asksStartTls ws2) rest := by
    rw [serverRun_flat, hchunks, List.append_assoc]
    simp only [wfRequestPair, Bool.and_eq_true] at hwf
    obtain ⟨⟨⟨⟨⟨a, b⟩, c⟩, d⟩, e⟩, g⟩ := hwf
    have l1 : ws1.length < (wireRequest Gen.requestMethod u p ws1).length := length_lt_wireMessage _ ws1
    have l2 : ws2.length < (wireRequest Gen.srvUpgradeMethod u2 p2 ws2).length := length_lt_wireMessage _ ws2
    exact serverOn_complete cfg tls _ u p ws1 u2 p2 ws2 rest v a b c d e g
      (by rw [List.length_append, List.length_append]; omega)
      (by rw [List.length_append, List.length_append]; omega) hv hc hup htls
  refine ⟨main, ?_⟩
  unfold expectedSession at main
  split at main
  · exact C06_session_only_after_101 _ _ _ _ _ _ _ main
  · exact C06_session_only_after_101 _ _ _ _ _ _ _ main

/-- the same for requests in the format Go's `(*Request).String` / `http.Header.Write` produce
    (`name ": " value CRLF`); `hs1`, `hs2` are (name, value) pairs, read back as (canonical name, trimmed value) -/
theorem C06_admits_every_rendered (cfg : SrvCfg) (tls : B → Bool)
    (u p : B) (hs1 : Headers) (u2 p2 : B) (hs2 : Headers) (rest v : B) (chunks : List B)
    (hchunks : chunks.flatten =
      renderRequest Gen.requestMethod u p hs1 ++ renderRequest Gen.srvUpgradeMethod u2 p2 hs2 ++ rest)
    (hwf : wfRequestPair u p hs1 u2 p2 hs2 = true)
    (hv : firstSupported (hget (parsedHeaders hs1) Gen.acceptsProtocolVersion) = some v)
    (hc : goLower (hget (parsedHeaders hs2) bConnection) = Gen.srvUpgradeConnection)
    (hup : hget (parsedHeaders hs2) bUpgrade = Gen.srvUpgradePrefix ++ v)
    (htls : asksStartTls hs2 = true → cfg.secure = false ∧ cfg.cert = .ok ∧ tls rest = true) :
    (serverRun cfg tls chunks).out = expectedSession cfg v (asksStartTls hs2) rest ∧
      (serverRun cfg tls chunks).written.map (·.code) = [200, 101] := by
  have ha : asksStartTls (renderHeaders hs2) = asksStartTls hs2 := by
    simp only [asksStartTls, parsedHeaders_render]
  have hwf' : wfRequestPair u p (renderHeaders hs1) u2 p2 (renderHeaders hs2) = true := by
    simp only [wfRequestPair, Bool.and_eq_true] at hwf ⊢
    obtain ⟨⟨⟨⟨⟨a, b⟩, c⟩, d⟩, e⟩, g⟩ := hwf
    exact ⟨⟨⟨⟨⟨a, b⟩, wfHeaders_render _ c⟩, d⟩, e⟩, wfHeaders_render _ g⟩
  have := C06_admits_every_wellformed cfg tls u p (renderHeaders hs1) u2 p2 (renderHeaders hs2) rest v chunks
    hchunks hwf' (by rw [parsedHeaders_render]; exact hv) (by rw [parsedHeaders_render]; exact hc)
    (by rw [parsedHeaders_render]; exact hup) (by rw [ha]; exact htls)
  rw [ha] at this
  exact this

def wfResponsePair (pr st text : B) (ws1 : Headers) (pr2 st2 text2 : B) (ws2 : Headers) : Bool :=
  wfWord pr && wfWord st && wfTail text && wfHeaders ws1 && wfWord pr2 && wfWord st2 && wfTail text2 && wfHeaders ws2

/-- **client analogue**: two well-formed replies `proto SP code SP text CRLF (name ":" raw CRLF)* CRLF` whose codes
    parse (strconv.ParseInt) to 200 and 101, under every segmentation, make the client establish the session with
    the version named by the first `Protocol-Version` header of the first reply — StartTLS-secured when the carrier is
    not secure and the first `Capabilities` header lists `StartTLS` (case-insensitive; then under the hypothesis that
    the TLS library completes on `rest`), otherwise with `rest` handed on unchanged. -/
theorem C06_client_admits_every_wellformed (s0 : Bool) (tls : B → Bool)
    (pr st text : B) (ws1 : Headers) (pr2 st2 text2 : B) (ws2 : Headers) (rest : B) (chunks : List B)
    (hchunks : chunks.flatten = wireResponse pr st text ws1 ++ wireResponse pr2 st2 text2 ws2 ++ rest)
    (hwf : wfResponsePair pr st text ws1 pr2 st2 text2 ws2 = true)
    (hc1 : parseInt32 st = some Gen.cliHandshakeStatus) (hc2 : parseInt32 st2 = some Gen.cliUpgradeStatus)
    (htls : shouldStartTls s0 (hget (parsedHeaders ws1) Gen.capabilitiesHdr) = true → tls rest = true) :
    (clientRun s0 tls chunks).out =
      if shouldStartTls s0 (hget (parsedHeaders ws1) Gen.capabilitiesHdr)
      then .established (hget (parsedHeaders ws1) bProtocolVersion) .tls true []
      else .established (hget (parsedHeaders ws1) bProtocolVersion) (if s0 then .underlying else .none) s0 rest := by
  rw [clientRun_flat, hchunks, List.append_assoc]
  simp only [wfResponsePair, Bool.and_eq_true] at hwf
  obtain ⟨⟨⟨⟨⟨⟨⟨a, b⟩, c⟩, d⟩, e⟩, g⟩, h⟩, i⟩ := hwf
  have l1 : ws1.length < (wireResponse pr st text ws1).length := length_lt_wireMessage _ ws1
  have l2 : ws2.length < (wireResponse pr2 st2 text2 ws2).length := length_lt_wireMessage _ ws2
  exact clientOn_complete s0 tls _ pr st text ws1 pr2 st2 text2 ws2 rest a b c d e g h i
    (by rw [List.length_append, List.length_append]; omega)
    (by rw [List.length_append, List.length_append]; omega) hc1 hc2 htls

/-- **exactly**: the server establishes a session with version `v` if and only if the byte stream reads (in
    net/textproto's sense, `ReadsRequest`) as an announce request whose `Accepts-Protocol-Version` list has `v` as
    the first supported version in the server's order, followed by a `GET` request with `Connection: upgrade`
    (case-insensitive), `Upgrade: socketace/v`, and — when `Security: StartTLS` is asked for — a server that can and
    does complete TLS.  (`→` strengthens `C06_admits_only_wellformed`; `←` is completeness at the reader level;
    `C06_admits_every_wellformed` shows which concrete byte streams satisfy the right-hand side.) -/
theorem C06_admits_exactly (cfg : SrvCfg) (tls : B → Bool) (chunks : List B) (v : B) :
    let fuel := chunks.flatten.length + 2
    (∃ t s left, (serverRun cfg tls chunks).out = .established v t s left) ↔
    ∃ u p hd rest u2 p2 hd2 rest2,
      ReadsRequest fuel chunks.flatten Gen.requestMethod u p hd rest ∧
      firstSupported (hget hd Gen.acceptsProtocolVersion) = some v ∧
      ReadsRequest fuel rest Gen.srvUpgradeMethod u2 p2 hd2 rest2 ∧
      goLower (hget hd2 bConnection) = Gen.srvUpgradeConnection ∧
      hget hd2 bUpgrade = Gen.srvUpgradePrefix ++ v ∧
      (goUpper (hget hd2 bSecurity) = goUpper Gen.srvSecurityToken →
        cfg.secure = false ∧ cfg.cert = .ok ∧ tls rest2 = true) := by
  intro fuel
  have hreq : Gen.requestMethod = Gen.srvAnnounceMethod := by decide
  rw [serverRun_flat, serverOn_established_iff]
  constructor
  · rintro ⟨req, r1, req2, r2, e1, hm, hn, hne, e2, hm2, hc, hu, hs⟩
    have R1 := readsRequest_of_ok e1
    rcases relParsed_cases (readRequest_sim fuel r1 ⟨r1.flat, []⟩ (by simp [Rd.flat])) with
      ⟨rq, ra, rb, f, f', hab⟩ | ⟨f, _⟩ | ⟨f, _⟩
    · rw [e2] at f
      simp only [Parsed.ok.injEq, Prod.mk.injEq] at f
      obtain ⟨f1, f2⟩ := f
      subst f1; subst f2
      have R2 := readsRequest_of_ok f'
      rw [hm] at R1
      rw [hm2] at R2
      rw [hreq]
      exact ⟨_, _, _, _, _, _, _, _, R1, firstSupported_of_negotiate hn hne, R2, hc, hu,
        fun h => by rw [← hab]; exact hs h⟩
    · rw [e2] at f; cases f
    · rw [e2] at f; cases f
  · rintro ⟨u, p, hd, rest, u2, p2, hd2, rest2, R1, hv, R2, hc, hu, hs⟩
    obtain ⟨r1, e1, h1⟩ := readRequest_of_reads R1
    obtain ⟨rb, eb, hb⟩ := readRequest_of_reads R2
    obtain ⟨hn, hne⟩ := negotiate_of_firstSupported hv
    rcases relParsed_cases (readRequest_sim fuel r1 ⟨rest, []⟩ (by rw [h1]; simp [Rd.flat])) with
      ⟨rq, ra, rb', f, f', hab⟩ | ⟨_, f⟩ | ⟨_, f⟩
    · rw [eb] at f'
      simp only [Parsed.ok.injEq, Prod.mk.injEq] at f'
      obtain ⟨f1, f2⟩ := f'
      subst f1; subst f2
      exact ⟨_, r1, _, ra, e1, hreq, hn, hne, f, rfl, hc, hu, fun h => by rw [hab, hb]; exact hs h⟩
    · rw [eb] at f; cases f
    · rw [eb] at f; cases f

def bHttp11 : B := [72, 84, 84, 80, 47, 49, 46, 49]

/-- **the renderer is the client's**: the announce request the client model sends (`Security.announceRequest`, tied
    to the real client's bytes by the C04 correspondence) and the upgrade request it sends (`upgradeRequest`, compared
    byte for byte with the real client's second write by the `hs-client` correspondence) are instances of
    `renderRequest` — for every version string that `http.Header.Write`'s TrimString leaves alone. -/
theorem C06_renderer_matches_client :
    Security.announceRequest = renderRequest Gen.requestMethod [47] bHttp11
      [(Gen.acceptsProtocolVersion, Gen.c06ProtocolVersion), (Gen.userAgent, bSocketaceSlash ++ Gen.unknownVersion)] ∧
    ∀ (v : B) (st : Bool), trimString (bSocketaceSlash ++ v) = bSocketaceSlash ++ v →
      upgradeRequest v st = renderRequest Gen.srvUpgradeMethod [47] bHttp11
        ([(bConnection, Gen.srvUpgradeConnection)] ++ (if st then [(bSecurity, Gen.capabilityStartTls)] else []) ++
          [(bUpgrade, bSocketaceSlash ++ v), (Gen.userAgent, bSocketaceSlash ++ Gen.unknownVersion)]) := by
  refine ⟨by decide, ?_⟩
  intro v st h
  have t1 : trimString [117, 112, 103, 114, 97, 100, 101] = Gen.srvUpgradeConnection := by decide
  have t2 : trimString Gen.capabilityStartTls = Gen.capabilityStartTls := by decide
  have t3 : trimString (bSocketaceSlash ++ Gen.unknownVersion) = bSocketaceSlash ++ Gen.unknownVersion := by decide
  unfold upgradeRequest
  simp only [h, t1, t2, t3]
  cases st <;>
    simp [renderRequest, wireRequest, wireMessage, wireBlock, wireHeader, renderHeaders, crlf, colonSp, bHttp11,
      Gen.srvUpgradeMethod]

/-! ### non-vacuity -/

def ex_announce : B := Security.announceRequest
def ex_upgrade : B := upgradeRequest Gen.c06ProtocolVersion false

/-- a well-formed pair of requests, delivered byte by byte, is admitted with the supported version and the
    trailing payload is handed on -/
example : (serverRun ⟨false, .nil⟩ (fun _ => false) ((ex_announce ++ ex_upgrade ++ [1, 2, 3]).map fun b => [b])).out
    = .established Gen.c06ProtocolVersion .none false [1, 2, 3] := by decide +kernel
/-- a refusal exists (wrong method → 405), so `C06_else_refused`'s middle branch is inhabited -/
example : (serverRun ⟨false, .nil⟩ (fun _ => false) [[71, 69, 84, 32, 47, 32, 72, 13, 10, 13, 10]]).out = .refused 405 := by
  decide
/-- the segmentation theorem is not about a constant function -/
example : serverRun ⟨false, .nil⟩ (fun _ => false) [[71, 69, 84, 32], [47, 32, 72, 13], [10, 13, 10]]
    ≠ serverRun ⟨false, .nil⟩ (fun _ => false) [[71, 69, 84, 32, 47, 13, 10, 13, 10]] := by decide +kernel

/-! ### non-vacuity of the completeness theorems -/

def exU : B := [47, 116, 117, 110, 110, 101, 108, 63, 120, 61, 49]
def exP : B := [72, 84, 84, 80, 47, 49, 46, 49, 32, 40, 119, 101, 105, 114, 100, 32, 112, 114, 111, 116, 111, 41, 13]
/-- extra headers before and after, odd letter case, several offered versions, no space / a tab after the colon,
    a name with spaces, a name starting with a digit, obs-text bytes, trailing blanks, an empty value -/
def exWs1 : Headers := [([120, 45, 116, 114, 97, 99, 101, 45, 105, 100], [32, 48, 97, 102, 55, 54, 53, 49, 57, 49, 54, 99, 100, 52, 51, 100, 100, 56, 52, 52, 56, 101, 98, 50, 49, 49, 99, 56, 48, 51, 49, 57, 99]),
    ([65, 67, 67, 69, 80, 84, 83, 45, 112, 114, 111, 116, 111, 99, 111, 108, 45, 86, 69, 82, 83, 73, 79, 78], [118, 49, 46, 48, 46, 48, 32, 44, 9, 118, 50, 46, 48, 46, 48, 44, 118, 57, 46, 57, 46, 57, 32, 32]),
    ([85, 115, 101, 114, 45, 65, 103, 101, 110, 116], [32, 99, 117, 114, 108, 47, 56]),
    ([88, 32, 79, 100, 100, 32, 78, 97, 109, 101], []),
    ([49, 115, 116], [32, 195, 162, 194, 130, 194, 172, 32])]
/-- `connection:<TAB>uPgRaDe ` ; a second, contradicting `Connection` header after the significant one -/
def exWs2 : Headers := [([72, 111, 115, 116], [32, 101, 120, 97, 109, 112, 108, 101, 46, 111, 114, 103]),
    ([99, 111, 110, 110, 101, 99, 116, 105, 111, 110], [9, 117, 80, 103, 82, 97, 68, 101, 32]),
    ([85, 80, 71, 82, 65, 68, 69], [32, 115, 111, 99, 107, 101, 116, 97, 99, 101, 47, 118, 50, 46, 48, 46, 48]),
    ([88, 45, 69, 109, 112, 116, 121], []),
    ([67, 111, 110, 110, 101, 99, 116, 105, 111, 110], [32, 99, 108, 111, 115, 101])]
def exWs2Tls : Headers := exWs2 ++ [([115, 101, 99, 117, 114, 105, 116, 121], [32, 32, 115, 116, 97, 114, 116, 116, 108, 115])]
def exStream (ws2 : Headers) (rest : B) : B :=
  wireRequest Gen.requestMethod exU exP exWs1 ++ wireRequest Gen.srvUpgradeMethod [47] bHttp11 ws2 ++ rest

/-- delivered byte by byte, no TLS asked: admitted with `v2.0.0`, the payload `[1,2,3]` handed on -/
example : (serverRun ⟨false, .nil⟩ (fun _ => false) ((exStream exWs2 [1, 2, 3]).map fun b => [b])).out
    = .established Gen.c06ProtocolVersion .none false [1, 2, 3] := by
  have h := (C06_admits_every_wellformed ⟨false, .nil⟩ (fun _ => false) exU exP exWs1 [47] bHttp11 exWs2 [1, 2, 3]
    Gen.c06ProtocolVersion ((exStream exWs2 [1, 2, 3]).map fun b => [b]) (flatten_bytewise _)
    (by decide) (by decide) (by decide) (by decide) (by decide)).1
  rw [h]; decide
/-- the hypotheses are not only satisfiable, the conclusion is what evaluation gives -/
example : (serverRun ⟨false, .nil⟩ (fun _ => false) ((exStream exWs2 [1, 2, 3]).map fun b => [b])).out
    = .established Gen.c06ProtocolVersion .none false [1, 2, 3] := by decide +kernel
/-- `security:  starttls` on a server with a certificate, TLS completing: StartTLS-secured session -/
example : (serverRun ⟨false, .ok⟩ (fun l => l.isEmpty) ((exStream exWs2Tls []).map fun b => [b])).out
    = .established Gen.c06ProtocolVersion .tls true [] := by
  have h := (C06_admits_every_wellformed ⟨false, .ok⟩ (fun l => l.isEmpty) exU exP exWs1 [47] bHttp11 exWs2Tls []
    Gen.c06ProtocolVersion ((exStream exWs2Tls []).map fun b => [b]) (flatten_bytewise _)
    (by decide) (by decide) (by decide) (by decide) (by decide)).1
  rw [h]; decide
/-- the TLS hypothesis is needed: the same stream on a server without a certificate is refused 503 -/
example : (serverRun ⟨false, .nil⟩ (fun l => l.isEmpty) [exStream exWs2Tls []]).out = .refused 503 := by
  decide +kernel
/-- all 128 letter-case variants of `upgrade` satisfy the `Connection` hypothesis -/
example : ∀ s ∈ ([117, 112, 103, 114, 97, 100, 101] : B).foldr
      (fun c acc => acc.flatMap fun t => [c :: t, (c - 32) :: t]) [[]],
    goLower s = Gen.srvUpgradeConnection := by decide +kernel
/-- the Go-format corollary on the client's own two requests (one read each) and a payload byte -/
def exHs1 : Headers :=
  [(Gen.acceptsProtocolVersion, Gen.c06ProtocolVersion), (Gen.userAgent, bSocketaceSlash ++ Gen.unknownVersion)]
def exHs2 : Headers :=
  [(bConnection, Gen.srvUpgradeConnection), (bUpgrade, bSocketaceSlash ++ Gen.c06ProtocolVersion),
    (Gen.userAgent, bSocketaceSlash ++ Gen.unknownVersion)]
example : (serverRun ⟨true, .nil⟩ (fun _ => false)
      [Security.announceRequest, upgradeRequest Gen.c06ProtocolVersion false, [7]]).out
    = .established Gen.c06ProtocolVersion .underlying true [7] := by
  have e := C06_renderer_matches_client
  have h := (C06_admits_every_rendered ⟨true, .nil⟩ (fun _ => false) [47] bHttp11 exHs1 [47] bHttp11 exHs2 [7]
    Gen.c06ProtocolVersion [Security.announceRequest, upgradeRequest Gen.c06ProtocolVersion false, [7]]
    (by rw [e.1, e.2 Gen.c06ProtocolVersion false (by decide)]; simp [exHs1, exHs2])
    (by decide) (by decide) (by decide) (by decide) (by decide)).1
  rw [h]; decide
/-- `C06_admits_exactly`, right to left, is applicable: its right-hand side holds for the example stream -/
example : ∃ u p hd rest u2 p2 hd2 rest2,
    ReadsRequest ((exStream exWs2 [1, 2, 3]).length + 2) (exStream exWs2 [1, 2, 3]) Gen.requestMethod u p hd rest ∧
    firstSupported (hget hd Gen.acceptsProtocolVersion) = some Gen.c06ProtocolVersion ∧
    ReadsRequest ((exStream exWs2 [1, 2, 3]).length + 2) rest Gen.srvUpgradeMethod u2 p2 hd2 rest2 ∧
    goLower (hget hd2 bConnection) = Gen.srvUpgradeConnection ∧
    hget hd2 bUpgrade = Gen.srvUpgradePrefix ++ Gen.c06ProtocolVersion ∧
    (goUpper (hget hd2 bSecurity) = goUpper Gen.srvSecurityToken →
      (⟨false, .nil⟩ : SrvCfg).secure = false ∧ (⟨false, .nil⟩ : SrvCfg).cert = .ok ∧ (fun _ => false) rest2 = true) := by
  have h := (C06_admits_exactly ⟨false, .nil⟩ (fun _ => false) [exStream exWs2 [1, 2, 3]] Gen.c06ProtocolVersion).mp
    ⟨.none, false, [1, 2, 3], by decide +kernel⟩
  simpa using h
/-- … and left to right refuses: a stream offering only unsupported versions has no such reading -/
example : ¬ ∃ t s left, (serverRun ⟨false, .nil⟩ (fun _ => false)
    [wireRequest Gen.requestMethod [47] bHttp11 [(Gen.acceptsProtocolVersion, [32, 118, 49, 46, 48, 46, 48, 44, 32, 118, 51])] ++
      wireRequest Gen.srvUpgradeMethod [47] bHttp11 exWs2]).out = .established Gen.c06ProtocolVersion t s left := by
  have : (serverRun ⟨false, .nil⟩ (fun _ => false)
    [wireRequest Gen.requestMethod [47] bHttp11 [(Gen.acceptsProtocolVersion, [32, 118, 49, 46, 48, 46, 48, 44, 32, 118, 51])] ++
      wireRequest Gen.srvUpgradeMethod [47] bHttp11 exWs2]).out = .refused 409 := by decide +kernel
  rw [this]
  rintro ⟨_, _, _, h⟩; cases h

def exR1 : Headers := [([83, 101, 114, 118, 101, 114], [115, 111, 99, 107, 101, 116, 97, 99, 101, 47, 57]),
    ([99, 97, 112, 97, 98, 105, 108, 105, 116, 105, 101, 115], [102, 111, 111, 44, 32, 83, 116, 97, 114, 116, 84, 108, 115, 32, 44, 98, 97, 114]),
    ([112, 114, 111, 116, 111, 99, 111, 108, 45, 118, 101, 114, 115, 105, 111, 110], [32, 118, 50, 46, 48, 46, 48]),
    ([88, 45, 69, 120, 116, 114, 97], [49])]
def exR2 : Headers := [([67, 111, 110, 110, 101, 99, 116, 105, 111, 110], [32, 117, 112, 103, 114, 97, 100, 101]),
    ([88, 45, 89], [122])]
def exReplies (rest : B) : B :=
  wireResponse bHttp11 [50, 48, 48] [79, 75] exR1 ++ wireResponse bHttp11 [43, 49, 48, 49] [83, 119, 105, 116, 99, 104, 105, 110, 103, 32, 80, 114, 111, 116, 111, 99, 111, 108, 115] exR2 ++ rest

/-- client, byte by byte, `capabilities: foo, StartTls ,bar` on an insecure carrier, TLS completing, status `+101` -/
example : (clientRun false (fun l => l.isEmpty) ((exReplies []).map fun b => [b])).out
    = .established Gen.c06ProtocolVersion .tls true [] := by
  have h := C06_client_admits_every_wellformed false (fun l => l.isEmpty) bHttp11 [50, 48, 48] [79, 75] exR1
    bHttp11 [43, 49, 48, 49] _ exR2 [] ((exReplies []).map fun b => [b]) (flatten_bytewise _)
    (by decide) (by decide) (by decide) (by decide)
  rw [h]; decide
/-- client on an already secure carrier: no StartTLS, leftover handed on -/
example : (clientRun true (fun _ => false) ((exReplies [9, 9]).map fun b => [b])).out
    = .established Gen.c06ProtocolVersion .underlying true [9, 9] := by
  have h := C06_client_admits_every_wellformed true (fun _ => false) bHttp11 [50, 48, 48] [79, 75] exR1
    bHttp11 [43, 49, 48, 49] _ exR2 [9, 9] ((exReplies [9, 9]).map fun b => [b]) (flatten_bytewise _)
    (by decide) (by decide) (by decide) (by decide)
  rw [h]; decide

end SA.Handshake

#print axioms SA.Handshake.C06_segmentation_independent
#print axioms SA.Handshake.C06_segmentation_independent_client
#print axioms SA.Handshake.C06_no_panic_server
#print axioms SA.Handshake.C06_no_panic_client
#print axioms SA.Handshake.C06_admits_only_wellformed
#print axioms SA.Handshake.C06_session_only_after_101
#print axioms SA.Handshake.C06_client_admits_only
#print axioms SA.Handshake.C06_else_refused
#print axioms SA.Handshake.C06_panic_site_inventory
#print axioms SA.Handshake.C06_admits_every_wellformed
#print axioms SA.Handshake.C06_admits_every_rendered
#print axioms SA.Handshake.C06_client_admits_every_wellformed
#print axioms SA.Handshake.C06_admits_exactly
#print axioms SA.Handshake.C06_renderer_matches_client

namespace SA.PkgState
/-- **no_hidden_process_state**: the models of this property are functions of their arguments and of the objects they are
    handed; the packages they model keep no package-level variables besides these (regenerated inventory: error
    sentinels, tables, compiled patterns, the two session time-outs).  A new package-level variable — a counter, a cache, a
    scratch buffer, a shared map, a registry — would make later calls depend on earlier ones, or concurrent calls on each
    other, outside anything a per-call comparison of model and code can see. -/
theorem C06_no_hidden_process_state :
    Gen.pkgVarNames_socketace = ["SupportedProtocolVersions"] := by decide
end SA.PkgState

#print axioms SA.PkgState.C06_no_hidden_process_state

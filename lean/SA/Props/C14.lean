/-
  C14 — Resources are reclaimed when connections end (process model of PipeData + its callers and of
  the per-session accept loop; partial: the Go runtime, sockets and smux are outside the model).

  Quantifiers: every configuration of the code-dependent parameters satisfying the stated conditions,
  every data scenario, every schedule (list of actions; disabled ones are skipped) — i.e. every
  interleaving of the two copiers, main, the caller and the environment.
-/
import SA.Proofs.StalledSession
import SA.Proofs.Pipe
import SA.Gen.Locks
import SA.Gen.PkgVars
namespace SA.Pipe

theorem quiescent_iff (c : Cfg) (s : St) : quiescent c s = true ↔
    step c s .stepD = none ∧ step c s .stepU = none ∧ step c s .sendD = none ∧ step c s .sendU = none ∧
    step c s .recvD = none ∧ step c s .recvU = none ∧ step c s .callerClose = none := by
  simp [quiescent, Option.isNone_iff_eq_none]

/-- **pipe_goroutines_terminate**: with result channels of capacity ≥ 1 and each arm closing the
    opposite end, in every reachable state where the program can make no further step and PipeData
    has returned, both copier goroutines have exited — whichever side ended first, by EOF, half-close
    or error, with any data in flight — provided no peer has stopped reading, or both connection
    objects have been closed (a copier blocked in a Write to a peer that does not read is released
    only by the local close of that connection; `C14_both_ends_closed` shows the callers do that). -/
theorem C14_pipe_goroutines_terminate (c : Cfg) (hc : c.ArmsOk) (hcap : 1 ≤ c.cap)
    (dIn uIn : List (List Nat)) (acts : List Act) :
    let s := run c (init dIn uIn) acts
    quiescent c s = true → s.mainDone = true →
    ((s.dStall = false ∧ s.uStall = false) ∨ (s.dClosed = true ∧ s.uClosed = true)) →
    liveCopiers s = 0 := by
  intro s hq hm hst
  have hinv : Inv s := run_inv c hc (init_inv dIn uIn) acts
  rw [quiescent_iff] at hq
  obtain ⟨hD, hU, hsD, hsU, _, _, _⟩ := hq
  have chD0 : s.cd ≠ .done → s.chD = 0 := by
    intro hne
    rcases Nat.lt_or_ge s.chD 1 with h0 | h1
    · omega
    · have : s.chD = 1 := by have := hinv.chD_le; omega
      exact absurd (hinv.chD_done this) hne
  have chU0 : s.cu ≠ .done → s.chU = 0 := by
    intro hne
    rcases Nat.lt_or_ge s.chU 1 with h0 | h1
    · omega
    · have : s.chU = 1 := by have := hinv.chU_le; omega
      exact absurd (hinv.chU_done this) hne
  -- a copier that is `sending` can always deposit; one that is `copying` on a closed end can step
  have hcd : s.dClosed = true → s.cd = .done := by
    intro hcl
    cases hcd : s.cd with
    | done => rfl
    | copying => simp [step, hcd, hcl] at hD
    | writing ch =>
      simp only [step, hcd] at hD
      rcases hst with ⟨_, hus⟩ | ⟨_, huc⟩
      · by_cases hw : s.uClosed = true ∨ s.uGone = true
        · simp [hw] at hD
        · simp [hw, hus] at hD
      · simp [huc] at hD
    | sending r =>
      have h0 := chD0 (by simp [hcd])
      have hlt : s.chD < c.cap := by omega
      simp [step, hcd, hlt] at hsD
  have hcu : s.uClosed = true → s.cu = .done := by
    intro hcl
    cases hcu : s.cu with
    | done => rfl
    | copying => simp [step, hcu, hcl] at hU
    | writing ch =>
      simp only [step, hcu] at hU
      rcases hst with ⟨hds, _⟩ | ⟨hdc, _⟩
      · by_cases hw : s.dClosed = true ∨ s.dGone = true
        · simp [hw] at hU
        · simp [hw, hds] at hU
      · simp [hdc] at hU
    | sending r =>
      have h0 := chU0 (by simp [hcu])
      have hlt : s.chU < c.cap := by omega
      simp [step, hcu, hlt] at hsU
  rcases hinv.main hm with ⟨huc, hd, _⟩ | ⟨hdc, hu, _⟩
  · have := hcu huc
    simp [liveCopiers, hd, this]
  · have := hcd hdc
    simp [liveCopiers, hu, this]

/-- the parameters of the current code meet the conditions of the theorem (this is the obligation
    that breaks when a channel loses its buffer or an arm stops closing the opposite end) -/
theorem C14_pipe_cfg_ok (caller : Caller) : (genCfg caller).ArmsOk ∧ 1 ≤ (genCfg caller).cap := by
  cases caller <;> exact ⟨⟨by decide, by decide⟩, by decide⟩

/-- **witness_leak**: with unbuffered result channels (the code before the repair) the application
    closes, main returns, and the second copier is stuck forever on its send — one goroutine leaked
    per logical connection (replayed on the implementation by corpus/C14). -/
theorem C14_witness_leak_cap0 :
    let c : Cfg := { cap := 0, armD := [.up], armDErr := [.down], armU := [.down], armUErr := [.up],
                     caller := .none, muxClosesTarget := false }
    let s := run c (init [] []) [.finDown, .stepD, .sendD, .stepU, .sendU, .callerClose]
    quiescent c s = true ∧ s.mainDone = true ∧ liveCopiers s = 1 := by decide

theorem mainArm_callerDone (c : Cfg) (s : St) (fromD : Bool) (r : Res) :
    (mainArm c s fromD r).callerDone = s.callerDone := by
  unfold mainArm; exact (closeAll_same s _).callerDone

/-- frame: every step keeps closed connections closed, and only the caller's own step changes `callerDone` -/
theorem step_frame (c : Cfg) {s s' : St} (a : Act) (hs : step c s a = some s') :
    (s.dClosed = true → s'.dClosed = true) ∧ (s.uClosed = true → s'.uClosed = true) ∧
    (a ≠ .callerClose → s'.callerDone = s.callerDone) := by
  cases a <;> simp only [step] at hs
  case finDown => split at hs <;> simp at hs; subst hs; simp
  case finUp => split at hs <;> simp at hs; subst hs; simp
  case goneDown => split at hs <;> simp at hs; subst hs; simp
  case goneUp => split at hs <;> simp at hs; subst hs; simp
  case stallDown => split at hs <;> simp at hs; subst hs; simp
  case stallUp => split at hs <;> simp at hs; subst hs; simp
  case stepD =>
    split at hs
    · split at hs
      · simp at hs; subst hs; simp
      · split at hs
        · simp at hs; subst hs; simp
        · split at hs <;> simp at hs; subst hs; simp
    · split at hs
      · simp at hs; subst hs; simp
      · split at hs <;> simp at hs; subst hs; simp
    · simp at hs
  case stepU =>
    split at hs
    · split at hs
      · simp at hs; subst hs; simp
      · split at hs
        · simp at hs; subst hs; simp
        · split at hs <;> simp at hs; subst hs; simp
    · split at hs
      · simp at hs; subst hs; simp
      · split at hs <;> simp at hs; subst hs; simp
    · simp at hs
  case sendD =>
    split at hs
    · rename_i r _
      split at hs
      · simp at hs; subst hs; simp
      · split at hs
        · simp at hs; subst hs
          have m := mainArm_ctl c s true r
          exact ⟨m.2.2.2.2.2.1, m.2.2.2.2.2.2.1, fun _ => mainArm_callerDone c s true r⟩
        · simp at hs
    · simp at hs
  case sendU =>
    split at hs
    · rename_i r _
      split at hs
      · simp at hs; subst hs; simp
      · split at hs
        · simp at hs; subst hs
          have m := mainArm_ctl c s false r
          exact ⟨m.2.2.2.2.2.1, m.2.2.2.2.2.2.1, fun _ => mainArm_callerDone c s false r⟩
        · simp at hs
    · simp at hs
  case recvD =>
    split at hs
    · simp at hs; subst hs
      have m := mainArm_ctl c { s with chD := s.chD - 1 } true s.chDr
      exact ⟨m.2.2.2.2.2.1, m.2.2.2.2.2.2.1, fun _ => mainArm_callerDone c _ true s.chDr⟩
    · simp at hs
  case recvU =>
    split at hs
    · simp at hs; subst hs
      have m := mainArm_ctl c { s with chU := s.chU - 1 } false s.chUr
      exact ⟨m.2.2.2.2.2.1, m.2.2.2.2.2.2.1, fun _ => mainArm_callerDone c _ false s.chUr⟩
    · simp at hs
  case callerClose =>
    split at hs
    · simp at hs; subst hs
      cases c.caller with
      | none => simp
      | both => simp only; exact ⟨(closeAll_same s _).dMono, (closeAll_same s _).uMono, fun h => absurd rfl h⟩
      | downOnly => simp only; exact ⟨(closeAll_same s _).dMono, (closeAll_same s _).uMono, fun h => absurd rfl h⟩
    · simp at hs

/-- the caller closes both connection objects of the pair -/
def Cfg.CallerClosesBoth (c : Cfg) : Prop :=
  c.caller = .both ∨ (c.caller = .downOnly ∧ c.muxClosesTarget = true)

def CInv (s : St) : Prop := s.callerDone = true → s.dClosed = true ∧ s.uClosed = true

theorem step_cinv (c : Cfg) (hb : c.CallerClosesBoth) {s s' : St} (a : Act) (h : CInv s)
    (hs : step c s a = some s') : CInv s' := by
  have fr := step_frame c a hs
  by_cases hcd : s.callerDone = true
  · intro _; exact ⟨fr.1 (h hcd).1, fr.2.1 (h hcd).2⟩
  · by_cases ha : a = .callerClose
    · subst ha
      simp only [step] at hs
      split at hs
      · simp at hs; subst hs
        intro _
        rcases hb with hb | ⟨hb, ht⟩
        · simp only [hb]
          exact ⟨(closeAll_sets s [.up, .down]).1 (by simp), (closeAll_sets s [.up, .down]).2 (by simp)⟩
        · simp only [hb, ht]
          exact ⟨(closeAll_sets s [.up, .down]).1 (by simp), (closeAll_sets s [.up, .down]).2 (by simp)⟩
      · simp at hs
    · intro h'; rw [fr.2.2 ha] at h'; exact absurd h' hcd

theorem run_cinv (c : Cfg) (hb : c.CallerClosesBoth) {s : St} (h : CInv s) (acts : List Act) :
    CInv (run c s acts) := by
  induction acts generalizing s with
  | nil => exact h
  | cons a as ih =>
    simp only [run]
    split
    · rename_i s' hs; exact ih (step_cinv c hb a h hs)
    · exact ih h

/-- **both_ends_closed**: when the caller closes both connection objects (client listener; server
    once muxHandler closes the target it opened), in every quiescent state after PipeData returned
    every connection of the pair has had `Close` called — whichever side ended first. -/
theorem C14_both_ends_closed (c : Cfg) (hb : c.CallerClosesBoth) (dIn uIn : List (List Nat)) (acts : List Act) :
    let s := run c (init dIn uIn) acts
    quiescent c s = true → s.mainDone = true → s.dClosed = true ∧ s.uClosed = true := by
  intro s hq hm
  have hc : CInv s := run_cinv c hb (by intro h; simp [init] at h) acts
  rw [quiescent_iff] at hq
  have hcc := hq.2.2.2.2.2.2
  have : s.callerDone = true := by
    cases hcd : s.callerDone with
    | true => rfl
    | false => simp [step, hm, hcd] at hcc
  exact hc this

/-- **no_leak_when_caller_closes**: with a caller that closes both connection objects, both copier
    goroutines have exited in every quiescent state after PipeData returned — also when a peer has
    stopped reading and a copier was blocked in its Write. -/
theorem C14_no_leak_when_caller_closes (c : Cfg) (hc : c.ArmsOk) (hcap : 1 ≤ c.cap) (hb : c.CallerClosesBoth)
    (dIn uIn : List (List Nat)) (acts : List Act) :
    let s := run c (init dIn uIn) acts
    quiescent c s = true → s.mainDone = true → liveCopiers s = 0 := by
  intro s hq hm
  exact C14_pipe_goroutines_terminate c hc hcap dIn uIn acts hq hm
    (Or.inr (C14_both_ends_closed c hb dIn uIn acts hq hm))

/-- the server path of the current code closes the target connection it opened -/
theorem C14_server_closes_target : (genCfg .downOnly).CallerClosesBoth := by
  right; exact ⟨rfl, by decide⟩

/-- **witness_target_left_open**: when muxHandler does not close the target (the code before the
    repair) and the target ends the conversation first, the target connection is never closed. -/
theorem C14_witness_target_left_open :
    let c : Cfg := { cap := 1, armD := [.up], armDErr := [.down], armU := [.down], armUErr := [.up],
                     caller := .downOnly, muxClosesTarget := false }
    let s := run c (init [] []) [.finUp, .stepU, .sendU, .recvU, .stepD, .sendD, .callerClose]
    quiescent c s = true ∧ s.mainDone = true ∧ s.callerDone = true ∧ s.uClosed = false := by decide

/-! ### the per-session accept loop (server communicator.go acceptStream)

  smux reports a dead session from `AcceptStream` immediately and on every call (sticky error).  The
  loop ends for the errors it compares with (`Gen.acceptTerminalErrs`); for any other error it does
  what `Gen.acceptOtherErr` says. -/

/-- iterations of the accept loop on a dead session with sticky error `e`, up to `fuel`: `none` = still looping -/
def acceptLoop (terminal : List String) (other : String) (e : String) : Nat → Option Nat
  | 0 => none
  | fuel + 1 =>
      if e ∈ terminal then some 1
      else if other = "return" then some 1
      else (acceptLoop terminal other e fuel).map (· + 1)

/-- **accept_loop_exits**: for every sticky session error the loop of the current code ends after one
    iteration (no busy loop on a dead session). -/
theorem C14_accept_loop_exits (e : String) (fuel : Nat) :
    acceptLoop Gen.acceptTerminalErrs Gen.acceptOtherErr e (fuel + 1) = some 1 := by
  simp only [acceptLoop]
  split
  · rfl
  · rfl

/-- **witness_spin**: with `continue` as the default action (the code before the repair) an error that
    is not in the terminal list keeps the loop running for any number of iterations. -/
theorem C14_witness_spin (fuel : Nat) :
    acceptLoop ["os.ErrClosed", "io.EOF"] "continue" "invalid protocol" fuel = none := by
  induction fuel with
  | zero => rfl
  | succ k ih => simp [acceptLoop, ih]

/-- **refused_session_released**: a session whose handshake the server refused is closed by the server whatever the
    peer does afterwards — also when it never sends another byte and never hangs up. -/
theorem C14_refused_session_released (moves : Nat) : refusalRun refusalSteps moves = true := by
  have h : refusalSteps = [RStep.close] := by decide
  rw [h]; rfl

/-- **witness_refusal_waits**: a branch that first swallows what the peer still sends (until it hangs up) never closes
    the connection of a peer that stays silent with its end open. -/
theorem C14_witness_refusal_waits : refusalRun [RStep.waitPeer, RStep.close] 0 = false := rfl

/-! non-vacuity: a full run of the current configuration reaches a quiescent state with PipeData returned -/
example : let c := genCfg .downOnly
    let s := run c (init [[1,2,3]] [[4]]) [.stepD, .stepD, .stepU, .stepU, .finDown, .stepD, .sendD, .recvD, .stepU, .sendU, .callerClose]
    quiescent c s = true ∧ s.mainDone = true ∧ liveCopiers s = 0 ∧ s.uOut = [1,2,3] ∧ s.dOut = [4] := by decide

/-- the server connects to a channel's target on the goroutine of that logical connection's handler (regenerated): when
    the session ends meanwhile there is no helper left holding the connection — the handler itself gets it, finds the
    logical connection dead and closes it (C14_server_closes_target). -/
theorem C14_target_dial_inline : Gen.muxDialInline = true := by decide

/-- **locks_not_reentrant**: the models treat what a function does between Lock and Unlock of one of the repository's
    mutexes as one atomic step (Upstreams.Connect / discard / Shutdown here).  No function, while holding such a mutex,
    reaches code that locks the same mutex again (regenerated: lexical lock regions, calls resolved by name within the
    package and through function-valued fields) — a re-entrant path on a sync.Mutex blocks the goroutine for ever with
    the lock held, and every later logical connection queues up behind it with its goroutine and socket. -/
theorem C14_locks_not_reentrant : Gen.reentrantLockPaths = [] := by decide

end SA.Pipe

#print axioms SA.Pipe.C14_pipe_goroutines_terminate
#print axioms SA.Pipe.C14_pipe_cfg_ok
#print axioms SA.Pipe.C14_witness_leak_cap0
#print axioms SA.Pipe.C14_both_ends_closed
#print axioms SA.Pipe.C14_no_leak_when_caller_closes
#print axioms SA.Pipe.C14_server_closes_target
#print axioms SA.Pipe.C14_witness_target_left_open
#print axioms SA.Pipe.C14_accept_loop_exits
#print axioms SA.Pipe.C14_witness_spin
#print axioms SA.Pipe.C14_refused_session_released
#print axioms SA.Pipe.C14_witness_refusal_waits
#print axioms SA.Pipe.C14_locks_not_reentrant
#print axioms SA.Pipe.C14_target_dial_inline

namespace SA.PkgState
/-- **no_hidden_process_state**: the models of this property are functions of their arguments and of the objects they are
    handed; the packages they model keep no package-level variables besides these (regenerated inventory: error
    sentinels, tables, compiled patterns, the two session time-outs).  A new package-level variable — a counter, a cache, a
    scratch buffer, a shared map, a registry — would make later calls depend on earlier ones, or concurrent calls on each
    other, outside anything a per-call comparison of model and code can see. -/
theorem C14_no_hidden_process_state :
    Gen.pkgVarNames_server = ["ChannelRegex"] ∧
    Gen.pkgVarNames_streams = ["Localhost"] ∧
    Gen.pkgVarNames_upstream = [] := by decide
end SA.PkgState

#print axioms SA.PkgState.C14_no_hidden_process_state

/-! ### a session that is ended while its carrier write is blocked (SA.Model.CarrierClose) -/
namespace SA.CarrierClose

/-- the calls before the socket is closed are all bounded, or no Write is blocked; the closing goroutine is through
    only once the socket is closed -/
def BInv (s : St) : Prop :=
  ((∀ p ∈ s.pre, p = PreStep.bounded) ∨ s.writerBlocked = false) ∧ (s.closerDone = true → s.sockClosed = true)

theorem step_binv {s s' : St} (a : Act) (h : BInv s) (hs : step s a = some s') : BInv s' := by
  obtain ⟨h1, h2⟩ := h
  cases a with
  | closer =>
    simp only [step] at hs
    split at hs
    · simp at hs
    · split at hs
      · simp at hs; subst hs; exact ⟨h1, fun _ => rfl⟩
      · rename_i r hp
        simp at hs; subst hs
        refine ⟨?_, h2⟩
        rcases h1 with h1 | h1
        · left; intro p hp'; exact h1 p (by rw [hp]; exact List.mem_cons_of_mem _ hp')
        · right; exact h1
      · rename_i r hp
        split at hs
        · simp at hs
        · simp at hs; subst hs
          refine ⟨?_, h2⟩
          rcases h1 with h1 | h1
          · left; intro p hp'; exact h1 p (by rw [hp]; exact List.mem_cons_of_mem _ hp')
          · right; exact h1
  | sender =>
    simp only [step] at hs
    split at hs
    · simp at hs; subst hs; exact ⟨Or.inr rfl, h2⟩
    · simp at hs
  | receiver =>
    simp only [step] at hs
    split at hs
    · simp at hs; subst hs; exact ⟨h1, h2⟩
    · simp at hs

theorem run_binv {s : St} (h : BInv s) (acts : List Act) : BInv (run s acts) := by
  induction acts generalizing s with
  | nil => exact h
  | cons a as ih =>
    simp only [run]
    split
    · rename_i s' hs; exact ih (step_binv a h hs)
    · exact ih h

/-- **blocked_session_released** (general form): if every call the closing goroutine makes before the socket is
    closed carries a finite deadline — or no carrier Write is blocked — then, under every interleaving of the closing
    goroutine, the send loop and the receive loop, with a peer that neither reads nor hangs up, every state in which
    nothing can move any more has the socket closed and no goroutine of the session left. -/
theorem C14_blocked_session_released (pre : List PreStep) (blocked : Bool)
    (h : (∀ p ∈ pre, p = PreStep.bounded) ∨ blocked = false) (acts : List Act) :
    let s := run (init pre blocked) acts
    quiescent s = true → live s = 0 ∧ s.sockClosed = true := by
  intro s hq
  have hinv : BInv s := run_binv (s := init pre blocked) ⟨h, by simp [init]⟩ acts
  obtain ⟨h1, h2⟩ := hinv
  simp only [quiescent, Bool.and_eq_true, Option.isNone_iff_eq_none] at hq
  obtain ⟨⟨hc, hsn⟩, hr⟩ := hq
  -- the closing goroutine is through
  have hdone : s.closerDone = true := by
    cases hcd : s.closerDone with
    | true => rfl
    | false =>
      simp only [step, hcd] at hc
      cases hp : s.pre with
      | nil => simp [hp] at hc
      | cons p r =>
        cases p with
        | bounded => simp [hp] at hc
        | waits =>
          rcases h1 with h1 | h1
          · have := h1 PreStep.waits (by rw [hp]; exact List.mem_cons_self)
            cases this
          · simp [hp, h1] at hc
  have hsock := h2 hdone
  have hsl : s.senderLive = false := by
    cases hl : s.senderLive with
    | false => rfl
    | true => simp [step, hl, hsock] at hsn
  have hrl : s.receiverLive = false := by
    cases hl : s.receiverLive with
    | false => rfl
    | true => simp [step, hl, hsock] at hr
  exact ⟨by simp [live, hdone, hsl, hrl], hsock⟩

/-- **carrier_close_does_not_wait**: in the code as it is, no Close method of a connection wrapper in
    internal/streams (WebsocketTunnelConnection, SafeConnection, SafeStream, SafeReader, SafeWriter, ReadWriteCloser)
    and none of the places that end a session (Upstreams.discard, Upstreams.Shutdown on the client, the branch of the
    server's accept loop that closes a dead session) makes a call —
    a write, a flush, a control frame, a lock, a wait — that lacks a finite deadline before the socket underneath is
    closed (regenerated from the source; the complete list of their calls besides closes, logging and error
    bookkeeping). -/
theorem C14_carrier_close_does_not_wait : ∀ p ∈ genPre, p = PreStep.bounded := by decide

/-- … hence a session of the current code that is ended while its send loop is blocked in a carrier Write is released
    whatever the peer does: socket closed, no goroutine left, in every final state of every interleaving. -/
theorem C14_blocked_session_released_now (blocked : Bool) (acts : List Act) :
    let s := run (init genPre blocked) acts
    quiescent s = true → live s = 0 ∧ s.sockClosed = true :=
  C14_blocked_session_released genPre blocked (Or.inl C14_carrier_close_does_not_wait) acts

/-- **witness_close_waits**: one call without a deadline before the socket is closed (a close frame written with a
    zero deadline, a flush, a lock shared with Write) and a blocked Write: nothing can move, the closing goroutine, the
    send loop and the receive loop are all still there and the socket is open — for as long as the peer likes. -/
theorem C14_witness_close_waits :
    let s := init [PreStep.waits] true
    quiescent s = true ∧ live s = 3 ∧ s.sockClosed = false := by decide

/-- the same Close on a session whose write path is idle goes through (which is why no test notices) -/
theorem C14_witness_close_waits_idle_ok :
    let s := settle (init [PreStep.waits] false)
    quiescent s = true ∧ live s = 0 ∧ s.sockClosed = true := by decide

/-! non-vacuity: the run of the current code with a blocked writer reaches a final state -/
example : let s := settle (init genPre true)
    quiescent s = true ∧ live s = 0 ∧ s.sockClosed = true := by decide

end SA.CarrierClose

#print axioms SA.CarrierClose.C14_blocked_session_released
#print axioms SA.CarrierClose.C14_carrier_close_does_not_wait
#print axioms SA.CarrierClose.C14_blocked_session_released_now
#print axioms SA.CarrierClose.C14_witness_close_waits
#print axioms SA.CarrierClose.C14_witness_close_waits_idle_ok

namespace SA.StalledSession
/-- **lost_session_with_stalled_target_is_released**: the session's carrier is lost while the multiplexer is not reading
    it (a target has stopped reading and the receive buffer is full).  With the code's two mechanisms — a failed carrier
    write ends the session; every handler releases its target when the accept loop has ended — every schedule in which
    the keep-alive write, the session close, the accept loop's end and the handler's watcher get their turn (anything
    before, between and after them) ends with all seven goroutines, the carrier and the target connection released. -/
theorem C14_lost_session_with_stalled_target_is_released (A0 A1 A2 A3 A4 : List Act) :
    released (run both {}
      (A0 ++ Act.ping :: (A1 ++ Act.closeSession :: (A2 ++ Act.announce :: (A3 ++ Act.releaseTarget :: A4))))) = true :=
  released_of_turns {} A0 A1 A2 A3 A4

/-- the code has both mechanisms (regenerated from internal/server/communicator.go) -/
theorem C14_code_has_both_mechanisms : codePolicy = both := by decide

/-- witnesses (the behaviour before the repair): without the carrier watch nothing is ever released, and without the
    handlers' release the connection to the stalled target stays — for every schedule -/
theorem C14_witness_stalled_target_held (r w : Bool) (as : List Act) :
    goroutines (run ⟨false, r⟩ {} as) = 7 ∧ sockets (run ⟨false, r⟩ {} as) = 2 ∧
    sockets (run ⟨w, false⟩ {} as) ≥ 1 := by
  have h := stuck_without_watch r as
  have t := target_stays_without_release w as
  refine ⟨by simp [goroutines, h.1, h.2.1, h.2.2], by simp [sockets, h.1, h.2.2], ?_⟩
  simp only [sockets, t]
  split <;> simp
end SA.StalledSession

#print axioms SA.StalledSession.C14_lost_session_with_stalled_target_is_released
#print axioms SA.StalledSession.C14_code_has_both_mechanisms
#print axioms SA.StalledSession.C14_witness_stalled_target_held

/-
  C07, "once the path stops losing everything accepted arrives": the client's poll loop is what retransmits a
  fragment that a Write accepted (short count) and gave up on.  `C07_eventual_delivery_by_poll` (SA.Props.C07) needs
  the loop to be still running when the path heals.  The loop has ONE way of stopping by itself: its give-up rule
  (`errCount > limit ⇒ dc.Close()`).  Here: with the regenerated rule (SA/Gen/C07GiveUp.lean — a repeated failure is
  recognised by `lastErr == err`, identity of the error values) an outage of ANY length, every failing turn returning a
  new error value, never makes the loop close the connection nor back off; and the kernel-checked counter-example for a
  rule that compares what failed: the 7th failing turn of an outage closes the tunnel although fragments are queued.
-/
import SA.Proofs.PollGiveUp
import SA.Model.DnsWrites
namespace SA.PollGiveUp

theorem Rule.gen_identity : Rule.gen.same = 0 := by decide

/-- **a finite outage never makes the client give the tunnel up**: from the loop's initial state, after any number of
    earlier outages (each followed by a successful turn — `prev`), an outage of any length `n` and any cause `c`
    (every failure a new error value) leaves the loop running (`closed = false`) with no back-off (`errCount = 0`), so
    the next turn after the path has healed retransmits the oldest unacknowledged fragment
    (`C07_eventual_delivery_by_poll`). -/
theorem C07_outage_never_gives_up (s : LoopSt) (hc : s.closed = false) (he : s.errCount = 0) (i c n : Nat)
    (hl : ∀ l, s.last = some l → l.id < i) :
    (run Rule.gen s (outage i c n)).closed = false ∧ (run Rule.gen s (outage i c n)).errCount = 0 :=
  run_identity_outage Rule.gen Rule.gen_identity s hc he i c n hl

/-- the same for any interleaving: failures of any causes in any order, successes in between, as long as no two
    failing turns return the same error VALUE and the server never answers BadConn -/
theorem C07_loop_never_gives_up (os : List Outcome) (hn : (errIds os).Nodup) (hb : noBadConn os = true) :
    (run Rule.gen {} os).closed = false ∧ (run Rule.gen {} os).errCount = 0 :=
  run_identity_fresh Rule.gen Rule.gen_identity os {} hn hb rfl rfl (by intro l hl; cases hl)

/-- a healed turn resets the bookkeeping, so outages do not add up -/
theorem C07_success_resets (r : Rule) (s : LoopSt) : (turn r s .ok).errCount = 0 ∧ (turn r s .ok).last = none := ⟨rfl, rfl⟩

/-- the rule of the seeded change: a repeated failure is recognised by what failed -/
def byCause : Rule := ⟨1, Gen.c07PollGiveUpLimit, Gen.c07PollGiveUpCloses⟩

/-- **counter-example, kernel-checked**: with comparison by cause an outage of 7 failing turns (35 lost exchanges)
    closes the tunnel — 6 do not — whatever the identities of the error values are; a sentinel returned again and again
    (`same id`) does the same under the identity rule, which is why every failure has to be a new value. -/
theorem C07_witness_giveup_by_cause :
    (run byCause {} (outage 0 1 7)).closed = true ∧ (run byCause {} (outage 0 1 6)).closed = false ∧
    (run Rule.gen {} (List.replicate 7 (.err ⟨0, 1⟩))).closed = true := by decide

/-- the `dnspoll` history of the seeded change (a Write gives up on its fragment, the outage lasts 9 more turns, the path
    heals), kernel-checked on the model of the component: under comparison by cause it ends with the tunnel closed by the
    client itself and fragment 0 still queued; under the regenerated rule the loop is still running, and after the heal
    nothing is queued and the server end has released the accepted byte. -/
theorem C07_witness_outage_line :
    let h : List SA.DnsWrites.PEv := [.L .ql, .ev (.w 1), .P 9, .H]
    let bad := SA.DnsWrites.runP SA.DnsWrites.Facts.gen 1 byCause { st := SA.DnsWrites.start 0 0 [] } h
    let good := SA.DnsWrites.runP SA.DnsWrites.Facts.gen 1 Rule.gen { st := SA.DnsWrites.start 0 0 [] } h
    (bad.closed = true ∧ bad.st.posU = 1 ∧ bad.st.core.sys.a.outq.out.length = 1 ∧ bad.st.core.sys.b.inq.rel = []) ∧
    (good.closed = false ∧ good.hang = false ∧ good.st.posU = 1 ∧ good.st.core.sys.a.outq.out.length = 0 ∧
      good.st.core.sys.b.inq.rel = SA.DnsWrites.streamU 0 1) := by decide +kernel

-- non-vacuity: the hypotheses of the two theorems are met by the outage of the seeded demonstration (45 lost exchanges = 9 turns)
example := C07_outage_never_gives_up {} rfl rfl 0 1 9 (by intro l hl; cases hl)
example := C07_loop_never_gives_up (outage 0 1 9 ++ [.ok] ++ outage 9 3 20) (by decide) (by decide)
example : (run byCause {} (outage 0 1 9)).closed = true := by decide

end SA.PollGiveUp

#print axioms SA.PollGiveUp.C07_outage_never_gives_up
#print axioms SA.PollGiveUp.C07_loop_never_gives_up
#print axioms SA.PollGiveUp.C07_success_resets
#print axioms SA.PollGiveUp.C07_witness_giveup_by_cause
#print axioms SA.PollGiveUp.C07_witness_outage_line

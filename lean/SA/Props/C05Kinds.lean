/-
  C05 — every server KIND applies the full server configuration (RequireClientCert, CA) on its StartTLS path and
  on its TLS-listener path.

  The regenerated fact SA.Gen.c05ServerManagerSites lists, for every `AcceptConnection(conn, M, …)` and every
  `X.GetTlsConfig()` in internal/server, which object M / X is: the `ServerConfig` (whose GetTlsConfig applies
  RequireClientCert) or the embedded base `Config` (same certificate, same CA pool, ClientAuth never set).  The model's
  per-kind manager (`serverCfgFor`) follows the fact; the theorems below tie it to `serverGetTlsConfig`, so that every
  statement proved about `established` holds for every server kind and path.
-/
import SA.Props.C05
import SA.Model.TlsServerKinds
namespace SA.TlsConfig

/-- **the manager each server kind hands on is the ServerConfig**: every site of internal/server, and every path a
    kind has (socket / stdio / http / dns: StartTLS and TLS listener; packet: StartTLS) is served by at least one site -/
theorem C05_server_kind_manager_is_server_config :
    (∀ s ∈ SA.Gen.c05ServerManagerSites, s.2.2.2 = "ServerConfig") ∧
    (∀ (k : SrvKind) (p : SrvPath), k.hasPath p = true →
        handsServerConfig SA.Gen.c05ServerManagerSites SA.Gen.c05DnsUsesSocketAccept k p = true) := by
  refine ⟨by decide, ?_⟩
  intro k p
  cases k <;> cases p <;> decide

/-- **model's per-kind manager = ServerConfig.GetTlsConfig**, for every kind, path and option set -/
theorem C05_every_server_kind_applies_full_config (k : SrvKind) (p : SrvPath) (h : k.hasPath p = true) (so : Opts) :
    serverCfgFor SA.Gen.serverAuthGuardErrNil SA.Gen.c05ServerManagerSites SA.Gen.c05DnsUsesSocketAccept k p so
      = serverGetTlsConfig SA.Gen.serverAuthGuardErrNil so := by
  unfold serverCfgFor
  rw [if_pos (C05_server_kind_manager_is_server_config.2 k p h)]

/-- `require-client-cert` reaches crypto/tls on every kind and path: RequireAndVerifyClientCert + the configured CA pool -/
theorem C05_client_cert_required_every_kind (k : SrvKind) (p : SrvPath) (h : k.hasPath p = true) (so : Opts) (conf : TlsCfg)
    (hs : serverCfgFor SA.Gen.serverAuthGuardErrNil SA.Gen.c05ServerManagerSites SA.Gen.c05DnsUsesSocketAccept k p so = .ok conf) :
    (so.flag = true → conf.clientAuth = .requireAndVerifyClientCert ∧ conf.clientCAs = caPool so) ∧
    (so.flag = false → conf.clientAuth = .noClientCert) := by
  rw [C05_every_server_kind_applies_full_config k p h so] at hs
  exact C05_client_cert_required so conf hs

/-- the session predicate of a server kind is the one all C05 theorems are about -/
theorem C05_establishedOn_eq (X : X509) (k : Kind) (sk : SrvKind) (p : SrvPath) (h : sk.hasPath p = true)
    (hostport r : Name) (co so : Opts) :
    establishedOn X genFacts SA.Gen.c05ServerManagerSites SA.Gen.c05DnsUsesSocketAccept k sk p hostport r co so
      = established X genFacts k hostport r co so := by
  unfold establishedOn established
  have e : genFacts.guardErrNil = SA.Gen.serverAuthGuardErrNil := rfl
  rw [e, C05_every_server_kind_applies_full_config sk p h so]
  cases clientCfgFor genFacts.sites k co <;> cases serverGetTlsConfig SA.Gen.serverAuthGuardErrNil so <;> rfl

/-- **a server of ANY kind that requires client certificates admits only certified clients** — socket (tcp, unix),
    packet (udp/kcp), stdio, websocket and DNS carriers, StartTLS and TLS listener alike, for every x509 oracle,
    every client kind, every option set. -/
theorem C05_auth_sound_server_every_kind (X : X509) (k : Kind) (sk : SrvKind) (p : SrvPath) (h : sk.hasPath p = true)
    (hostport r : Name) (co so : Opts) (hreq : so.flag = true)
    (he : establishedOn X genFacts SA.Gen.c05ServerManagerSites SA.Gen.c05DnsUsesSocketAccept k sk p hostport r co so = true) :
    ∃ ccfg c, clientCfgFor SA.Gen.isvSites k co = .ok ccfg ∧ ccfg.certs.head? = some c ∧
      X.chains (caPool so) c = true ∧ X.validNow c = true := by
  rw [C05_establishedOn_eq X k sk p h] at he
  exact C05_auth_sound_server X k hostport r co so hreq he

/-- the sites with the packet server handing on its embedded base configuration (the seeded change) -/
def sitesPacketBase : List MgrSite :=
  SA.Gen.c05ServerManagerSites.map fun s => if s.1 = "packet_server.go" then (s.1, s.2.1, s.2.2.1, "Config") else s

/-- **witness: the base configuration drops the client-certificate requirement.**  A packet server that hands
    `&st.Config` to the handshake, configured with CA A and `requireClientCert`, admits a client without any
    certificate and one certified by the foreign CA B (insecure client: the server's own certificate is not the
    point); with the ServerConfig both are refused and the properly certified client is admitted either way.  The
    other kinds are not affected by the packet server's site. -/
theorem C05_witness_base_config_admits_uncertified :
    let so : Opts := leafSrc "good" { ca := caSrcOf "A", flag := true }
    let none_ : Opts := { ca := caSrcOf "A", flag := true }
    let foreign : Opts := leafSrc "cforeign" { ca := caSrcOf "A", flag := true }
    let good : Opts := leafSrc "cgood" { ca := caSrcOf "A", flag := true }
    let hp : Name := "127.0.0.1:4443".toList
    let on (sites : List MgrSite) (sk : SrvKind) (co : Opts) :=
      establishedOn refX509 genFacts sites true .startTls sk .starttls hp hp co so
    on sitesPacketBase .packet none_ = true ∧ on sitesPacketBase .packet foreign = true ∧
    on sitesPacketBase .packet good = true ∧
    on SA.Gen.c05ServerManagerSites .packet none_ = false ∧ on SA.Gen.c05ServerManagerSites .packet foreign = false ∧
    on SA.Gen.c05ServerManagerSites .packet good = true ∧
    on sitesPacketBase .socket none_ = false ∧ on sitesPacketBase .http foreign = false ∧
    on sitesPacketBase .dns none_ = false ∧ on sitesPacketBase .stdio foreign = false := by
  decide

-- non-vacuity: an established cell on the packet server with the requirement on; the hypothesis `hasPath` excludes
-- exactly one combination
example : establishedOn refX509 genFacts SA.Gen.c05ServerManagerSites SA.Gen.c05DnsUsesSocketAccept .startTls .packet
    .starttls "127.0.0.1:4443".toList [] (leafSrc "cgood" { ca := caSrcOf "A" })
    (leafSrc "good" { ca := caSrcOf "A", flag := true }) = true := by decide
example : (SrvKind.packet.hasPath .listener = false) ∧ (SrvKind.dns.hasPath .listener = true) := by decide

end SA.TlsConfig

#print axioms SA.TlsConfig.C05_server_kind_manager_is_server_config
#print axioms SA.TlsConfig.C05_every_server_kind_applies_full_config
#print axioms SA.TlsConfig.C05_client_cert_required_every_kind
#print axioms SA.TlsConfig.C05_establishedOn_eq
#print axioms SA.TlsConfig.C05_auth_sound_server_every_kind
#print axioms SA.TlsConfig.C05_witness_base_config_admits_uncertified

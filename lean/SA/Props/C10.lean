import SA.Model.DnsResp

/-
  C10 — DNS tunnel responses survive the wire for every record type.

  Property theorems only; helper lemmas are in SA.Proofs.DnsResp.

  `C10_full` is the property at full strength on the model: for every response in range, every record
  type, every downstream codec meeting C08's round-trip theorem, every domain whose question packs:
  the client decodes the same response, or an error is reported (never a different response, never a
  panic).  On the repaired tree it still fails for one family — the Raw codec over CNAME / MX / SRV,
  where payload bytes '.' and '\' are taken as name syntax (`C10_witness_raw_over_names`, recorded as an
  open finding; Raw is documented as "only for TXT" / NULL).  What is proved:

    * `C10_partial` — the round trip for the region `C10_region` (NULL, PRIVATE and TXT, payloads that
      fit one record: 65530 / 65530 / 253 encoded bytes), for every response type, every field value,
      every error text without NUL, every codec with C08's round-trip;
    * `C10_private_registered`, `C10_unwrap_undoes_escaping` — the two facts read from the source that the
      PRIVATE and TXT cases rest on (they fail to compile if the repairs are reverted);
    * `C10_error_reported_*` — whenever wrapping or packing fails the outcome is an error, the client
      receives nothing;
    * `C10_witness_*` — kernel-checked concrete failures of today's code that are *reported* errors
      (A/AAAA residue, SRV label, CNAME overflow) and the one silent one (Raw over names).
  Multi-record reassembly (order tags, TypePriority sort) is in the executable model and in the
  correspondence, not in a theorem: see notes/C10.md.
-/
import SA.Proofs.DnsResp
namespace SA.DnsResp
open SA.DnsWire SA.WireCodec SA.DnsReq

/-- the property at full strength (on the model) -/
def C10_full : Prop :=
  ∀ (b32 down : Codec), b32.Good → down.Good →
  ∀ (t : RRType) (domain : List Nat) (r : Resp), RespOk r → questionOk domain = true →
    match roundTrip b32 down t domain r with
    | .ok _ _ r' => r' = r
    | .panic => False
    | _ => True

/-- the region of `C10_partial`: record types whose payload is opaque to DNS, one record -/
def C10_region (t : RRType) (encodedLen : Nat) : Bool :=
  match t with
  | .null => encodedLen ≤ SA.Gen.C09.wrapChunkNull
  | .priv => encodedLen ≤ SA.Gen.C09.wrapChunkPrivate
  | .txt => encodedLen ≤ SA.Gen.C09.wrapChunkTxt
  | _ => false

/-- PRIVATE answers use the type number that is registered with miekg/dns (was 65000 vs 0xFFA0) -/
theorem C10_private_registered : SA.Gen.C09.queryTypePrivate = SA.Gen.C09.typeSocketAce := by decide

/-- UnwrapDnsResponse decodes presentation escapes for TXT and for names, the TXT wrapper escapes '\' -/
theorem C10_unwrap_undoes_escaping :
    SA.Gen.C09.unwrapUnescapesTxt = true ∧ SA.Gen.C09.unwrapUnescapesNames = true ∧ SA.Gen.C09.wrapTxtEscapes = true := by decide

theorem encodeResp_ne_nil (b32 down : Codec) (r : Resp) : encodeResp b32 down r ≠ [] := by
  cases r with
  | downEnc err data => cases err <;> simp [encodeResp]
  | _ => simp [encodeResp]

theorem le16_drop2 (o : Nat) (d : List Nat) : (le16 o ++ d).drop 2 = d := by simp [le16]
theorem le16_len (o : Nat) (d : List Nat) : (le16 o ++ d).length = d.length + 2 := by simp [le16]

/-- the stages of `roundTrip`, named -/
theorem roundTrip_of (b32 down : Codec) (t : RRType) (domain : List Nat) (r r' : Resp)
    (answers got : List RR) (data : List Nat)
    (h1 : wrap t domain (encodeResp b32 down r) = some answers) (hq : questionOk domain = true)
    (h2 : answersOverWire answers = .ok got) (h3 : unwrap domain.length got = some data)
    (h4 : decodeResp b32 down data = .ok r') :
    roundTrip b32 down t domain r = .ok got.length data.length r' := by
  simp only [roundTrip, h1, hq, h2, h3, h4, Bool.not_true, Bool.false_eq_true, if_false]

theorem unwrap_single (L : Nat) (rr : RR) (key : Int) (data : List Nat)
    (hk : typePriority rr = some key) (hu : unwrapOne L rr = some data) :
    unwrap L [rr] = some data := by
  simp [unwrap, hk, sortByKey_single, hu]

/-- **C10, working region.** -/
theorem C10_partial (b32 down : Codec) (hb : b32.Good) (hd : down.Good)
    (t : RRType) (domain : List Nat) (r : Resp) (hr : RespOk r) (hq : questionOk domain = true)
    (hbytes : SA.Bytes (encodeResp b32 down r))
    (hreg : C10_region t (encodeResp b32 down r).length = true) :
    roundTrip b32 down t domain r = .ok 1 (encodeResp b32 down r).length r := by
  have hdec := decodeResp_encodeResp b32 down hb hd r hr
  have hne : encodeResp b32 down r ≠ [] := encodeResp_ne_nil b32 down r
  generalize hdata : encodeResp b32 down r = data at hdec hne hbytes hreg ⊢
  obtain ⟨k, hk⟩ : ∃ k, data.length = k + 1 := by
    cases data with
    | nil => exact absurd rfl hne
    | cons a l => exact ⟨l.length, rfl⟩
  have h16 : rd16 (le16 1 ++ data) = some (1, data) := rd16_le16 1 (by decide) data
  cases t with
  | null =>
    have hlen : data.length ≤ SA.Gen.C09.wrapChunkNull := by simpa [C10_region] using hreg
    have hc : SA.Gen.C09.wrapChunkNull + 2 ≤ 65535 := by decide
    have hl2 : ¬ ((le16 1 ++ data).length < 2) := by rw [le16_len]; omega
    have hl3 : (le16 1 ++ data).length ≤ 65535 := by rw [le16_len]; omega
    have hdrop : (le16 1 ++ data).drop 2 = data := le16_drop2 1 data
    have h1 : wrap .null domain (encodeResp b32 down r) = some [.null (le16 1 ++ data)] := by
      rw [hdata]; simp only [wrap, hk, chunkRecs_one _ _ k 1 data hne hlen, List.map_cons, List.map_nil]
    generalize le16 1 ++ data = d at h16 hl2 hl3 hdrop h1
    have h2 : answersOverWire [RR.null d] = .ok [RR.null d] := by
      simp [answersOverWire, rrOverWire, hl3]
    have h3 : unwrap domain.length [RR.null d] = some data :=
      unwrap_single _ _ (10000 + 1) data (by simp [typePriority, h16]) (by simp [unwrapOne, hl2, hdrop])
    have := roundTrip_of b32 down .null domain r r _ _ data h1 hq h2 h3 hdec
    simpa using this
  | priv =>
    have hlen : data.length ≤ SA.Gen.C09.wrapChunkPrivate := by simpa [C10_region] using hreg
    have hc : SA.Gen.C09.wrapChunkPrivate + 2 ≤ 65535 := by decide
    have hl2 : ¬ ((le16 1 ++ data).length < 2) := by rw [le16_len]; omega
    have hl3 : ¬ ((le16 1 ++ data).length > 65535) := by rw [le16_len]; omega
    have hdrop : (le16 1 ++ data).drop 2 = data := le16_drop2 1 data
    have h1 : wrap .priv domain (encodeResp b32 down r) = some [.priv (le16 1 ++ data)] := by
      rw [hdata]; simp only [wrap, hk, chunkRecs_one _ _ k 1 data hne hlen, List.map_cons, List.map_nil]
    generalize le16 1 ++ data = d at h16 hl2 hl3 hdrop h1
    have h2 : answersOverWire [RR.priv d] = .ok [RR.priv d] := by
      simp [answersOverWire, rrOverWire, hl3, C10_private_registered]
    have h3 : unwrap domain.length [RR.priv d] = some data :=
      unwrap_single _ _ (20000 + 1) data (by simp [typePriority, h16]) (by simp [unwrapOne, hl2, hdrop])
    have := roundTrip_of b32 down .priv domain r r _ _ data h1 hq h2 h3 hdec
    simpa using this
  | txt =>
    have hlen : data.length ≤ SA.Gen.C09.wrapChunkTxt := by simpa [C10_region] using hreg
    have hesc := C10_unwrap_undoes_escaping
    -- one string: the order tag "aa" followed by the data, backslashes doubled
    have htag0 : orderTag 0 = [97, 97] := by decide
    have hesc97 : escTxtByte 97 = [97] := by decide
    have h1 : wrap .txt domain (encodeResp b32 down r) = some [.txt [escapeBackslashes (orderTag 0 ++ data)]] := by
      rw [hdata]
      have ht : data.take SA.Gen.C09.wrapChunkTxt = data := List.take_of_length_le hlen
      have hdr : data.drop SA.Gen.C09.wrapChunkTxt = [] := List.drop_of_length_le hlen
      have he : data.isEmpty = false := by cases data with | nil => exact absurd rfl hne | cons _ _ => rfl
      have h250 : ¬ (1 = SA.Gen.C09.wrapTxtStrings) := by decide
      simp only [wrap, hk, txtStrings, he, Bool.false_eq_true, if_false, List.isEmpty_nil, if_true, ht, hdr,
        hesc.2.2, List.length_cons, List.length_nil, Nat.zero_add, h250]
      cases k <;> simp [txtStrings]
    have hs : SA.Bytes (orderTag 0 ++ data) := bytes_append (by decide) hbytes
    have hsl : ¬ (255 < (orderTag 0 ++ data).length) := by
      have : SA.Gen.C09.wrapChunkTxt + 2 ≤ 255 := by decide
      simp [htag0]; omega
    have hl2 : ¬ ((orderTag 0 ++ data).length < 2) := by simp [htag0]
    have hdrop : (orderTag 0 ++ data).drop 2 = data := by simp [htag0]
    have htag : ∃ tl, txtFromWire (orderTag 0 ++ data) = 97 :: 97 :: tl :=
      ⟨txtFromWire data, by simp [htag0, txtFromWire, hesc97]⟩
    generalize orderTag 0 ++ data = s at h1 hs hsl hl2 hdrop htag
    have hw : txtToWire (escapeBackslashes s) = s := txtToWireGo_escape s
    have h2 : answersOverWire [RR.txt [escapeBackslashes s]] = .ok [RR.txt [txtFromWire s]] := by
      have h65 : ¬ (65535 < s.length + 1) := by omega
      simp [answersOverWire, rrOverWire, hw, hsl, h65]
    have hun : unescapePresentation false (txtFromWire s) = s := unesc_txtFromWire s hs
    have h3 : unwrap domain.length [RR.txt [txtFromWire s]] = some data := by
      obtain ⟨tl, htl⟩ := htag
      refine unwrap_single _ _ (30000 + (b32CharToInt 97 + b32CharToInt 97 * 32)) data ?_ ?_
      · simp [typePriority, htl]
      · simp [unwrapOne, hesc.1, hun, hl2, hdrop]
    have := roundTrip_of b32 down .txt domain r r _ _ data h1 hq h2 h3 hdec
    simpa using this
  | srv => simp [C10_region] at hreg
  | mx => simp [C10_region] at hreg
  | cname => simp [C10_region] at hreg
  | aaaa => simp [C10_region] at hreg
  | a => simp [C10_region] at hreg

/-! ### reported errors deliver nothing -/

/-- **C10, wrap errors are reported.**  When WrapDnsResponse returns an error (A: more than 255 records;
    CNAME / MX: ErrTooLong) the outcome is that error; nothing is decoded. -/
theorem C10_error_reported_wrap (b32 down : Codec) (t : RRType) (domain : List Nat) (r : Resp)
    (h : wrap t domain (encodeResp b32 down r) = none) :
    roundTrip b32 down t domain r = .encError := by
  simp only [roundTrip, h]

/-- **C10, pack / unpack errors are reported.**  When a record does not survive miekg's Pack/Unpack
    (A/AAAA not 4/16 bytes, label over 63, name over 255, TXT string over 255) the outcome is that
    error; the client never sees a payload. -/
theorem C10_error_reported_wire (b32 down : Codec) (t : RRType) (domain : List Nat) (r : Resp)
    (answers : List RR) (e : WireErr)
    (h1 : wrap t domain (encodeResp b32 down r) = some answers)
    (h2 : answersOverWire answers = .error e) :
    roundTrip b32 down t domain r = .packError ∨ roundTrip b32 down t domain r = .unpackError := by
  cases hq : questionOk domain with
  | false => left; simp only [roundTrip, h1, hq, Bool.not_false, if_true]
  | true =>
    cases e with
    | pack => left; simp only [roundTrip, h1, hq, h2, Bool.not_true, Bool.false_eq_true, if_false]
    | unpack => right; simp only [roundTrip, h1, hq, h2, Bool.not_true, Bool.false_eq_true, if_false]

/-! ### witnesses (kernel-evaluated on the executable model; each is a corpus line for the real code) -/

theorem raw_good : raw.Good := ⟨fun _ _ => rfl⟩

/-- A records: an 11-byte response (version reply, Base32) leaves a 3-byte last record: `overflow packing a`.
    Reported error, no corruption. -/
theorem C10_witness_a_residue :
    roundTrip base32 base32 .a [97, 46, 98] (.version 1 2 none) = .packError := by decide

/-- AAAA records: same, the last record is not 16 bytes. -/
theorem C10_witness_aaaa_residue :
    roundTrip base32 base32 .aaaa [97, 46, 98] (.version 1 2 none) = .packError := by decide

set_option maxRecDepth 8000 in
/-- SRV: the target is one undotted label; 40 payload bytes make it longer than 63.  Reported error. -/
theorem C10_witness_srv_label :
    roundTrip base32 base32 .srv [97, 46, 98]
      (.packet none 1 (some (2, List.replicate 40 7))) = .packError := by decide

/-- Raw over CNAME: the payload byte '.' is taken as a label separator and silently disappears —
    the client decodes a *different* packet and no error is reported.  So `C10_full` does not hold. -/
theorem C10_witness_raw_over_names : ¬ C10_full := by
  intro h
  have hr : RespOk (.packet none 1 (some (2, [65, 46, 66]))) := by
    unfold RespOk
    refine ⟨fun e he => (by cases he), (by decide), ?_, fun he => (by cases he)⟩
    intro p hp; cases hp; exact ⟨by decide, by decide⟩
  have := h raw raw raw_good raw_good .cname [97, 46, 98] _ hr (by decide)
  have hv : roundTrip raw raw .cname [97, 46, 98] (.packet none 1 (some (2, [65, 46, 66])))
      = .ok 1 8 (.packet none 1 (some (2, [65, 66]))) := by decide
  rw [hv] at this
  exact absurd this (by decide)

/-! ### non-vacuity -/

/-- the hypotheses of `C10_partial` are satisfiable together (Raw over NULL, TXT and PRIVATE; the TXT
    payload contains '"', '\', NUL and a high byte, i.e. everything miekg escapes) -/
example : ∀ t ∈ [RRType.null, RRType.txt, RRType.priv],
    roundTrip raw raw t [97, 46, 98] (.packet none 1 (some (2, [34, 92, 0, 250, 46])))
      = .ok 1 11 (.packet none 1 (some (2, [34, 92, 0, 250, 46]))) := by
  intro t ht
  have hr : RespOk (.packet none 1 (some (2, [34, 92, 0, 250, 46]))) := by
    unfold RespOk
    refine ⟨fun e he => (by cases he), (by decide), ?_, fun he => (by cases he)⟩
    intro p hp; cases hp; exact ⟨by decide, by decide⟩
  have hreg : C10_region t (encodeResp raw raw (.packet none 1 (some (2, [34, 92, 0, 250, 46])))).length = true := by
    simp at ht; rcases ht with rfl | rfl | rfl <;> decide
  exact C10_partial raw raw raw_good raw_good t _ _ hr (by decide) (by decide) hreg

/-- every error code of BadErrors is an admissible error text -/
example : ∀ e ∈ SA.Gen.C09.badErrors, ErrOk e := by decide

end SA.DnsResp

#print axioms SA.DnsResp.C10_private_registered
#print axioms SA.DnsResp.C10_unwrap_undoes_escaping
#print axioms SA.DnsResp.C10_partial
#print axioms SA.DnsResp.C10_error_reported_wrap
#print axioms SA.DnsResp.C10_error_reported_wire
#print axioms SA.DnsResp.C10_witness_a_residue
#print axioms SA.DnsResp.C10_witness_aaaa_residue
#print axioms SA.DnsResp.C10_witness_srv_label
#print axioms SA.DnsResp.C10_witness_raw_over_names

/-
  C10 — DNS tunnel responses survive the wire for every record type.

  Property theorems only; helper lemmas are in SA.Proofs.DnsResp.

  `C10_full` is the property at full strength on the model: for every response in range, every record
  type, every downstream codec meeting C08's round-trip theorem, every domain whose question packs:
  the client decodes the same response, or an error is reported (never a different response, never a
  panic).  On the repaired tree it still fails for one family — the Raw codec over CNAME / MX / SRV,
  where payload bytes '.' and '\' are taken as name syntax (`C10_witness_raw_over_names`, recorded as an
  open finding; Raw is documented as "only for TXT" / NULL).  What is proved:

    * `C10_partial` — the round trip for the region `C10_region` (NULL, PRIVATE and TXT, payloads that
      fit one record: 65530 / 65530 / 253 encoded bytes), for every response type, every field value,
      every error text without NUL, every codec with C08's round-trip;
    * `C10_private_registered`, `C10_unwrap_undoes_escaping` — the two facts read from the source that the
      PRIVATE and TXT cases rest on (they fail to compile if the repairs are reverted);
    * `C10_error_reported_*` — whenever wrapping or packing fails the outcome is an error, the client
      receives nothing;
    * `C10_witness_*` — kernel-checked concrete failures of today's code that are *reported* errors
      (A/AAAA residue, SRV label, CNAME overflow) and the one silent one (Raw over names).
  Extension (second half of the file): multi-record reassembly is now a theorem.
    * `C10_sort_inverts_tagging` — the key lemma, generic: records tagged o, o+1, … whose decoded key is
      strictly increasing on the tags used, in ANY arrival order, under ANY correct comparison sort
      (`SortSpec`: permutation + ordered; all `sort.Slice` promises), unwrap to the pieces in order.
      `C10_sort_model_correct`, `C10_sorts_agree_on_distinct_tags` tie the model's insertion sort to it.
    * `C10_tag_range` — per record type, the exact record count up to which the decoded tags increase
      (NULL/PRIVATE/AAAA/SRV 65535, A 255, MX 6553, TXT 512, CNAME 511) and that the next tag wraps.
    * `C10_reassembly` — every record type, every payload length: if WrapDnsResponse and Pack/Unpack
      succeed, the record count is within the tag range and the input is outside `C10_exception`, the
      client decodes exactly the response sent (and would for any arrival order / sort).
    * `C10_multi_null_priv`, `C10_multi_txt`, `C10_multi_a_aaaa` — success is unconditional there.
    * `C10_a_overflow_reported` — beyond 255 A records an error is reported.
    * `C10_no_silent_corruption` — on every input outside the exception region and within the tag
      range: the response sent, or an error; never a different response, never a panic.
-/
import SA.Proofs.DnsResp
import SA.Proofs.DnsRespAll
import SA.Gen.PkgVars
namespace SA.DnsResp
open SA.DnsWire SA.WireCodec SA.DnsReq

/-- the property at full strength (on the model) -/
def C10_full : Prop :=
  ∀ (b32 down : Codec), b32.Good → down.Good →
  ∀ (t : RRType) (domain : List Nat) (r : Resp), RespOk r → questionOk domain = true →
    match roundTrip b32 down t domain r with
    | .ok _ _ r' => r' = r
    | .panic => False
    | _ => True

/-- the region of `C10_partial`: record types whose payload is opaque to DNS, one record -/
def C10_region (t : RRType) (encodedLen : Nat) : Bool :=
  match t with
  | .null => encodedLen ≤ SA.Gen.C09.wrapChunkNull
  | .priv => encodedLen ≤ SA.Gen.C09.wrapChunkPrivate
  | .txt => encodedLen ≤ SA.Gen.C09.wrapChunkTxt
  | _ => false

/-- PRIVATE answers use the type number that is registered with miekg/dns (was 65000 vs 0xFFA0) -/
theorem C10_private_registered : SA.Gen.C09.queryTypePrivate = SA.Gen.C09.typeSocketAce := by decide

/-- UnwrapDnsResponse decodes presentation escapes for TXT and for names, the TXT wrapper escapes '\' -/
theorem C10_unwrap_undoes_escaping :
    SA.Gen.C09.unwrapUnescapesTxt = true ∧ SA.Gen.C09.unwrapUnescapesNames = true ∧ SA.Gen.C09.wrapTxtEscapes = true := by decide

theorem encodeResp_ne_nil (b32 down : Codec) (r : Resp) : encodeResp b32 down r ≠ [] := by
  cases r with
  | downEnc err data => cases err <;> simp [encodeResp]
  | _ => simp [encodeResp]

theorem le16_drop2 (o : Nat) (d : List Nat) : (le16 o ++ d).drop 2 = d := by simp [le16]
theorem le16_len (o : Nat) (d : List Nat) : (le16 o ++ d).length = d.length + 2 := by simp [le16]

/-- the stages of `roundTrip`, named -/
theorem roundTrip_of (b32 down : Codec) (t : RRType) (domain : List Nat) (r r' : Resp)
    (answers got : List RR) (data : List Nat)
    (h1 : wrap t domain (encodeResp b32 down r) = some answers) (hq : questionOk domain = true)
    (h2 : answersOverWire answers = .ok got) (h3 : unwrap domain.length got = some data)
    (h4 : decodeResp b32 down data = .ok r') (h16 : got.length < 65536) :
    roundTrip b32 down t domain r = .ok got.length data.length r' := by
  have htake : got.take (got.length % 65536) = got := by
    rw [Nat.mod_eq_of_lt h16]; exact List.take_length
  simp only [roundTrip, h1, hq, h2, htake, h3, h4, Bool.not_true, Bool.false_eq_true, if_false]

theorem unwrap_single (L : Nat) (rr : RR) (key : Int) (data : List Nat)
    (hk : typePriority rr = some key) (hu : unwrapOne L rr = some data) :
    unwrap L [rr] = some data := by
  simp [unwrap, hk, sortByKey_single, hu]

/-- **C10, working region.** -/
theorem C10_partial (b32 down : Codec) (hb : b32.Good) (hd : down.Good)
    (t : RRType) (domain : List Nat) (r : Resp) (hr : RespOk r) (hq : questionOk domain = true)
    (hbytes : SA.Bytes (encodeResp b32 down r))
    (hreg : C10_region t (encodeResp b32 down r).length = true) :
    roundTrip b32 down t domain r = .ok 1 (encodeResp b32 down r).length r := by
  have hdec := decodeResp_encodeResp b32 down hb hd r hr
  have hne : encodeResp b32 down r ≠ [] := encodeResp_ne_nil b32 down r
  generalize hdata : encodeResp b32 down r = data at hdec hne hbytes hreg ⊢
  obtain ⟨k, hk⟩ : ∃ k, data.length = k + 1 := by
    cases data with
    | nil => exact absurd rfl hne
    | cons a l => exact ⟨l.length, rfl⟩
  have h16 : rd16 (le16 1 ++ data) = some (1, data) := rd16_le16 1 (by decide) data
  cases t with
  | null =>
    have hlen : data.length ≤ SA.Gen.C09.wrapChunkNull := by simpa [C10_region] using hreg
    have hc : SA.Gen.C09.wrapChunkNull + 2 ≤ 65535 := by decide
    have hl2 : ¬ ((le16 1 ++ data).length < 2) := by rw [le16_len]; omega
    have hl3 : (le16 1 ++ data).length ≤ 65535 := by rw [le16_len]; omega
    have hdrop : (le16 1 ++ data).drop 2 = data := le16_drop2 1 data
    have h1 : wrap .null domain (encodeResp b32 down r) = some [.null (le16 1 ++ data)] := by
      rw [hdata]; simp only [wrap, hk, chunkRecs_one _ _ k 1 data hne hlen, List.map_cons, List.map_nil]
    generalize le16 1 ++ data = d at h16 hl2 hl3 hdrop h1
    have h2 : answersOverWire [RR.null d] = .ok [RR.null d] := by
      simp [answersOverWire, rrOverWire, hl3]
    have h3 : unwrap domain.length [RR.null d] = some data :=
      unwrap_single _ _ (10000 + 1) data (by simp [typePriority, h16]) (by simp [unwrapOne, hl2, hdrop])
    have := roundTrip_of b32 down .null domain r r _ _ data h1 hq h2 h3 hdec (by simp)
    simpa using this
  | priv =>
    have hlen : data.length ≤ SA.Gen.C09.wrapChunkPrivate := by simpa [C10_region] using hreg
    have hc : SA.Gen.C09.wrapChunkPrivate + 2 ≤ 65535 := by decide
    have hl2 : ¬ ((le16 1 ++ data).length < 2) := by rw [le16_len]; omega
    have hl3 : ¬ ((le16 1 ++ data).length > 65535) := by rw [le16_len]; omega
    have hdrop : (le16 1 ++ data).drop 2 = data := le16_drop2 1 data
    have h1 : wrap .priv domain (encodeResp b32 down r) = some [.priv (le16 1 ++ data)] := by
      rw [hdata]; simp only [wrap, hk, chunkRecs_one _ _ k 1 data hne hlen, List.map_cons, List.map_nil]
    generalize le16 1 ++ data = d at h16 hl2 hl3 hdrop h1
    have h2 : answersOverWire [RR.priv d] = .ok [RR.priv d] := by
      simp [answersOverWire, rrOverWire, hl3, C10_private_registered]
    have h3 : unwrap domain.length [RR.priv d] = some data :=
      unwrap_single _ _ (20000 + 1) data (by simp [typePriority, h16]) (by simp [unwrapOne, hl2, hdrop])
    have := roundTrip_of b32 down .priv domain r r _ _ data h1 hq h2 h3 hdec (by simp)
    simpa using this
  | txt =>
    have hlen : data.length ≤ SA.Gen.C09.wrapChunkTxt := by simpa [C10_region] using hreg
    have hesc := C10_unwrap_undoes_escaping
    -- one string: the order tag "aa" followed by the data, backslashes doubled
    have htag0 : orderTag 0 = [97, 97] := by decide
    have hesc97 : escTxtByte 97 = [97] := by decide
    have h1 : wrap .txt domain (encodeResp b32 down r) = some [.txt [escapeBackslashes (orderTag 0 ++ data)]] := by
      rw [hdata]
      have ht : data.take SA.Gen.C09.wrapChunkTxt = data := List.take_of_length_le hlen
      have hdr : data.drop SA.Gen.C09.wrapChunkTxt = [] := List.drop_of_length_le hlen
      have he : data.isEmpty = false := by cases data with | nil => exact absurd rfl hne | cons _ _ => rfl
      have h250 : ¬ (1 = SA.Gen.C09.wrapTxtStrings) := by decide
      simp only [wrap, hk, txtStrings, he, Bool.false_eq_true, if_false, List.isEmpty_nil, if_true, ht, hdr,
        hesc.2.2, List.length_cons, List.length_nil, Nat.zero_add, h250]
      cases k <;> simp [txtStrings]
    have hs : SA.Bytes (orderTag 0 ++ data) := bytes_append (by decide) hbytes
    have hsl : ¬ (255 < (orderTag 0 ++ data).length) := by
      have : SA.Gen.C09.wrapChunkTxt + 2 ≤ 255 := by decide
      simp [htag0]; omega
    have hl2 : ¬ ((orderTag 0 ++ data).length < 2) := by simp [htag0]
    have hdrop : (orderTag 0 ++ data).drop 2 = data := by simp [htag0]
    have htag : ∃ tl, txtFromWire (orderTag 0 ++ data) = 97 :: 97 :: tl :=
      ⟨txtFromWire data, by simp [htag0, txtFromWire, hesc97]⟩
    generalize orderTag 0 ++ data = s at h1 hs hsl hl2 hdrop htag
    have hw : txtToWire (escapeBackslashes s) = s := txtToWireGo_escape s
    have h2 : answersOverWire [RR.txt [escapeBackslashes s]] = .ok [RR.txt [txtFromWire s]] := by
      have h65 : ¬ (65535 < s.length + 1) := by omega
      simp [answersOverWire, rrOverWire, hw, hsl, h65]
    have hun : unescapePresentation false (txtFromWire s) = s := unesc_txtFromWire s hs
    have h3 : unwrap domain.length [RR.txt [txtFromWire s]] = some data := by
      obtain ⟨tl, htl⟩ := htag
      refine unwrap_single _ _ (30000 + (b32CharToInt 97 + b32CharToInt 97 * 32)) data ?_ ?_
      · simp [typePriority, htl]
      · simp [unwrapOne, hesc.1, hun, hl2, hdrop]
    have := roundTrip_of b32 down .txt domain r r _ _ data h1 hq h2 h3 hdec (by simp)
    simpa using this
  | srv => simp [C10_region] at hreg
  | mx => simp [C10_region] at hreg
  | cname => simp [C10_region] at hreg
  | aaaa => simp [C10_region] at hreg
  | a => simp [C10_region] at hreg

/-! ### reported errors deliver nothing -/

/-- **C10, wrap errors are reported.**  When WrapDnsResponse returns an error (A: more than 255 records;
    CNAME / MX: ErrTooLong) the outcome is that error; nothing is decoded. -/
theorem C10_error_reported_wrap (b32 down : Codec) (t : RRType) (domain : List Nat) (r : Resp)
    (h : wrap t domain (encodeResp b32 down r) = none) :
    roundTrip b32 down t domain r = .encError := by
  simp only [roundTrip, h]

/-- **C10, pack / unpack errors are reported.**  When a record does not survive miekg's Pack/Unpack
    (A/AAAA not 4/16 bytes, label over 63, name over 255, TXT string over 255) the outcome is that
    error; the client never sees a payload. -/
theorem C10_error_reported_wire (b32 down : Codec) (t : RRType) (domain : List Nat) (r : Resp)
    (answers : List RR) (e : WireErr)
    (h1 : wrap t domain (encodeResp b32 down r) = some answers)
    (h2 : answersOverWire answers = .error e) :
    roundTrip b32 down t domain r = .packError ∨ roundTrip b32 down t domain r = .unpackError := by
  cases hq : questionOk domain with
  | false => left; simp only [roundTrip, h1, hq, Bool.not_false, if_true]
  | true =>
    cases e with
    | pack => left; simp only [roundTrip, h1, hq, h2, Bool.not_true, Bool.false_eq_true, if_false]
    | unpack => right; simp only [roundTrip, h1, hq, h2, Bool.not_true, Bool.false_eq_true, if_false]

/-! ### witnesses (kernel-evaluated on the executable model; each is a corpus line for the real code) -/

theorem raw_good : raw.Good := ⟨fun _ _ => rfl⟩

/-- A records: an 11-byte response (version reply, Base32) leaves a 3-byte last record: `overflow packing a`.
    Reported error, no corruption. -/
theorem C10_witness_a_residue :
    roundTrip base32 base32 .a [97, 46, 98] (.version 1 2 none) = .packError := by decide

/-- AAAA records: same, the last record is not 16 bytes. -/
theorem C10_witness_aaaa_residue :
    roundTrip base32 base32 .aaaa [97, 46, 98] (.version 1 2 none) = .packError := by decide

set_option maxRecDepth 8000 in
/-- SRV: the target is one undotted label; 40 payload bytes make it longer than 63.  Reported error. -/
theorem C10_witness_srv_label :
    roundTrip base32 base32 .srv [97, 46, 98]
      (.packet none 1 (some (2, List.replicate 40 7))) = .packError := by decide

/-- Raw over CNAME: the payload byte '.' is taken as a label separator and silently disappears —
    the client decodes a *different* packet and no error is reported.  So `C10_full` does not hold. -/
theorem C10_witness_raw_over_names : ¬ C10_full := by
  intro h
  have hr : RespOk (.packet none 1 (some (2, [65, 46, 66]))) := by
    unfold RespOk
    refine ⟨fun e he => (by cases he), (by decide), ?_, fun he => (by cases he)⟩
    intro p hp; cases hp; exact ⟨by decide, by decide⟩
  have := h raw raw raw_good raw_good .cname [97, 46, 98] _ hr (by decide)
  have hv : roundTrip raw raw .cname [97, 46, 98] (.packet none 1 (some (2, [65, 46, 66])))
      = .ok 1 8 (.packet none 1 (some (2, [65, 66]))) := by decide
  rw [hv] at this
  exact absurd this (by decide)

/-! ## Extension: multi-record reassembly and "no silent corruption" -/

/-- the model's insertion sort meets the contract of a comparison sort (permutation, ordered) -/
theorem C10_sort_model_correct : SortSpec sortByKey := sortByKey_spec

/-- any two correct comparison sorts (the model's, Go's `sort.Slice`, …) agree whenever the keys are
    pairwise distinct — stability is irrelevant there -/
theorem C10_sorts_agree_on_distinct_tags {s₁ s₂ : List (Int × RR) → List (Int × RR)}
    (h₁ : SortSpec s₁) (h₂ : SortSpec s₂) (xs : List (Int × RR)) (hd : xs.Pairwise (fun a b => a.1 ≠ b.1)) :
    s₁ xs = s₂ xs := sorts_agree h₁ h₂ xs hd

/-- **Key lemma: sorting by the decoded tag is the inverse of tagging.**  `rs` are records tagged
    o, o+1, … (`Tagged`: TypePriority decodes `kf` of the tag, UnwrapDnsResponse extracts the piece);
    if `kf` is strictly increasing on the tags used, then for ANY arrival order `xs` of the records and
    ANY correct sort, unwrapping yields the pieces concatenated in tagging order. -/
theorem C10_sort_inverts_tagging {sort : List (Int × RR) → List (Int × RR)} (hs : SortSpec sort)
    (L : Nat) (kf : Nat → Int) (o : Nat) (rs : List RR) (ds : List (List Nat)) (ht : Tagged L kf o rs ds)
    (hmono : ∀ i j, o ≤ i → i < j → j < o + rs.length → kf i < kf j)
    (xs : List RR) (hp : xs.Perm rs) :
    unwrapWith sort L xs = some ds.flatten := unwrap_tagged hs L kf o rs ds ht hmono xs hp

/-- **The tag range, exactly.**  For each record type the decoded order tag (`tagKey`: little-endian
    16-bit for NULL / PRIVATE / AAAA, one byte for A, Preference = 10·order mod 2¹⁶ for MX, Priority for
    SRV, and for TXT / CNAME the two base-32 characters `order & 31`, `(order >> 4) & 31` read back as
    c0 + 32·c1) is strictly increasing over the first `tagBound` records, and the tag of the next
    record is not above that of the first: reassembly by sorting is correct up to exactly
    65535 / 65535 / 65535 / 255 / 6553 / 65535 / 512 / 511 records. -/
theorem C10_tag_range (t : RRType) :
    (∀ i j, tagStart t ≤ i → i < j → j < tagStart t + tagBound t → tagKey t i < tagKey t j)
    ∧ tagKey t (tagStart t + tagBound t) ≤ tagKey t (tagStart t) := ⟨tagKey_mono t, tagKey_wraps t⟩

/-- the record count WrapDnsResponse produces stays within the tag range -/
def C10_countOk (t : RRType) (domainLen len : Nat) : Bool := recordCount t domainLen len ≤ tagBound t

/-- the region excepted from the theorems below = the open finding `C10-raw-over-names`: a
    name-carrying record type (CNAME, MX, SRV) and an encoded payload containing '.' or '\\' -/
def C10_exception (t : RRType) (enc : List Nat) : Bool := rawOverNames t enc

/-- **C10, reassembly for every record type and payload length.**  Whenever WrapDnsResponse succeeds
    and every record survives Pack/Unpack — outside the exception region, within the tag range, for
    CNAME/MX/SRV over a domain of plain labels — the client decodes exactly the response that was sent,
    from as many records as the wrapper made; and UnwrapDnsResponse would return the same payload for
    any arrival order of the records and any correct sort. -/
theorem C10_reassembly (b32 down : Codec) (hb : b32.Good) (hd : down.Good)
    (t : RRType) (domain : List Nat) (dls : List (List Nat)) (r : Resp) (hr : RespOk r)
    (hq : questionOk domain = true) (hbytes : SA.Bytes (encodeResp b32 down r))
    (hexc : C10_exception t (encodeResp b32 down r) = false)
    (hdom : isName t = true → DomainOk domain dls)
    (hcount : C10_countOk t domain.length (encodeResp b32 down r).length = true)
    (answers got : List RR)
    (hw : wrap t domain (encodeResp b32 down r) = some answers) (hwire : answersOverWire answers = .ok got) :
    roundTrip b32 down t domain r
        = .ok (recordCount t domain.length (encodeResp b32 down r).length) (encodeResp b32 down r).length r
    ∧ ∀ sort, SortSpec sort → ∀ xs, xs.Perm got →
        unwrapWith sort domain.length xs = some (encodeResp b32 down r) := by
  have hcnt := wrap_count t domain _ answers hw
  have hc : answers.length ≤ tagBound t := by
    rw [hcnt]; simpa [C10_countOk] using hcount
  have hdec := decodeResp_encodeResp b32 down hb hd r hr
  have hall := unwrap_wire_wrap t domain dls _ answers got hbytes hexc hdom hw hwire hc
  constructor
  · have h3 := (hall sortByKey sortByKey_spec got (List.Perm.refl _)).2
    rw [← unwrap_eq_unwrapWith] at h3
    have hgl := (hall sortByKey sortByKey_spec got (List.Perm.refl _)).1
    have h16 : got.length < 65536 := by
      have : tagBound t ≤ 65535 := by cases t <;> decide
      omega
    have := roundTrip_of b32 down t domain r r answers got _ hw hq hwire h3 hdec h16
    rw [this, hgl, hcnt]
  · intro sort hs xs hp
    exact (hall sort hs xs hp).2

/-- **C10, NULL and PRIVATE, every payload length.**  ⌈len/65530⌉ records, little-endian 16-bit order
    tags; as long as that count is at most 65535 the round trip succeeds. -/
theorem C10_multi_null_priv (b32 down : Codec) (hb : b32.Good) (hd : down.Good)
    (t : RRType) (ht : t = .null ∨ t = .priv) (domain : List Nat) (r : Resp) (hr : RespOk r)
    (hq : questionOk domain = true) (hbytes : SA.Bytes (encodeResp b32 down r))
    (hcount : C10_countOk t domain.length (encodeResp b32 down r).length = true) :
    roundTrip b32 down t domain r
      = .ok (ceilDiv (encodeResp b32 down r).length 65530) (encodeResp b32 down r).length r := by
  rcases ht with rfl | rfl
  · have hw : wrap .null domain (encodeResp b32 down r) = some ((chunkRecs SA.Gen.C09.wrapChunkNull (fun o => le16 o)
        (encodeResp b32 down r).length 1 (encodeResp b32 down r)).map .null) := by simp only [wrap]
    exact (C10_reassembly b32 down hb hd .null domain [] r hr hq hbytes (by simp [C10_exception, rawOverNames, isName])
      (by simp [isName]) hcount _ _ hw
      (wire_null_priv RR.null (Or.inl rfl) SA.Gen.C09.wrapChunkNull (by decide) (by decide) _ 1 _)).1
  · have hw : wrap .priv domain (encodeResp b32 down r) = some ((chunkRecs SA.Gen.C09.wrapChunkPrivate (fun o => le16 o)
        (encodeResp b32 down r).length 1 (encodeResp b32 down r)).map .priv) := by simp only [wrap]
    exact (C10_reassembly b32 down hb hd .priv domain [] r hr hq hbytes (by simp [C10_exception, rawOverNames, isName])
      (by simp [isName]) hcount _ _ hw
      (wire_null_priv RR.priv (Or.inr rfl) SA.Gen.C09.wrapChunkPrivate (by decide) (by decide) _ 1 _)).1

/-- **C10, TXT, every payload length.**  253-byte strings, 250 strings per record, backslashes doubled
    by the wrapper and every byte value escaped by miekg and unescaped by the client; as long as the
    record count ⌈⌈len/253⌉/250⌉ is at most 512 the round trip succeeds. -/
theorem C10_multi_txt (b32 down : Codec) (hb : b32.Good) (hd : down.Good)
    (domain : List Nat) (r : Resp) (hr : RespOk r)
    (hq : questionOk domain = true) (hbytes : SA.Bytes (encodeResp b32 down r))
    (hcount : C10_countOk .txt domain.length (encodeResp b32 down r).length = true) :
    roundTrip b32 down .txt domain r
      = .ok (ceilDiv (ceilDiv (encodeResp b32 down r).length 253) 250) (encodeResp b32 down r).length r := by
  obtain ⟨answers, got, _, h1, h2, _⟩ := tagged_txt domain _ hbytes
  exact (C10_reassembly b32 down hb hd .txt domain [] r hr hq hbytes (by simp [C10_exception, rawOverNames, isName])
    (by simp [isName]) hcount answers got h1 h2).1

/-- **C10, A and AAAA, on the region where packing succeeds** (payload a multiple of 3 / 14 bytes, at
    most 255 / 65535 records): the round trip succeeds. -/
theorem C10_multi_a_aaaa (b32 down : Codec) (hb : b32.Good) (hd : down.Good)
    (t : RRType) (ht : (t = .a ∧ (encodeResp b32 down r).length % 3 = 0)
      ∨ (t = .aaaa ∧ (encodeResp b32 down r).length % 14 = 0))
    (domain : List Nat) (hr : RespOk r)
    (hq : questionOk domain = true) (hbytes : SA.Bytes (encodeResp b32 down r))
    (hcount : C10_countOk t domain.length (encodeResp b32 down r).length = true) :
    roundTrip b32 down t domain r
      = .ok (recordCount t domain.length (encodeResp b32 down r).length) (encodeResp b32 down r).length r := by
  rcases ht with ⟨rfl, hm⟩ | ⟨rfl, hm⟩
  · have hle : ¬ ((chunkRecs SA.Gen.C09.wrapChunkA (fun o => [o % 256]) (encodeResp b32 down r).length 1
        (encodeResp b32 down r)).length > 255) := by
      rw [chunkRecs_length, pieces_length _ (by decide) _ _ (Nat.le_refl _)]
      have : recordCount .a domain.length (encodeResp b32 down r).length ≤ 255 := of_decide_eq_true hcount
      exact Nat.not_lt.mpr this
    have hw : wrap .a domain (encodeResp b32 down r) = some ((chunkRecs SA.Gen.C09.wrapChunkA (fun o => [o % 256])
        (encodeResp b32 down r).length 1 (encodeResp b32 down r)).map .a) := by simp only [wrap, hle, if_false]
    exact (C10_reassembly b32 down hb hd .a domain [] r hr hq hbytes (by simp [C10_exception, rawOverNames, isName])
      (by simp [isName]) hcount _ _ hw (wire_a _ 1 _ hm)).1
  · have hw : wrap .aaaa domain (encodeResp b32 down r) = some ((chunkRecs SA.Gen.C09.wrapChunkAAAA (fun o => le16 o)
        (encodeResp b32 down r).length 1 (encodeResp b32 down r)).map .aaaa) := by simp only [wrap]
    exact (C10_reassembly b32 down hb hd .aaaa domain [] r hr hq hbytes (by simp [C10_exception, rawOverNames, isName])
      (by simp [isName]) hcount _ _ hw (wire_aaaa _ 1 _ hm)).1

/-- **C10, the A tag cannot wrap silently**: more than 255 A records are refused by the wrapper. -/
theorem C10_a_overflow_reported (b32 down : Codec) (domain : List Nat) (r : Resp)
    (hcount : C10_countOk .a domain.length (encodeResp b32 down r).length = false) :
    roundTrip b32 down .a domain r = .encError := by
  apply C10_error_reported_wrap
  have hgt : (chunkRecs SA.Gen.C09.wrapChunkA (fun o => [o % 256]) (encodeResp b32 down r).length 1
      (encodeResp b32 down r)).length > 255 := by
    rw [chunkRecs_length, pieces_length _ (by decide) _ _ (Nat.le_refl _)]
    have : ¬ (recordCount .a domain.length (encodeResp b32 down r).length ≤ 255) := of_decide_eq_false hcount
    exact Nat.not_le.mp this
  simp only [wrap, hgt, if_true]

/-- **C10, no silent corruption.**  On every input — every record type, every payload length, every
    codec pair with round trip, every response in range — outside the exception region
    (`C10_exception`, the open finding) and within the tag range (`C10_countOk`), over a domain of plain
    labels for the name-carrying types: the client's result is the response that was sent or a
    reported error; never a different response, never a panic. -/
theorem C10_no_silent_corruption (b32 down : Codec) (hb : b32.Good) (hd : down.Good)
    (t : RRType) (domain : List Nat) (dls : List (List Nat)) (r : Resp) (hr : RespOk r)
    (hq : questionOk domain = true) (hbytes : SA.Bytes (encodeResp b32 down r))
    (hexc : C10_exception t (encodeResp b32 down r) = false)
    (hdom : isName t = true → DomainOk domain dls)
    (hcount : C10_countOk t domain.length (encodeResp b32 down r).length = true) :
    match roundTrip b32 down t domain r with
    | .ok _ _ r' => r' = r
    | .panic => False
    | _ => True := by
  cases hw : wrap t domain (encodeResp b32 down r) with
  | none => rw [C10_error_reported_wrap b32 down t domain r hw]; trivial
  | some answers =>
    cases hwire : answersOverWire answers with
    | error e =>
      rcases C10_error_reported_wire b32 down t domain r answers e hw hwire with h | h <;> rw [h] <;> trivial
    | ok got =>
      rw [(C10_reassembly b32 down hb hd t domain dls r hr hq hbytes hexc hdom hcount answers got hw hwire).1]

/-! ### non-vacuity -/

/-- the hypotheses of `C10_partial` are satisfiable together (Raw over NULL, TXT and PRIVATE; the TXT
    payload contains '"', '\', NUL and a high byte, i.e. everything miekg escapes) -/
example : ∀ t ∈ [RRType.null, RRType.txt, RRType.priv],
    roundTrip raw raw t [97, 46, 98] (.packet none 1 (some (2, [34, 92, 0, 250, 46])))
      = .ok 1 11 (.packet none 1 (some (2, [34, 92, 0, 250, 46]))) := by
  intro t ht
  have hr : RespOk (.packet none 1 (some (2, [34, 92, 0, 250, 46]))) := by
    unfold RespOk
    refine ⟨fun e he => (by cases he), (by decide), ?_, fun he => (by cases he)⟩
    intro p hp; cases hp; exact ⟨by decide, by decide⟩
  have hreg : C10_region t (encodeResp raw raw (.packet none 1 (some (2, [34, 92, 0, 250, 46])))).length = true := by
    simp at ht; rcases ht with rfl | rfl | rfl <;> decide
  exact C10_partial raw raw raw_good raw_good t _ _ hr (by decide) (by decide) hreg

/-- every error code of BadErrors is an admissible error text -/
example : ∀ e ∈ SA.Gen.C09.badErrors, ErrOk e := by decide

/-! ### non-vacuity of the extension -/

theorem bytes_replicate (n b : Nat) (hb : b < 256) : SA.Bytes (List.replicate n b) := by
  intro x hx; rw [List.eq_of_mem_replicate hx]; exact hb

theorem respOk_downEnc (d : List Nat) (hd : SA.Bytes d) : RespOk (.downEnc none d) :=
  ⟨fun e he => (by cases he), hd, fun h => (by simp at h)⟩

theorem enc_downEnc_raw (d : List Nat) : encodeResp raw raw (.downEnc none d) = 121 :: 111 :: d := rfl

/-- NULL and PRIVATE: any number of records up to 65535 (here: every payload length n, ⌈(n+2)/65530⌉ records) -/
example (n : Nat) (hn : n + 2 ≤ 65535 * 65530) (t : RRType) (ht : t = .null ∨ t = .priv) :
    roundTrip raw raw t [97, 46, 98] (.downEnc none (List.replicate n 7))
      = .ok (ceilDiv (n + 2) 65530) (n + 2) (.downEnc none (List.replicate n 7)) := by
  have hl : (encodeResp raw raw (.downEnc none (List.replicate n 7))).length = n + 2 := by simp [enc_downEnc_raw]
  have hc : C10_countOk t [97, 46, 98].length (encodeResp raw raw (.downEnc none (List.replicate n 7))).length = true := by
    rw [hl]
    rcases ht with rfl | rfl <;>
    · apply decide_eq_true
      show (n + 2 + 65530 - 1) / 65530 ≤ 65535
      omega
  have := C10_multi_null_priv raw raw raw_good raw_good t ht [97, 46, 98] _
    (respOk_downEnc _ (bytes_replicate n 7 (by decide))) (by decide)
    (by rw [enc_downEnc_raw]; exact bytes_cons (by decide) (bytes_cons (by decide) (bytes_replicate n 7 (by decide)))) hc
  rw [hl] at this
  exact this

/-- TXT: every payload length up to 512 records, payload made of backslashes (the escaping path) -/
example (n : Nat) (hn : n + 2 ≤ 512 * 250 * 253) :
    roundTrip raw raw .txt [97, 46, 98] (.downEnc none (List.replicate n 92))
      = .ok (ceilDiv (ceilDiv (n + 2) 253) 250) (n + 2) (.downEnc none (List.replicate n 92)) := by
  have hl : (encodeResp raw raw (.downEnc none (List.replicate n 92))).length = n + 2 := by simp [enc_downEnc_raw]
  have hc : C10_countOk .txt [97, 46, 98].length (encodeResp raw raw (.downEnc none (List.replicate n 92))).length = true := by
    rw [hl]
    apply decide_eq_true
    show ((n + 2 + 253 - 1) / 253 + 250 - 1) / 250 ≤ 512
    omega
  have := C10_multi_txt raw raw raw_good raw_good [97, 46, 98] _
    (respOk_downEnc _ (bytes_replicate n 92 (by decide))) (by decide)
    (by rw [enc_downEnc_raw]; exact bytes_cons (by decide) (bytes_cons (by decide) (bytes_replicate n 92 (by decide)))) hc
  rw [hl] at this
  exact this

/-- A: every payload of 3k bytes up to 255 records; AAAA: 14k bytes up to 65535 records -/
example (k : Nat) (hk1 : 1 ≤ k) (hk : k ≤ 255) :
    roundTrip raw raw .a [97, 46, 98] (.downEnc none (List.replicate (3 * k - 2) 200))
      = .ok k (3 * k) (.downEnc none (List.replicate (3 * k - 2) 200)) := by
  have hl : (encodeResp raw raw (.downEnc none (List.replicate (3 * k - 2) 200))).length = 3 * k := by
    simp [enc_downEnc_raw]; omega
  have hc : C10_countOk .a [97, 46, 98].length (encodeResp raw raw (.downEnc none (List.replicate (3 * k - 2) 200))).length = true := by
    rw [hl]
    apply decide_eq_true
    show (3 * k + 3 - 1) / 3 ≤ 255
    omega
  have := C10_multi_a_aaaa (r := .downEnc none (List.replicate (3 * k - 2) 200)) raw raw raw_good raw_good .a
    (Or.inl ⟨rfl, by rw [hl]; omega⟩) [97, 46, 98]
    (respOk_downEnc _ (bytes_replicate _ 200 (by decide))) (by decide)
    (by rw [enc_downEnc_raw]; exact bytes_cons (by decide) (bytes_cons (by decide) (bytes_replicate _ 200 (by decide)))) hc
  rw [hl] at this
  have hcnt : recordCount .a [97, 46, 98].length (3 * k) = k := by
    show (3 * k + 3 - 1) / 3 = k
    omega
  rw [hcnt] at this
  exact this

theorem domainOk_ab : DomainOk [97, 46, 98] [[97], [98]] := by
  refine ⟨by decide, ?_, ?_⟩
  · unfold GoodLabel NoSyntax; decide
  · unfold PlainLabel; decide

/-- CNAME, MX, SRV: the hypotheses of `C10_no_silent_corruption` / `C10_reassembly` are satisfiable
    together and the `ok` branch is reached (version reply, bytes 0 and 1 in the payload are `\DDD`
    on the way back) -/
example : ∀ t ∈ [RRType.cname, RRType.mx, RRType.srv],
    roundTrip raw raw t [97, 46, 98] (.version 1 2 none) = .ok 1 8 (.version 1 2 none)
    ∧ C10_exception t (encodeResp raw raw (.version 1 2 none)) = false
    ∧ C10_countOk t [97, 46, 98].length (encodeResp raw raw (.version 1 2 none)).length = true := by decide

example : ∀ t ∈ [RRType.cname, RRType.mx, RRType.srv],
    match roundTrip raw raw t [97, 46, 98] (.version 1 2 none) with
    | .ok _ _ r' => r' = .version 1 2 none
    | .panic => False
    | _ => True := by
  intro t ht
  have hr : RespOk (.version 1 2 none) := ⟨by decide, by decide, fun e he => (by cases he)⟩
  have h : C10_exception t (encodeResp raw raw (.version 1 2 none)) = false
      ∧ C10_countOk t [97, 46, 98].length (encodeResp raw raw (.version 1 2 none)).length = true := by
    simp at ht; rcases ht with rfl | rfl | rfl <;> decide
  exact C10_no_silent_corruption raw raw raw_good raw_good t [97, 46, 98] [[97], [98]] _ hr (by decide) (by decide)
    h.1 (fun _ => domainOk_ab) h.2

/-- the key lemma is not vacuous: three NULL records arriving in the order 3, 1, 2 -/
example : unwrap 3 [.null [3, 0, 30], .null [1, 0, 10, 11], .null [2, 0, 20]] = some [10, 11, 20, 30]
    ∧ Tagged 3 (tagKey .null) 1 [.null [1, 0, 10, 11], .null [2, 0, 20], .null [3, 0, 30]] [[10, 11], [20], [30]] := by
  refine ⟨by decide, ?_⟩
  exact Tagged.cons _ _ _ _ _ (by decide) (by decide) (Tagged.cons _ _ _ _ _ (by decide) (by decide)
    (Tagged.cons _ _ _ _ _ (by decide) (by decide) (Tagged.nil _)))

/-- the tag range is tight: TXT record 513 (order 512) carries the tag of record 1 (order 0);
    CNAME record 512 sorts before record 1; AAAA record 65536 carries tag 0 -/
example : tagKey .txt 512 = tagKey .txt 0 ∧ tagKey .cname 512 < tagKey .cname 1
    ∧ tagKey .aaaa 65536 < tagKey .aaaa 1 ∧ tagKey .mx 6554 < tagKey .mx 1 := by decide

end SA.DnsResp

#print axioms SA.DnsResp.C10_private_registered
#print axioms SA.DnsResp.C10_unwrap_undoes_escaping
#print axioms SA.DnsResp.C10_partial
#print axioms SA.DnsResp.C10_error_reported_wrap
#print axioms SA.DnsResp.C10_error_reported_wire
#print axioms SA.DnsResp.C10_witness_a_residue
#print axioms SA.DnsResp.C10_witness_aaaa_residue
#print axioms SA.DnsResp.C10_witness_srv_label
#print axioms SA.DnsResp.C10_witness_raw_over_names
#print axioms SA.DnsResp.C10_sort_model_correct
#print axioms SA.DnsResp.C10_sorts_agree_on_distinct_tags
#print axioms SA.DnsResp.C10_sort_inverts_tagging
#print axioms SA.DnsResp.C10_tag_range
#print axioms SA.DnsResp.C10_reassembly
#print axioms SA.DnsResp.C10_multi_null_priv
#print axioms SA.DnsResp.C10_multi_txt
#print axioms SA.DnsResp.C10_multi_a_aaaa
#print axioms SA.DnsResp.C10_a_overflow_reported
#print axioms SA.DnsResp.C10_no_silent_corruption

namespace SA.PkgState
/-- **no_hidden_process_state**: the models of this property are functions of their arguments and of the objects they are
    handed; the packages they model keep no package-level variables besides these (regenerated inventory: error
    sentinels, tables, compiled patterns, the two session time-outs).  A new package-level variable — a counter, a cache, a
    scratch buffer, a shared map, a registry — would make later calls depend on earlier ones, or concurrent calls on each
    other, outside anything a per-call comparison of model and code can see. -/
theorem C10_no_hidden_process_state :
    Gen.pkgVarNames_dnscommands = ["BadCodec", "BadCommand", "BadConn", "BadErrors", "BadFrag", "BadIp", "BadLen", "BadServerFull", "BadUser", "BadVersion", "CmdError", "CmdLogin", "CmdPacket", "CmdSetOptions", "CmdTestDownstreamEncoder", "CmdTestDownstreamFragmentSize", "CmdTestMultiQuery", "CmdTestUpstreamEncoder", "CmdVersion", "Commands", "Digits", "ErrTimeout", "LazyModeOk", "NoData", "VersionNotOk", "VersionOk"] ∧
    Gen.pkgVarNames_dnsutil = ["DotRegex", "DownloadCodecCheck", "ErrCaseSwap", "ErrDeadlineExceeded", "ErrInvalidSequenceNumber", "ErrStreamBroken", "ErrTooLong", "QueryTypeA", "QueryTypeAAAA", "QueryTypeCname", "QueryTypeMx", "QueryTypeNull", "QueryTypePrivate", "QueryTypeSrv", "QueryTypeTxt", "QueryTypesByPriority"] := by decide
end SA.PkgState

#print axioms SA.PkgState.C10_no_hidden_process_state

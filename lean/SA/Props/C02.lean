/-
  C02 — Multiplexed logical connections are isolated and independent (scheduler model of the
  per-session accept loop; partial: real goroutine schedules and smux's flow control are outside the
  model; "bytes never cross" rests on the multiplexer's per-stream FIFO contract plus C01's theorems
  (each pipeData call allocates its own copy buffer and conserves its own stream) and is sampled by the
  `xtalk` e2e runs with tagged payloads; no separate theorem is claimed for it).
-/
import SA.Proofs.Accept
import SA.Proofs.SessLife
import SA.Gen.PkgVars
namespace SA.Accept

/-- **independent_if_spawned**: when the per-stream handler runs in its own goroutine, then from
    every reachable state — whatever other logical connections are open, idle or stalled, in whatever
    order things happened — a pending logical connection `p` is accepted and completes using only
    accept steps of the loop and steps of its own handler: no step of any other connection is needed. -/
theorem C02_independent_if_spawned (stalled : Nat → Bool) (hist : List AAct) (p : Nat) (hp : stalled p = false) :
    let s := arun true stalled ainit hist
    p ∈ s.pending →
    ∃ n, p ∈ (arun true stalled s (List.replicate n .accept ++ [.handler p])).finished := by
  intro s hmem
  have hl : s.loop = none := arun_loop_none stalled rfl hist
  obtain ⟨pre, post, hsplit⟩ := List.append_of_mem hmem
  refine ⟨pre.length + 1, ?_⟩
  have h := accept_prefix stalled s hl pre p post hsplit
  have happ : ∀ (t : ASt) (as bs : List AAct), arun true stalled t (as ++ bs) = arun true stalled (arun true stalled t as) bs := by
    intro t as
    induction as generalizing t with
    | nil => intro bs; rfl
    | cons a as ih => intro bs; simp only [List.cons_append, arun]; split <;> exact ih _ bs
  rw [happ]
  generalize arun true stalled s (List.replicate (pre.length + 1) AAct.accept) = t at h
  cases t with
  | mk pending loop running finished =>
    simp only at h
    obtain ⟨h1, h2⟩ := h
    subst h2
    simp [arun, astep, hp, h1]

/-- the current code spawns the per-stream handler (the obligation that breaks if the `go` is removed) -/
theorem C02_stream_handler_spawned : Gen.streamHandlerSpawned = true := by decide

theorem witness_step {s s' : ASt} (a : AAct) (hl : s.loop = some 0) (hna : ∀ id, a ≠ .arrive id)
    (hs : astep false (fun id => decide (id = 0)) s a = some s') : s'.loop = some 0 ∧ s'.pending = s.pending := by
  cases s with
  | mk pending loop running finished =>
    simp only at hl
    subst hl
    cases a with
    | arrive id => exact absurd rfl (hna id)
    | accept => simp [astep] at hs
    | handler id =>
      simp only [astep] at hs
      split at hs
      · simp at hs
      · rename_i hst
        split at hs
        · rename_i h0; simp at h0; simp [h0] at hst
        · split at hs
          · simp at hs; subst hs; exact ⟨rfl, rfl⟩
          · simp at hs

/-- the property quantifies over stalled connections holding less unread data than the multiplexer's shared
    4 MiB receive buffer: both ends of the current code give the multiplexer at least that much (a smaller
    buffer lets one stalled reader freeze every other logical connection sooner than the property allows) -/
theorem C02_receive_buffer_as_quantified :
    4194304 ≤ Gen.smuxRecvBufServer ∧ 4194304 ≤ Gen.smuxRecvBufClient := by decide

/-- **witness_hol**: with an inline handler (the code before the repair), one idle logical connection
    keeps a second one pending forever — in every schedule (arrivals of further connections aside). -/
theorem C02_witness_hol (acts : List AAct) (hna : ∀ a ∈ acts, ∀ id, a ≠ .arrive id) :
    let stalled : Nat → Bool := fun id => decide (id = 0)
    let s0 := arun false stalled ainit [.arrive 0, .arrive 1, .accept]
    1 ∈ (arun false stalled s0 acts).pending := by
  intro stalled s0
  have key : ∀ (s : ASt) (as : List AAct), s.loop = some 0 → 1 ∈ s.pending →
      (∀ a ∈ as, ∀ id, a ≠ .arrive id) → 1 ∈ (arun false stalled s as).pending := by
    intro s as
    induction as generalizing s with
    | nil => intro _ h _; exact h
    | cons a as ih =>
      intro hl hp hna
      have hna' : ∀ a ∈ as, ∀ id, a ≠ .arrive id := fun a ha => hna a (by simp [ha])
      simp only [arun]
      split
      · rename_i s' hs
        have := witness_step a hl (hna a (by simp)) hs
        exact ih s' this.1 (by rw [this.2]; exact hp) hna'
      · exact ih s hl hp hna'
  exact key s0 acts (by decide) (by decide) hna

example : 5 ∈ (arun true (fun id => id < 5) ainit
    ((List.range 6).map AAct.arrive ++ List.replicate 6 .accept ++ [.handler 5])).finished := by decide

end SA.Accept

#print axioms SA.Accept.C02_independent_if_spawned
#print axioms SA.Accept.C02_stream_handler_spawned
#print axioms SA.Accept.C02_receive_buffer_as_quantified
#print axioms SA.Accept.C02_witness_hol

namespace SA.PkgState
/-- **no_hidden_process_state**: the models of this property are functions of their arguments and of the objects they are
    handed; the packages they model keep no package-level variables besides these (regenerated inventory: error
    sentinels, tables, compiled patterns, the two session time-outs).  A new package-level variable — a counter, a cache, a
    scratch buffer, a shared map, a registry — would make later calls depend on earlier ones, or concurrent calls on each
    other, outside anything a per-call comparison of model and code can see. -/
theorem C02_no_hidden_process_state :
    Gen.pkgVarNames_server = ["ChannelRegex"] ∧
    Gen.pkgVarNames_upstream = [] := by decide
end SA.PkgState

#print axioms SA.PkgState.C02_no_hidden_process_state

namespace SA.SessLife
/-- **session_outlives_its_connections**: with the code's policy (the server never closes the session because a logical
    connection ended) and a carrier of any latency — every interleaving of opens, closes, frame arrivals and notifications,
    of any length — no connection's SYN ever reaches a closed session, the client never has to dial again, and every
    connection that was opened has been taken on by the server or its SYN is still travelling.  In particular a
    connection opened while the session's only other connection is being closed is served. -/
theorem C02_session_outlives_its_connections (as : List Act) :
    (run false {} as).lost = [] ∧ (run false {} as).redialled = 0 ∧
    ∀ id, Act.open_ id ∈ as → id ∈ (run false {} as).served ∨ Frame.syn id ∈ (run false {} as).inflight := by
  have hg : Good ({} : St) := ⟨rfl, rfl, rfl, rfl⟩
  have h := run_good {} as hg
  refine ⟨h.2.2.1, h.2.2.2, ?_⟩
  intro id hid
  exact run_tracked {} as (fun _ => False) hg (fun _ hf => hf.elim) id (Or.inr hid)

/-- the code has that policy: nothing that runs on the goroutine `acceptStream` starts per logical connection — its body
    and the functions of package server it calls — closes the server's session object (regenerated; the close sites
    themselves are listed in `Gen.sessionCloseSites` for the reader: the accept loop's own path after a fatal accept
    error and, since repair 7014fd1, the carrier watch when the carrier itself is lost) -/
theorem C02_session_close_sites : serverClosesFromStream = false := by decide

/-- witness: a server that releases the session with its last logical connection loses the connection opened while that
    close was travelling (A opened and served, A closed, B opened, FIN arrives, B's SYN arrives) -/
theorem C02_witness_close_when_empty :
    (run true {} [.open_ 1, .deliver, .close 1, .open_ 2, .deliver, .deliver]).lost = [2] ∧
    (run false {} [.open_ 1, .deliver, .close 1, .open_ 2, .deliver, .deliver]).served = [2, 1] := by decide
end SA.SessLife

#print axioms SA.SessLife.C02_session_outlives_its_connections
#print axioms SA.SessLife.C02_session_close_sites
#print axioms SA.SessLife.C02_witness_close_when_empty

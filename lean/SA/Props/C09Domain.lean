/-
  C09, continued — the tunnel domain as configured.

  The client writes the configured domain behind the encoded request (`PrepareHostname`), the server removes it
  by comparing the end of the unpacked question name with its own configured spelling (`StripDomain`,
  case-insensitively).  The model takes the domain as the byte string of the configuration, and the `dnsreq`
  correspondence drives every spelling class (final dot, upper / mixed case, one label, many labels, 63/64-octet
  labels, long, characters that need escaping, malformed) through the real code: the request is decoded as sent
  or a failure is reported; a request decoded differently is a monitor failure.

  For a domain written *fully qualified* (with its final dot) the current code builds a name that ends in two
  dots, which does not pack: the client gets an error, nothing is sent.  That is the model's statement below —
  for every request, codec and domain text.  (A client that tolerates the final dot while the server's
  StripDomain still compares with the configured spelling leaves the domain's characters in the request data;
  the monitor exhibits that.)
-/
import SA.Props.C09Inst
import SA.Proofs.DnsDomain
namespace SA.DnsReq
open SA.DnsWire SA.WireCodec

/-- **C09, a tunnel domain written with its final dot is a reported failure**: for every codec pair, cache
    characters, request and domain text `p`, if neither the encoded request nor `p` contains a backslash (true
    of every selectable codec, `alphabet_safe`, and of host names), the outcome is ErrTooLong or a pack error. -/
theorem C09_fqdn_domain_reported (b32 up : Codec) (cache p : List Nat) (r : Req)
    (hp : ∀ c ∈ p, c ≠ bsl) (hdata : ∀ c ∈ encodeReq b32 up cache r, c ≠ bsl) :
    roundTrip b32 up cache (p ++ [dot]) r = .encError ∨ roundTrip b32 up cache (p ++ [dot]) r = .packError := by
  unfold roundTrip
  cases hh : prepareHostname (encodeReq b32 up cache r) (p ++ [dot]) with
  | none => left; rfl
  | some host =>
    right
    simp only [prepareHostname_fqdn _ p host hh hdata hp]

/-- the spelling of the seeded regression in the executable model: "t.ex." is a pack error, "t.ex" and its
    upper-case spelling "T.EX" round-trip -/
example :
    roundTrip base32 base32 [97, 98, 99] [116, 46, 101, 120, 46] (.packet 7 300 (some (9, [1, 2, 250]))) = .packError
    ∧ (match roundTrip base32 base32 [97, 98, 99] [116, 46, 101, 120] (.packet 7 300 (some (9, [1, 2, 250]))) with
       | .ok _ _ r => r == .packet 7 300 (some (9, [1, 2, 250])) | _ => false) = true
    ∧ (match roundTrip base32 base32 [97, 98, 99] [84, 46, 69, 88] (.packet 7 300 (some (9, [1, 2, 250]))) with
       | .ok _ _ r => r == .packet 7 300 (some (9, [1, 2, 250])) | _ => false) = true := by decide

end SA.DnsReq

#print axioms SA.DnsReq.C09_fqdn_domain_reported
